import Proofs.Apps.Site
import Proofs.Apps.Wkc
import Proofs.Apps.LinkFormat
/-!
# C17 — Site routing: exact match, longest prefix for nested sites, matching discovery

Model: `AiocoapModel/Apps/Site.lean` (`Site.routeFrom`, `Site.route`, `Site.serve`, `Site.reg`)
and `AiocoapModel/Apps/Wkc.lean` (`Site.links`, `hrefSegs`, `wkcRender`, `wkcPayload`) — the
functions the driver runs against the real `Site` / `WKCResource`; the RFC 6690 reader the wire
theorems are stated with is `Proofs/Apps/LinkFormat.lean` (`readLinkFormat`).  All theorems hold for every tree of
registrations (any nesting depth, any keys incl. empty components and empty paths, any bytes in
the components), every request path and every original path.  Only property theorems and
non-vacuity examples live in this file.
-/
namespace Aiocoap.Apps

-- routing: the three clauses -----------------------------------------------------------------

/-- **C17 (exact match first).** A resource registered at exactly the request path renders the
request, whatever nested sites are registered (also at prefixes of, or at, the same path); it
sees an empty `uri_path`. -/
theorem C17_exact_first (rs : List (Path × Res)) (ss : List (Path × Site)) (orig p : Path)
    (r : Res) (h : lookup p rs = some r) :
    (Site.node rs ss).routeFrom orig p = some ⟨r.id, [], orig⟩ := by
  rw [routeFrom_node, h]

/-- **C17 (longest prefix).** Without a resource at exactly `p`, the nested site `t` registered
at the longest proper prefix `k` of `p` (the empty path is a proper prefix of every non-empty
one) handles the request: the result is whatever `t` does with the remaining components
`p.drop k.length` (a lone empty component addressing `t`'s own root) and the same original path —
including `t`'s own 4.04, there is no fall-back to a shorter prefix. -/
theorem C17_longest_prefix (rs : List (Path × Res)) (ss : List (Path × Site)) (orig p k : Path)
    (t : Site) (hno : lookup p rs = none) (hk : lookup k ss = some t) (hpre : ProperPrefix k p)
    (hmax : ∀ k' ∈ keys ss, ProperPrefix k' p → k'.length ≤ k.length) :
    (Site.node rs ss).routeFrom orig p = t.routeFrom orig (normRem (p.drop k.length)) ∧
      k ++ p.drop k.length = p := by
  have hb := bestSplit_of_longest (mem_keys_of_mem (lookup_mem hk)) hpre hmax
  rw [routeFrom_node_of_ne rs ss orig hpre.ne_nil, hno]
  simp only [hb]
  rw [← hpre.eq_take.1, hk]
  exact ⟨rfl, hpre.split.1⟩

/-- **C17 (otherwise 4.04).** No resource at exactly `p` and no nested site at a proper prefix of
`p` (the empty prefix included): `KeyError`, i.e. 4.04 (in particular: a nested site registered at
`p` itself never answers) — for every request path of a fresh request, and for every non-empty
path a nested site is handed.  (The empty path inside a nested site is its root:
`C17_nested_root`.) -/
theorem C17_else_404 (rs : List (Path × Res)) (ss : List (Path × Site)) (orig p : Path)
    (hno : lookup p rs = none) (hnone : ∀ k ∈ keys ss, ¬ ProperPrefix k p)
    (hroot : p = [] → orig = [] ∨ lookup [[]] rs = none) :
    (Site.node rs ss).routeFrom orig p = none := by
  by_cases hp : p = []
  · subst hp
    rw [routeFrom_node_nil, hno]
    rcases hroot rfl with h | h
    · simp [h]
    · simp [h]
  · rw [routeFrom_node_of_ne rs ss orig hp, hno]
    simp only [bestSplit_none_of_no_prefix hp hnone]

/-- `C17_else_404` for a request as it arrives (`_original_request_path` is its own path): no
side condition. -/
theorem C17_else_404_fresh (rs : List (Path × Res)) (ss : List (Path × Site)) (p : Path)
    (hno : lookup p rs = none) (hnone : ∀ k ∈ keys ss, ¬ ProperPrefix k p) :
    (Site.node rs ss).route p = none :=
  C17_else_404 rs ss p p hno hnone (fun h => Or.inl h)

/-- **C17 (root of a nested site).** A nested site is handed the empty path when the request ends
in the trailing slash that addresses its root (`orig ≠ []`: something was stripped).  Its resource
registered at `[]` answers; without one, the resource registered at `[""]` — listed under the same
address `k/` — does; otherwise 4.04. -/
theorem C17_nested_root (rs : List (Path × Res)) (ss : List (Path × Site)) (orig : Path)
    (horig : orig ≠ []) :
    (Site.node rs ss).routeFrom orig [] =
      match lookup [] rs with
      | some r => some ⟨r.id, [], orig⟩
      | none => (lookup [[]] rs).map (fun r => ⟨r.id, [], orig⟩) := by
  rw [routeFrom_node_nil]
  cases lookup [] rs with
  | some r => rfl
  | none =>
    simp only [horig, ↓reduceIte]
    cases lookup [[]] rs <;> rfl

/-- The three clauses are exhaustive: every site and request path falls under exactly one of
`C17_exact_first`, `C17_longest_prefix`, `C17_else_404` (resp. `C17_nested_root` for the empty
path inside a nested site). -/
theorem C17_route_cases (rs : List (Path × Res)) (ss : List (Path × Site)) (p : Path) :
    (∃ r, lookup p rs = some r) ∨
    (lookup p rs = none ∧ ∃ k t, lookup k ss = some t ∧ ProperPrefix k p ∧
        ∀ k' ∈ keys ss, ProperPrefix k' p → k'.length ≤ k.length) ∨
    (lookup p rs = none ∧ ∀ k ∈ keys ss, ¬ ProperPrefix k p) := by
  cases hl : lookup p rs with
  | some r => exact Or.inl ⟨r, rfl⟩
  | none =>
    right
    by_cases hp : p = []
    · right
      refine ⟨rfl, fun k _ hpre => hpre.ne_nil hp⟩
    have hpos : 0 < p.length := List.length_pos_iff.mpr hp
    cases hb : bestSplit (keys ss) p (p.length - 1) with
    | none =>
      right
      refine ⟨rfl, fun k hk hpre => ?_⟩
      obtain ⟨h1, h3⟩ := hpre.eq_take
      exact bestSplit_none hb k.length h3 (h1 ▸ hk)
    | some j =>
      left
      obtain ⟨b, c, d⟩ := bestSplit_some hb
      obtain ⟨t, ht⟩ := Option.isSome_iff_exists.mp (lookup_isSome_iff.mpr c)
      refine ⟨rfl, p.take j, t, ht, properPrefix_take (by omega), fun k' hk' hpre' => ?_⟩
      obtain ⟨h1, h3⟩ := hpre'.eq_take
      simp only [List.length_take]
      by_cases hlt : j < k'.length
      · exact absurd (h1 ▸ hk') (d k'.length hlt h3)
      · omega

/-- `Site.serve` (what `render_to_pipe` of the root answers) in terms of `route`: 4.04 exactly
when routing finds nothing. -/
theorem C17_serve_404_iff (s : Site) (p : Path) :
    s.serve none p = .notFound ↔ s.route p = none := by
  simp only [Site.serve, expandUpa]
  cases h : s.route p <;> simp

/-- Uri-Path-Abbrev (`_expand_upa`): a known value without Uri-Path is served exactly like the
request for the path it abbreviates (so all clauses apply to it); together with a Uri-Path, or
unknown, it is a 4.02. -/
theorem C17_uri_path_abbrev (s : Site) (n : Nat) (p : Path) :
    s.serve (some n) p =
      if p ≠ [] then .badOption else
      match upaTable.lookup n with
      | some q => s.serve none q
      | none => .badOption := by
  simp only [Site.serve, expandUpa]
  by_cases hp : p = []
  · simp only [hp, ne_eq, not_true_eq_false, ↓reduceIte]
    cases upaTable.lookup n <;> rfl
  · simp [hp]

-- the handler's view -----------------------------------------------------------------------

/-- `Reaches s m id`: following registration keys that concatenate to `m` from `s` — sub-site
keys and finally a resource key, or ending at a `PathCapable` leaf — one arrives at the handler
`id`. -/
inductive Reaches : Site → Path → Nat → Prop where
  | res {rs ss q r} : lookup q rs = some r → Reaches (.node rs ss) q r.id
  | leaf {id} : Reaches (.leaf id) [] id
  | sub {rs ss k t m id} : lookup k ss = some t → Reaches t m id →
      Reaches (.node rs ss) (k ++ m) id

theorem stripped_and_original_aux (s : Site) : ∀ (orig p : Path) (h : Hit),
    s.routeFrom orig p = some h →
    h.orig = orig ∧ ∃ m, Reaches s m h.id ∧
      (p = m ++ h.seen ∨ (h.seen = [] ∧ p = m ++ [[]]) ∨
        (h.seen = [] ∧ p = [] ∧ m = [[]] ∧ orig ≠ [])) := by
  induction s using Site.induct with
  | leaf id =>
    intro orig p h hr
    rw [Site.routeFrom.eq_1] at hr
    cases hr
    exact ⟨rfl, [], .leaf, Or.inl rfl⟩
  | node rs ss ih =>
    intro orig p h hr
    by_cases hp : p = []
    · subst hp
      rw [routeFrom_node_nil] at hr
      cases hl : lookup [] rs with
      | some r =>
        simp only [hl, Option.some.injEq] at hr
        subst hr
        exact ⟨rfl, [], .res hl, Or.inl (by simp)⟩
      | none =>
        simp only [hl] at hr
        by_cases ho : orig = []
        · simp [ho] at hr
        · simp only [ho, ↓reduceIte] at hr
          cases hl2 : lookup [[]] rs with
          | none => simp [hl2] at hr
          | some r =>
            simp only [hl2, Option.some.injEq] at hr
            subst hr
            exact ⟨rfl, [[]], .res hl2, Or.inr (Or.inr ⟨rfl, rfl, rfl, ho⟩)⟩
    rw [routeFrom_node_of_ne rs ss orig hp] at hr
    have hpos : 0 < p.length := List.length_pos_iff.mpr hp
    cases hl : lookup p rs with
    | some r =>
      simp only [hl, Option.some.injEq] at hr
      subst hr
      exact ⟨rfl, p, .res hl, Or.inl (by simp)⟩
    | none =>
      simp only [hl] at hr
      cases hb : bestSplit (keys ss) p (p.length - 1) with
      | none => simp [hb] at hr
      | some j =>
        simp only [hb] at hr
        obtain ⟨b, c, _⟩ := bestSplit_some hb
        cases hk : lookup (p.take j) ss with
        | none => simp [hk] at hr
        | some t =>
          simp only [hk] at hr
          obtain ⟨ho, m, hreach, hsplit⟩ := ih _ t (lookup_mem hk) orig _ h hr
          have hsp : p.take j ++ p.drop j = p := List.take_append_drop j p
          have hdrop : p.drop j ≠ [] := by
            intro e
            have := congrArg List.length e
            simp only [List.length_drop, List.length_nil] at this
            omega
          refine ⟨ho, p.take j ++ m, .sub hk hreach, ?_⟩
          unfold normRem at hsplit
          by_cases hrem : p.drop j = [[]]
          · simp only [hrem, ↓reduceIte] at hsplit
            rcases hsplit with h1 | ⟨_, h1⟩ | ⟨h0, _, hm, _⟩
            · have hm : m = [] ∧ h.seen = [] := List.append_eq_nil_iff.mp h1.symm
              right; left
              refine ⟨hm.2, ?_⟩
              rw [hm.1, List.append_nil, ← hrem, hsp]
            · cases m <;> simp at h1
            · left
              rw [hm, h0, List.append_nil, ← hrem, hsp]
          · simp only [hrem, ↓reduceIte] at hsplit
            rcases hsplit with h1 | ⟨h0, h1⟩ | ⟨_, h1, _, _⟩
            · left; rw [List.append_assoc, ← h1, hsp]
            · right; left; exact ⟨h0, by rw [List.append_assoc, ← h1, hsp]⟩
            · exact absurd h1 hdrop

/-- **C17 (stripped path, original URI).** Whenever a request for `p` is rendered by a handler,
the handler still has the original path (`_original_request_path = p`, from which
`get_request_uri` rebuilds the URI), it is reached through registration keys concatenating to
`matched`, and what it sees as `uri_path` is the rest: `p = matched ++ seen` — or
`p = matched ++ [""]` with nothing left to see, for the trailing slash that addresses a nested
site's root. -/
theorem C17_stripped_and_original (s : Site) (p : Path) (h : Hit) (hr : s.route p = some h) :
    h.orig = p ∧ ∃ matched, Reaches s matched h.id ∧
      (p = matched ++ h.seen ∨ (h.seen = [] ∧ p = matched ++ [[]])) := by
  obtain ⟨ho, m, hreach, hsplit⟩ := stripped_and_original_aux s p p h hr
  refine ⟨ho, m, hreach, ?_⟩
  rcases hsplit with h1 | h1 | ⟨_, h1, _, h2⟩
  · exact Or.inl h1
  · exact Or.inr h1
  · exact absurd h1 h2

/-- A plain resource (anything that is not a `PathCapable` leaf) never sees path components:
reaching a resource leaves `seen = []`. -/
theorem C17_resource_sees_empty_path (rs : List (Path × Res)) (ss : List (Path × Site))
    (orig p : Path) (r : Res) (h : lookup p rs = some r) :
    ((Site.node rs ss).routeFrom orig p).map (·.seen) = some [] := by
  rw [C17_exact_first rs ss orig p r h]; rfl

-- registration changes -----------------------------------------------------------------------

/-- **C17 (add takes effect).** Right after `add_resource(path, r)` a request for `path` is
rendered by `r`; requests for any other path are answered as before.  (Inside a nested site the
paths `[]` and `[""]` both spell its root `k/` — `C17_nested_root` —, so there `[""]` counts as
the same address as `[]`; for requests as they arrive there is no such case.) -/
theorem C17_add_resource_next_request (rs : List (Path × Res)) (ss : List (Path × Site))
    (path : Path) (r : Res) :
    ∃ s', (Site.node rs ss).reg (.addRes [] path r) = some s' ∧
      (∀ orig, s'.routeFrom orig path = some ⟨r.id, [], orig⟩) ∧
      (∀ orig p, p ≠ path → (p = [] → path = [[]] → orig = []) →
        s'.routeFrom orig p = (Site.node rs ss).routeFrom orig p) ∧
      (∀ p, p ≠ path → s'.route p = (Site.node rs ss).route p) := by
  have hother : ∀ orig p, p ≠ path → (p = [] → path = [[]] → orig = []) →
      (Site.node (insert path r rs) ss).routeFrom orig p = (Site.node rs ss).routeFrom orig p := by
    intro orig p hp hnr
    rw [routeFrom_node, routeFrom_node, lookup_insert_ne hp]
    by_cases hp0 : p = []
    · by_cases hpath : path = [[]]
      · simp [hp0, hnr hp0 hpath]
      · rw [lookup_insert_ne (Ne.symm hpath)]
    · simp only [hp0, ↓reduceIte]
  refine ⟨.node (insert path r rs) ss, rfl, fun orig => ?_, hother, fun p hp => ?_⟩
  · exact C17_exact_first _ _ _ _ _ (lookup_insert_self path r rs)
  · exact hother p p hp (fun h _ => h)

/-- **C17 (remove takes effect).** `remove_resource(path)` on a site that has no nested site at
`path` succeeds iff a resource is registered there; right afterwards that resource no longer
answers — a request for `path` is handled as if only the nested sites existed (4.04 unless one is
registered at a proper prefix) — and requests for other paths are answered as before.  (Same
remark on `[]` / `[""]` inside a nested site as for `C17_add_resource_next_request`.) -/
theorem C17_remove_resource_next_request (rs : List (Path × Res)) (ss : List (Path × Site))
    (path : Path) (hsub : path ∉ keys ss) :
    ((Site.node rs ss).reg (.remove [] path) = none ↔ lookup path rs = none) ∧
    ∀ s', (Site.node rs ss).reg (.remove [] path) = some s' →
      (∀ orig, (path = [] → orig = [] ∨ lookup [[]] rs = none) →
        s'.routeFrom orig path = (Site.node [] ss).routeFrom orig path) ∧
      (∀ orig p, p ≠ path → (p = [] → path = [[]] → orig = []) →
        s'.routeFrom orig p = (Site.node rs ss).routeFrom orig p) ∧
      s'.route path = (Site.node [] ss).route path ∧
      (∀ p, p ≠ path → s'.route p = (Site.node rs ss).route p) := by
  have hreg : (Site.node rs ss).reg (.remove [] path) =
      if path ∈ keys rs then some (.node (erase path rs) ss) else none := by
    simp [Site.reg, Site.modifyAt, Site.remove, hsub]
  rw [hreg]
  by_cases hr : path ∈ keys rs
  · simp only [hr, ↓reduceIte, reduceCtorEq, false_iff, Option.some.injEq]
    refine ⟨fun h => lookup_eq_none_iff.mp h hr, ?_⟩
    rintro s' rfl
    have hself : ∀ orig, (path = [] → orig = [] ∨ lookup [[]] rs = none) →
        (Site.node (erase path rs) ss).routeFrom orig path =
          (Site.node [] ss).routeFrom orig path := by
      intro orig hnr
      rw [routeFrom_node, routeFrom_node, lookup_erase_self]
      by_cases hp0 : path = []
      · subst hp0
        have hne : ([[]] : Path) ≠ [] := by simp
        rcases hnr rfl with h | h
        · simp [h]
        · simp [lookup_erase_ne hne, h]
      · simp only [hp0, ↓reduceIte, lookup_nil]
    have hother : ∀ orig p, p ≠ path → (p = [] → path = [[]] → orig = []) →
        (Site.node (erase path rs) ss).routeFrom orig p =
          (Site.node rs ss).routeFrom orig p := by
      intro orig p hp hnr
      rw [routeFrom_node, routeFrom_node, lookup_erase_ne hp]
      by_cases hp0 : p = []
      · by_cases hpath : path = [[]]
        · simp [hp0, hnr hp0 hpath]
        · rw [lookup_erase_ne (Ne.symm hpath)]
      · simp only [hp0, ↓reduceIte]
    exact ⟨hself, hother, hself path (fun h => Or.inl h), fun p hp => hother p p hp (fun h _ => h)⟩
  · simp only [hr, ↓reduceIte, true_iff]
    exact ⟨lookup_eq_none_iff.mpr hr, fun s' h => by cases h⟩

/-- **C17 (nested site added / replaced).** Right after `add_resource(k, t)` with a
`PathCapable` `t`, every request that has no exact resource, has `k` as proper prefix and no
longer registered prefix goes to `t` with the remaining components; requests of which `k` is not
a proper prefix are answered as before. -/
theorem C17_add_site_next_request (rs : List (Path × Res)) (ss : List (Path × Site))
    (k : Path) (t : Site) :
    ∃ s', (Site.node rs ss).reg (.addSite [] k t) = some s' ∧
      (∀ orig p, lookup p rs = none → ProperPrefix k p →
        (∀ k' ∈ keys ss, ProperPrefix k' p → k'.length ≤ k.length) →
        s'.routeFrom orig p = t.routeFrom orig (normRem (p.drop k.length))) ∧
      (∀ orig p, ¬ ProperPrefix k p → s'.routeFrom orig p = (Site.node rs ss).routeFrom orig p) := by
  refine ⟨.node rs (insert k t ss), rfl, fun orig p hno hpre hmax => ?_, fun orig p hnp => ?_⟩
  · refine (C17_longest_prefix rs _ orig p k t hno (lookup_insert_self k t ss) hpre ?_).1
    intro k' hk' hpre'
    rcases mem_keys_insert.mp hk' with rfl | h
    · exact Nat.le_refl _
    · exact hmax k' h hpre'
  · -- `k` is no candidate for `p`, so the search sees the same candidates with the same values
    by_cases hp : p = []
    · subst hp; rw [routeFrom_node_nil, routeFrom_node_nil]
    rw [routeFrom_node_of_ne _ _ _ hp, routeFrom_node_of_ne _ _ _ hp]
    have hpos : 0 < p.length := List.length_pos_iff.mpr hp
    cases lookup p rs with
    | some r => rfl
    | none =>
      simp only
      rw [bestSplit_congr_of_not_prefix (ks' := keys (insert k t ss)) (ks := keys ss) hp hnp
        (fun k' hne => by rw [mem_keys_insert]; exact ⟨fun h => h.resolve_left hne, Or.inr⟩)]
      cases hb : bestSplit (keys ss) p (p.length - 1) with
      | none => rfl
      | some j =>
        simp only
        obtain ⟨b, _, _⟩ := bestSplit_some hb
        have hne : p.take j ≠ k := fun e => hnp (e ▸ properPrefix_take (by omega))
        rw [lookup_insert_ne hne]

/-- **C17 (nested site removed).** `remove_resource(k)` on a site with a nested site at `k`
removes that nested site (not a resource of the same path); afterwards no request is routed into
it: one whose only registered proper prefix was `k` gets 4.04 unless a resource matches exactly,
and requests of which `k` is not a proper prefix are answered as before. -/
theorem C17_remove_site_next_request (rs : List (Path × Res)) (ss : List (Path × Site))
    (k : Path) (hk : k ∈ keys ss) :
    (Site.node rs ss).reg (.remove [] k) = some (.node rs (erase k ss)) ∧
    (∀ orig p, lookup p rs = none → p ≠ [] →
      (∀ k' ∈ keys ss, ProperPrefix k' p → k' = k) →
      (Site.node rs (erase k ss)).routeFrom orig p = none) ∧
    (∀ orig p, ¬ ProperPrefix k p →
      (Site.node rs (erase k ss)).routeFrom orig p = (Site.node rs ss).routeFrom orig p) := by
  refine ⟨by simp [Site.reg, Site.modifyAt, Site.remove, hk], fun orig p hno hp honly => ?_,
    fun orig p hnp => ?_⟩
  · apply C17_else_404 _ _ _ _ hno _ (fun h => absurd h hp)
    intro k' hk' hpre'
    obtain ⟨hne, hmem⟩ := mem_keys_erase.mp hk'
    exact hne (honly k' hmem hpre')
  · by_cases hp : p = []
    · subst hp; rw [routeFrom_node_nil, routeFrom_node_nil]
    rw [routeFrom_node_of_ne _ _ _ hp, routeFrom_node_of_ne _ _ _ hp]
    have hpos : 0 < p.length := List.length_pos_iff.mpr hp
    cases lookup p rs with
    | some r => rfl
    | none =>
      simp only
      rw [bestSplit_congr_of_not_prefix (ks' := keys (erase k ss)) (ks := keys ss) hp hnp
        (fun k' hne => by rw [mem_keys_erase]; exact ⟨fun h => h.2, fun h => ⟨hne, h⟩⟩)]
      cases hb : bestSplit (keys ss) p (p.length - 1) with
      | none => rfl
      | some j =>
        simp only
        obtain ⟨b, _, _⟩ := bestSplit_some hb
        have hne : p.take j ≠ k := fun e => hnp (e ▸ properPrefix_take (by omega))
        rw [lookup_erase_ne hne]

/-- **C17 (changes inside a nested site).** A registration call on the nested site object at
`k` (address `k :: ks`, any depth) keeps that site's entry in its parent in place; right
afterwards the requests the parent routes into `k` are answered by the changed nested site, all
others as before. -/
theorem C17_nested_change_next_request (rs : List (Path × Res)) (ss : List (Path × Site))
    (k : Path) (ks : List Path) (t t' : Site) (f : Site → Option Site)
    (hk : lookup k ss = some t) (hf : t.modifyAt f ks = some t') :
    (Site.node rs ss).modifyAt f (k :: ks) = some (.node rs (insert k t' ss)) ∧
    (∀ orig p, lookup p rs = none → ProperPrefix k p →
      (∀ k' ∈ keys ss, ProperPrefix k' p → k'.length ≤ k.length) →
      (Site.node rs (insert k t' ss)).routeFrom orig p =
        t'.routeFrom orig (normRem (p.drop k.length))) ∧
    (∀ orig p, (lookup p rs ≠ none ∨ ¬ ProperPrefix k p ∨
        ∃ k' ∈ keys ss, ProperPrefix k' p ∧ k.length < k'.length) →
      (Site.node rs (insert k t' ss)).routeFrom orig p = (Site.node rs ss).routeFrom orig p) := by
  have hkm : k ∈ keys ss := mem_keys_of_mem (lookup_mem hk)
  have hkeys : keys (insert k t' ss) = keys ss := keys_insert_of_mem t' hkm
  refine ⟨by simp only [modifyAt_cons, hk, hf, Option.map_some], fun orig p hno hpre hmax => ?_,
    fun orig p hcase => ?_⟩
  · exact (C17_longest_prefix rs _ orig p k t' hno (lookup_insert_self k t' ss) hpre
      (by rw [hkeys]; exact hmax)).1
  · by_cases hp : p = []
    · subst hp; rw [routeFrom_node_nil, routeFrom_node_nil]
    rw [routeFrom_node_of_ne _ _ _ hp, routeFrom_node_of_ne _ _ _ hp, hkeys]
    have hpos : 0 < p.length := List.length_pos_iff.mpr hp
    cases hl : lookup p rs with
    | some r => rfl
    | none =>
      simp only
      cases hb : bestSplit (keys ss) p (p.length - 1) with
      | none => rfl
      | some j =>
        simp only
        obtain ⟨b, c, d⟩ := bestSplit_some hb
        have hne : p.take j ≠ k := by
          intro e
          rcases hcase with h | h | ⟨k', hk', hpre', hlt⟩
          · exact h hl
          · exact h (e ▸ properPrefix_take (by omega))
          · obtain ⟨h1, h3⟩ := hpre'.eq_take
            have hj : j = k.length := by
              have := congrArg List.length e
              simp only [List.length_take] at this
              omega
            exact d k'.length (by omega) h3 (h1 ▸ hk')
        rw [lookup_insert_ne hne]

/-- **C17 (any history).** After any history of registration calls, one more
`add_resource(path, r)` on the root makes the very next request for `path` reach `r` with the
original path intact. -/
theorem C17_history_then_add (s0 : Site) (history : List Reg) (path : Path) (r : Res)
    (s' : Site) (h : (s0.regs history).reg (.addRes [] path r) = some s') :
    s'.route path = some ⟨r.id, [], path⟩ := by
  generalize s0.regs history = s at h
  cases s with
  | leaf id => simp [Site.reg, Site.modifyAt, Site.addResource] at h
  | node rs ss =>
    obtain ⟨s'', h1, h2, _⟩ := C17_add_resource_next_request rs ss path r
    rw [h1] at h
    cases h
    exact h2 path

-- the registration dicts stay dicts ------------------------------------------------------------

/-- every `_resources` / `_subsites` in the tree has unique keys (is a dict) -/
inductive DictTree : Site → Prop where
  | leaf {id} : DictTree (.leaf id)
  | node {rs ss} : (keys rs).Nodup → (keys ss).Nodup → (∀ k t, (k, t) ∈ ss → DictTree t) →
      DictTree (.node rs ss)

theorem dictTree_modifyAt (f : Site → Option Site)
    (hf : ∀ s s', DictTree s → f s = some s' → DictTree s') :
    ∀ (addr : List Path) (s s' : Site), DictTree s → s.modifyAt f addr = some s' → DictTree s' := by
  intro addr
  induction addr with
  | nil => intro s s' hs h; rw [Site.modifyAt.eq_1] at h; exact hf s s' hs h
  | cons k ks ih =>
    intro s s' hs h
    cases s with
    | leaf id => simp [Site.modifyAt] at h
    | node rs ss =>
      rw [modifyAt_cons] at h
      cases hk : lookup k ss with
      | none => simp [hk] at h
      | some t =>
        simp only [hk, Option.map_eq_some_iff] at h
        obtain ⟨t', ht', rfl⟩ := h
        cases hs with
        | node h1 h2 h3 =>
          refine .node h1 (keys_insert_nodup t' h2) fun k'' t'' hm => ?_
          rcases mem_insert hm with he | he
          · cases he; exact ih t t' (h3 k t (lookup_mem hk)) ht'
          · exact h3 k'' t'' he

/-- **C17 (model faithfulness: dicts).** Starting from a tree whose registration tables have
unique keys (e.g. the empty `Site()`), every registration call at any nesting depth keeps them
unique: `insert`/`erase` on association lists behave like the Python dict operations. -/
theorem C17_dict_invariant (s : Site) (hs : DictTree s) (history : List Reg)
    (hadd : ∀ a p t, Reg.addSite a p t ∈ history → DictTree t) :
    DictTree (s.regs history) := by
  induction history generalizing s with
  | nil => exact hs
  | cons r rest ih =>
    rw [Site.regs]
    refine ih _ ?_ (fun a p t h => hadd a p t (List.mem_cons_of_mem _ h))
    cases hr : s.reg r with
    | none => exact hs
    | some s' =>
      simp only [Option.getD_some]
      cases r with
      | addRes a p res =>
        refine dictTree_modifyAt _ (fun x x' hx hxx => ?_) a s s' hs hr
        cases x with
        | leaf id => simp [Site.addResource] at hxx
        | node rs ss =>
          simp only [Site.addResource, Option.some.injEq] at hxx
          subst hxx
          cases hx with
          | node h1 h2 h3 => exact .node (keys_insert_nodup res h1) h2 h3
      | addSite a p t =>
        have ht := hadd a p t List.mem_cons_self
        refine dictTree_modifyAt _ (fun x x' hx hxx => ?_) a s s' hs hr
        cases x with
        | leaf id => simp [Site.addSite] at hxx
        | node rs ss =>
          simp only [Site.addSite, Option.some.injEq] at hxx
          subst hxx
          cases hx with
          | node h1 h2 h3 =>
            refine .node h1 (keys_insert_nodup t h2) fun k'' t'' hm => ?_
            rcases mem_insert hm with he | he
            · cases he; exact ht
            · exact h3 k'' t'' he
      | remove a p =>
        refine dictTree_modifyAt _ (fun x x' hx hxx => ?_) a s s' hs hr
        cases x with
        | leaf id => simp [Site.remove] at hxx
        | node rs ss =>
          cases hx with
          | node h1 h2 h3 =>
            simp only [Site.remove] at hxx
            split at hxx
            · cases hxx
              exact .node h1 (keys_erase_nodup h2) fun k'' t'' hm => h3 k'' t'' (mem_of_mem_erase hm)
            · split at hxx
              · cases hxx
                exact .node (keys_erase_nodup h1) h2 h3
              · cases hxx

-- discovery ---------------------------------------------------------------------------------

/-- `Registered s fp r`: resource `r` is registered somewhere in the tree `s`, and `fp` are the
segments of its full path through the nested sites: its own registration path (`seg` turns an
empty path into the single empty segment — the root resource of a nested site at `k` is `k/`, the
one of the whole tree `/`; for non-empty keys `seg q = q`), prefixed by the keys of the sub-sites
above it. -/
inductive Registered : Site → Path → Res → Prop where
  | res {rs ss q r} : (q, r) ∈ rs → Registered (.node rs ss) (seg q) r
  | sub {rs ss k t fp r} : (k, t) ∈ ss → Registered t fp r →
      Registered (.node rs ss) (k ++ fp) r

theorem Registered.ne_nil {s : Site} {fp : Path} {r : Res} (h : Registered s fp r) : fp ≠ [] := by
  induction h with
  | res _ => exact seg_ne_nil _
  | sub _ _ ih => intro e; exact ih (List.append_eq_nil_iff.mp e).2

/-- **C17 (listing = visible registered resources, full paths).** A link is in what
`get_resources_as_linkheader` returns iff it is `<href of the full path>` + description of a
registered resource that does not hide itself (`get_link_description() is None`), with the full
path through all nested sites; the href is `/` + percent-encoded segment for every segment. -/
theorem C17_wkc_exact (s : Site) : ∀ l : Link,
    l ∈ s.links ↔ ∃ fp r, Registered s fp r ∧ r.hidden = false ∧
      l = ⟨hrefSegs fp, r.attrs⟩ := by
  induction s using Site.induct with
  | leaf id =>
    intro l
    simp only [Site.links.eq_1, List.not_mem_nil, false_iff]
    rintro ⟨fp, r, h, _⟩; cases h
  | node rs ss ih =>
    intro l
    rw [links_node, List.mem_append, mem_resLinks]
    simp only [List.mem_flatMap, List.mem_map]
    constructor
    · rintro (⟨q, r, hm, hv, rfl⟩ | ⟨⟨k, t⟩, hm, l', hl', rfl⟩)
      · exact ⟨seg q, r, .res hm, hv, rfl⟩
      · obtain ⟨fp, r, hreg, hv, rfl⟩ := (ih k t hm l').mp hl'
        exact ⟨k ++ fp, r, .sub hm hreg, hv, prefixLink_href k fp _⟩
    · rintro ⟨fp, r, hreg, hv, rfl⟩
      cases hreg with
      | res hm => exact Or.inl ⟨_, r, hm, hv, rfl⟩
      | @sub _ _ k t fp' _ hm hreg' =>
        refine Or.inr ⟨(k, t), hm, ⟨hrefSegs fp', r.attrs⟩, ?_, prefixLink_href k fp' _⟩
        exact (ih k t hm _).mpr ⟨fp', r, hreg', hv, rfl⟩

-- hrefs name paths ------------------------------------------------------------------------------

/-- **C17 (href names the path).** Reading the href of a full path `fp` back as a path-absolute
URI reference (RFC 3986: strip the leading `/`, split at `/`, percent-decode each segment) gives
exactly `fp`, whatever bytes the components contain (`/`, `%`, `>`, `,`, space, non-ASCII …). -/
theorem C17_href_roundtrip (fp : Path) (hne : fp ≠ []) (hwf : PathWf fp) :
    parseHref (hrefSegs fp) = some fp :=
  parseHref_hrefSegs hne hwf

/-- **C17 (distinct paths, distinct hrefs).** Two full paths with the same href are the same
path: a client can recover the registered path from the listing. -/
theorem C17_href_injective (fp fp' : Path) (hwf : PathWf fp) (hwf' : PathWf fp')
    (h : hrefSegs fp = hrefSegs fp') : fp = fp' := by
  cases fp with
  | nil =>
    cases fp' with
    | nil => rfl
    | cons c cs => rw [hrefSegs_nil, hrefSegs_cons] at h; cases h
  | cons c cs =>
    cases fp' with
    | nil => rw [hrefSegs_nil, hrefSegs_cons] at h; cases h
    | cons c' cs' =>
      have h1 := parseHref_hrefSegs (p := c :: cs) (by simp) hwf
      have h2 := parseHref_hrefSegs (p := c' :: cs') (by simp) hwf'
      rw [h, h2] at h1
      exact (Option.some.inj h1).symm

/-- **C17 (href syntax).** An href consists of `/`, `%` and the characters `_quote_for_href`
leaves alone (unreserved, sub-delims, `:`, `@`) only — all ASCII, and none of `>` `<` `"` space
`?` `#` `\`, so the link-format framing `<href>;…,` cannot be broken by a path component. -/
theorem C17_href_chars (fp : Path) (hwf : PathWf fp) (b : Nat) (hb : b ∈ hrefSegs fp) :
    (b = 47 ∨ b = 37 ∨ hrefSafe b = true) ∧ b < 127 ∧
      b ≠ 62 ∧ b ≠ 60 ∧ b ≠ 34 ∧ b ≠ 32 ∧ b ≠ 63 ∧ b ≠ 35 ∧ b ≠ 92 := by
  have h := mem_hrefSegs_char hwf hb
  refine ⟨h, ?_⟩
  rcases h with rfl | rfl | h
  · decide
  · decide
  · simp only [hrefSafe, Bool.or_eq_true, Bool.and_eq_true, decide_eq_true_eq, beq_iff_eq] at h
    omega

/-- **C17 (every listed link names a registered resource's path).** Each link of the listing
belongs to a visible registered resource, carries its description, and its href reads back as that
resource's full path through the nested sites. -/
theorem C17_listed_href_resolves (s : Site) (l : Link) (hl : l ∈ s.links) :
    ∃ fp r, Registered s fp r ∧ r.hidden = false ∧ l.attrs = r.attrs ∧
      (PathWf fp → parseHref l.href = some fp) := by
  obtain ⟨fp, r, hreg, hv, rfl⟩ := (C17_wkc_exact s l).mp hl
  exact ⟨fp, r, hreg, hv, rfl, fun hwf => parseHref_hrefSegs hreg.ne_nil hwf⟩

/-- Which hrefs are not path-absolute references although they read back correctly segment by
segment: exactly those of full paths whose first of several segments is empty (`//x`, a
network-path reference).  The lone empty segment gives `/`. -/
theorem C17_href_double_slash_iff (fp : Path) :
    (∃ rest, hrefSegs fp = 47 :: 47 :: rest) ↔ ∃ c cs, fp = [] :: c :: cs := by
  constructor
  · rintro ⟨rest, h⟩
    cases fp with
    | nil => rw [hrefSegs_nil] at h; cases h
    | cons a as =>
      cases a with
      | nil =>
        cases as with
        | nil => simp [hrefSegs, escStr] at h
        | cons c cs => exact ⟨c, cs, rfl⟩
      | cons x xs =>
        rw [hrefSegs_cons, escStr_cons] at h
        have h47 : (escByte x ++ escStr xs ++ hrefSegs as).head? = some 47 := by
          simp only [List.cons.injEq, true_and] at h
          rw [h]; rfl
        have hx := escByte_no_slash x
        unfold escByte at h47 hx
        by_cases hs : hrefSafe x = true
        · simp only [hs, ↓reduceIte, List.cons_append, List.nil_append, List.head?_cons,
            Option.some.injEq] at h47
          simp only [hs, ↓reduceIte, List.mem_singleton] at hx
          exact absurd h47.symm hx
        · simp [hs] at h47
  · rintro ⟨c, cs, rfl⟩
    exact ⟨escStr c ++ hrefSegs cs, by simp [hrefSegs_cons, escStr]⟩

mutual
/-- number of registered resources in the tree that do not hide themselves -/
def Site.visibleCount : Site → Nat
  | .leaf _ => 0
  | .node rs ss => (rs.filter (fun e => !e.2.hidden)).length + visibleCountSubs ss
def visibleCountSubs : List (Path × Site) → Nat
  | [] => 0
  | (_, s) :: rest => s.visibleCount + visibleCountSubs rest
end

theorem visibleCountSubs_eq (ss : List (Path × Site)) :
    visibleCountSubs ss = (ss.map (fun e => e.2.visibleCount)).sum := by
  induction ss with
  | nil => rfl
  | cons e ss ih => obtain ⟨k, t⟩ := e; simp [visibleCountSubs, ih]

/-- **C17 (listing, multiplicity).** The listing has exactly one link per visible registered
resource: together with `C17_wkc_exact`, nothing is listed twice or dropped. -/
theorem C17_wkc_count (s : Site) : s.links.length = s.visibleCount := by
  induction s using Site.induct with
  | leaf id => simp [Site.links, Site.visibleCount]
  | node rs ss ih =>
    rw [links_node, Site.visibleCount.eq_2, visibleCountSubs_eq, List.length_append,
      length_resLinks, List.length_flatMap]
    congr 1
    congr 1
    apply List.map_congr_left
    intro e he
    obtain ⟨k, t⟩ := e
    simp only [List.length_map]
    exact ih k t he

/-- **C17 (discovery matches routing).** A link listed for a resource of a nested site —
registered at `q` in the site registered at `k` (any `k`, the empty path included) — names the
path `k ++ seg q`; a request for that path is rendered by that very resource, provided nothing
shadows it: no resource of the outer site at the same path, no nested site at a longer prefix,
and — for `q = [""]`, which like `[]` spells `k/` — no resource at `[]` in the same nested site.
Root-level links (`k`-less) are `C17_exact_first`. -/
theorem C17_listed_link_routes_to_resource (rs rs' : List (Path × Res))
    (ss ss' : List (Path × Site)) (k q : Path) (r : Res)
    (hdict : (keys ss).Nodup) (hdict' : (keys rs').Nodup)
    (hk : (k, Site.node rs' ss') ∈ ss) (hq : (q, r) ∈ rs')
    (hroot : q = [[]] → lookup [] rs' = none)
    (hshadow : lookup (k ++ seg q) rs = none)
    (hlonger : ∀ k' ∈ keys ss, ProperPrefix k' (k ++ seg q) → k'.length ≤ k.length) :
    Registered (Site.node rs ss) (k ++ seg q) r ∧
    (Site.node rs ss).route (k ++ seg q) = some ⟨r.id, [], k ++ seg q⟩ := by
  constructor
  · exact Registered.sub (rs := rs) hk (Registered.res (ss := ss') hq)
  · have hpre : ProperPrefix k (k ++ seg q) := by
      refine ⟨?_, List.prefix_append k _⟩
      have := List.length_pos_iff.mpr (seg_ne_nil q)
      simp only [List.length_append]; omega
    have horig : k ++ seg q ≠ [] := hpre.ne_nil
    unfold Site.route
    rw [(C17_longest_prefix rs ss _ _ k _ hshadow (lookup_of_mem hdict hk) hpre hlonger).1,
      List.drop_left]
    have hlq := lookup_of_mem hdict' hq
    by_cases h0 : q = []
    · subst h0
      have hn : normRem (seg []) = [] := by simp [normRem, seg]
      rw [hn]
      exact C17_exact_first rs' ss' _ [] r hlq
    · by_cases h1 : q = [[]]
      · subst h1
        have hn : normRem (seg [[]]) = [] := by simp [normRem, seg]
        rw [hn, C17_nested_root rs' ss' _ horig, hroot rfl, hlq]
        rfl
      · have hn : normRem (seg q) = q := by simp [normRem, seg, h0, h1]
        rw [hn]
        exact C17_exact_first rs' ss' _ q r hlq

-- RFC 6690 filter ---------------------------------------------------------------------------

/-- RFC 6690 §4.1 query pattern: a trailing `*` makes the rest a prefix to find, otherwise the
value has to be identical -/
def PatMatch (v x : Str) : Prop := if v.getLast? = some 42 then v.dropLast <+: x else x = v

/-- the link has an attribute named `k` (names compare case-insensitively) with value `val`;
an attribute without a value has none -/
def HasValue (l : Link) (k val : Str) : Prop :=
  ∃ key, (key, some val) ∈ l.attrs ∧ lowerAscii key = lowerAscii k

/-- `part` is one entry of the space-separated list `val` (a maximal space-free piece) -/
def Entry (val part : Str) : Prop :=
  32 ∉ part ∧ ∃ pre post, val = pre ++ part ++ post ∧
    (pre = [] ∨ ∃ pre', pre = pre' ++ [32]) ∧ (post = [] ∨ ∃ post', post = 32 :: post')

/-- RFC 6690 §4.1: does the link match the filter `k=v`?  `href` is compared with the link
target; `rt`, `if` and `ct` hold space-separated lists of which one entry has to match; any other
attribute is compared as a whole. A link without the attribute does not match. -/
def Matches (k v : Str) (l : Link) : Prop :=
  if k = kHref then PatMatch v l.href
  else if k = kRt ∨ k = kIf ∨ k = kCt then
    ∃ val part, HasValue l k val ∧ Entry val part ∧ PatMatch v part
  else ∃ val, HasValue l k val ∧ PatMatch v val

theorem linkMatches_iff (k v : Str) (l : Link) : linkMatches k v l = true ↔ Matches k v l := by
  unfold linkMatches Matches
  by_cases hh : k = kHref
  · subst hh
    have hn : ¬ (kHref = kRt ∨ kHref = kIf ∨ kHref = kCt) := by decide
    simp only [hn, ↓reduceIte, matchExp_iff, PatMatch]
  · by_cases hm : k = kRt ∨ k = kIf ∨ k = kCt
    · simp only [hm, hh, ↓reduceIte, List.any_eq_true, matchExp_iff, PatMatch]
      constructor
      · rintro ⟨val, hv, part, hp, hmatch⟩
        exact ⟨val, part, mem_attributeValues.mp hv, mem_splitOn.mp hp, hmatch⟩
      · rintro ⟨val, part, hv, hp, hmatch⟩
        exact ⟨val, mem_attributeValues.mpr hv, part, mem_splitOn.mpr hp, hmatch⟩
    · simp only [hm, hh, ↓reduceIte, List.any_eq_true, matchExp_iff, PatMatch]
      constructor
      · rintro ⟨val, hv, hmatch⟩; exact ⟨val, mem_attributeValues.mp hv, hmatch⟩
      · rintro ⟨val, hv, hmatch⟩; exact ⟨val, mem_attributeValues.mpr hv, hmatch⟩

/-- how a query item is read: `k=v` split at the first `=`, items without `=` are no filters -/
theorem C17_filter_query_parse (q k v : Str) :
    (splitEq q = some (k, v) ↔ q = k ++ 61 :: v ∧ 61 ∉ k) ∧ (splitEq q = none ↔ 61 ∉ q) := by
  refine ⟨⟨splitEq_some, fun ⟨h1, h2⟩ => h1 ▸ splitEq_of_eq h2⟩, splitEq_none, fun h => ?_⟩
  cases hs : splitEq q with
  | none => rfl
  | some kv =>
    obtain ⟨h1, _⟩ := splitEq_some (k := kv.1) (v := kv.2) hs
    exact absurd (h1 ▸ by simp) h

/-- **C17 (several filters = conjunction).** With any number of filter arguments in the query
(`?rt=temp&if=sensor`, repeated names included; items without `=` are ignored),
`/.well-known/core` answers exactly the sub-list of the links it would list without query that
match EVERY argument: same order, same multiplicity, nothing else — each argument is evaluated
with its own name and pattern. -/
theorem C17_wkc_filters_conjunctive (links : List Link) (implInfo : Option Str)
    (queries : List Str) :
    ∃ keep : Link → Bool,
      (∀ l, keep l = true ↔ ∀ k v, (k, v) ∈ queries.filterMap splitEq → Matches k v l) ∧
      wkcRender links implInfo queries = (wkcAll links implInfo).filter keep := by
  refine ⟨fun l => (queries.filterMap splitEq).all (fun kv => linkMatches kv.1 kv.2 l),
    fun l => ?_, ?_⟩
  · simp only [List.all_eq_true, linkMatches_iff]
    exact ⟨fun h k v hm => h (k, v) hm, fun h kv hm => h kv.1 kv.2 hm⟩
  · rw [wkcRender_eq, applyFilters_eq_filter_all]

/-- membership form of `C17_wkc_filters_conjunctive`: a link is in the answer iff it is listed
and matches every filter argument of the query -/
theorem C17_wkc_filters_mem (links : List Link) (implInfo : Option Str) (queries : List Str) :
    (wkcRender links implInfo queries).Sublist (wkcAll links implInfo) ∧
    ∀ l, l ∈ wkcRender links implInfo queries ↔
      l ∈ wkcAll links implInfo ∧ ∀ k v, (k, v) ∈ queries.filterMap splitEq → Matches k v l := by
  obtain ⟨keep, hkeep, hres⟩ := C17_wkc_filters_conjunctive links implInfo queries
  rw [hres]
  refine ⟨List.filter_sublist, fun l => ?_⟩
  rw [List.mem_filter, hkeep]

/-- **C17 (filters are applied one after the other).** Filtering by the arguments `f :: fs` is
filtering the answer for `fs` by `f`: adding an argument can only remove links, and removes
exactly those not matching it (RFC 6690 §4.1 match of that argument's own name and pattern). -/
theorem C17_wkc_filters_successive (links : List Link) (implInfo : Option Str) (k v : Str)
    (fs : List (Str × Str)) (l : Link) :
    l ∈ applyFilters ((k, v) :: fs) (wkcAll links implInfo) ↔
      l ∈ applyFilters fs (wkcAll links implInfo) ∧ Matches k v l := by
  rw [applyFilters_cons, List.mem_filter, linkMatches_iff]

/-- the order of the filter arguments (and repeating one) does not matter -/
theorem C17_wkc_filters_order_irrelevant (links : List Link) (implInfo : Option Str)
    (fs fs' : List (Str × Str)) (h : ∀ kv, kv ∈ fs ↔ kv ∈ fs') :
    applyFilters fs (wkcAll links implInfo) = applyFilters fs' (wkcAll links implInfo) := by
  rw [applyFilters_eq_filter_all, applyFilters_eq_filter_all]
  apply List.filter_congr
  intro l _
  rw [Bool.eq_iff_iff]
  simp only [List.all_eq_true]
  exact ⟨fun hh kv hm => hh kv ((h kv).mpr hm), fun hh kv hm => hh kv ((h kv).mp hm)⟩

/-- **C17 (filter = matching subset).** With one RFC 6690 filter `k=v` / `k=v*` in the query
(items without `=` are ignored), `/.well-known/core` answers exactly the sub-list of the links it
would list without query that match the filter: same order, same multiplicity, nothing else. -/
theorem C17_filter_subset (links : List Link) (implInfo : Option Str) (queries : List Str)
    (k v : Str) (hq : queries.filterMap splitEq = [(k, v)]) :
    ∃ keep : Link → Bool, (∀ l, keep l = true ↔ Matches k v l) ∧
      wkcRender links implInfo queries = (wkcAll links implInfo).filter keep := by
  refine ⟨linkMatches k v, linkMatches_iff k v, ?_⟩
  rw [wkcRender_eq, hq, applyFilters_cons, applyFilters_nil]

/-- without a filter the whole listing is returned -/
theorem C17_no_filter_full_listing (links : List Link) (implInfo : Option Str)
    (queries : List Str) (hq : ∀ q ∈ queries, 61 ∉ q) :
    wkcRender links implInfo queries = wkcAll links implInfo := by
  have : queries.filterMap splitEq = [] := by
    rw [List.filterMap_eq_nil_iff]
    intro q hmem
    exact ((C17_filter_query_parse q [] []).2).mpr (hq q hmem)
  rw [wkcRender_eq, this, applyFilters_nil]

/-- membership form of `C17_filter_subset` -/
theorem C17_filter_mem (links : List Link) (implInfo : Option Str) (queries : List Str)
    (k v : Str) (hq : queries.filterMap splitEq = [(k, v)]) :
    (wkcRender links implInfo queries).Sublist (wkcAll links implInfo) ∧
      ∀ l, l ∈ wkcRender links implInfo queries ↔ l ∈ wkcAll links implInfo ∧ Matches k v l := by
  obtain ⟨keep, hkeep, hres⟩ := C17_filter_subset links implInfo queries k v hq
  rw [hres]
  refine ⟨List.filter_sublist, fun l => ?_⟩
  rw [List.mem_filter, hkeep]

-- the listing on the wire -------------------------------------------------------------------------

/-- a link-param name as RFC 6690 §2 allows it (`parmname`, RFC 5987 §3.2.1): non-empty, made of
`attr-char`s (letters, digits, ``!#$&+-.^_`|~``) or `*` -/
def ParmName (k : Str) : Prop := k ≠ [] ∧ ∀ c ∈ k, nameChar c = true

/-- **C17 (the listing a client reads is the listing that was rendered).** What reaches a client is
the payload.  An RFC 6690 reader (link-values separated by `,`, `<target>`, `;name` or
`;name="quoted-string"` where `\` + any character stands for that character) gets from the payload
of `/.well-known/core` exactly the links `render_get` selected: each one separately, in order, with
its own target and its own attributes value for value — WHATEVER bytes the attribute values
contain (backslashes, also at the very end; double quotes; `,` `;` `<` `>` `=`; non-ASCII; nothing
at all), for every tree of registrations and every query.  Hypotheses: the resources describe
themselves with parameter names that are `parmname`s, and an impl-info URI has no `>`. -/
theorem C17_listing_wire_roundtrip (s : Site) (implInfo : Option Str) (queries : List Str)
    (hnames : ∀ fp r, Registered s fp r → r.hidden = false → ∀ a ∈ r.attrs, ParmName a.1)
    (himpl : ∀ u, implInfo = some u → 62 ∉ u) :
    readLinkFormat (wkcPayload s.links implInfo queries) =
      some (wkcRender s.links implInfo queries) := by
  unfold wkcPayload
  apply readLinkFormat_linkFormatStr
  intro l hl
  have hall := ((C17_wkc_filters_mem s.links implInfo queries).2 l).mp hl |>.1
  unfold wkcAll at hall
  rcases List.mem_append.mp hall with h | h
  · obtain ⟨fp, r, hreg, hv, rfl⟩ := (C17_wkc_exact s l).mp h
    exact ⟨hrefSegs_no_gt fp, hnames fp r hreg hv⟩
  · cases implInfo with
    | none => cases h
    | some u =>
      simp only [List.mem_singleton] at h
      subst h
      refine ⟨himpl u rfl, ?_⟩
      intro a ha
      simp only [implInfoLink, List.mem_singleton] at ha
      subst ha
      exact ⟨by decide, by decide⟩

/-- **C17 (discovery clause, on the wire).** Without a query and without impl-info link, an RFC 6690
reader of the `/.well-known/core` payload obtains one link per registered resource that does not
hide itself and nothing else: a link is read iff it is `<href of the full path through the nested
sites>` with the description of such a resource, and there are as many links as such resources —
no resource's description can remove or alter another resource's link. -/
theorem C17_wire_listing_names_registered (s : Site)
    (hnames : ∀ fp r, Registered s fp r → r.hidden = false → ∀ a ∈ r.attrs, ParmName a.1) :
    ∃ ls, readLinkFormat (wkcPayload s.links none []) = some ls ∧ ls.length = s.visibleCount ∧
      ∀ l, l ∈ ls ↔ ∃ fp r, Registered s fp r ∧ r.hidden = false ∧ l = ⟨hrefSegs fp, r.attrs⟩ := by
  refine ⟨s.links, ?_, C17_wkc_count s, C17_wkc_exact s⟩
  have h := C17_listing_wire_roundtrip s none [] hnames (fun u hu => by cases hu)
  have e : wkcRender s.links none [] = s.links := by
    rw [C17_no_filter_full_listing s.links none [] (by simp)]
    simp [wkcAll]
  rw [h, e]

/-- **C17 (a value ends at its own closing quote).** Inside a quoted-string the reader is back
behind the parameter exactly after the closing quote `Link.__str__` wrote, with exactly the value
that was written — whatever the value is and whatever text follows. -/
theorem C17_quoted_value_framing (done : List Link) (cur : Cur) (name v rest : Str) :
    readGo done cur (.quoted name []) (quoteValue v ++ 34 :: rest) =
      readGo done (cur.push (name.reverse, some v)) .params rest := by
  rw [readGo_quoted]; rfl

-- non-vacuity ----------------------------------------------------------------------------------

/-- `/batch` example of the `Site` docstring plus shadowing (`b` = 98, `l` = 108, …): resource `1`
at `b/l` in the root, nested site at `b` with `l` (2), its root (3), a deeper site at `b/d/e`
holding a `PathCapable` leaf (6) at `f` -/
def exampleSite : Site :=
  .node [([[98], [108]], ⟨1, false, []⟩)]
    [([[98]], .node [([[108]], ⟨2, false, []⟩), ([], ⟨3, false, []⟩)]
        [([[100], [101]], .node [] [([[102]], .leaf 6)])])]

example : exampleSite.route [[98], [108]] = some ⟨1, [], [[98], [108]]⟩ := by decide   -- exact first
example : exampleSite.route [[98], []] = some ⟨3, [], [[98], []]⟩ := by decide         -- trailing slash
example : exampleSite.route [[98]] = none := by decide                                 -- not proper
example : exampleSite.route [[98], [100], [101], [102], [103], []] =
    some ⟨6, [[103], []], [[98], [100], [101], [102], [103], []]⟩ := by decide         -- three levels
example : exampleSite.route [[98], [100], [101], [104]] = none := by decide
/-- a nested site at the empty path is consulted last: `x` is its resource, `y/z` belongs to the
nested site at `y`, `/` (empty path) is not a proper extension of the empty prefix -/
def emptyPrefixSite : Site :=
  .node [] [([], .node [([[120]], ⟨1, false, []⟩), ([[121], [122]], ⟨2, false, []⟩)] []),
    ([[121]], .node [([[122]], ⟨3, false, []⟩)] [])]
example : emptyPrefixSite.route [[120]] = some ⟨1, [], [[120]]⟩ := by decide
example : emptyPrefixSite.route [[121], [122]] = some ⟨3, [], [[121], [122]]⟩ := by decide
example : emptyPrefixSite.route [[121], [119]] = none := by decide     -- no fall-back to `[]`
example : emptyPrefixSite.route [] = none := by decide
example : emptyPrefixSite.links.map (·.href) = [[47, 120], [47, 121, 47, 122], [47, 121, 47, 122]] := by
  decide
/-- a nested site's resource at `[""]` answers at `k/` when there is none at `[]`; at the root of
the tree `[]` and `[""]` stay different request paths -/
def nestedRootSite : Site := .node [([[]], ⟨7, false, []⟩)] [([[107]], .node [([[]], ⟨8, false, []⟩)] [])]
example : nestedRootSite.route [[107], []] = some ⟨8, [], [[107], []]⟩ := by decide
example : nestedRootSite.route [[107], [], []] = none := by decide
example : nestedRootSite.route [] = none := by decide
example : nestedRootSite.route [[]] = some ⟨7, [], [[]]⟩ := by decide
example : (nestedRootSite.reg (.addRes [[[107]]] [] ⟨9, false, []⟩)).map (·.route [[107], []]) =
    some (some ⟨9, [], [[107], []]⟩) := by decide
/-- the hypotheses of `C17_longest_prefix` are satisfiable -/
example : ProperPrefix [[1]] [[1], [4], [5], [7]] ∧
    ∀ k' ∈ keys [(([[1]] : Path), Site.leaf 0)], ProperPrefix k' [[1], [4], [5], [7]] →
      k'.length ≤ ([[1]] : Path).length := by
  refine ⟨⟨by decide, ⟨[[4], [5], [7]], rfl⟩⟩, ?_⟩
  intro k' hk' _
  simp [keys] at hk'
  subst hk'; decide
example : Reaches exampleSite [[98], [100], [101], [102]] 6 := by
  unfold exampleSite
  refine Reaches.sub (k := [[98]]) (m := [[100], [101], [102]])
    (t := .node [([[108]], ⟨2, false, []⟩), ([], ⟨3, false, []⟩)]
      [([[100], [101]], .node [] [([[102]], .leaf 6)])]) rfl ?_
  refine Reaches.sub (k := [[100], [101]]) (m := [[102]]) (t := .node [] [([[102]], .leaf 6)])
    rfl ?_
  exact Reaches.sub (k := [[102]]) (m := []) (t := .leaf 6) rfl .leaf
example : (exampleSite.reg (.remove [] [[98], [108]])).map (·.route [[98], [108]]) =
    some (some ⟨2, [], [[98], [108]]⟩) := by decide
example : (exampleSite.reg (.addRes [[[98]]] [[109]] ⟨9, false, []⟩)).map (·.route [[98], [109]]) =
    some (some ⟨9, [], [[98], [109]]⟩) := by decide

example : DictTree exampleSite := by
  unfold exampleSite
  refine .node (by decide) (by decide) ?_
  intro k t hm
  simp only [List.mem_singleton, Prod.mk.injEq] at hm
  obtain ⟨rfl, rfl⟩ := hm
  refine .node (by decide) (by decide) ?_
  intro k t hm
  simp only [List.mem_singleton, Prod.mk.injEq] at hm
  obtain ⟨rfl, rfl⟩ := hm
  refine .node (by decide) (by decide) ?_
  intro k t hm
  simp only [List.mem_singleton, Prod.mk.injEq] at hm
  obtain ⟨rfl, rfl⟩ := hm
  exact .leaf
/-- the hypotheses of `C17_listed_link_routes_to_resource` are satisfiable: the root resource of
the nested site, listed as `b/` -/
example : Registered exampleSite [[98], []] ⟨3, false, []⟩ ∧
    exampleSite.route [[98], []] = some ⟨3, [], [[98], []]⟩ :=
  C17_listed_link_routes_to_resource [([[98], [108]], ⟨1, false, []⟩)]
    [([[108]], ⟨2, false, []⟩), ([], ⟨3, false, []⟩)] _
    [([[100], [101]], .node [] [([[102]], .leaf 6)])] [[98]] [] ⟨3, false, []⟩
    (by decide) (by decide) (List.mem_singleton.mpr rfl) (by simp) (by intro h; cases h)
    (by decide) (by intro k' hk' _; simp [keys] at hk'; subst hk'; decide)
/-- … and for the `[""]` resource of a nested site without `[]` resource -/
example : Registered nestedRootSite [[107], []] ⟨8, false, []⟩ ∧
    nestedRootSite.route [[107], []] = some ⟨8, [], [[107], []]⟩ :=
  C17_listed_link_routes_to_resource [([[]], ⟨7, false, []⟩)] [([[]], ⟨8, false, []⟩)] _ []
    [[107]] [[]] ⟨8, false, []⟩
    (by decide) (by decide) (List.mem_singleton.mpr rfl) (by simp) (by intro _; rfl)
    (by decide) (by intro k' hk' _; simp [keys] at hk'; subst hk'; decide)
/-- one filter among the query items: `obs` has no `=`, `rt=li*` is the filter -/
example : [[111, 98, 115], [114, 116, 61, 108, 105, 42]].filterMap splitEq =
    [(kRt, [108, 105, 42])] := by decide
/-- listing of the example tree: full paths through the nested sites, root of `b` as `/b/` -/
example : exampleSite.links.map (·.href) =
    [[47, 98, 47, 108], [47, 98, 47, 108], [47, 98, 47]] := by decide
example : exampleSite.visibleCount = 3 := by decide
/-- hrefs of components with reserved characters: `("a/b",)` ↦ `/a%2Fb` ≠ `/a/b` ↤ `("a","b")`;
`("x>y",)` ↦ `/x%3Ey`; `("ä",)` ↦ `/%C3%A4`; `("",)` and `()` ↦ `/` -/
example : hrefSegs [[97, 47, 98]] = [47, 97, 37, 50, 70, 98] := by decide
example : hrefSegs [[97], [98]] = [47, 97, 47, 98] := by decide
example : hrefSegs [[120, 62, 121]] = [47, 120, 37, 51, 69, 121] := by decide
example : hrefSegs [[195, 164]] = [47, 37, 67, 51, 37, 65, 52] := by decide
example : (Site.node [([[]], ⟨1, false, []⟩), ([], ⟨2, false, []⟩)] []).links.map (·.href) =
    [[47], [47]] := by decide
example : parseHref [47, 97, 37, 50, 70, 98] = some [[97, 47, 98]] := by decide
example : parseHref [47, 97, 37, 50] = none := by decide          -- truncated escape
example : PathWf [[97, 47, 98], [], [195, 164]] := by unfold PathWf; decide
/-- `rt="temp light"`: `rt=light`, `rt=li*` match an entry, `rt=ight*` does not (no substring
match), `title=temp` does not match `title="temp light"` but `title=temp*` does -/
def exampleLink : Link :=
  ⟨[47, 107], [(kRt, some [116, 101, 109, 112, 32, 108, 105, 103, 104, 116]),
    ([116, 105, 116, 108, 101], some [116, 101, 109, 112, 32, 108, 105, 103, 104, 116]),
    ([111, 98, 115], none)]⟩
example : linkMatches kRt [108, 105, 103, 104, 116] exampleLink = true := by decide
example : linkMatches kRt [108, 105, 42] exampleLink = true := by decide
example : linkMatches kRt [105, 103, 104, 116, 42] exampleLink = false := by decide
example : linkMatches [116, 105, 116, 108, 101] [116, 101, 109, 112] exampleLink = false := by decide
example : linkMatches [116, 105, 116, 108, 101] [116, 101, 109, 112, 42] exampleLink = true := by decide
example : linkMatches [111, 98, 115] [42] exampleLink = false := by decide      -- valueless
example : linkMatches kIf [42] exampleLink = false := by decide                 -- absent
example : Matches kRt [108, 105, 42] exampleLink := (linkMatches_iff _ _ _).mp (by decide)
/-- two filters: `</t>;rt="temp";if="sensor"`, `</l>;rt="light";if="sensor"`, `</u>;rt="temp"`;
`?rt=temp&if=sensor` and `?if=sensor&rt=temp` both keep `/t` only (each alone keeps two) -/
def twoFilterLinks : List Link :=
  [⟨[47, 116], [(kRt, some [116, 101, 109, 112]), (kIf, some [115])]⟩,
   ⟨[47, 108], [(kRt, some [108, 105]), (kIf, some [115])]⟩,
   ⟨[47, 117], [(kRt, some [116, 101, 109, 112])]⟩]
example : (wkcRender twoFilterLinks none
    [[114, 116, 61, 116, 101, 109, 112], [105, 102, 61, 115]]).map (·.href) = [[47, 116]] := by decide
example : (wkcRender twoFilterLinks none
    [[105, 102, 61, 115], [114, 116, 61, 116, 101, 109, 112]]).map (·.href) = [[47, 116]] := by decide
example : (wkcRender twoFilterLinks none [[105, 102, 61, 115]]).map (·.href) =
    [[47, 116], [47, 108]] := by decide
example : (wkcRender twoFilterLinks none [[114, 116, 61, 116, 101, 109, 112]]).map (·.href) =
    [[47, 116], [47, 117]] := by decide
example : (wkcRender twoFilterLinks none
    [[114, 116, 61, 116, 42], [114, 116, 61, 108, 42]]).map (·.href) = [] := by decide  -- same name twice

/-- the reviewer's listing: `/a` titled `C:\`, then `/b`, `/c`.  Written as
`</a>;title="C:\\",</b>;rt="x",</c>;rt="y"`, read back link for link -/
def backslashLinks : List Link :=
  [⟨[47, 97], [([116, 105, 116, 108, 101], some [67, 58, 92])]⟩,
   ⟨[47, 98], [(kRt, some [120]), ([111, 98, 115], none)]⟩,
   ⟨[47, 99], [(kRt, some [121])]⟩]
example : linkFormatStr backslashLinks =
    [60, 47, 97, 62, 59, 116, 105, 116, 108, 101, 61, 34, 67, 58, 92, 92, 34, 44,
     60, 47, 98, 62, 59, 114, 116, 61, 34, 120, 34, 59, 111, 98, 115, 44,
     60, 47, 99, 62, 59, 114, 116, 61, 34, 121, 34] := by decide
example : readLinkFormat (linkFormatStr backslashLinks) = some backslashLinks := by decide
example : quoteValue [92, 34] = [92, 92, 92, 34] := by decide            -- `\"` ↦ `\\\"`
/-- the reader is not lenient: the text the code wrote before the fix (`title="C:\",</b>…`, the
backslash unescaped) is no link-format at all — `/b` and `/c` were lost to the client —, and for
`a\b` written unescaped it reads `ab` -/
example : readLinkFormat
    [60, 47, 97, 62, 59, 116, 105, 116, 108, 101, 61, 34, 67, 58, 92, 34, 44,
     60, 47, 98, 62, 59, 114, 116, 61, 34, 120, 34, 44,
     60, 47, 99, 62, 59, 114, 116, 61, 34, 121, 34] = none := by decide
example : readLinkFormat [60, 47, 97, 62, 59, 116, 61, 34, 97, 92, 98, 34] =
    some [⟨[47, 97], [([116], some [97, 98])]⟩] := by decide
example : readLinkFormat [60, 47, 97, 62, 44] = none := by decide           -- trailing comma
example : readLinkFormat [] = some [] := by decide
/-- a tree with such descriptions, a nested site included: the payload of its listing reads back
as its links, and the hypothesis of `C17_listing_wire_roundtrip` holds for it -/
def describedSite : Site :=
  .node [([[97]], ⟨1, false, [([116, 105, 116, 108, 101], some [67, 58, 92])]⟩),
         ([[98]], ⟨2, false, [(kRt, some [120])]⟩), ([[104]], ⟨3, true, []⟩)]
    [([[110]], .node [([[101]], ⟨4, false, [([101, 120, 116], some [92, 34]), ([111, 98, 115], none)]⟩)] [])]
example : readLinkFormat (wkcPayload describedSite.links none []) = some describedSite.links := by
  decide
example : describedSite.links.map (·.href) = [[47, 97], [47, 98], [47, 110, 47, 101]] := by decide
example : ∀ l ∈ describedSite.links, ∀ a ∈ l.attrs, ParmName a.1 := by
  have e : describedSite.links =
      [⟨[47, 97], [([116, 105, 116, 108, 101], some [67, 58, 92])]⟩, ⟨[47, 98], [(kRt, some [120])]⟩,
       ⟨[47, 110, 47, 101], [([101, 120, 116], some [92, 34]), ([111, 98, 115], none)]⟩] := by decide
  rw [e]
  intro l hl a ha
  simp only [List.mem_cons, List.not_mem_nil, or_false] at hl
  rcases hl with rfl | rfl | rfl <;> simp only [List.mem_cons, List.not_mem_nil, or_false] at ha
  · subst ha; exact ⟨by decide, by decide⟩
  · subst ha; exact ⟨by decide, by decide⟩
  · rcases ha with rfl | rfl <;> exact ⟨by decide, by decide⟩
example : ∀ l ∈ backslashLinks, LinkWf l := by
  intro l hl
  simp only [backslashLinks, List.mem_cons, List.not_mem_nil, or_false] at hl
  rcases hl with rfl | rfl | rfl <;> exact ⟨by decide, by decide⟩

end Aiocoap.Apps
