import Proofs.Apps.Site
/-!
# C17 — Site routing: exact match, longest prefix for nested sites, matching discovery

Model: `AiocoapModel/Apps/Site.lean` (`Site.routeFrom`, `Site.route`, `Site.serve`, `Site.reg`)
and `AiocoapModel/Apps/Wkc.lean` (`Site.links`, `wkcRender`) — the functions the driver runs
against the real `Site` / `WKCResource`.  All theorems hold for every tree of registrations
(any nesting depth, any keys incl. empty components and empty paths), every request path and
every original path.  Only property theorems and non-vacuity examples live in this file.
-/
namespace Aiocoap.Apps

-- routing: the three clauses -----------------------------------------------------------------

/-- **C17 (exact match first).** A resource registered at exactly the request path renders the
request, whatever nested sites are registered (also at prefixes of, or at, the same path); it
sees an empty `uri_path`. -/
theorem C17_exact_first (rs : List (Path × Res)) (ss : List (Path × Site)) (orig p : Path)
    (r : Res) (h : lookup p rs = some r) :
    (Site.node rs ss).routeFrom orig p = some ⟨r.id, [], orig⟩ := by
  rw [routeFrom_node, h]

/-- **C17 (longest prefix).** Without a resource at exactly `p`, the nested site `t` registered
at the longest non-empty proper prefix `k` of `p` handles the request: the result is whatever `t`
does with the remaining components `p.drop k.length` (a lone empty component addressing `t`'s own
root) and the same original path — including `t`'s own 4.04, there is no fall-back to a shorter
prefix. -/
theorem C17_longest_prefix (rs : List (Path × Res)) (ss : List (Path × Site)) (orig p k : Path)
    (t : Site) (hno : lookup p rs = none) (hk : lookup k ss = some t) (hpre : ProperPrefix k p)
    (hmax : ∀ k' ∈ keys ss, ProperPrefix k' p → k'.length ≤ k.length) :
    (Site.node rs ss).routeFrom orig p = t.routeFrom orig (normRem (p.drop k.length)) ∧
      k ++ p.drop k.length = p := by
  have hb := bestSplit_of_longest (mem_keys_of_mem (lookup_mem hk)) hpre hmax
  rw [routeFrom_node, hno]
  simp only [hb]
  rw [← hpre.eq_take.1, hk]
  exact ⟨rfl, hpre.split.1⟩

/-- **C17 (otherwise 4.04).** No resource at exactly `p` and no nested site at a non-empty proper
prefix of `p`: `KeyError`, i.e. 4.04 (in particular: a nested site registered at `p` itself or at
the empty path never answers). -/
theorem C17_else_404 (rs : List (Path × Res)) (ss : List (Path × Site)) (orig p : Path)
    (hno : lookup p rs = none) (hnone : ∀ k ∈ keys ss, ¬ ProperPrefix k p) :
    (Site.node rs ss).routeFrom orig p = none := by
  rw [routeFrom_node, hno]
  simp only [bestSplit_none_of_no_prefix hnone]

/-- The three clauses are exhaustive: every site and request path falls under exactly one of
`C17_exact_first`, `C17_longest_prefix`, `C17_else_404`. -/
theorem C17_route_cases (rs : List (Path × Res)) (ss : List (Path × Site)) (p : Path) :
    (∃ r, lookup p rs = some r) ∨
    (lookup p rs = none ∧ ∃ k t, lookup k ss = some t ∧ ProperPrefix k p ∧
        ∀ k' ∈ keys ss, ProperPrefix k' p → k'.length ≤ k.length) ∨
    (lookup p rs = none ∧ ∀ k ∈ keys ss, ¬ ProperPrefix k p) := by
  cases hl : lookup p rs with
  | some r => exact Or.inl ⟨r, rfl⟩
  | none =>
    right
    cases hb : bestSplit (keys ss) p (p.length - 1) with
    | none =>
      right
      refine ⟨rfl, fun k hk hpre => ?_⟩
      obtain ⟨h1, h2, h3⟩ := hpre.eq_take
      exact bestSplit_none hb k.length h2 h3 (h1 ▸ hk)
    | some j =>
      left
      obtain ⟨a, b, c, d⟩ := bestSplit_some hb
      obtain ⟨t, ht⟩ := Option.isSome_iff_exists.mp (lookup_isSome_iff.mpr c)
      refine ⟨rfl, p.take j, t, ht, properPrefix_take a b, fun k' hk' hpre' => ?_⟩
      obtain ⟨h1, h2, h3⟩ := hpre'.eq_take
      simp only [List.length_take]
      by_cases hlt : j < k'.length
      · exact absurd (h1 ▸ hk') (d k'.length hlt h3)
      · omega

/-- `Site.serve` (what `render_to_pipe` of the root answers) in terms of `route`: 4.04 exactly
when routing finds nothing. -/
theorem C17_serve_404_iff (s : Site) (p : Path) :
    s.serve none p = .notFound ↔ s.route p = none := by
  simp only [Site.serve, expandUpa]
  cases h : s.route p <;> simp

-- the handler's view -----------------------------------------------------------------------

/-- `Reaches s m id`: following registration keys that concatenate to `m` from `s` — sub-site
keys (non-empty) and finally a resource key, or ending at a `PathCapable` leaf — one arrives at
the handler `id`. -/
inductive Reaches : Site → Path → Nat → Prop where
  | res {rs ss q r} : lookup q rs = some r → Reaches (.node rs ss) q r.id
  | leaf {id} : Reaches (.leaf id) [] id
  | sub {rs ss k t m id} : lookup k ss = some t → k ≠ [] → Reaches t m id →
      Reaches (.node rs ss) (k ++ m) id

theorem stripped_and_original_aux (s : Site) : ∀ (orig p : Path) (h : Hit),
    s.routeFrom orig p = some h →
    h.orig = orig ∧ ∃ m, Reaches s m h.id ∧ (p = m ++ h.seen ∨ (h.seen = [] ∧ p = m ++ [[]])) := by
  induction s using Site.induct with
  | leaf id =>
    intro orig p h hr
    rw [Site.routeFrom.eq_1] at hr
    cases hr
    exact ⟨rfl, [], .leaf, Or.inl rfl⟩
  | node rs ss ih =>
    intro orig p h hr
    rw [routeFrom_node] at hr
    cases hl : lookup p rs with
    | some r =>
      simp only [hl, Option.some.injEq] at hr
      subst hr
      exact ⟨rfl, p, .res hl, Or.inl (by simp)⟩
    | none =>
      simp only [hl] at hr
      cases hb : bestSplit (keys ss) p (p.length - 1) with
      | none => simp [hb] at hr
      | some j =>
        simp only [hb] at hr
        obtain ⟨a, b, c, _⟩ := bestSplit_some hb
        cases hk : lookup (p.take j) ss with
        | none => simp [hk] at hr
        | some t =>
          simp only [hk] at hr
          obtain ⟨ho, m, hreach, hsplit⟩ := ih _ t (lookup_mem hk) orig _ h hr
          have hpp := properPrefix_take a b
          have hsp : p.take j ++ p.drop j = p := List.take_append_drop j p
          refine ⟨ho, p.take j ++ m, .sub hk hpp.1 hreach, ?_⟩
          unfold normRem at hsplit
          by_cases hrem : p.drop j = [[]]
          · simp only [hrem, ↓reduceIte] at hsplit
            rcases hsplit with h1 | ⟨_, h1⟩
            · have hm : m = [] ∧ h.seen = [] := List.append_eq_nil_iff.mp h1.symm
              right
              refine ⟨hm.2, ?_⟩
              rw [hm.1, List.append_nil, ← hrem, hsp]
            · cases m <;> simp at h1
          · simp only [hrem, ↓reduceIte] at hsplit
            rcases hsplit with h1 | ⟨h0, h1⟩
            · left; rw [List.append_assoc, ← h1, hsp]
            · right; exact ⟨h0, by rw [List.append_assoc, ← h1, hsp]⟩

/-- **C17 (stripped path, original URI).** Whenever a request for `p` is rendered by a handler,
the handler still has the original path (`_original_request_path = p`, from which
`get_request_uri` rebuilds the URI), it is reached through registration keys concatenating to
`matched`, and what it sees as `uri_path` is the rest: `p = matched ++ seen` — or
`p = matched ++ [""]` with nothing left to see, for the trailing slash that addresses a nested
site's root. -/
theorem C17_stripped_and_original (s : Site) (p : Path) (h : Hit) (hr : s.route p = some h) :
    h.orig = p ∧ ∃ matched, Reaches s matched h.id ∧
      (p = matched ++ h.seen ∨ (h.seen = [] ∧ p = matched ++ [[]])) :=
  stripped_and_original_aux s p p h hr

/-- A plain resource (anything that is not a `PathCapable` leaf) never sees path components:
reaching a resource leaves `seen = []`. -/
theorem C17_resource_sees_empty_path (rs : List (Path × Res)) (ss : List (Path × Site))
    (orig p : Path) (r : Res) (h : lookup p rs = some r) :
    ((Site.node rs ss).routeFrom orig p).map (·.seen) = some [] := by
  rw [C17_exact_first rs ss orig p r h]; rfl

-- registration changes -----------------------------------------------------------------------

/-- **C17 (add takes effect).** Right after `add_resource(path, r)` a request for `path` is
rendered by `r`; requests for any other path are answered as before. -/
theorem C17_add_resource_next_request (rs : List (Path × Res)) (ss : List (Path × Site))
    (path : Path) (r : Res) :
    ∃ s', (Site.node rs ss).reg (.addRes [] path r) = some s' ∧
      (∀ orig, s'.routeFrom orig path = some ⟨r.id, [], orig⟩) ∧
      (∀ orig p, p ≠ path → s'.routeFrom orig p = (Site.node rs ss).routeFrom orig p) := by
  refine ⟨.node (insert path r rs) ss, rfl, fun orig => ?_, fun orig p hp => ?_⟩
  · exact C17_exact_first _ _ _ _ _ (lookup_insert_self path r rs)
  · rw [routeFrom_node, routeFrom_node, lookup_insert_ne hp]

/-- **C17 (remove takes effect).** `remove_resource(path)` on a site that has no nested site at
`path` succeeds iff a resource is registered there; right afterwards that resource no longer
answers — a request for `path` is handled as if only the nested sites existed (4.04 unless one is
registered at a proper prefix) — and requests for other paths are answered as before. -/
theorem C17_remove_resource_next_request (rs : List (Path × Res)) (ss : List (Path × Site))
    (path : Path) (hsub : path ∉ keys ss) :
    ((Site.node rs ss).reg (.remove [] path) = none ↔ lookup path rs = none) ∧
    ∀ s', (Site.node rs ss).reg (.remove [] path) = some s' →
      (∀ orig, s'.routeFrom orig path = (Site.node [] ss).routeFrom orig path) ∧
      (∀ orig p, p ≠ path → s'.routeFrom orig p = (Site.node rs ss).routeFrom orig p) := by
  have hreg : (Site.node rs ss).reg (.remove [] path) =
      if path ∈ keys rs then some (.node (erase path rs) ss) else none := by
    simp [Site.reg, Site.modifyAt, Site.remove, hsub]
  rw [hreg]
  by_cases hr : path ∈ keys rs
  · simp only [hr, ↓reduceIte, reduceCtorEq, false_iff, Option.some.injEq]
    refine ⟨fun h => lookup_eq_none_iff.mp h hr, ?_⟩
    rintro s' rfl
    refine ⟨fun orig => ?_, fun orig p hp => ?_⟩
    · rw [routeFrom_node, routeFrom_node, lookup_erase_self]; rfl
    · rw [routeFrom_node, routeFrom_node, lookup_erase_ne hp]
  · simp only [hr, ↓reduceIte, true_iff]
    exact ⟨lookup_eq_none_iff.mpr hr, fun s' h => by cases h⟩

/-- **C17 (nested site added / replaced).** Right after `add_resource(k, t)` with a
`PathCapable` `t`, every request that has no exact resource, has `k` as non-empty proper prefix
and no longer registered prefix goes to `t` with the remaining components; requests of which `k`
is not a proper prefix are answered as before. -/
theorem C17_add_site_next_request (rs : List (Path × Res)) (ss : List (Path × Site))
    (k : Path) (t : Site) :
    ∃ s', (Site.node rs ss).reg (.addSite [] k t) = some s' ∧
      (∀ orig p, lookup p rs = none → ProperPrefix k p →
        (∀ k' ∈ keys ss, ProperPrefix k' p → k'.length ≤ k.length) →
        s'.routeFrom orig p = t.routeFrom orig (normRem (p.drop k.length))) ∧
      (∀ orig p, ¬ ProperPrefix k p → s'.routeFrom orig p = (Site.node rs ss).routeFrom orig p) := by
  refine ⟨.node rs (insert k t ss), rfl, fun orig p hno hpre hmax => ?_, fun orig p hnp => ?_⟩
  · refine (C17_longest_prefix rs _ orig p k t hno (lookup_insert_self k t ss) hpre ?_).1
    intro k' hk' hpre'
    rcases mem_keys_insert.mp hk' with rfl | h
    · exact Nat.le_refl _
    · exact hmax k' h hpre'
  · -- `k` is no candidate for `p`, so the search sees the same candidates with the same values
    rw [routeFrom_node, routeFrom_node]
    cases lookup p rs with
    | some r => rfl
    | none =>
      simp only
      have hsame : bestSplit (keys (insert k t ss)) p (p.length - 1) =
          bestSplit (keys ss) p (p.length - 1) := by
        cases hb : bestSplit (keys ss) p (p.length - 1) with
        | none =>
          apply bestSplit_none_of_no_prefix
          intro k' hk' hpre'
          rcases mem_keys_insert.mp hk' with rfl | h
          · exact hnp hpre'
          · obtain ⟨h1, h2, h3⟩ := hpre'.eq_take
            exact bestSplit_none hb _ h2 h3 (h1 ▸ h)
        | some j =>
          obtain ⟨a, b, c, d⟩ := bestSplit_some hb
          have := bestSplit_of_longest (ks := keys (insert k t ss)) (p := p) (k := p.take j)
            (mem_keys_insert.mpr (Or.inr c)) (properPrefix_take a b) (by
              intro k' hk' hpre'
              rcases mem_keys_insert.mp hk' with rfl | h
              · exact absurd hpre' hnp
              · obtain ⟨h1, h2, h3⟩ := hpre'.eq_take
                simp only [List.length_take]
                by_cases hlt : j < k'.length
                · exact absurd (h1 ▸ h) (d _ hlt h3)
                · omega)
          simp only [List.length_take] at this
          rw [this]; congr; omega
      rw [hsame]
      cases hb : bestSplit (keys ss) p (p.length - 1) with
      | none => rfl
      | some j =>
        simp only
        obtain ⟨a, b, _, _⟩ := bestSplit_some hb
        have hne : p.take j ≠ k := fun e => hnp (e ▸ properPrefix_take a b)
        rw [lookup_insert_ne hne]

/-- **C17 (nested site removed).** `remove_resource(k)` on a site with a nested site at `k`
removes that nested site (not a resource of the same path); afterwards no request is routed into
it: one whose only registered proper prefix was `k` gets 4.04 unless a resource matches exactly,
and requests of which `k` is not a proper prefix are answered as before. -/
theorem C17_remove_site_next_request (rs : List (Path × Res)) (ss : List (Path × Site))
    (k : Path) (hk : k ∈ keys ss) :
    (Site.node rs ss).reg (.remove [] k) = some (.node rs (erase k ss)) ∧
    (∀ orig p, lookup p rs = none →
      (∀ k' ∈ keys ss, ProperPrefix k' p → k' = k) →
      (Site.node rs (erase k ss)).routeFrom orig p = none) ∧
    (∀ orig p, ¬ ProperPrefix k p →
      (Site.node rs (erase k ss)).routeFrom orig p = (Site.node rs ss).routeFrom orig p) := by
  refine ⟨by simp [Site.reg, Site.modifyAt, Site.remove, hk], fun orig p hno honly => ?_,
    fun orig p hnp => ?_⟩
  · apply C17_else_404 _ _ _ _ hno
    intro k' hk' hpre'
    obtain ⟨hne, hmem⟩ := mem_keys_erase.mp hk'
    exact hne (honly k' hmem hpre')
  · rw [routeFrom_node, routeFrom_node]
    cases lookup p rs with
    | some r => rfl
    | none =>
      simp only
      have hsame : bestSplit (keys (erase k ss)) p (p.length - 1) =
          bestSplit (keys ss) p (p.length - 1) := by
        cases hb : bestSplit (keys ss) p (p.length - 1) with
        | none =>
          apply bestSplit_none_of_no_prefix
          intro k' hk' hpre'
          obtain ⟨h1, h2, h3⟩ := hpre'.eq_take
          exact bestSplit_none hb _ h2 h3 (h1 ▸ (mem_keys_erase.mp hk').2)
        | some j =>
          obtain ⟨a, b, c, d⟩ := bestSplit_some hb
          have hne : p.take j ≠ k := fun e => hnp (e ▸ properPrefix_take a b)
          have := bestSplit_of_longest (ks := keys (erase k ss)) (p := p) (k := p.take j)
            (mem_keys_erase.mpr ⟨hne, c⟩) (properPrefix_take a b) (by
              intro k' hk' hpre'
              obtain ⟨h1, h2, h3⟩ := hpre'.eq_take
              simp only [List.length_take]
              by_cases hlt : j < k'.length
              · exact absurd (h1 ▸ (mem_keys_erase.mp hk').2) (d _ hlt h3)
              · omega)
          simp only [List.length_take] at this
          rw [this]; congr; omega
      rw [hsame]
      cases hb : bestSplit (keys ss) p (p.length - 1) with
      | none => rfl
      | some j =>
        simp only
        obtain ⟨a, b, _, _⟩ := bestSplit_some hb
        have hne : p.take j ≠ k := fun e => hnp (e ▸ properPrefix_take a b)
        rw [lookup_erase_ne hne]

/-- **C17 (changes inside a nested site).** A registration call on the nested site object at
`k` (address `k :: ks`, any depth) keeps that site's entry in its parent in place; right
afterwards the requests the parent routes into `k` are answered by the changed nested site, all
others as before. -/
theorem C17_nested_change_next_request (rs : List (Path × Res)) (ss : List (Path × Site))
    (k : Path) (ks : List Path) (t t' : Site) (f : Site → Option Site)
    (hk : lookup k ss = some t) (hf : t.modifyAt f ks = some t') :
    (Site.node rs ss).modifyAt f (k :: ks) = some (.node rs (insert k t' ss)) ∧
    (∀ orig p, lookup p rs = none → ProperPrefix k p →
      (∀ k' ∈ keys ss, ProperPrefix k' p → k'.length ≤ k.length) →
      (Site.node rs (insert k t' ss)).routeFrom orig p =
        t'.routeFrom orig (normRem (p.drop k.length))) ∧
    (∀ orig p, (lookup p rs ≠ none ∨ ¬ ProperPrefix k p ∨
        ∃ k' ∈ keys ss, ProperPrefix k' p ∧ k.length < k'.length) →
      (Site.node rs (insert k t' ss)).routeFrom orig p = (Site.node rs ss).routeFrom orig p) := by
  have hkm : k ∈ keys ss := mem_keys_of_mem (lookup_mem hk)
  have hkeys : keys (insert k t' ss) = keys ss := keys_insert_of_mem t' hkm
  refine ⟨by simp only [modifyAt_cons, hk, hf, Option.map_some], fun orig p hno hpre hmax => ?_,
    fun orig p hcase => ?_⟩
  · exact (C17_longest_prefix rs _ orig p k t' hno (lookup_insert_self k t' ss) hpre
      (by rw [hkeys]; exact hmax)).1
  · rw [routeFrom_node, routeFrom_node, hkeys]
    cases hl : lookup p rs with
    | some r => rfl
    | none =>
      simp only
      cases hb : bestSplit (keys ss) p (p.length - 1) with
      | none => rfl
      | some j =>
        simp only
        obtain ⟨a, b, c, d⟩ := bestSplit_some hb
        have hne : p.take j ≠ k := by
          intro e
          rcases hcase with h | h | ⟨k', hk', hpre', hlt⟩
          · exact h hl
          · exact h (e ▸ properPrefix_take a b)
          · obtain ⟨h1, h2, h3⟩ := hpre'.eq_take
            have hj : j = k.length := by
              have := congrArg List.length e
              simp only [List.length_take] at this
              omega
            exact d k'.length (by omega) h3 (h1 ▸ hk')
        rw [lookup_insert_ne hne]

/-- **C17 (any history).** After any history of registration calls, one more
`add_resource(path, r)` on the root makes the very next request for `path` reach `r` with the
original path intact. -/
theorem C17_history_then_add (s0 : Site) (history : List Reg) (path : Path) (r : Res)
    (s' : Site) (h : (s0.regs history).reg (.addRes [] path r) = some s') :
    s'.route path = some ⟨r.id, [], path⟩ := by
  generalize s0.regs history = s at h
  cases s with
  | leaf id => simp [Site.reg, Site.modifyAt, Site.addResource] at h
  | node rs ss =>
    obtain ⟨s'', h1, h2, _⟩ := C17_add_resource_next_request rs ss path r
    rw [h1] at h
    cases h
    exact h2 path

-- non-vacuity ----------------------------------------------------------------------------------

/-- `/batch` example of the `Site` docstring plus shadowing: resource `1` at `batch/light1` in the
root, nested site at `batch` with `light1` (2), its root (3), a deeper site at `batch/deep/er`
holding a `PathCapable` leaf (6) -/
def exampleSite : Site :=
  .node [([[1], [2]], ⟨1, false, []⟩)]
    [([[1]], .node [([[2]], ⟨2, false, []⟩), ([], ⟨3, false, []⟩)]
        [([[4], [5]], .node [] [([[7]], .leaf 6)])])]

example : exampleSite.route [[1], [2]] = some ⟨1, [], [[1], [2]]⟩ := by decide   -- exact first
example : exampleSite.route [[1], []] = some ⟨3, [], [[1], []]⟩ := by decide     -- trailing slash
example : exampleSite.route [[1]] = none := by decide                            -- not proper
example : exampleSite.route [[1], [4], [5], [7], [8], []] =
    some ⟨6, [[8], []], [[1], [4], [5], [7], [8], []]⟩ := by decide              -- three levels
example : exampleSite.route [[1], [4], [5], [9]] = none := by decide
/-- the hypotheses of `C17_longest_prefix` are satisfiable -/
example : ProperPrefix [[1]] [[1], [4], [5], [7]] ∧
    ∀ k' ∈ keys [(([[1]] : Path), Site.leaf 0)], ProperPrefix k' [[1], [4], [5], [7]] →
      k'.length ≤ ([[1]] : Path).length := by
  refine ⟨⟨by decide, by decide, ⟨[[4], [5], [7]], rfl⟩⟩, ?_⟩
  intro k' hk' _
  simp [keys] at hk'
  subst hk'; decide
example : Reaches exampleSite [[1], [4], [5], [7]] 6 := by
  unfold exampleSite
  refine Reaches.sub (k := [[1]]) (m := [[4], [5], [7]])
    (t := .node [([[2]], ⟨2, false, []⟩), ([], ⟨3, false, []⟩)]
      [([[4], [5]], .node [] [([[7]], .leaf 6)])]) rfl (by decide) ?_
  refine Reaches.sub (k := [[4], [5]]) (m := [[7]]) (t := .node [] [([[7]], .leaf 6)])
    rfl (by decide) ?_
  exact Reaches.sub (k := [[7]]) (m := []) (t := .leaf 6) rfl (by decide) .leaf
example : (exampleSite.reg (.remove [] [[1], [2]])).map (·.route [[1], [2]]) =
    some (some ⟨2, [], [[1], [2]]⟩) := by decide
example : (exampleSite.reg (.addRes [[[1]]] [[9]] ⟨9, false, []⟩)).map (·.route [[1], [9]]) =
    some (some ⟨9, [], [[1], [9]]⟩) := by decide

end Aiocoap.Apps
