import Proofs.Apps.Site
import Proofs.Apps.Wkc
/-!
# C17 — Site routing: exact match, longest prefix for nested sites, matching discovery

Model: `AiocoapModel/Apps/Site.lean` (`Site.routeFrom`, `Site.route`, `Site.serve`, `Site.reg`)
and `AiocoapModel/Apps/Wkc.lean` (`Site.links`, `wkcRender`) — the functions the driver runs
against the real `Site` / `WKCResource`.  All theorems hold for every tree of registrations
(any nesting depth, any keys incl. empty components and empty paths), every request path and
every original path.  Only property theorems and non-vacuity examples live in this file.
-/
namespace Aiocoap.Apps

-- routing: the three clauses -----------------------------------------------------------------

/-- **C17 (exact match first).** A resource registered at exactly the request path renders the
request, whatever nested sites are registered (also at prefixes of, or at, the same path); it
sees an empty `uri_path`. -/
theorem C17_exact_first (rs : List (Path × Res)) (ss : List (Path × Site)) (orig p : Path)
    (r : Res) (h : lookup p rs = some r) :
    (Site.node rs ss).routeFrom orig p = some ⟨r.id, [], orig⟩ := by
  rw [routeFrom_node, h]

/-- **C17 (longest prefix).** Without a resource at exactly `p`, the nested site `t` registered
at the longest non-empty proper prefix `k` of `p` handles the request: the result is whatever `t`
does with the remaining components `p.drop k.length` (a lone empty component addressing `t`'s own
root) and the same original path — including `t`'s own 4.04, there is no fall-back to a shorter
prefix. -/
theorem C17_longest_prefix (rs : List (Path × Res)) (ss : List (Path × Site)) (orig p k : Path)
    (t : Site) (hno : lookup p rs = none) (hk : lookup k ss = some t) (hpre : ProperPrefix k p)
    (hmax : ∀ k' ∈ keys ss, ProperPrefix k' p → k'.length ≤ k.length) :
    (Site.node rs ss).routeFrom orig p = t.routeFrom orig (normRem (p.drop k.length)) ∧
      k ++ p.drop k.length = p := by
  have hb := bestSplit_of_longest (mem_keys_of_mem (lookup_mem hk)) hpre hmax
  rw [routeFrom_node, hno]
  simp only [hb]
  rw [← hpre.eq_take.1, hk]
  exact ⟨rfl, hpre.split.1⟩

/-- **C17 (otherwise 4.04).** No resource at exactly `p` and no nested site at a non-empty proper
prefix of `p`: `KeyError`, i.e. 4.04 (in particular: a nested site registered at `p` itself or at
the empty path never answers). -/
theorem C17_else_404 (rs : List (Path × Res)) (ss : List (Path × Site)) (orig p : Path)
    (hno : lookup p rs = none) (hnone : ∀ k ∈ keys ss, ¬ ProperPrefix k p) :
    (Site.node rs ss).routeFrom orig p = none := by
  rw [routeFrom_node, hno]
  simp only [bestSplit_none_of_no_prefix hnone]

/-- The three clauses are exhaustive: every site and request path falls under exactly one of
`C17_exact_first`, `C17_longest_prefix`, `C17_else_404`. -/
theorem C17_route_cases (rs : List (Path × Res)) (ss : List (Path × Site)) (p : Path) :
    (∃ r, lookup p rs = some r) ∨
    (lookup p rs = none ∧ ∃ k t, lookup k ss = some t ∧ ProperPrefix k p ∧
        ∀ k' ∈ keys ss, ProperPrefix k' p → k'.length ≤ k.length) ∨
    (lookup p rs = none ∧ ∀ k ∈ keys ss, ¬ ProperPrefix k p) := by
  cases hl : lookup p rs with
  | some r => exact Or.inl ⟨r, rfl⟩
  | none =>
    right
    cases hb : bestSplit (keys ss) p (p.length - 1) with
    | none =>
      right
      refine ⟨rfl, fun k hk hpre => ?_⟩
      obtain ⟨h1, h2, h3⟩ := hpre.eq_take
      exact bestSplit_none hb k.length h2 h3 (h1 ▸ hk)
    | some j =>
      left
      obtain ⟨a, b, c, d⟩ := bestSplit_some hb
      obtain ⟨t, ht⟩ := Option.isSome_iff_exists.mp (lookup_isSome_iff.mpr c)
      refine ⟨rfl, p.take j, t, ht, properPrefix_take a b, fun k' hk' hpre' => ?_⟩
      obtain ⟨h1, h2, h3⟩ := hpre'.eq_take
      simp only [List.length_take]
      by_cases hlt : j < k'.length
      · exact absurd (h1 ▸ hk') (d k'.length hlt h3)
      · omega

/-- `Site.serve` (what `render_to_pipe` of the root answers) in terms of `route`: 4.04 exactly
when routing finds nothing. -/
theorem C17_serve_404_iff (s : Site) (p : Path) :
    s.serve none p = .notFound ↔ s.route p = none := by
  simp only [Site.serve, expandUpa]
  cases h : s.route p <;> simp

/-- Uri-Path-Abbrev (`_expand_upa`): a known value without Uri-Path is served exactly like the
request for the path it abbreviates (so all clauses apply to it); together with a Uri-Path, or
unknown, it is a 4.02. -/
theorem C17_uri_path_abbrev (s : Site) (n : Nat) (p : Path) :
    s.serve (some n) p =
      if p ≠ [] then .badOption else
      match upaTable.lookup n with
      | some q => s.serve none q
      | none => .badOption := by
  simp only [Site.serve, expandUpa]
  by_cases hp : p = []
  · simp only [hp, ne_eq, not_true_eq_false, ↓reduceIte]
    cases upaTable.lookup n <;> rfl
  · simp [hp]

-- the handler's view -----------------------------------------------------------------------

/-- `Reaches s m id`: following registration keys that concatenate to `m` from `s` — sub-site
keys (non-empty) and finally a resource key, or ending at a `PathCapable` leaf — one arrives at
the handler `id`. -/
inductive Reaches : Site → Path → Nat → Prop where
  | res {rs ss q r} : lookup q rs = some r → Reaches (.node rs ss) q r.id
  | leaf {id} : Reaches (.leaf id) [] id
  | sub {rs ss k t m id} : lookup k ss = some t → k ≠ [] → Reaches t m id →
      Reaches (.node rs ss) (k ++ m) id

theorem stripped_and_original_aux (s : Site) : ∀ (orig p : Path) (h : Hit),
    s.routeFrom orig p = some h →
    h.orig = orig ∧ ∃ m, Reaches s m h.id ∧ (p = m ++ h.seen ∨ (h.seen = [] ∧ p = m ++ [[]])) := by
  induction s using Site.induct with
  | leaf id =>
    intro orig p h hr
    rw [Site.routeFrom.eq_1] at hr
    cases hr
    exact ⟨rfl, [], .leaf, Or.inl rfl⟩
  | node rs ss ih =>
    intro orig p h hr
    rw [routeFrom_node] at hr
    cases hl : lookup p rs with
    | some r =>
      simp only [hl, Option.some.injEq] at hr
      subst hr
      exact ⟨rfl, p, .res hl, Or.inl (by simp)⟩
    | none =>
      simp only [hl] at hr
      cases hb : bestSplit (keys ss) p (p.length - 1) with
      | none => simp [hb] at hr
      | some j =>
        simp only [hb] at hr
        obtain ⟨a, b, c, _⟩ := bestSplit_some hb
        cases hk : lookup (p.take j) ss with
        | none => simp [hk] at hr
        | some t =>
          simp only [hk] at hr
          obtain ⟨ho, m, hreach, hsplit⟩ := ih _ t (lookup_mem hk) orig _ h hr
          have hpp := properPrefix_take a b
          have hsp : p.take j ++ p.drop j = p := List.take_append_drop j p
          refine ⟨ho, p.take j ++ m, .sub hk hpp.1 hreach, ?_⟩
          unfold normRem at hsplit
          by_cases hrem : p.drop j = [[]]
          · simp only [hrem, ↓reduceIte] at hsplit
            rcases hsplit with h1 | ⟨_, h1⟩
            · have hm : m = [] ∧ h.seen = [] := List.append_eq_nil_iff.mp h1.symm
              right
              refine ⟨hm.2, ?_⟩
              rw [hm.1, List.append_nil, ← hrem, hsp]
            · cases m <;> simp at h1
          · simp only [hrem, ↓reduceIte] at hsplit
            rcases hsplit with h1 | ⟨h0, h1⟩
            · left; rw [List.append_assoc, ← h1, hsp]
            · right; exact ⟨h0, by rw [List.append_assoc, ← h1, hsp]⟩

/-- **C17 (stripped path, original URI).** Whenever a request for `p` is rendered by a handler,
the handler still has the original path (`_original_request_path = p`, from which
`get_request_uri` rebuilds the URI), it is reached through registration keys concatenating to
`matched`, and what it sees as `uri_path` is the rest: `p = matched ++ seen` — or
`p = matched ++ [""]` with nothing left to see, for the trailing slash that addresses a nested
site's root. -/
theorem C17_stripped_and_original (s : Site) (p : Path) (h : Hit) (hr : s.route p = some h) :
    h.orig = p ∧ ∃ matched, Reaches s matched h.id ∧
      (p = matched ++ h.seen ∨ (h.seen = [] ∧ p = matched ++ [[]])) :=
  stripped_and_original_aux s p p h hr

/-- A plain resource (anything that is not a `PathCapable` leaf) never sees path components:
reaching a resource leaves `seen = []`. -/
theorem C17_resource_sees_empty_path (rs : List (Path × Res)) (ss : List (Path × Site))
    (orig p : Path) (r : Res) (h : lookup p rs = some r) :
    ((Site.node rs ss).routeFrom orig p).map (·.seen) = some [] := by
  rw [C17_exact_first rs ss orig p r h]; rfl

-- registration changes -----------------------------------------------------------------------

/-- **C17 (add takes effect).** Right after `add_resource(path, r)` a request for `path` is
rendered by `r`; requests for any other path are answered as before. -/
theorem C17_add_resource_next_request (rs : List (Path × Res)) (ss : List (Path × Site))
    (path : Path) (r : Res) :
    ∃ s', (Site.node rs ss).reg (.addRes [] path r) = some s' ∧
      (∀ orig, s'.routeFrom orig path = some ⟨r.id, [], orig⟩) ∧
      (∀ orig p, p ≠ path → s'.routeFrom orig p = (Site.node rs ss).routeFrom orig p) := by
  refine ⟨.node (insert path r rs) ss, rfl, fun orig => ?_, fun orig p hp => ?_⟩
  · exact C17_exact_first _ _ _ _ _ (lookup_insert_self path r rs)
  · rw [routeFrom_node, routeFrom_node, lookup_insert_ne hp]

/-- **C17 (remove takes effect).** `remove_resource(path)` on a site that has no nested site at
`path` succeeds iff a resource is registered there; right afterwards that resource no longer
answers — a request for `path` is handled as if only the nested sites existed (4.04 unless one is
registered at a proper prefix) — and requests for other paths are answered as before. -/
theorem C17_remove_resource_next_request (rs : List (Path × Res)) (ss : List (Path × Site))
    (path : Path) (hsub : path ∉ keys ss) :
    ((Site.node rs ss).reg (.remove [] path) = none ↔ lookup path rs = none) ∧
    ∀ s', (Site.node rs ss).reg (.remove [] path) = some s' →
      (∀ orig, s'.routeFrom orig path = (Site.node [] ss).routeFrom orig path) ∧
      (∀ orig p, p ≠ path → s'.routeFrom orig p = (Site.node rs ss).routeFrom orig p) := by
  have hreg : (Site.node rs ss).reg (.remove [] path) =
      if path ∈ keys rs then some (.node (erase path rs) ss) else none := by
    simp [Site.reg, Site.modifyAt, Site.remove, hsub]
  rw [hreg]
  by_cases hr : path ∈ keys rs
  · simp only [hr, ↓reduceIte, reduceCtorEq, false_iff, Option.some.injEq]
    refine ⟨fun h => lookup_eq_none_iff.mp h hr, ?_⟩
    rintro s' rfl
    refine ⟨fun orig => ?_, fun orig p hp => ?_⟩
    · rw [routeFrom_node, routeFrom_node, lookup_erase_self]; rfl
    · rw [routeFrom_node, routeFrom_node, lookup_erase_ne hp]
  · simp only [hr, ↓reduceIte, true_iff]
    exact ⟨lookup_eq_none_iff.mpr hr, fun s' h => by cases h⟩

/-- **C17 (nested site added / replaced).** Right after `add_resource(k, t)` with a
`PathCapable` `t`, every request that has no exact resource, has `k` as non-empty proper prefix
and no longer registered prefix goes to `t` with the remaining components; requests of which `k`
is not a proper prefix are answered as before. -/
theorem C17_add_site_next_request (rs : List (Path × Res)) (ss : List (Path × Site))
    (k : Path) (t : Site) :
    ∃ s', (Site.node rs ss).reg (.addSite [] k t) = some s' ∧
      (∀ orig p, lookup p rs = none → ProperPrefix k p →
        (∀ k' ∈ keys ss, ProperPrefix k' p → k'.length ≤ k.length) →
        s'.routeFrom orig p = t.routeFrom orig (normRem (p.drop k.length))) ∧
      (∀ orig p, ¬ ProperPrefix k p → s'.routeFrom orig p = (Site.node rs ss).routeFrom orig p) := by
  refine ⟨.node rs (insert k t ss), rfl, fun orig p hno hpre hmax => ?_, fun orig p hnp => ?_⟩
  · refine (C17_longest_prefix rs _ orig p k t hno (lookup_insert_self k t ss) hpre ?_).1
    intro k' hk' hpre'
    rcases mem_keys_insert.mp hk' with rfl | h
    · exact Nat.le_refl _
    · exact hmax k' h hpre'
  · -- `k` is no candidate for `p`, so the search sees the same candidates with the same values
    rw [routeFrom_node, routeFrom_node]
    cases lookup p rs with
    | some r => rfl
    | none =>
      simp only
      have hsame : bestSplit (keys (insert k t ss)) p (p.length - 1) =
          bestSplit (keys ss) p (p.length - 1) := by
        cases hb : bestSplit (keys ss) p (p.length - 1) with
        | none =>
          apply bestSplit_none_of_no_prefix
          intro k' hk' hpre'
          rcases mem_keys_insert.mp hk' with rfl | h
          · exact hnp hpre'
          · obtain ⟨h1, h2, h3⟩ := hpre'.eq_take
            exact bestSplit_none hb _ h2 h3 (h1 ▸ h)
        | some j =>
          obtain ⟨a, b, c, d⟩ := bestSplit_some hb
          have := bestSplit_of_longest (ks := keys (insert k t ss)) (p := p) (k := p.take j)
            (mem_keys_insert.mpr (Or.inr c)) (properPrefix_take a b) (by
              intro k' hk' hpre'
              rcases mem_keys_insert.mp hk' with rfl | h
              · exact absurd hpre' hnp
              · obtain ⟨h1, h2, h3⟩ := hpre'.eq_take
                simp only [List.length_take]
                by_cases hlt : j < k'.length
                · exact absurd (h1 ▸ h) (d _ hlt h3)
                · omega)
          simp only [List.length_take] at this
          rw [this]; congr; omega
      rw [hsame]
      cases hb : bestSplit (keys ss) p (p.length - 1) with
      | none => rfl
      | some j =>
        simp only
        obtain ⟨a, b, _, _⟩ := bestSplit_some hb
        have hne : p.take j ≠ k := fun e => hnp (e ▸ properPrefix_take a b)
        rw [lookup_insert_ne hne]

/-- **C17 (nested site removed).** `remove_resource(k)` on a site with a nested site at `k`
removes that nested site (not a resource of the same path); afterwards no request is routed into
it: one whose only registered proper prefix was `k` gets 4.04 unless a resource matches exactly,
and requests of which `k` is not a proper prefix are answered as before. -/
theorem C17_remove_site_next_request (rs : List (Path × Res)) (ss : List (Path × Site))
    (k : Path) (hk : k ∈ keys ss) :
    (Site.node rs ss).reg (.remove [] k) = some (.node rs (erase k ss)) ∧
    (∀ orig p, lookup p rs = none →
      (∀ k' ∈ keys ss, ProperPrefix k' p → k' = k) →
      (Site.node rs (erase k ss)).routeFrom orig p = none) ∧
    (∀ orig p, ¬ ProperPrefix k p →
      (Site.node rs (erase k ss)).routeFrom orig p = (Site.node rs ss).routeFrom orig p) := by
  refine ⟨by simp [Site.reg, Site.modifyAt, Site.remove, hk], fun orig p hno honly => ?_,
    fun orig p hnp => ?_⟩
  · apply C17_else_404 _ _ _ _ hno
    intro k' hk' hpre'
    obtain ⟨hne, hmem⟩ := mem_keys_erase.mp hk'
    exact hne (honly k' hmem hpre')
  · rw [routeFrom_node, routeFrom_node]
    cases lookup p rs with
    | some r => rfl
    | none =>
      simp only
      have hsame : bestSplit (keys (erase k ss)) p (p.length - 1) =
          bestSplit (keys ss) p (p.length - 1) := by
        cases hb : bestSplit (keys ss) p (p.length - 1) with
        | none =>
          apply bestSplit_none_of_no_prefix
          intro k' hk' hpre'
          obtain ⟨h1, h2, h3⟩ := hpre'.eq_take
          exact bestSplit_none hb _ h2 h3 (h1 ▸ (mem_keys_erase.mp hk').2)
        | some j =>
          obtain ⟨a, b, c, d⟩ := bestSplit_some hb
          have hne : p.take j ≠ k := fun e => hnp (e ▸ properPrefix_take a b)
          have := bestSplit_of_longest (ks := keys (erase k ss)) (p := p) (k := p.take j)
            (mem_keys_erase.mpr ⟨hne, c⟩) (properPrefix_take a b) (by
              intro k' hk' hpre'
              obtain ⟨h1, h2, h3⟩ := hpre'.eq_take
              simp only [List.length_take]
              by_cases hlt : j < k'.length
              · exact absurd (h1 ▸ (mem_keys_erase.mp hk').2) (d _ hlt h3)
              · omega)
          simp only [List.length_take] at this
          rw [this]; congr; omega
      rw [hsame]
      cases hb : bestSplit (keys ss) p (p.length - 1) with
      | none => rfl
      | some j =>
        simp only
        obtain ⟨a, b, _, _⟩ := bestSplit_some hb
        have hne : p.take j ≠ k := fun e => hnp (e ▸ properPrefix_take a b)
        rw [lookup_erase_ne hne]

/-- **C17 (changes inside a nested site).** A registration call on the nested site object at
`k` (address `k :: ks`, any depth) keeps that site's entry in its parent in place; right
afterwards the requests the parent routes into `k` are answered by the changed nested site, all
others as before. -/
theorem C17_nested_change_next_request (rs : List (Path × Res)) (ss : List (Path × Site))
    (k : Path) (ks : List Path) (t t' : Site) (f : Site → Option Site)
    (hk : lookup k ss = some t) (hf : t.modifyAt f ks = some t') :
    (Site.node rs ss).modifyAt f (k :: ks) = some (.node rs (insert k t' ss)) ∧
    (∀ orig p, lookup p rs = none → ProperPrefix k p →
      (∀ k' ∈ keys ss, ProperPrefix k' p → k'.length ≤ k.length) →
      (Site.node rs (insert k t' ss)).routeFrom orig p =
        t'.routeFrom orig (normRem (p.drop k.length))) ∧
    (∀ orig p, (lookup p rs ≠ none ∨ ¬ ProperPrefix k p ∨
        ∃ k' ∈ keys ss, ProperPrefix k' p ∧ k.length < k'.length) →
      (Site.node rs (insert k t' ss)).routeFrom orig p = (Site.node rs ss).routeFrom orig p) := by
  have hkm : k ∈ keys ss := mem_keys_of_mem (lookup_mem hk)
  have hkeys : keys (insert k t' ss) = keys ss := keys_insert_of_mem t' hkm
  refine ⟨by simp only [modifyAt_cons, hk, hf, Option.map_some], fun orig p hno hpre hmax => ?_,
    fun orig p hcase => ?_⟩
  · exact (C17_longest_prefix rs _ orig p k t' hno (lookup_insert_self k t' ss) hpre
      (by rw [hkeys]; exact hmax)).1
  · rw [routeFrom_node, routeFrom_node, hkeys]
    cases hl : lookup p rs with
    | some r => rfl
    | none =>
      simp only
      cases hb : bestSplit (keys ss) p (p.length - 1) with
      | none => rfl
      | some j =>
        simp only
        obtain ⟨a, b, c, d⟩ := bestSplit_some hb
        have hne : p.take j ≠ k := by
          intro e
          rcases hcase with h | h | ⟨k', hk', hpre', hlt⟩
          · exact h hl
          · exact h (e ▸ properPrefix_take a b)
          · obtain ⟨h1, h2, h3⟩ := hpre'.eq_take
            have hj : j = k.length := by
              have := congrArg List.length e
              simp only [List.length_take] at this
              omega
            exact d k'.length (by omega) h3 (h1 ▸ hk')
        rw [lookup_insert_ne hne]

/-- **C17 (any history).** After any history of registration calls, one more
`add_resource(path, r)` on the root makes the very next request for `path` reach `r` with the
original path intact. -/
theorem C17_history_then_add (s0 : Site) (history : List Reg) (path : Path) (r : Res)
    (s' : Site) (h : (s0.regs history).reg (.addRes [] path r) = some s') :
    s'.route path = some ⟨r.id, [], path⟩ := by
  generalize s0.regs history = s at h
  cases s with
  | leaf id => simp [Site.reg, Site.modifyAt, Site.addResource] at h
  | node rs ss =>
    obtain ⟨s'', h1, h2, _⟩ := C17_add_resource_next_request rs ss path r
    rw [h1] at h
    cases h
    exact h2 path

-- the registration dicts stay dicts ------------------------------------------------------------

/-- every `_resources` / `_subsites` in the tree has unique keys (is a dict) -/
inductive DictTree : Site → Prop where
  | leaf {id} : DictTree (.leaf id)
  | node {rs ss} : (keys rs).Nodup → (keys ss).Nodup → (∀ k t, (k, t) ∈ ss → DictTree t) →
      DictTree (.node rs ss)

theorem dictTree_modifyAt (f : Site → Option Site)
    (hf : ∀ s s', DictTree s → f s = some s' → DictTree s') :
    ∀ (addr : List Path) (s s' : Site), DictTree s → s.modifyAt f addr = some s' → DictTree s' := by
  intro addr
  induction addr with
  | nil => intro s s' hs h; rw [Site.modifyAt.eq_1] at h; exact hf s s' hs h
  | cons k ks ih =>
    intro s s' hs h
    cases s with
    | leaf id => simp [Site.modifyAt] at h
    | node rs ss =>
      rw [modifyAt_cons] at h
      cases hk : lookup k ss with
      | none => simp [hk] at h
      | some t =>
        simp only [hk, Option.map_eq_some_iff] at h
        obtain ⟨t', ht', rfl⟩ := h
        cases hs with
        | node h1 h2 h3 =>
          refine .node h1 (keys_insert_nodup t' h2) fun k'' t'' hm => ?_
          rcases mem_insert hm with he | he
          · cases he; exact ih t t' (h3 k t (lookup_mem hk)) ht'
          · exact h3 k'' t'' he

/-- **C17 (model faithfulness: dicts).** Starting from a tree whose registration tables have
unique keys (e.g. the empty `Site()`), every registration call at any nesting depth keeps them
unique: `insert`/`erase` on association lists behave like the Python dict operations. -/
theorem C17_dict_invariant (s : Site) (hs : DictTree s) (history : List Reg)
    (hadd : ∀ a p t, Reg.addSite a p t ∈ history → DictTree t) :
    DictTree (s.regs history) := by
  induction history generalizing s with
  | nil => exact hs
  | cons r rest ih =>
    rw [Site.regs]
    refine ih _ ?_ (fun a p t h => hadd a p t (List.mem_cons_of_mem _ h))
    cases hr : s.reg r with
    | none => exact hs
    | some s' =>
      simp only [Option.getD_some]
      cases r with
      | addRes a p res =>
        refine dictTree_modifyAt _ (fun x x' hx hxx => ?_) a s s' hs hr
        cases x with
        | leaf id => simp [Site.addResource] at hxx
        | node rs ss =>
          simp only [Site.addResource, Option.some.injEq] at hxx
          subst hxx
          cases hx with
          | node h1 h2 h3 => exact .node (keys_insert_nodup res h1) h2 h3
      | addSite a p t =>
        have ht := hadd a p t List.mem_cons_self
        refine dictTree_modifyAt _ (fun x x' hx hxx => ?_) a s s' hs hr
        cases x with
        | leaf id => simp [Site.addSite] at hxx
        | node rs ss =>
          simp only [Site.addSite, Option.some.injEq] at hxx
          subst hxx
          cases hx with
          | node h1 h2 h3 =>
            refine .node h1 (keys_insert_nodup t h2) fun k'' t'' hm => ?_
            rcases mem_insert hm with he | he
            · cases he; exact ht
            · exact h3 k'' t'' he
      | remove a p =>
        refine dictTree_modifyAt _ (fun x x' hx hxx => ?_) a s s' hs hr
        cases x with
        | leaf id => simp [Site.remove] at hxx
        | node rs ss =>
          cases hx with
          | node h1 h2 h3 =>
            simp only [Site.remove] at hxx
            split at hxx
            · cases hxx
              exact .node h1 (keys_erase_nodup h2) fun k'' t'' hm => h3 k'' t'' (mem_of_mem_erase hm)
            · split at hxx
              · cases hxx
                exact .node (keys_erase_nodup h1) h2 h3
              · cases hxx

-- discovery ---------------------------------------------------------------------------------

/-- `Registered s fp r`: resource `r` is registered somewhere in the tree `s`, and `fp` are the
segments of its full path through the nested sites: its own registration path, prefixed by the
keys of the sub-sites above it (`seg` turns an empty path into the single empty segment — the root
resource of a nested site at `k` is `k/`; for non-empty keys `seg k = k`). -/
inductive Registered : Site → Path → Res → Prop where
  | res {rs ss q r} : (q, r) ∈ rs → Registered (.node rs ss) (seg q) r
  | sub {rs ss k t fp r} : (k, t) ∈ ss → Registered t fp r →
      Registered (.node rs ss) (seg k ++ fp) r

theorem Registered.ne_nil {s : Site} {fp : Path} {r : Res} (h : Registered s fp r) : fp ≠ [] := by
  cases h with
  | res _ => exact seg_ne_nil _
  | sub _ _ => intro e; exact seg_ne_nil _ (List.append_eq_nil_iff.mp e).1

/-- **C17 (listing = visible registered resources, full paths).** A link is in what
`get_resources_as_linkheader` returns iff it is `</full/path>` + description of a registered
resource that does not hide itself (`get_link_description() is None`), with the full path
through all nested sites. -/
theorem C17_wkc_exact (s : Site) : ∀ l : Link,
    l ∈ s.links ↔ ∃ fp r, Registered s fp r ∧ r.hidden = false ∧
      l = ⟨47 :: joinSlash fp, r.attrs⟩ := by
  induction s using Site.induct with
  | leaf id =>
    intro l
    simp only [Site.links.eq_1, List.not_mem_nil, false_iff]
    rintro ⟨fp, r, h, _⟩; cases h
  | node rs ss ih =>
    intro l
    rw [links_node, List.mem_append, mem_resLinks]
    simp only [List.mem_flatMap, List.mem_map]
    constructor
    · rintro (⟨q, r, hm, hv, rfl⟩ | ⟨⟨k, t⟩, hm, l', hl', rfl⟩)
      · exact ⟨seg q, r, .res hm, hv, by rw [joinSlash_seg]⟩
      · obtain ⟨fp, r, hreg, hv, rfl⟩ := (ih k t hm l').mp hl'
        exact ⟨seg k ++ fp, r, .sub hm hreg, hv, prefixLink_href k hreg.ne_nil _⟩
    · rintro ⟨fp, r, hreg, hv, rfl⟩
      cases hreg with
      | res hm => exact Or.inl ⟨_, r, hm, hv, by rw [joinSlash_seg]⟩
      | @sub _ _ k t fp' _ hm hreg' =>
        refine Or.inr ⟨(k, t), hm, ⟨47 :: joinSlash fp', r.attrs⟩, ?_, prefixLink_href k hreg'.ne_nil _⟩
        exact (ih k t hm _).mpr ⟨fp', r, hreg', hv, rfl⟩

mutual
/-- number of registered resources in the tree that do not hide themselves -/
def Site.visibleCount : Site → Nat
  | .leaf _ => 0
  | .node rs ss => (rs.filter (fun e => !e.2.hidden)).length + visibleCountSubs ss
def visibleCountSubs : List (Path × Site) → Nat
  | [] => 0
  | (_, s) :: rest => s.visibleCount + visibleCountSubs rest
end

theorem visibleCountSubs_eq (ss : List (Path × Site)) :
    visibleCountSubs ss = (ss.map (fun e => e.2.visibleCount)).sum := by
  induction ss with
  | nil => rfl
  | cons e ss ih => obtain ⟨k, t⟩ := e; simp [visibleCountSubs, ih]

/-- **C17 (listing, multiplicity).** The listing has exactly one link per visible registered
resource: together with `C17_wkc_exact`, nothing is listed twice or dropped. -/
theorem C17_wkc_count (s : Site) : s.links.length = s.visibleCount := by
  induction s using Site.induct with
  | leaf id => simp [Site.links, Site.visibleCount]
  | node rs ss ih =>
    rw [links_node, Site.visibleCount.eq_2, visibleCountSubs_eq, List.length_append,
      length_resLinks, List.length_flatMap]
    congr 1
    congr 1
    apply List.map_congr_left
    intro e he
    obtain ⟨k, t⟩ := e
    simp only [List.length_map]
    exact ih k t he

/-- **C17 (discovery matches routing).** A link listed for a resource of a nested site —
registered at `q` in the site registered at `k` — names the path `k ++ seg q`; a request for that
path is rendered by that very resource, provided nothing shadows it (no root resource at the same
path, no nested site at a longer prefix) and `q` is not the lone empty component (which, like the
empty path, denotes `k/`).  Root-level links (`k`-less) are `C17_exact_first`. -/
theorem C17_listed_link_routes_to_resource (rs rs' : List (Path × Res))
    (ss ss' : List (Path × Site)) (k q : Path) (r : Res)
    (hdict : (keys ss).Nodup) (hdict' : (keys rs').Nodup)
    (hk : (k, Site.node rs' ss') ∈ ss) (hkne : k ≠ []) (hq : (q, r) ∈ rs') (hq1 : q ≠ [[]])
    (hshadow : lookup (k ++ seg q) rs = none)
    (hlonger : ∀ k' ∈ keys ss, ProperPrefix k' (k ++ seg q) → k'.length ≤ k.length) :
    Registered (Site.node rs ss) (k ++ seg q) r ∧
    (Site.node rs ss).route (k ++ seg q) = some ⟨r.id, [], k ++ seg q⟩ := by
  constructor
  · have := Registered.sub (rs := rs) hk (Registered.res (ss := ss') hq)
    rwa [seg_of_ne_nil hkne] at this
  · have hpre : ProperPrefix k (k ++ seg q) := by
      refine ⟨hkne, ?_, List.prefix_append k _⟩
      have := List.length_pos_iff.mpr (seg_ne_nil q)
      simp only [List.length_append]; omega
    unfold Site.route
    rw [(C17_longest_prefix rs ss _ _ k _ hshadow (lookup_of_mem hdict hk) hpre hlonger).1,
      List.drop_left]
    have hn : normRem (seg q) = q := by
      unfold normRem seg
      by_cases h : q = []
      · simp [h]
      · simp [h, hq1]
    rw [hn]
    exact C17_exact_first rs' ss' _ q r (lookup_of_mem hdict' hq)

-- RFC 6690 filter ---------------------------------------------------------------------------

/-- RFC 6690 §4.1 query pattern: a trailing `*` makes the rest a prefix to find, otherwise the
value has to be identical -/
def PatMatch (v x : Str) : Prop := if v.getLast? = some 42 then v.dropLast <+: x else x = v

/-- the link has an attribute named `k` (names compare case-insensitively) with value `val`;
an attribute without a value has none -/
def HasValue (l : Link) (k val : Str) : Prop :=
  ∃ key, (key, some val) ∈ l.attrs ∧ lowerAscii key = lowerAscii k

/-- `part` is one entry of the space-separated list `val` (a maximal space-free piece) -/
def Entry (val part : Str) : Prop :=
  32 ∉ part ∧ ∃ pre post, val = pre ++ part ++ post ∧
    (pre = [] ∨ ∃ pre', pre = pre' ++ [32]) ∧ (post = [] ∨ ∃ post', post = 32 :: post')

/-- RFC 6690 §4.1: does the link match the filter `k=v`?  `href` is compared with the link
target; `rt`, `if` and `ct` hold space-separated lists of which one entry has to match; any other
attribute is compared as a whole. A link without the attribute does not match. -/
def Matches (k v : Str) (l : Link) : Prop :=
  if k = kHref then PatMatch v l.href
  else if k = kRt ∨ k = kIf ∨ k = kCt then
    ∃ val part, HasValue l k val ∧ Entry val part ∧ PatMatch v part
  else ∃ val, HasValue l k val ∧ PatMatch v val

theorem linkMatches_iff (k v : Str) (l : Link) : linkMatches k v l = true ↔ Matches k v l := by
  unfold linkMatches Matches
  by_cases hh : k = kHref
  · subst hh
    have hn : ¬ (kHref = kRt ∨ kHref = kIf ∨ kHref = kCt) := by decide
    simp only [hn, ↓reduceIte, matchExp_iff, PatMatch]
  · by_cases hm : k = kRt ∨ k = kIf ∨ k = kCt
    · simp only [hm, hh, ↓reduceIte, List.any_eq_true, matchExp_iff, PatMatch]
      constructor
      · rintro ⟨val, hv, part, hp, hmatch⟩
        exact ⟨val, part, mem_attributeValues.mp hv, mem_splitOn.mp hp, hmatch⟩
      · rintro ⟨val, part, hv, hp, hmatch⟩
        exact ⟨val, mem_attributeValues.mpr hv, part, mem_splitOn.mpr hp, hmatch⟩
    · simp only [hm, hh, ↓reduceIte, List.any_eq_true, matchExp_iff, PatMatch]
      constructor
      · rintro ⟨val, hv, hmatch⟩; exact ⟨val, mem_attributeValues.mp hv, hmatch⟩
      · rintro ⟨val, hv, hmatch⟩; exact ⟨val, mem_attributeValues.mpr hv, hmatch⟩

/-- what `render_get` filters: the generator's links plus the optional impl-info link -/
def wkcAll (links : List Link) (implInfo : Option Str) : List Link :=
  links ++ (match implInfo with | some u => [implInfoLink u] | none => [])

/-- how a query item is read: `k=v` split at the first `=`, items without `=` are no filters -/
theorem C17_filter_query_parse (q k v : Str) :
    (splitEq q = some (k, v) ↔ q = k ++ 61 :: v ∧ 61 ∉ k) ∧ (splitEq q = none ↔ 61 ∉ q) := by
  refine ⟨⟨splitEq_some, fun ⟨h1, h2⟩ => h1 ▸ splitEq_of_eq h2⟩, splitEq_none, fun h => ?_⟩
  cases hs : splitEq q with
  | none => rfl
  | some kv =>
    obtain ⟨h1, _⟩ := splitEq_some (k := kv.1) (v := kv.2) hs
    exact absurd (h1 ▸ by simp) h

/-- **C17 (filter = matching subset).** With one RFC 6690 filter `k=v` / `k=v*` in the query
(items without `=` are ignored), `/.well-known/core` answers exactly the sub-list of the links it
would list without query that match the filter: same order, same multiplicity, nothing else. -/
theorem C17_filter_subset (links : List Link) (implInfo : Option Str) (queries : List Str)
    (k v : Str) (hq : queries.filterMap splitEq = [(k, v)]) :
    ∃ keep : Link → Bool, (∀ l, keep l = true ↔ Matches k v l) ∧
      wkcRender links implInfo queries = some ((wkcAll links implInfo).filter keep) := by
  refine ⟨linkMatches k v, linkMatches_iff k v, ?_⟩
  cases implInfo <;> simp only [wkcRender, hq, wkcAll]

/-- without a filter the whole listing is returned -/
theorem C17_no_filter_full_listing (links : List Link) (implInfo : Option Str)
    (queries : List Str) (hq : ∀ q ∈ queries, 61 ∉ q) :
    wkcRender links implInfo queries = some (wkcAll links implInfo) := by
  have : queries.filterMap splitEq = [] := by
    rw [List.filterMap_eq_nil_iff]
    intro q hmem
    exact ((C17_filter_query_parse q [] []).2).mpr (hq q hmem)
  cases implInfo <;> simp only [wkcRender, this, wkcAll]

/-- membership form of `C17_filter_subset` -/
theorem C17_filter_mem (links : List Link) (implInfo : Option Str) (queries : List Str)
    (k v : Str) (hq : queries.filterMap splitEq = [(k, v)]) :
    ∃ result, wkcRender links implInfo queries = some result ∧ result.Sublist (wkcAll links implInfo) ∧
      ∀ l, l ∈ result ↔ l ∈ wkcAll links implInfo ∧ Matches k v l := by
  obtain ⟨keep, hkeep, hres⟩ := C17_filter_subset links implInfo queries k v hq
  refine ⟨_, hres, List.filter_sublist, fun l => ?_⟩
  rw [List.mem_filter, hkeep]

-- non-vacuity ----------------------------------------------------------------------------------

/-- `/batch` example of the `Site` docstring plus shadowing: resource `1` at `batch/light1` in the
root, nested site at `batch` with `light1` (2), its root (3), a deeper site at `batch/deep/er`
holding a `PathCapable` leaf (6) -/
def exampleSite : Site :=
  .node [([[1], [2]], ⟨1, false, []⟩)]
    [([[1]], .node [([[2]], ⟨2, false, []⟩), ([], ⟨3, false, []⟩)]
        [([[4], [5]], .node [] [([[7]], .leaf 6)])])]

example : exampleSite.route [[1], [2]] = some ⟨1, [], [[1], [2]]⟩ := by decide   -- exact first
example : exampleSite.route [[1], []] = some ⟨3, [], [[1], []]⟩ := by decide     -- trailing slash
example : exampleSite.route [[1]] = none := by decide                            -- not proper
example : exampleSite.route [[1], [4], [5], [7], [8], []] =
    some ⟨6, [[8], []], [[1], [4], [5], [7], [8], []]⟩ := by decide              -- three levels
example : exampleSite.route [[1], [4], [5], [9]] = none := by decide
/-- the hypotheses of `C17_longest_prefix` are satisfiable -/
example : ProperPrefix [[1]] [[1], [4], [5], [7]] ∧
    ∀ k' ∈ keys [(([[1]] : Path), Site.leaf 0)], ProperPrefix k' [[1], [4], [5], [7]] →
      k'.length ≤ ([[1]] : Path).length := by
  refine ⟨⟨by decide, by decide, ⟨[[4], [5], [7]], rfl⟩⟩, ?_⟩
  intro k' hk' _
  simp [keys] at hk'
  subst hk'; decide
example : Reaches exampleSite [[1], [4], [5], [7]] 6 := by
  unfold exampleSite
  refine Reaches.sub (k := [[1]]) (m := [[4], [5], [7]])
    (t := .node [([[2]], ⟨2, false, []⟩), ([], ⟨3, false, []⟩)]
      [([[4], [5]], .node [] [([[7]], .leaf 6)])]) rfl (by decide) ?_
  refine Reaches.sub (k := [[4], [5]]) (m := [[7]]) (t := .node [] [([[7]], .leaf 6)])
    rfl (by decide) ?_
  exact Reaches.sub (k := [[7]]) (m := []) (t := .leaf 6) rfl (by decide) .leaf
example : (exampleSite.reg (.remove [] [[1], [2]])).map (·.route [[1], [2]]) =
    some (some ⟨2, [], [[1], [2]]⟩) := by decide
example : (exampleSite.reg (.addRes [[[1]]] [[9]] ⟨9, false, []⟩)).map (·.route [[1], [9]]) =
    some (some ⟨9, [], [[1], [9]]⟩) := by decide

example : DictTree exampleSite := by
  unfold exampleSite
  refine .node (by decide) (by decide) ?_
  intro k t hm
  simp only [List.mem_singleton, Prod.mk.injEq] at hm
  obtain ⟨rfl, rfl⟩ := hm
  refine .node (by decide) (by decide) ?_
  intro k t hm
  simp only [List.mem_singleton, Prod.mk.injEq] at hm
  obtain ⟨rfl, rfl⟩ := hm
  refine .node (by decide) (by decide) ?_
  intro k t hm
  simp only [List.mem_singleton, Prod.mk.injEq] at hm
  obtain ⟨rfl, rfl⟩ := hm
  exact .leaf
/-- the hypotheses of `C17_listed_link_routes_to_resource` are satisfiable: the root resource of
the nested site, listed as `1/` -/
example : Registered exampleSite [[1], []] ⟨3, false, []⟩ ∧
    exampleSite.route [[1], []] = some ⟨3, [], [[1], []]⟩ :=
  C17_listed_link_routes_to_resource _ _ _ _ [[1]] [] ⟨3, false, []⟩ (by decide) (by decide)
    (List.mem_singleton.mpr rfl) (by decide) (by simp) (by decide) (by decide)
    (by intro k' hk' _; simp [keys] at hk'; subst hk'; decide)
/-- one filter among the query items: `obs` has no `=`, `rt=li*` is the filter -/
example : [[111, 98, 115], [114, 116, 61, 108, 105, 42]].filterMap splitEq =
    [(kRt, [108, 105, 42])] := by decide
/-- listing of the example tree: full paths through the nested sites, root of `batch` as `1/` -/
example : exampleSite.links.map (·.href) =
    [[47, 1, 47, 2], [47, 1, 47, 2], [47, 1, 47]] := by decide
example : exampleSite.visibleCount = 3 := by decide
/-- `rt="temp light"`: `rt=light`, `rt=li*` match an entry, `rt=ight*` does not (no substring
match), `title=temp` does not match `title="temp light"` but `title=temp*` does -/
def exampleLink : Link :=
  ⟨[47, 107], [(kRt, some [116, 101, 109, 112, 32, 108, 105, 103, 104, 116]),
    ([116, 105, 116, 108, 101], some [116, 101, 109, 112, 32, 108, 105, 103, 104, 116]),
    ([111, 98, 115], none)]⟩
example : linkMatches kRt [108, 105, 103, 104, 116] exampleLink = true := by decide
example : linkMatches kRt [108, 105, 42] exampleLink = true := by decide
example : linkMatches kRt [105, 103, 104, 116, 42] exampleLink = false := by decide
example : linkMatches [116, 105, 116, 108, 101] [116, 101, 109, 112] exampleLink = false := by decide
example : linkMatches [116, 105, 116, 108, 101] [116, 101, 109, 112, 42] exampleLink = true := by decide
example : linkMatches [111, 98, 115] [42] exampleLink = false := by decide      -- valueless
example : linkMatches kIf [42] exampleLink = false := by decide                 -- absent
example : Matches kRt [108, 105, 42] exampleLink := (linkMatches_iff _ _ _).mp (by decide)

end Aiocoap.Apps
