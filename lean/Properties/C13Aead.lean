import Proofs.Oscore.PersistAead
/-!
# C13 — "… and therefore no AEAD nonce under the same key" : the (key, nonce) pairs themselves

`Properties/C13.lean` proves that no sender sequence number is issued twice.  A nonce under the
sender key is, however, not only built from an own sequence number: a response may re-use the nonce
of the request it answers (`RequestIdentifiers.can_reuse_nonce`).  This file follows the pairs that
actually reach `encrypt` — model `AiocoapModel/Oscore/PersistAead.lean` (`gstep`, `grun`, the
functions the driver runs; ghost fields `log` and `acc`) — over every history of protects, request
arrivals, responses / notifications / Echo challenges (`respond`), clean stops, kills, a crash after
any file-system effect of any store, and reloads.

Nonces are recorded as `own n` (sender id, own number `n`) or `peer n` (recipient id, partial IV
`n` of the request answered).  That two different records are different byte strings is C11's
`constructNonce` injectivity for distinct sender and recipient ids.

Only property theorems and non-vacuity examples live in this file.
-/
namespace Aiocoap.Oscore.Persist
open Aiocoap.Oscore

/-- **C13 (nonces from own numbers, no hypothesis on the peer).** Over every history the own
sequence numbers whose nonce reached `encrypt` — for requests, for responses that cannot re-use the
request nonce, for the 4.01 + Echo challenges of a process whose replay state is unknown, and for
operations whose process died right afterwards — are strictly increasing: none is used twice. -/
theorem C13_own_nonces_strictly_increase (cfg : Cfg) (d : Dir) (evs : List GEv) :
    (ownOf (grun cfg (G.init d) evs).1.log).Pairwise (· > ·) :=
  (grun_seqInv cfg evs _ (GInv.init cfg d).seq).sorted

/-- … and they stay below what the next process starts from, and below 2^40 − 1. -/
theorem C13_own_nonces_below_frontier (cfg : Cfg) (d : Dir) (evs : List GEv) :
    ∀ n, Nonce.own n ∈ (grun cfg (G.init d) evs).1.log → n < frontier (grun cfg (G.init d) evs).1.s :=
  (grun_seqInv cfg evs _ (GInv.init cfg d).seq).below

/-- **C13 (no AEAD nonce twice under the sender key).** From any state satisfying the ghost
invariant, over every history in which requests accepted through Echo recovery are fresh
(`EchoFresh`: their number exceeds every number accepted before — the assumption that the peer's
numbers increase and that it cannot know the Echo value before the process issued it), no nonce is
handed to the AEAD twice: not an own number, not a request's nonce re-used for two responses, and
in particular not the nonce of a request answered before a crash for the Echo challenge or the
response sent when the request is replayed afterwards. -/
theorem C13_aead_nonces_never_repeat (cfg : Cfg) (hsz : 0 < cfg.size) (g : G) (h : GInv cfg g)
    (evs : List GEv) (hf : EchoFresh cfg g evs) : (grun cfg g evs).1.log.Nodup :=
  (grun_inv cfg hsz evs g h hf).nodup

/-- … from any directory content with no process running (e.g. a freshly provisioned context). -/
theorem C13_aead_nonces_never_repeat_from_disk (cfg : Cfg) (hsz : 0 < cfg.size) (d : Dir)
    (evs : List GEv) (hf : EchoFresh cfg (G.init d) evs) :
    (grun cfg (G.init d) evs).1.log.Nodup :=
  C13_aead_nonces_never_repeat cfg hsz _ (GInv.init cfg d) evs hf

/-- what the invariant says about re-use: a request's nonce is only ever used for a request that
was accepted, and a request that can still have its nonce re-used has not had it used. -/
theorem C13_reused_nonce_belongs_to_accepted (cfg : Cfg) (hsz : 0 < cfg.size) (d : Dir)
    (evs : List GEv) (hf : EchoFresh cfg (G.init d) evs) :
    (∀ n, Nonce.peer n ∈ (grun cfg (G.init d) evs).1.log → n ∈ (grun cfg (G.init d) evs).1.acc) ∧
    (∀ n ∈ (grun cfg (G.init d) evs).1.reusable, Nonce.peer n ∉ (grun cfg (G.init d) evs).1.log) :=
  ⟨(grun_inv cfg hsz evs _ (GInv.init cfg d) hf).peerAcc,
   fun n hn => ((grun_inv cfg hsz evs _ (GInv.init cfg d) hf).reusable n hn).1⟩

-- non-vacuity and the boundary of the assumption --------------------------------------------------

def exCfgA : Cfg := { start := 10, limit := 10000, size := 32 }

/-- the history of the round-3 seeded defect: request 5 accepted and answered (the response re-uses
the request's nonce), the process is killed, the reloaded process gets the same request again: the
window is unknown, the request is refused with an Echo challenge, and the challenge is protected
with an OWN number (10: the chunk persisted by the first lifetime), as is the response to the
request 9 that completes the Echo exchange. -/
example : (grun exCfgA (G.init ⟨none, []⟩)
    [.base (.load 100), .base (.recv ⟨5, true, none⟩ none), .respond 5 none, .respond 5 none,
     .base .kill, .base (.load 101), .base (.recv ⟨5, true, none⟩ none), .respond 5 none,
     .base (.recv ⟨9, true, some 101⟩ none), .respond 9 none]) =
    ({ s := { dir := { seq := some ⟨20, .unknown⟩, temps := [] },
              mem := some ⟨12, 20, 20, false, some (RW.freshlySeen 32 9), 101⟩ },
       reusable := [], log := [.own 11, .own 10, .own 0, .peer 5], acc := [9, 5] },
     [.base .loaded, .base (.accepted 5 false), .reused 5, .base (.issued 0), .base .killed,
      .base .loaded, .base (.refused .replayEcho), .base (.issued 10), .base (.accepted 9 true),
      .base (.issued 11)]) := by decide

/-- the hypothesis `EchoFresh` holds on that history -/
example : EchoFresh exCfgA (G.init ⟨none, []⟩)
    [.base (.load 100), .base (.recv ⟨5, true, none⟩ none), .respond 5 none,
     .base .kill, .base (.load 101), .base (.recv ⟨5, true, none⟩ none), .respond 5 none,
     .base (.recv ⟨9, true, some 101⟩ none), .respond 9 none] :=
  echoFresh_of_check _ _ _ (by decide)

/-- a `protect` that dies after the point of no return still used its nonce: the ghost log has it
although nothing was handed out -/
example : (grun exCfgA (G.init ⟨none, []⟩)
    [.base (.load 100), .base (.protect none), .base (.protect (some 2)), .base (.load 101),
     .base (.protect none)]).1.log = [.own 10, .own 1, .own 0] := by decide

/-- **The assumption is needed** (witness): a peer that completes the Echo exchange with a number
(3) below one it used before (7) gets request 7 accepted a second time after the crash, and the
second response re-uses the nonce of the first.  This is the peer re-using its own sequence numbers,
not a defect of the context. -/
theorem C13_aead_nonce_repeats_with_stale_echo_number :
    ¬ (grun exCfgA (G.init ⟨none, []⟩)
      [.base (.load 100), .base (.recv ⟨7, true, none⟩ none), .respond 7 none, .base .kill,
       .base (.load 101), .base (.recv ⟨3, true, some 101⟩ none), .base (.recv ⟨7, true, none⟩ none),
       .respond 7 none]).1.log.Nodup := by
  decide

end Aiocoap.Oscore.Persist
