import Proofs.Apps.FileServer
import Proofs.Apps.FileServerHistory
/-!
# C19 — the file server never touches anything outside its root directory

Model: `AiocoapModel/Apps/FileServer.lean` (`requestToLocalPath`, `handle`, `sliceBlock`,
`fetchLoop`); helper lemmas in `Proofs/Apps/FileServer.lean`.  All theorems quantify over
every root (absolute, relative, `//`), every Uri-Path component list over arbitrary strings,
every method, configuration, conditional option, Block2 value and every answer of the
operating system (`World`).  "Inside" is lexical (`Inside root p`: same anchor, the root's
parts are a prefix, the rest are proper components without `..`, `.`, `/` or emptiness);
symbolic links inside the root and changes between check and use are operating-system
behaviour outside the model.
-/
namespace Aiocoap.FileServer

-- clause 1: confinement of the computed path ------------------------------------------------

/-- **C19 (confined).** Whatever the components contain, a path that `request_to_localpath`
accepts has the root as component-wise prefix, and no component behind the root is `..`, `.`,
empty or contains `/`. -/
theorem C19_confined (root : PPath) (hr : root.wf) (comps : List Str) (p : PPath)
    (h : requestToLocalPath root comps = .ok p) : Inside root p := by
  have he := rtl_eq hr h
  obtain ⟨h1, _, _⟩ := rtl_ok h
  subst he
  exact ⟨rfl, _, rfl, rtl_rel_good h1⟩

/-- **C19 (exact).** The accepted path is exactly the root followed by the request's components
(a trailing empty one, the directory marker, dropped): no component is collapsed, replaced or
reinterpreted by the `pathlib` join, so two different accepted requests never alias by accident
and the anchor of the root is kept. -/
theorem C19_accepted_path_exact (root : PPath) (hr : root.wf) (comps : List Str) (p : PPath)
    (h : requestToLocalPath root comps = .ok p) :
    p.root = root.root ∧ p.parts = root.parts ++ comps.filter (· != []) := by
  rw [rtl_eq hr h]; exact ⟨rfl, rfl⟩

/-- **C19 (hostile components are rejected).** A list with a `..`, a `.`, a component containing
`/` (so also `/etc` or `/`), or an empty component anywhere but last (so also the leading empty
components that made the join absolute) is refused, for every root. -/
theorem C19_hostile_rejected (root : PPath) (comps : List Str)
    (h : (∃ c ∈ comps, c = dotdotS ∨ c = dotS ∨ slash ∈ c) ∨ [] ∈ comps.dropLast) :
    requestToLocalPath root comps = .error .invalidPath := by
  have : ∃ e, requestToLocalPath root comps = .error e := by
    apply rtl_error_iff.mpr
    rcases h with ⟨c, hc, hbad⟩ | h
    · left
      refine ⟨c, hc, ?_⟩
      rcases hbad with rfl | rfl | hs
      · simp [badComp, dotdotS, dotS]
      · simp [badComp, dotS]
      · simp [badComp, hs]
    · exact Or.inr h
  obtain ⟨e, he⟩ := this
  cases e; exact he

-- clause 2: every file-system operation of every request is inside the root -------------------

/-- **C19 (operations confined).** For every request (any method, options, write flag) and every
answer of the operating system whose names are single components, every path named by every
file-system operation the server performs — stat, open, listdir and the stat of each entry,
the temporary file created next to the target, rename, unlink — is inside the root. -/
theorem C19_ops_confined (cfg : Config) (req : Request) (w : World)
    (hr : cfg.root.wf) (hw : w.wf) : AllInside cfg.root (handle cfg req w).ops := by
  unfold handle
  cases req.method <;> simp only []
  · -- GET
    unfold renderGet
    split
    · simp
    · split
      · simp
      · rename_i p hp
        exact renderGetAt_inside cfg req w (C19_confined _ hr _ _ hp) hw
  · -- PUT
    unfold renderPut
    split
    · simp
    · split
      · simp
      · rename_i hne
        split
        · simp
        · rename_i p hp
          have hin := C19_confined _ hr _ _ hp
          obtain ⟨h1, _, _⟩ := rtl_ok hp
          have he := rtl_eq hr hp
          -- the target has a non-empty last component, so its parent is still inside
          have hrel : req.path.filter (· != []) ≠ [] := by
            intro hnil
            have hpne : req.path ≠ [] := fun e => hne (Or.inl e)
            have hlast := List.getLast_mem hpne
            have hlne : req.path.getLast hpne ≠ [] := by
              intro e
              apply hne; right
              simp [trailingEmpty, List.getLast?_eq_some_getLast hpne, e]
            have : req.path.getLast hpne ∈ req.path.filter (· != []) :=
              List.mem_filter.mpr ⟨hlast, by simpa using hlne⟩
            rw [hnil] at this; cases this
          have hpar : Inside cfg.root p.parent := by
            rw [he]; exact Inside.parent hrel (rtl_rel_good h1)
          exact renderPutAt_inside cfg.root req w hin hpar hw
  · -- DELETE
    unfold renderDelete
    split
    · simp
    · split
      · simp
      · split
        · simp
        · rename_i p hp
          exact renderDeleteAt_inside cfg.root req w (C19_confined _ hr _ _ hp)
  · simp

-- clause 3: a rejected request has no effect -----------------------------------------------------

/-- **C19 (rejected ⇒ no effect).** When the path check refuses the components, the request —
whatever its method — performs no file-system operation at all and is answered with an error. -/
theorem C19_rejected_has_no_effect (cfg : Config) (req : Request) (w : World) (e : Err)
    (h : requestToLocalPath cfg.root req.path = .error e) :
    (handle cfg req w).ops = [] ∧ (handle cfg req w).resp.isError = true := by
  have hwk : req.path ≠ wellKnownCore := by
    intro e'
    obtain ⟨p, hp⟩ := rtl_wellKnownCore cfg.root
    rw [e', hp] at h; cases h
  unfold handle
  cases req.method <;> simp only []
  · simp [renderGet, hwk, h, Response.isError]
  · unfold renderPut
    split
    · simp [Response.isError]
    · split
      · simp [Response.isError]
      · simp [h, Response.isError]
  · unfold renderDelete
    split
    · simp [Response.isError]
    · split
      · simp [Response.isError]
      · simp [h, Response.isError]
  · simp [Response.isError]

-- clause 4: without write permission nothing is modified ----------------------------------------

/-- **C19 (read-only).** Without the write flag no request — any method, any path, any options,
any state of the file system — produces a modifying operation (mkstemp, rename, unlink, mkdir,
rmdir); PUT and DELETE are answered 4.03 before the path is even looked at. -/
theorem C19_readonly (cfg : Config) (req : Request) (w : World) (h : cfg.write = false) :
    ∀ op ∈ (handle cfg req w).ops, op.modifying = false := by
  unfold handle
  cases req.method <;> simp only []
  · exact renderGet_nonmodifying cfg req w
  · simp [renderPut, h]
  · simp [renderDelete, h]
  · simp

/-- GET never modifies, with or without the write flag. -/
theorem C19_get_never_modifies (cfg : Config) (req : Request) (w : World)
    (h : req.method = .get) : ∀ op ∈ (handle cfg req w).ops, op.modifying = false := by
  unfold handle; rw [h]; exact renderGet_nonmodifying cfg req w

-- clause 5: block-wise fetch -----------------------------------------------------------------------

/-- **C19 (blocks concatenate to the file).** For every file content and every size exponent
(0..6, and 7 which the code treats as 1024), a client that asks for block 0, 1, 2, … of an
accepted file path until the answer carries `more = false` obtains, concatenating the payloads,
exactly the file's bytes — and needs at most `length + 1` requests. -/
theorem C19_blocks_concat (cfg : Config) (req : Request) (w : World) (p : PPath) (szx : Nat)
    (hget : req.method = .get) (hwk : req.path ≠ wellKnownCore)
    (hacc : requestToLocalPath cfg.root req.path = .ok p) (hfile : w.stat = .file)
    (hrev : (cfg.etags && w.etagMatches) = false) (hnt : trailingEmpty req.path = false) :
    fetchLoop (fun k => (handle cfg { req with block2 := some (k, szx) } w).resp)
      (w.content.length + 1) 0 = some w.content := by
  have hf : (fun k => (handle cfg { req with block2 := some (k, szx) } w).resp)
      = fun k => sliceBlock w.content (some (k, szx)) :=
    funext fun k => handle_get_file cfg req w p hget hwk hacc hfile hrev hnt _
  rw [hf]
  have := fetchLoop_slice w.content szx (w.content.length + 1) 0 (by
    simp only [Nat.zero_mul, List.drop_zero]
    exact Nat.lt_of_lt_of_le (Nat.lt_succ_self _) (Nat.le_mul_of_pos_right _ (blockSize_pos szx)))
  simpa using this

/-- A request without Block2 option is served like block 0 with szx 6: a body of at most 1024
bytes comes back whole (no Block2 in the answer), a longer one as its first block. -/
theorem C19_no_block2_is_block0 (content : Bytes) :
    (sliceBlock content none).payload = content.take 1024 ∧
    (sliceBlock content none).more = decide (content.length > 1024) ∧
    (content.length ≤ 1024 → (sliceBlock content none).block2 = none) := by
  have e : sliceBlock content none = sliceBlock content (some (0, 6)) := by simp [sliceBlock]
  have hs : blockSize 6 = 1024 := by decide
  refine ⟨?_, ?_, ?_⟩
  · rw [e, sliceBlock_payload, hs]; simp
  · rw [e, sliceBlock_more, hs]; simp
  · intro hle
    simp [sliceBlock, hs, List.length_take]; omega

-- round 4: histories (observations, refresh rounds) and the command line ------------------------------

/-- One step of a server whose table is inside the root: operations confined, table still inside. -/
theorem step_inside (s : Server) (hr : s.cfg.root.wf) (ht : TableInside s.cfg.root s.obs)
    (ev : Event) (hev : ev.wf) :
    AllInside s.cfg.root (s.step ev).2.ops ∧ TableInside s.cfg.root (s.step ev).1.obs := by
  cases ev with
  | request req w =>
    simp only [Server.step]
    split
    · exact ⟨C19_ops_confined s.cfg req w hr hev, ht⟩
    · refine ⟨C19_ops_confined s.cfg req _ hr (wf_obs _ hev), ?_⟩
      simp only []
      split
      · exact ht.refreshed _
      · exact ht
  | observe path =>
    simp only [Server.step]
    split
    · exact ⟨by simp, ht⟩
    · rename_i p hp
      exact ⟨by simp, ht.register (C19_confined _ hr _ _ hp)⟩
  | tick gone =>
    simp only [Server.step]
    split
    · exact ⟨tick_ops_inside ht gone, ht⟩
    · exact ⟨by simp, ht⟩

/-- **C19 (operations confined, over histories).** Start a server, then let any sequence of events
happen -- requests of any kind (with any answers of the operating system whose names are single
components), registrations of observations for any Uri-Path, refresh rounds with any set of files
gone: every path named by every file-system operation of every step -- those of the requests, and
the `stat`s of `check_files_for_refreshes` on the paths it remembered -- is inside the root. -/
theorem C19_history_ops_confined (cfg : Config) (hr : cfg.root.wf) (evs : List Event)
    (hw : ∀ ev ∈ evs, ev.wf) :
    ∀ out ∈ ((Server.fresh cfg).run evs).2, AllInside cfg.root out.ops := by
  suffices H : ∀ (s : Server), s.cfg = cfg → TableInside cfg.root s.obs →
      ∀ out ∈ (s.run evs).2, AllInside cfg.root out.ops from
    H (Server.fresh cfg) rfl (by intro e he; cases he)
  induction evs with
  | nil => intro s _ _ out h; cases h
  | cons ev evs ih =>
    intro s hc ht out hout
    have hev := hw ev (by simp)
    have hstep := step_inside s (hc ▸ hr) (hc ▸ ht) ev hev
    rw [hc] at hstep
    simp only [Server.run, List.mem_cons] at hout
    rcases hout with rfl | hout
    · exact hstep.1
    · exact ih (fun e he => hw e (List.mem_cons_of_mem _ he)) _ ((step_cfg s ev).trans hc)
        hstep.2 out hout

/-- One step of a server without write permission modifies nothing. -/
theorem step_readonly (s : Server) (h : s.cfg.write = false) (ev : Event) :
    ∀ op ∈ (s.step ev).2.ops, op.modifying = false := by
  cases ev with
  | request req w =>
    simp only [Server.step]
    split
    · exact C19_readonly s.cfg req w h
    · exact C19_readonly s.cfg req _ h
  | observe path =>
    simp only [Server.step]
    split <;> simp
  | tick gone =>
    simp only [Server.step]
    split
    · exact tick_ops_nonmodifying _ _
    · simp

/-- **C19 (read-only, over histories).** Without the write flag no step of any history -- request,
registration of an observation, refresh round -- produces a modifying operation. -/
theorem C19_history_readonly (cfg : Config) (h : cfg.write = false) (evs : List Event) :
    ∀ out ∈ ((Server.fresh cfg).run evs).2, ∀ op ∈ out.ops, op.modifying = false := by
  suffices H : ∀ (s : Server), s.cfg = cfg →
      ∀ out ∈ (s.run evs).2, ∀ op ∈ out.ops, op.modifying = false from H (Server.fresh cfg) rfl
  induction evs with
  | nil => intro s _ out ho; cases ho
  | cons ev evs ih =>
    intro s hc out hout
    simp only [Server.run, List.mem_cons] at hout
    rcases hout with rfl | hout
    · exact step_readonly s (hc ▸ h) ev
    · exact ih _ ((step_cfg s ev).trans hc) out hout

/-- **C19 (the answer does not depend on the past).** Whatever happened before -- observations
registered or ended, files replaced, refresh rounds run or the refresh task dead --, a request is
answered exactly as `handle` answers it from the present answers of the operating system: no
remembered `stat`, size or content takes part. -/
theorem C19_response_history_independent (cfg : Config) (evs : List Event) (req : Request)
    (w : World) :
    (((Server.fresh cfg).run evs).1.step (.request req w)).2.resp = some (handle cfg req w).resp := by
  rw [step_request_resp, run_cfg]; rfl

/-- **C19 (blocks concatenate to the file, after any history).** After any sequence of events, a
client that asks the server (whose state keeps moving with every block request) for block 0, 1,
2, … of an accepted file path until `more = false` obtains exactly the bytes the file has now. -/
theorem C19_blocks_concat_after_history (cfg : Config) (evs : List Event) (req : Request)
    (w : World) (p : PPath) (szx : Nat)
    (hget : req.method = .get) (hwk : req.path ≠ wellKnownCore)
    (hacc : requestToLocalPath cfg.root req.path = .ok p) (hfile : w.stat = .file)
    (hrev : (cfg.etags && w.etagMatches) = false) (hnt : trailingEmpty req.path = false) :
    Server.fetch req w szx (w.content.length + 1) 0 ((Server.fresh cfg).run evs).1
      = some w.content := by
  rw [fetch_eq_fetchLoop, run_cfg]
  exact C19_blocks_concat cfg req w p szx hget hwk hacc hfile hrev hnt

/-- **C19 (write permission comes from `--write` only).** For every command line of the modelled
tokens that the parser accepts, the server is built with write permission only if a `--write`
token is on it; in particular the default is read-only. -/
theorem C19_cli_write_needs_flag (argv : List Str) (o : CliOpts)
    (h : parseArgv {} argv = .ok o) (hn : tokWrite ∉ argv) : o.config.write = false := by
  cases hw : o.write with
  | false => simp [CliOpts.config, hw]
  | true =>
    rcases parseArgv_write {} o argv h hw with h1 | h1
    · cases h1
    · exact absurd h1 hn

/-- **C19 (a server started without `--write` modifies nothing).** The command line to the file
system: started from any accepted command line without `--write`, no step of any history produces
a modifying operation. -/
theorem C19_cli_readonly (argv : List Str) (o : CliOpts) (h : parseArgv {} argv = .ok o)
    (hn : tokWrite ∉ argv) (evs : List Event) :
    ∀ out ∈ ((Server.fresh o.config).run evs).2, ∀ op ∈ out.ops, op.modifying = false :=
  C19_history_readonly o.config (C19_cli_write_needs_flag argv o h hn) evs

-- non-vacuity and sanity ------------------------------------------------------------------------

-- ASCII strings used below
private def srv : Str := [115, 114, 118]
private def files : Str := [102, 105, 108, 101, 115]
private def d : Str := [100]
private def xtxt : Str := [120, 46, 116, 120, 116]        -- "x.txt"
private def etc : Str := [101, 116, 99]
private def hostname : Str := [104, 111, 115, 116, 110, 97, 109, 101]
private def new : Str := [110, 101, 119]
private def tmpab12 : Str := [116, 109, 112, 97, 98, 49, 50]
private def sub : Str := [115, 117, 98]

/-- `/srv/files` -/
def exampleRoot : PPath := { root := 1, parts := [srv, files] }

example : exampleRoot.wf := by
  refine ⟨by decide, ?_⟩
  intro c hc
  simp [exampleRoot] at hc
  rcases hc with rfl | rfl <;> decide

/-- an operating system answering with two directory entries and a tempfile name -/
def exampleWorld : World :=
  { stat := .file, etagMatches := false, ifMatchHit := false, content := List.range 40,
    children := [(xtxt, false), (sub, true)], obsPending := false, parentIsDir := true,
    tmpName := tmpab12 }

example : exampleWorld.wf := by
  refine ⟨by decide, ?_⟩
  intro c hc
  simp [exampleWorld] at hc
  rcases hc with rfl | rfl <;> decide

-- the model on concrete inputs: accepted, and the defect of DESIGN.md §7 in both forms
example : requestToLocalPath exampleRoot [d, xtxt]
    = .ok { root := 1, parts := [srv, files, d, xtxt] } := by decide
example : requestToLocalPath exampleRoot [d, []]
    = .ok { root := 1, parts := [srv, files, d] } := by decide
example : requestToLocalPath exampleRoot [[], etc, hostname] = .error .invalidPath := by decide
example : requestToLocalPath exampleRoot [[], []] = .error .invalidPath := by decide
example : requestToLocalPath exampleRoot [dotdotS, d] = .error .invalidPath := by decide
/-- why the check is needed: the unguarded `pathlib` join of the same components leaves the root -/
example : exampleRoot.join (joinSlash [[], etc, hostname])
    = { root := 1, parts := [etc, hostname] } := by decide

/-- a write-enabled PUT: temp file next to the target, rename, stat — all below the root -/
example : (handle { root := exampleRoot, write := true, etags := true }
    { method := .put, path := [d, new], ifNoneMatch := false, ifMatch := false,
      ifMatchEmpty := false, block2 := none } { exampleWorld with stat := .absent }).ops
    = [.mkstemp { root := 1, parts := [srv, files, d] },
       .rename { root := 1, parts := [srv, files, d, tmpab12] }
               { root := 1, parts := [srv, files, d, new] },
       .stat { root := 1, parts := [srv, files, d, new] }] := by decide

/-- a hostile DELETE with write enabled: refused, nothing touched -/
example : (handle { root := exampleRoot, write := true, etags := true }
    { method := .delete, path := [[], etc, hostname], ifNoneMatch := false, ifMatch := false,
      ifMatchEmpty := false, block2 := none } exampleWorld).ops = [] := by decide

/-- the hypotheses of `C19_blocks_concat` are met by a concrete request and world -/
example : fetchLoop (fun k => (handle { root := exampleRoot, write := false, etags := true }
    { method := .get, path := [d, xtxt], ifNoneMatch := false, ifMatch := false,
      ifMatchEmpty := false, block2 := some (k, 0) } exampleWorld).resp) 41 0
    = some (List.range 40) := by decide

/-- a 40-byte file fetched with szx 0: three blocks 16 + 16 + 8, more = 1, 1, 0 -/
example : (List.range 3).map (fun k => ((sliceBlock (List.range 40) (some (k, 0))).payload.length,
    (sliceBlock (List.range 40) (some (k, 0))).more)) = [(16, true), (16, true), (8, false)] := by
  decide
example : fetchLoop (fun k => sliceBlock (List.range 40) (some (k, 0))) 41 0
    = some (List.range 40) := by decide

-- round 4: a concrete history and concrete command lines

private def getX (b : Option (Nat × Nat)) : Request :=
  { method := .get, path := [d, xtxt], ifNoneMatch := false, ifMatch := false,
    ifMatchEmpty := false, block2 := b }
private def pX : PPath := { root := 1, parts := [srv, files, d, xtxt] }
private def roCfg : Config := { root := exampleRoot, write := false, etags := true }

/-- observe a file, fetch it (the pending entry costs one more `stat` and is refreshed), fetch again
(no extra `stat`), let a refresh round pass (one `stat` of the remembered path), remove the file,
let two more rounds pass: the first one ends the refresh task, the second does nothing. -/
example : (((Server.fresh roCfg).run
      [.observe [d, xtxt], .request (getX none) exampleWorld, .request (getX none) exampleWorld,
       .tick [], .tick [pX], .tick []]).2.map (·.ops))
    = [[], [.stat pX, .openRead pX, .stat pX], [.stat pX, .openRead pX], [.stat pX], [.stat pX], []] := by
  decide

/-- the hypotheses of `C19_history_ops_confined` are met by that history -/
example : ∀ ev ∈ [Event.observe [d, xtxt], .request (getX none) exampleWorld, .tick [pX]], ev.wf := by
  intro ev h
  simp only [List.mem_cons, List.not_mem_nil, or_false] at h
  rcases h with rfl | rfl | rfl
  · trivial
  · refine ⟨by decide, ?_⟩
    intro c hc
    simp [exampleWorld] at hc
    rcases hc with rfl | rfl <;> decide
  · trivial

/-- a 40-byte file fetched with szx 0 from a server in the state that history left -/
example : Server.fetch (getX none) exampleWorld 0 41 0
    ((Server.fresh roCfg).run [.observe [d, xtxt], .tick [], .request (getX (some (1, 0))) exampleWorld]).1
    = some (List.range 40) := by decide

private def dashV : Str := [45, 118]
private def slashSrvFiles : Str := [47, 115, 114, 118, 47, 102, 105, 108, 101, 115]
private def digit0 : Str := [48]

/-- `aiocoap-fileserver -v /srv/files`: read-only, ETags on, root `/srv/files` -/
example : parseArgv {} [dashV, slashSrvFiles] = .ok { path := some slashSrvFiles } ∧
    ({ path := some slashSrvFiles } : CliOpts).config.root = exampleRoot ∧
    ({ path := some slashSrvFiles } : CliOpts).config.write = false ∧
    ({ path := some slashSrvFiles } : CliOpts).config.etags = true := by decide
/-- `aiocoap-fileserver /srv/files --etag-length 0 --write`: writable, ETags off -/
example : parseArgv {} [slashSrvFiles, tokEtagLength, digit0, tokWrite]
    = .ok { write := true, etagLength := 0, path := some slashSrvFiles } := by decide
/-- no argument at all: the working directory, read-only -/
example : parseArgv {} [] = .ok {} ∧ ({} : CliOpts).config.root = { root := 0, parts := [] } ∧
    ({} : CliOpts).config.write = false := by decide
/-- an abbreviated option is not guessed at -/
example : parseArgv {} [[45, 45, 119, 114, 105]] = .outOfModel := by decide

end Aiocoap.FileServer
