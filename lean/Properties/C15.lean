import Proofs.Tcp.Signal
import Proofs.Tcp.Close
import Proofs.Tcp.NoErr
/-!
# C15 — CoAP over TCP: framing independent of segmentation, signalling rules enforced

Model: `AiocoapModel/Tcp/Frame.lean` (`extractSize`, `decodeMessage`, `encodeLength`,
`serialize`, own option walker) and `AiocoapModel/Tcp/Conn.lean` (`step`, `drain`, `feed`,
`feedAll`, `processSignaling`, `session`); specification of the wire format:
`AiocoapModel/Tcp/Rfc8323.lean`.  All theorems quantify over every byte stream, every way of
cutting it into chunks, every message and every connection state named in their hypotheses;
there is no bound on lengths or on the number of frames or chunks.

The model follows the code after two fixes (findings/C15.json): once an Abort was sent — or the
peer's Release/Abort was processed — `data_received` returns and nothing that follows in the
stream is processed; a CSM that is answered with an Abort is not recorded as received.  An
earlier version of this file claimed chunking independence only "up to and including the first
close" and modelled the code's draining of the rest of the chunk after a close as it was.  That
exclusion was a mistake of the verification (the behaviour contradicts the property: what was
dispatched depended on the segmentation) and is withdrawn: the chunking theorems below are about
the whole output and the final state.

After an independent audit (audit-E) two more fixes were made and the model follows them:
(1) `_decode_message` reads the options of a signalling message (code 7.xx) as opaque values —
RFC 8323 §5.2: their numbers are specific to the signalling code — instead of in the formats that
the request/response options of the same numbers have; (2) the test for empty messages sits ahead
of the "No CSM received" gate.  Before, `Msg.legal` — every option value survives aiocoap's
*ordinary* option table — was a hypothesis of the theorems about Ping, Release/Abort and CSM frames
(`C15_ping_frame_answered`, `C15_release_frame`, `C15_dispatch_exact` for its CSM,
`C15_rejected_csm_stream`), and `C15_empty_ignored` assumed that the CSM had been received while
`C15_message_before_csm_aborts` counted the empty message among the refused ones.  Both were
mistakes of the verification: they wrote what the code did into the hypotheses although the
property says "Ping is answered by Pong" and "Empty messages are ignored" without such conditions
(a well-formed Ping with an elective option 8 = `ff fe` was answered by Abort, an empty message
ahead of the CSM by Abort).  They are withdrawn: `Msg.legal` now asks nothing of a signalling
message (`Msg.legal_of_signalling`), the four theorems have lost the hypothesis, and
`C15_empty_ignored` holds with and without a CSM.
-/
set_option linter.unusedSimpArgs false
namespace Aiocoap.Tcp

/-- the connection right after `connection_made` -/
def fresh (M : Nat) : Conn := (connectionMade M).1

theorem fresh_facts (M : Nat) :
    (fresh M).quiet ∧ (fresh M).closed = false ∧ (fresh M).csm = none ∧ (fresh M).spool = [] ∧
    (fresh M).maxSize = M := by
  refine ⟨?_, rfl, rfl, rfl, rfl⟩
  simp [Conn.quiet, step, fresh, connectionMade, extractSize]

/-- the messages handed to the token manager, in order -/
def dispatched : List Out → List Msg
  | [] => []
  | .request m :: os => m :: dispatched os
  | .response m :: os => m :: dispatched os
  | _ :: os => dispatched os

-- =============================================================================================
-- 1. outgoing messages are RFC 8323 §3.2 frames
-- =============================================================================================

/-- **C15 (serialisation).** Whatever `_serialize` returns is the RFC 8323 §3.2 frame of the
message: `Len` nibble = body length up to 12, else 13/14/15 with an 8/16/32-bit extended length
holding the length minus 13/269/65805, then TKL, code, token, the RFC 7252 §3.1 option list and
the 0xFF-prefixed payload. -/
theorem C15_serialize_is_rfc (m : Msg) (b : Bytes) (h : serialize m = some b) :
    Rfc8323.Message b m :=
  serialize_message h

/-- the framing is a function of the message: every RFC 8323 frame of (code, token, body) is the
one the final join of `_serialize` builds (so the 13/269/65805 thresholds cannot move) -/
theorem C15_serialize_framing_unique (code : Nat) (token body b : Bytes)
    (h : Rfc8323.Frame b code token body) : frameBytes code token body = some b :=
  frame_frameBytes h

/-- a token of more than 8 bytes is refused (ValueError), never put on the wire -/
theorem C15_serialize_rejects_long_token (m : Msg) (h : m.token.length > 8) :
    serialize m = none := by
  unfold serialize
  split
  · rfl
  · simp [h]

/-- **C15 (requests are sent as they are).** `_TCPPooling.send_message` hands a request (any
message that is not a response) to the connection unchanged: what is written is the RFC 8323
frame of exactly that message, with all its options — No-Response (258) included — and the
request is never dropped. -/
theorem C15_send_request_exact (m : Msg) (hreq : ¬ (64 ≤ m.code ∧ m.code < 192)) :
    poolSend m = sendMessage m ∧ poolSend m ≠ [] ∧
    ∀ b, poolSend m = [.write b] → Rfc8323.Message b m ∧ serialize m = some b := by
  have h : poolSend m = sendMessage m := by unfold poolSend; rw [if_neg hreq]
  refine ⟨h, ?_, fun b hb => ?_⟩
  · rw [h]; unfold sendMessage; split <;> simp
  · rw [h] at hb
    unfold sendMessage at hb
    split at hb
    · rename_i b' hb'
      simp only [List.cons.injEq, Out.write.injEq, and_true] at hb
      subst hb
      exact ⟨serialize_message hb', hb'⟩
    · simp at hb

/-- **C15 (responses and No-Response).** On a response the No-Response option is aiocoap's
internal marker taken over from the request: the response is not written at all when the bit of
its class (2.xx: 2, 4.xx: 8, 5.xx: 16) is set in the value, and otherwise what is written is the
RFC 8323 frame of the response without that option (everything else identical). -/
theorem C15_send_response_no_response (m : Msg) (hresp : 64 ≤ m.code ∧ m.code < 192) :
    ((noResponseOf m.opts).testBit (m.code / 32 - 1) = true → poolSend m = []) ∧
    ((noResponseOf m.opts).testBit (m.code / 32 - 1) = false →
      poolSend m = sendMessage { m with opts := m.opts.filter (fun o => o.num != 258) } ∧
      ∀ b, poolSend m = [.write b] →
        Rfc8323.Message b { m with opts := m.opts.filter (fun o => o.num != 258) }) := by
  constructor
  · intro hbit
    unfold poolSend
    rw [if_pos hresp, if_pos hbit]
  · intro hbit
    have h : poolSend m = sendMessage { m with opts := m.opts.filter (fun o => o.num != 258) } := by
      unfold poolSend
      rw [if_pos hresp, if_neg (by simp [hbit])]
    refine ⟨h, fun b hb => ?_⟩
    rw [h] at hb
    unfold sendMessage at hb
    split at hb
    · rename_i b' hb'
      simp only [List.cons.injEq, Out.write.injEq, and_true] at hb
      subst hb
      exact serialize_message hb'
    · simp at hb

-- =============================================================================================
-- 2. frame round trip
-- =============================================================================================

/-- **C15 (round trip, own frames).** A serialised message is framed at exactly its own length,
whatever follows it in the stream, and decodes to the same code, token, options and payload. -/
theorem C15_frame_roundtrip (m : Msg) (b : Bytes) (hm : m.legal) (h : serialize m = some b) :
    decodeMessage b = some m ∧ ∀ rest, frameSize (b ++ rest) = some b.length := by
  obtain ⟨h1, _, h3⟩ := decodeMessage_of_message hm (serialize_message h)
  exact ⟨h1, h3⟩

/-- **C15 (round trip, any peer).** The same for every RFC 8323 frame, not only those this
implementation writes (e.g. option deltas of 65804). -/
theorem C15_rfc_frame_is_parsed (m : Msg) (b : Bytes) (hm : m.legal) (h : Rfc8323.Message b m) :
    decodeMessage b = some m ∧ ∀ rest, frameSize (b ++ rest) = some b.length := by
  obtain ⟨h1, _, h3⟩ := decodeMessage_of_message hm h
  exact ⟨h1, h3⟩

/-- **C15 (signalling frames, any option values).** Every RFC 8323 frame of a message with a
signalling code (7.xx) is delimited at its own length and decoded to exactly that message — code,
token, every option with the value bytes as sent, payload — with no condition at all on the option
numbers and values: the formats of request/response options with the same numbers (UTF-8 for 3,
8, 11, 15, 20, 35, 39; minimal integers for 6, 7, 12, …) are not applied to it (RFC 8323 §5.2).
So a signalling frame is "unparsable" only for structural reasons (`C15_unparsable_aborts`). -/
theorem C15_signalling_frame_parsed (m : Msg) (b : Bytes) (hcode : m.code ≥ 224)
    (h : Rfc8323.Message b m) :
    decodeMessage b = some m ∧ ∀ rest, frameSize (b ++ rest) = some b.length := by
  obtain ⟨h1, _, h3⟩ := decodeMessage_of_message (Msg.legal_of_signalling hcode) h
  exact ⟨h1, h3⟩

-- =============================================================================================
-- 3. chunking independence
-- =============================================================================================

/-- two connection states that differ only by bytes spooled behind a close are the same `live`
state -/
theorem live_eq_of_app {a b : Conn} {t : Bytes} (h : b = a.app t)
    (ht : a.closed = false → t = []) : a.live = b.live := by
  subst h
  cases hc : a.closed with
  | true => cases a; simp_all [Conn.live, Conn.app]
  | false => rw [ht hc, Conn.app_nil]

/-- **C15 (chunking independence).** For every stream and every way `cs` of cutting it into
chunks (empty chunks and single bytes included), a new connection produces exactly the same
outputs — dispatches, writes, failures of pending requests, close; all of them, in order — as
when the whole stream arrives in one piece, and ends in the same state.  "Same state": maximum
size, remote settings and the closed flag are equal, and so is the spool as long as the
transport is open.  After a close the uncut delivery has spooled the bytes behind the closing
frame (`t`), which a chunked delivery partly never hands over (asyncio does not call
`data_received` on a closing transport); nothing reads the spool of a closed connection
(`Conn.live`). -/
theorem C15_chunking_independent (M : Nat) (cs : List Bytes) :
    (feedAll (fresh M) cs).2 = (feed (fresh M) cs.flatten).2 ∧
    (feedAll (fresh M) cs).1.live = (feed (fresh M) cs.flatten).1.live ∧
    ∃ t, (feed (fresh M) cs.flatten).1 = { (feedAll (fresh M) cs).1 with
        spool := (feedAll (fresh M) cs).1.spool ++ t } ∧
      ((feedAll (fresh M) cs).1.closed = false → t = []) := by
  obtain ⟨h1, t, h2, h3⟩ := chunking_full cs (fresh M) (fresh_facts M).1 (fresh_facts M).2.1
  exact ⟨h1, live_eq_of_app h2 h3, t, h2, h3⟩

/-- two ways of cutting the same stream are indistinguishable: same outputs, same final state -/
theorem C15_chunking_independent_pair (M : Nat) (cs cs' : List Bytes)
    (h : cs.flatten = cs'.flatten) :
    (feedAll (fresh M) cs).2 = (feedAll (fresh M) cs').2 ∧
    (feedAll (fresh M) cs).1.live = (feedAll (fresh M) cs').1.live := by
  obtain ⟨a1, a2, _⟩ := C15_chunking_independent M cs
  obtain ⟨b1, b2, _⟩ := C15_chunking_independent M cs'
  rw [a1, a2, b1, b2, h]
  exact ⟨rfl, rfl⟩

/-- the same from any state in which the receive loop is waiting (i.e. mid-stream, with part of
a frame in the spool and any remote settings) -/
theorem C15_chunking_independent_midstream (c : Conn) (hq : c.quiet) (hopen : c.closed = false)
    (cs : List Bytes) :
    (feedAll c cs).2 = (feed c cs.flatten).2 ∧ (feedAll c cs).1.live = (feed c cs.flatten).1.live := by
  obtain ⟨h1, t, h2, h3⟩ := chunking_full cs c hq hopen
  exact ⟨h1, live_eq_of_app h2 h3⟩

/-- when the stream does not make the connection close, all outputs *and the final state as it
is* (spool remainder, remote settings) are independent of the chunking -/
theorem C15_chunking_independent_open (c : Conn) (hq : c.quiet) (cs : List Bytes)
    (hopen : (feed c cs.flatten).1.closed = false) :
    feedAll c cs = feed c cs.flatten :=
  chunking_open cs c hq hopen

-- =============================================================================================
-- 4. exact in-order dispatch
-- =============================================================================================

theorem dispatched_flatMap (ms : List Msg) :
    dispatched (ms.flatMap deliver) = ms.filter (fun m => m.code ≠ 0) := by
  induction ms with
  | nil => rfl
  | cons m ms ih =>
    simp only [List.flatMap_cons, deliver, dispatchIncoming, List.filter_cons]
    by_cases h0 : m.code = 0
    · simp [h0, ih]
    · by_cases hr : 64 ≤ m.code ∧ m.code < 192
      · simp [h0, hr, dispatched, ih]
      · simp [h0, hr, dispatched, ih]

/-- **C15 (exact dispatch).** Let the stream be: the frames of any number of empty messages, the
frame of a CSM without critical options (whatever values its elective options have — no legality
condition on a signalling message), then the frames (each within the local maximum message size)
of any sequence `ms` of requests, responses and empty messages with legal option values, cut into
chunks in any way.  Then a new connection hands over to the token manager exactly the non-empty
messages of `ms`, in order, with identical code, token, options and payload (responses by
`process_response`, everything else by `process_request`); it writes nothing, does not close, ends
with an empty spool and has recorded the peer's settings.  (Before audit-E: no empty messages
ahead of the CSM, and `csm.legal` was assumed.) -/
theorem C15_dispatch_exact (M : Nat) (es : List Msg) (s0 : Bytes) (csm : Msg) (bcsm : Bytes)
    (ms : List Msg) (s : Bytes) (cs : List Bytes)
    (hes : Stream M es s0) (hempty : ∀ m ∈ es, m.code = 0)
    (hcsm : Rfc8323.Message bcsm csm) (hcode : csm.code = codeCSM)
    (hnc : noCritical csm.opts) (hsz : bcsm.length ≤ M)
    (hs : Stream M ms s) (hcut : cs.flatten = s0 ++ (bcsm ++ s)) :
    (feedAll (fresh M) cs).2 = ms.flatMap deliver ∧
    dispatched (feedAll (fresh M) cs).2 = ms.filter (fun m => m.code ≠ 0) ∧
    (feedAll (fresh M) cs).1 =
      { maxSize := M, spool := [], csm := some (csmOpts {} csm.opts).1, closed := false } := by
  have hlegal : csm.legal := Msg.legal_of_signalling (by rw [hcode]; decide)
  -- the empty messages ahead of the CSM: consumed, nothing else
  have hdr : drain ((fresh M).app s0) = (fresh M, [], false) := by
    have hsp : ((fresh M).app s0).spool = s0 := by simp [fresh, connectionMade]
    rw [drain_stream hes _ rfl (Or.inr hempty) hsp, flatMap_deliver_empty hempty]
    simp [fresh, connectionMade, Conn.app]
  have hpre : feed (fresh M) s0 = (fresh M, []) := by rw [feed_eq, hdr]
  -- the rest of the stream in one piece
  have hrest : feed (fresh M) (bcsm ++ s) =
      ({ maxSize := M, spool := [], csm := some (csmOpts {} csm.opts).1, closed := false },
       ms.flatMap deliver) := by
    rw [feed_eq]
    have hsp : ((fresh M).app (bcsm ++ s)).spool = bcsm ++ s := by simp [fresh, connectionMade]
    obtain ⟨hrest, hstep⟩ := step_of_frame (c := (fresh M).app (bcsm ++ s)) hsp hcsm hlegal
      (by simpa [fresh, connectionMade] using hsz)
    have h224 : csm.code ≥ 224 := by rw [hcode]; decide
    simp only [h224, ↓reduceIte] at hstep
    have hps : processSignaling (((fresh M).app (bcsm ++ s)).consume bcsm.length) csm =
        ({ maxSize := M, spool := s, csm := some (csmOpts {} csm.opts).1, closed := false }, []) := by
      have hc1 : (((fresh M).app (bcsm ++ s)).consume bcsm.length) =
          { maxSize := M, spool := s, csm := none, closed := false } := by
        simp [Conn.consume, Conn.app, fresh, connectionMade]
      rw [hc1]
      have hc : csmOpts ((none : Option Settings).getD {}) csm.opts =
          ((csmOpts {} csm.opts).1, none) := by
        have := csmOpts_noCritical {} hnc
        exact Prod.ext rfl this
      rw [ps_csm_ok hcode hc]
    rw [hps] at hstep
    simp only [Bool.false_eq_true, ↓reduceIte] at hstep
    rw [drain_eq, hstep]
    simp only
    rw [drain_stream hs _ rfl (Or.inl (by simp)) rfl]
    simp
  have hone : feed (fresh M) (s0 ++ (bcsm ++ s)) =
      ({ maxSize := M, spool := [], csm := some (csmOpts {} csm.opts).1, closed := false },
       ms.flatMap deliver) := by
    rw [feed_append, hdr]
    simp only [Bool.false_eq_true, ↓reduceIte, hpre, hrest, List.nil_append]
  have hopen : (feed (fresh M) cs.flatten).1.closed = false := by rw [hcut, hone]
  have hall := chunking_open cs (fresh M) (fresh_facts M).1 hopen
  rw [hall, hcut, hone]
  exact ⟨rfl, dispatched_flatMap ms, rfl⟩

-- =============================================================================================
-- 5. nothing is dispatched before the peer's CSM
-- =============================================================================================

/-- **C15 (CSM gate, whole histories).** For every chunk sequence fed to any connection: if the
remote settings are still unset afterwards (no CSM has been processed), then they were unset
before and no message at all has been handed to the token manager.  Since this holds for every
prefix of every chunk sequence and chunk borders are arbitrary (theorem 3), no request or
response is ever dispatched before the CSM. -/
theorem dispatched_nil_of_no_dispatch {outs : List Out}
    (h2 : ∀ x ∈ outs, x.isDispatch = false) : dispatched outs = [] := by
  induction outs with
  | nil => rfl
  | cons o os ih =>
    have ho := h2 o (List.mem_cons_self)
    have hos := ih (fun x hx => h2 x (List.mem_cons_of_mem _ hx))
    cases o <;> simp_all [dispatched, Out.isDispatch]

theorem C15_no_dispatch_before_csm (c : Conn) (cs : List Bytes)
    (h : (feedAll c cs).1.csm = none) :
    c.csm = none ∧ dispatched (feedAll c cs).2 = [] := by
  obtain ⟨h1, h2⟩ := feedAll_csm cs c h
  exact ⟨h1, dispatched_nil_of_no_dispatch h2⟩

/-- **C15 (CSM gate, the step).** While no CSM has been received, a complete, well-formed,
in-limit frame of a request or response (any code below 7.00 other than 0.00) is answered by
Abort ("No CSM received") and close, the receive loop returns, and nothing is dispatched.  (An
empty message is ignored there as everywhere: `C15_empty_ignored`.  Before audit-E this theorem
named the empty message among the refused ones, following the code of then.) -/
theorem C15_message_before_csm_aborts (c : Conn) (b rest : Bytes) (m : Msg)
    (hs : c.spool = b ++ rest) (hb : Rfc8323.Message b m) (hm : m.legal)
    (hsize : b.length ≤ c.maxSize) (hcode : m.code < 224) (hne : m.code ≠ 0)
    (hcsm : c.csm = none) :
    ∃ c' w, step c = .stop c' [.write w, .close] ∧ c'.closed = true ∧
      Rfc8323.Message w (abortMsg txtNoCsm none) := by
  obtain ⟨_, hstep⟩ := step_of_frame hs hb hm hsize
  have h1 : ¬ m.code ≥ 224 := by omega
  simp only [h1, ↓reduceIte, hne, hcsm, Option.isNone_none] at hstep
  have hser : (serialize (abortMsg txtNoCsm none)).isSome = true := by decide
  obtain ⟨w, hw⟩ := Option.isSome_iff_exists.mp hser
  refine ⟨(c.consume b.length).note (abortOuts txtNoCsm none), w, ?_, ?_, serialize_message hw⟩
  · rw [hstep]; simp [abortOuts, sendMessage, hw]
  · simp [abortOuts_any_close]

-- =============================================================================================
-- 6. oversize / TKL > 8 / unparsable / unknown critical signalling option → Abort, close
-- =============================================================================================

/-- what "Abort written, then close, and the receive loop returns" means for one iteration -/
def AbortsWith (c : Conn) (text : Bytes) : Prop :=
  ∃ c' w, step c = .stop c' [.write w, .close] ∧ c'.closed = true ∧
    Rfc8323.Message w (abortMsg text none)

/-- after an aborting iteration nothing else happens in this `data_received`, and no later chunk
is processed -/
theorem C15_abort_is_final (c c' : Conn) (o : List Out) (h : step c = .stop c' o)
    (later : List Bytes) :
    drain c = (c', o, true) ∧ feedAll c' later = (c', []) := by
  refine ⟨by rw [drain_eq, h], feedAll_closed ((step_closed c).2 c' o h).1 later⟩

/-- **C15 (oversize).** As soon as the length of a frame can be read and exceeds the local
maximum message size — whether or not the frame is complete — Abort is written and the
connection is closed. -/
theorem C15_oversize_aborts (c : Conn) (to tkl len : Nat)
    (hx : extractSize c.spool = some (to, tkl, len)) (hbig : to + tkl + len > c.maxSize) :
    AbortsWith c txtOverlyLarge := by
  have hser : (serialize (abortMsg txtOverlyLarge none)).isSome = true := by decide
  obtain ⟨w, hw⟩ := Option.isSome_iff_exists.mp hser
  refine ⟨c.note (abortOuts txtOverlyLarge none), w, ?_, by simp [abortOuts_any_close],
    serialize_message hw⟩
  unfold step
  simp [hx, hbig, abortOuts, sendMessage, hw]

/-- **C15 (unparsable).** A complete in-limit frame that `_decode_message` rejects (token length
above 8, option nibble 15, truncated option, option value not decodable, …) makes the endpoint
write Abort and close. -/
theorem C15_unparsable_aborts (c : Conn) (to tkl len : Nat)
    (hx : extractSize c.spool = some (to, tkl, len)) (hfit : to + tkl + len ≤ c.maxSize)
    (hcomplete : to + tkl + len ≤ c.spool.length)
    (hbad : decodeMessage (c.spool.take (to + tkl + len)) = none) :
    AbortsWith c txtFailedParse := by
  have hser : (serialize (abortMsg txtFailedParse none)).isSome = true := by decide
  obtain ⟨w, hw⟩ := Option.isSome_iff_exists.mp hser
  refine ⟨c.note (abortOuts txtFailedParse none), w, ?_, by simp [abortOuts_any_close],
    serialize_message hw⟩
  have a : ¬ to + tkl + len > c.maxSize := by omega
  have b : ¬ to + tkl + len > c.spool.length := by omega
  unfold step
  simp [hx, a, b, hbad, abortOuts, sendMessage, hw]

/-- the header of a frame is inside the frame -/
theorem extractSize_take {s : Bytes} {to tkl len : Nat}
    (hx : extractSize s = some (to, tkl, len)) :
    extractSize (s.take (to + tkl + len)) = some (to, tkl, len) := by
  match s, hx with
  | b0 :: rest, hx =>
    obtain ⟨ht, hc⟩ := extractSize_cases hx
    rcases hc with ⟨h1, h2, h3⟩ | ⟨h1, h2, e0, r, hr, h3⟩ | ⟨h1, h2, e0, e1, r, hr, h3⟩ |
      ⟨h1, h2, e0, e1, e2, e3, r, hr, h3⟩
    · subst h2
      have : 2 + tkl + len = (1 + tkl + len) + 1 := by omega
      rw [this, List.take_succ_cons]
      simp [extractSize, h1, ht, h3]
    · subst h2 hr
      have : 3 + tkl + len = (tkl + len + 1) + 1 + 1 := by omega
      rw [this, List.take_succ_cons, List.take_succ_cons]
      simp [extractSize, h1, ht, h3]
    · subst h2 hr
      have : 4 + tkl + len = (tkl + len + 1) + 1 + 1 + 1 := by omega
      rw [this, List.take_succ_cons, List.take_succ_cons, List.take_succ_cons]
      simp [extractSize, h1, ht, h3]
    · subst h2 hr
      have : 6 + tkl + len = (tkl + len + 1) + 1 + 1 + 1 + 1 + 1 := by omega
      rw [this, List.take_succ_cons, List.take_succ_cons, List.take_succ_cons,
        List.take_succ_cons, List.take_succ_cons]
      have a : ¬ b0 / 16 < 13 := by omega
      have b : ¬ b0 / 16 = 13 := by omega
      have c : ¬ b0 / 16 = 14 := by omega
      simp [extractSize, a, b, c, ht, h3]

/-- **C15 (token length).** A complete in-limit frame announcing a token length of 9 to 15 makes
the endpoint write Abort and close, whatever else the frame contains. -/
theorem C15_tkl_above_8_aborts (c : Conn) (to tkl len : Nat)
    (hx : extractSize c.spool = some (to, tkl, len)) (hfit : to + tkl + len ≤ c.maxSize)
    (hcomplete : to + tkl + len ≤ c.spool.length) (htkl : tkl > 8) :
    AbortsWith c txtFailedParse := by
  apply C15_unparsable_aborts c to tkl len hx hfit hcomplete
  unfold decodeMessage
  simp [extractSize_take hx, htkl]

/-- **C15 (critical option in Ping/Pong/Release/Abort).** If such a message carries an option
with an odd number, the endpoint writes Abort ("Unknown critical option"), closes, and does
nothing else: no Pong, no second Abort for a second such option, no further processing of the
message; the remote settings are untouched. -/
theorem C15_critical_option_aborts (c : Conn) (m : Msg)
    (hcode : m.code = codePing ∨ m.code = codePong ∨ m.code = codeRelease ∨ m.code = codeAbort)
    (hcrit : ¬ noCritical m.opts) :
    ∃ w, (processSignaling c m).2 = [.write w, .close] ∧
      (processSignaling c m).1.closed = true ∧ (processSignaling c m).1.csm = c.csm ∧
      Rfc8323.Message w (abortMsg txtUnknownCritical none) := by
  have hser : (serialize (abortMsg txtUnknownCritical none)).isSome = true := by decide
  obtain ⟨w, hw⟩ := Option.isSome_iff_exists.mp hser
  have habort : abortOuts txtUnknownCritical none = [.write w, .close] := by
    simp [abortOuts, sendMessage, hw]
  rw [ps_crit hcode ((hasCritical_true_iff _).mpr hcrit), habort]
  exact ⟨w, rfl, by simp [Out.isClose], rfl, serialize_message hw⟩

/-- **C15 (critical option in a CSM).** An option with an odd number in a CSM (2 and 4 are the
known, even ones) makes the endpoint write Abort ("Option not supported", naming the option in
Bad-CSM-Option), close, and do nothing else; the CSM is not recorded (`_remote_settings` stays
what it was).  `hnum`: the option number fits in 12 bytes, which holds for every number that can
be reached inside a frame of less than 2^64 bytes (numbers grow by at most 65804 per option). -/
theorem C15_critical_csm_option_aborts (c : Conn) (m : Msg) (hcode : m.code = codeCSM)
    (hcrit : ¬ noCritical m.opts) (hnum : ∀ o ∈ m.opts, (minBE o.num).length < 13) :
    ∃ n w, n % 2 = 1 ∧ (∃ o ∈ m.opts, o.num = n) ∧
      (processSignaling c m).2 = [.write w, .close] ∧
      (processSignaling c m).1.closed = true ∧ (processSignaling c m).1.csm = c.csm ∧
      Rfc8323.Message w (abortMsg txtOptNotSupported (some n)) := by
  obtain ⟨n, hodd, ⟨o, ho, hon⟩, hpost⟩ := csmOpts_critical (c.csm.getD {}) hcrit
  have hlen : (minBE n).length < 13 := by
    have := hnum o ho
    rwa [hon] at this
  have hser : ∃ w, serialize (abortMsg txtOptNotSupported (some n)) = some w := by
    have a : ¬ (minBE n).length + 21 + 1 < 13 := by omega
    have b : (minBE n).length + 21 + 1 < 269 := by omega
    simp [serialize, abortMsg, encodeOpts, writeExt, codeAbort, payloadPart, frameBytes, hlen,
      txtOptNotSupported, encodeLength, a, b]
  obtain ⟨w, hw⟩ := hser
  have habort : abortOuts txtOptNotSupported (some n) = [.write w, .close] := by
    simp [abortOuts, sendMessage, hw]
  have hc : csmOpts (c.csm.getD {}) m.opts = ((csmOpts (c.csm.getD {}) m.opts).1, some n) :=
    Prod.ext rfl hpost
  rw [ps_csm_bad hcode hc, habort]
  exact ⟨n, w, hodd, ⟨o, ho, hon⟩, rfl, by simp [Out.isClose], rfl, serialize_message hw⟩

-- =============================================================================================
-- 7. Ping → Pong with the same token
-- =============================================================================================

/-- **C15 (Ping).** A Ping without critical options is answered by writing the RFC 8323 frame
of a Pong with the same token and no options or payload, and that is all that happens (whether or
not the CSM has been received); a Ping with a critical option is answered by the Abort of
`C15_critical_option_aborts` and by no Pong. -/
theorem C15_ping_pong_token (c : Conn) (m : Msg) (hcode : m.code = codePing)
    (htok : m.token.length ≤ 8) :
    ∃ w, Rfc8323.Message w { code := codePong, token := m.token, opts := [], payload := [] } ∧
      (noCritical m.opts → processSignaling c m = (c, [.write w])) ∧
      (¬ noCritical m.opts → (processSignaling c m).2 = abortOuts txtUnknownCritical none) := by
  have hser : ∃ w, serialize { code := codePong, token := m.token, opts := [], payload := [] }
      = some w := by
    have : ¬ m.token.length > 8 := by omega
    simp [serialize, encodeOpts, this, frameBytes, encodeLength, payloadPart]
  obtain ⟨w, hw⟩ := hser
  refine ⟨w, serialize_message hw, fun hnc => ?_, fun hcrit => ?_⟩
  · rw [ps_ping hcode ((hasCritical_false_iff _).mpr hnc)]
    simp only [sendMessage, hw]
    cases c; simp [Conn.note, Out.isClose]
  · rw [ps_crit (Or.inl hcode) ((hasCritical_true_iff _).mpr hcrit)]

/-- the same at the level of the receive loop: the RFC 8323 frame of a Ping without critical
options — whatever elective options it carries and whatever their values: no condition on them —
at the head of the spool is consumed and answered, and the loop goes on (on a transport that is
already closing it returns).  (Before audit-E: `m.legal` with aiocoap's ordinary option formats
was assumed.) -/
theorem C15_ping_frame_answered (c : Conn) (b rest : Bytes) (m : Msg)
    (hs : c.spool = b ++ rest) (hb : Rfc8323.Message b m)
    (hsize : b.length ≤ c.maxSize) (hcode : m.code = codePing) (hnc : noCritical m.opts) :
    ∃ w, Rfc8323.Message w { code := codePong, token := m.token, opts := [], payload := [] } ∧
      step c = if c.closed then .stop { c with spool := rest } [.write w]
               else .next { c with spool := rest } [.write w] := by
  have hm : m.legal := Msg.legal_of_signalling (by rw [hcode]; decide)
  obtain ⟨hrest, hstep⟩ := step_of_frame hs hb hm hsize
  obtain ⟨_, htok, _⟩ := decodeMessage_of_message hm hb
  obtain ⟨w, hw, hall, _⟩ := C15_ping_pong_token (c.consume b.length) m hcode htok
  have hp := hall hnc
  have h224 : m.code ≥ 224 := by rw [hcode]; decide
  simp only [h224, ↓reduceIte, hp, Conn.consume_closed] at hstep
  refine ⟨w, hw, ?_⟩
  rw [hstep]
  have : c.consume b.length = { c with spool := rest } := by
    cases c
    simp [Conn.consume] at hrest ⊢
    exact hrest
  rw [this]

-- =============================================================================================
-- 8. Release / Abort from the peer
-- =============================================================================================

/-- **C15 (Release/Abort).** On a Release or Abort without critical options the pending requests
of the connection are failed (`RemoteServerShutdown`, a `NetworkError`) and then the transport is
closed; nothing is written. -/
theorem C15_release_abort_fail_pending (c : Conn) (m : Msg)
    (hcode : m.code = codeRelease ∨ m.code = codeAbort) (hnc : noCritical m.opts) :
    (processSignaling c m).2 =
      [.failPending (if m.code = codeRelease then .released else .aborted), .close] ∧
    (processSignaling c m).1.closed = true := by
  have hcrit := (hasCritical_false_iff _).mpr hnc
  rcases hcode with h | h
  · rw [ps_release h hcrit]
    simp [h, Out.isClose]
  · rw [ps_abort h hcrit]
    simp [h, codeAbort, codeRelease, Out.isClose]

/-- in any case — critical options or not — a Release/Abort ends with the connection closed, and
no later chunk is processed: either the pending requests are failed and the transport closed, or
(critical option) Abort is written and the transport closed — then the pending requests are failed
by `connection_lost` (`C15_close_fails_pending`) -/
theorem C15_release_abort_closes (c : Conn) (m : Msg)
    (hcode : m.code = codeRelease ∨ m.code = codeAbort) (later : List Bytes) :
    ((noCritical m.opts ∧ ∃ k, (processSignaling c m).2 = [.failPending k, .close]) ∨
     (¬ noCritical m.opts ∧ (processSignaling c m).2 = abortOuts txtUnknownCritical none)) ∧
    (processSignaling c m).1.closed = true ∧
    feedAll (processSignaling c m).1 later = ((processSignaling c m).1, []) := by
  have hother : m.isOther := by
    rcases hcode with h | h
    · exact Or.inr (Or.inr (Or.inl h))
    · exact Or.inr (Or.inr (Or.inr h))
  by_cases hnc : noCritical m.opts
  · obtain ⟨h1, h2⟩ := C15_release_abort_fail_pending c m hcode hnc
    exact ⟨Or.inl ⟨hnc, _, h1⟩, h2, feedAll_closed h2 later⟩
  · have hp := ps_crit (c := c) hother ((hasCritical_true_iff _).mpr hnc)
    have hcl : (processSignaling c m).1.closed = true := by
      rw [hp]; simp [abortOuts_any_close]
    exact ⟨Or.inr ⟨hnc, by rw [hp]⟩, hcl, feedAll_closed hcl later⟩

/-- at the level of the receive loop: the RFC 8323 frame of a Release/Abort without critical
options (no condition on the values of its elective options — Alternative-Address, Hold-Off,
Bad-CSM-Option or unknown ones) at the head of the spool fails the pending requests, closes, the
loop returns, and whatever follows — in the same chunk or later — is not processed.  (Before
audit-E: `m.legal` was assumed.) -/
theorem C15_release_frame (c : Conn) (b rest : Bytes) (m : Msg)
    (hs : c.spool = b ++ rest) (hb : Rfc8323.Message b m)
    (hsize : b.length ≤ c.maxSize) (hcode : m.code = codeRelease ∨ m.code = codeAbort)
    (hnc : noCritical m.opts) :
    ∃ c', step c = .stop c'
        [.failPending (if m.code = codeRelease then .released else .aborted), .close] ∧
      drain c = (c',
        [.failPending (if m.code = codeRelease then .released else .aborted), .close], true) ∧
      c'.closed = true ∧ c'.spool = rest ∧ ∀ later, feedAll c' later = (c', []) := by
  have h224 : m.code ≥ 224 := by
    rcases hcode with h | h <;> rw [h] <;> decide
  obtain ⟨hrest, hstep⟩ := step_of_frame hs hb (Msg.legal_of_signalling h224) hsize
  obtain ⟨h1, h2⟩ := C15_release_abort_fail_pending (c.consume b.length) m hcode hnc
  simp only [h224, ↓reduceIte, h2] at hstep
  rw [h1] at hstep
  refine ⟨_, hstep, by rw [drain_eq, hstep], h2, ?_, fun later => feedAll_closed h2 later⟩
  rw [processSignaling_spool]; exact hrest

-- =============================================================================================
-- 9. empty messages are ignored
-- =============================================================================================

/-- **C15 (empty).** The frame of an empty message (code 0.00) is consumed and nothing else
happens: no dispatch, no write, no close, same settings — whether or not the peer's CSM has been
received.  (Before audit-E: `c.csm ≠ none` was assumed, and an empty message ahead of the CSM was
answered by Abort.)  `hm` is about a code-0.00 frame that carries options, which RFC 8323 does
not foresee: their values are read by `Options.decode` as in a request; for the empty message
proper (`m.opts = []`) it holds by `Msg.legal_of_no_opts`, and `C15_empty_ignored_decoded` needs
nothing but that the frame is accepted by `_decode_message`. -/
theorem C15_empty_ignored (c : Conn) (b rest : Bytes) (m : Msg)
    (hs : c.spool = b ++ rest) (hb : Rfc8323.Message b m) (hm : m.legal)
    (hsize : b.length ≤ c.maxSize) (hcode : m.code = 0) :
    step c = .next { c with spool := rest } [] := by
  obtain ⟨hrest, hstep⟩ := step_of_frame hs hb hm hsize
  have h1 : ¬ m.code ≥ 224 := by omega
  simp only [h1, ↓reduceIte] at hstep
  simp only [hcode, ↓reduceIte] at hstep
  rw [hstep]
  congr 1
  cases c
  simp [Conn.consume] at hrest ⊢
  exact hrest

/-- the same for every complete in-limit frame that `_decode_message` accepts and that has code
0.00 (no assumption on how it was built, nor on the connection state): it is taken off the spool
and nothing else happens.  With `C15_unparsable_aborts` (the frame is not accepted ⇒ Abort) this
covers every complete in-limit frame whose code byte is 0. -/
theorem C15_empty_ignored_decoded (c : Conn) (to tkl len : Nat) (m : Msg)
    (hx : extractSize c.spool = some (to, tkl, len)) (hfit : to + tkl + len ≤ c.maxSize)
    (hcomplete : to + tkl + len ≤ c.spool.length)
    (hd : decodeMessage (c.spool.take (to + tkl + len)) = some m) (hcode : m.code = 0) :
    step c = .next (c.consume (to + tkl + len)) [] := by
  have a : ¬ to + tkl + len > c.maxSize := by omega
  have b : ¬ to + tkl + len > c.spool.length := by omega
  have h224 : ¬ m.code ≥ 224 := by omega
  unfold step
  simp only [hx, a, b, ↓reduceIte, hd, h224]
  simp only [hcode, ↓reduceIte]

/-- in a whole stream: empty messages anywhere — after the CSM among the requests and responses,
and (`es` of `C15_dispatch_exact`) ahead of it — leave no trace in what is handed to the token
manager (this is `C15_dispatch_exact` read for `ms` containing empty messages) -/
theorem C15_empty_ignored_in_stream (ms : List Msg) :
    dispatched (ms.flatMap deliver) =
      dispatched ((ms.filter (fun m => m.code ≠ 0)).flatMap deliver) := by
  rw [dispatched_flatMap, dispatched_flatMap, List.filter_filter]
  simp

-- =============================================================================================
-- 10. whole sessions; no serialisation failure in the receive path
-- =============================================================================================

/-- `closed` after any chunk sequence = closed before, or a close among the outputs -/
theorem feedAll_closed_iff : ∀ (cs : List Bytes) (c : Conn),
    (feedAll c cs).1.closed = (c.closed || (feedAll c cs).2.any Out.isClose) := by
  intro cs
  induction cs with
  | nil => intro c; simp [feedAll]
  | cons y ys ih =>
    intro c
    simp only [feedAll]
    by_cases hc : c.closed = true
    · simp [hc]
    · simp only [hc, Bool.false_eq_true, ↓reduceIte, ih, List.any_append]
      have := (drain_facts' (c.app y)).1
      simp only [Conn.app_closed] at this
      rw [feed_eq]
      have hcf : c.closed = false := by cases h : c.closed <;> simp_all
      simp only [this, Bool.or_assoc, hcf]

/-- a single chunk: `feedAll` is `feed` -/
theorem feedAll_single (c : Conn) (hopen : c.closed = false) (x : Bytes) :
    feedAll c [x] = feed c x := by
  simp [feedAll, hopen]

/-- **C15 (chunking independence, whole session).** What the driver and the harness run — the
initial CSM, the chunks, `connection_lost` after a close — gives the same outputs, all of them,
and the same final state for every way of cutting the stream. -/
theorem C15_chunking_independent_session (M : Nat) (cs : List Bytes) :
    (session M cs).2 = (session M [cs.flatten]).2 ∧
    (session M cs).1.live = (session M [cs.flatten]).1.live := by
  obtain ⟨h1, h2, t, h3, _⟩ := C15_chunking_independent M cs
  have hcl : (feed (fresh M) cs.flatten).1.closed = (feedAll (fresh M) cs).1.closed := by
    rw [h3]
  simp only [session]
  change ((connectionMade M).2 ++ (feedAll (fresh M) cs).2 ++
      (if (feedAll (fresh M) cs).1.closed then connectionLost else []) =
    (connectionMade M).2 ++ (feedAll (fresh M) [cs.flatten]).2 ++
      (if (feedAll (fresh M) [cs.flatten]).1.closed then connectionLost else [])) ∧
    (feedAll (fresh M) cs).1.live = (feedAll (fresh M) [cs.flatten]).1.live
  rw [feedAll_single _ (fresh_facts M).2.1, h1, hcl]
  exact ⟨rfl, h2⟩

-- =============================================================================================
-- 11. a close is final; one Abort at most; a rejected CSM does not count
-- =============================================================================================

/-- **C15 (nothing after a close).** Whatever an open connection is fed, cut in whatever way:
if `transport.close()` is among the outputs, it is the last one — nothing is dispatched, nothing
is written, no pending request is failed a second time after it, neither from the rest of the
chunk that closed the connection nor from later chunks. -/
theorem C15_nothing_after_close (c : Conn) (hopen : c.closed = false) (cs : List Bytes)
    (pre post : List Out) (h : (feedAll c cs).2 = pre ++ .close :: post) : post = [] :=
  feedAll_close_last c hopen cs pre post h

/-- the same for a whole session: after the close there is exactly the `connection_lost` that
fails the pending requests, and before it no other close -/
theorem C15_nothing_after_close_session (M : Nat) (cs : List Bytes) (pre post : List Out)
    (h : (session M cs).2 = pre ++ .close :: post) :
    post = [.failPending .lost] ∧ pre.any Out.isClose = false := by
  have hopen := (fresh_facts M).2.1
  obtain ⟨init, tail, e, hb, hcase⟩ := feedAll_shape cs (fresh M) hopen
  have hA : (connectionMade M).2.any Out.isClose = false := sendMessage_no_close _
  have hs : (session M cs).2 = (connectionMade M).2 ++ (feedAll (fresh M) cs).2 ++
      (if (feedAll (fresh M) cs).1.closed then connectionLost else []) := rfl
  rcases hcase with ⟨htail, hcl⟩ | ⟨hst, hcl⟩
  · subst htail
    have hno : (pre ++ Out.close :: post).any Out.isClose = false := by
      rw [← h, hs, hcl, e]
      simp [List.any_append, hA, benign_no_close hb]
    simp [Out.isClose] at hno
  · obtain ⟨tp, htp, hno⟩ := stopOuts_close_last hst
    have hno' : ((connectionMade M).2 ++ (init ++ tp)).any Out.isClose = false := by
      simp [List.any_append, hA, benign_no_close hb, hno]
    have heq : pre ++ .close :: post =
        ((connectionMade M).2 ++ (init ++ tp)) ++ .close :: [.failPending .lost] := by
      rw [← h, hs, hcl, e, htp]
      simp [connectionLost]
    obtain ⟨r1, r2⟩ := close_unique _ _ _ _ hno' rfl heq
    exact ⟨r2, by rw [r1]; exact hno'⟩

/-- **C15 (a close fails the pending requests).** Every session in which the endpoint closes —
after an Abort of its own or on the peer's Release/Abort — ends with `close` followed by the
`connection_lost` that fails whatever requests are still pending on the connection. -/
theorem C15_close_fails_pending (M : Nat) (cs : List Bytes) (h : (session M cs).1.closed = true) :
    ∃ pre, (session M cs).2 = pre ++ [.close, .failPending .lost] := by
  have hopen := (fresh_facts M).2.1
  obtain ⟨init, tail, e, _, hcase⟩ := feedAll_shape cs (fresh M) hopen
  have hs : (session M cs).2 = (connectionMade M).2 ++ (feedAll (fresh M) cs).2 ++
      (if (feedAll (fresh M) cs).1.closed then connectionLost else []) := rfl
  have hcl : (feedAll (fresh M) cs).1.closed = true := h
  rcases hcase with ⟨_, hcl'⟩ | ⟨hst, _⟩
  · rw [hcl] at hcl'; cases hcl'
  · obtain ⟨tp, htp, _⟩ := stopOuts_close_last hst
    refine ⟨(connectionMade M).2 ++ (init ++ tp), ?_⟩
    rw [hs, hcl, e, htp]
    simp [connectionLost]

/-- **C15 (a single Abort).** Over any chunk history the endpoint writes at most one Abort
message (a frame that decodes to code 7.05) — a second critical option, a second malformed
frame or anything else behind the first offence does not produce another one. -/
theorem C15_single_abort (c : Conn) (hopen : c.closed = false) (cs : List Bytes) :
    ((feedAll c cs).2.filter Out.isAbortWrite).length ≤ 1 :=
  feedAll_single_abort c hopen cs

/-- … and when an Abort is written the very next output is `close`, and that is the end of what
the connection does with received data -/
theorem C15_abort_then_close (c : Conn) (hopen : c.closed = false) (cs : List Bytes)
    (pre post : List Out) (w : Bytes) (hw : (Out.write w).isAbortWrite = true)
    (h : (feedAll c cs).2 = pre ++ .write w :: post) : post = [.close] := by
  obtain ⟨init, tail, e, hb, hcase⟩ := feedAll_shape cs c hopen
  have hmem : Out.write w ∈ init ++ tail := by rw [← e, h]; simp
  have hnot : Out.write w ∉ init := by
    intro hin
    have := (hb _ hin).not_abortWrite
    rw [hw] at this; cases this
  rcases hcase with ⟨htail, _⟩ | ⟨hst, _⟩
  · subst htail
    simp only [List.append_nil] at hmem
    exact absurd hmem hnot
  · cases hst with
    | peer k =>
      rcases List.mem_append.mp hmem with hm | hm
      · exact absurd hm hnot
      · simp at hm
    | abort t bad =>
      -- the tail is `[.write w', .close]`; `.write w` can only be its head
      unfold abortOuts sendMessage at e hmem
      split at e
      · rename_i b hb'
        have hwb : w = b := by
          rcases List.mem_append.mp hmem with hm | hm
          · exact absurd hm hnot
          · simp only [hb', List.cons_append, List.nil_append, List.mem_cons, Out.write.injEq,
              reduceCtorEq, List.not_mem_nil, or_false] at hm
            exact hm
        subst hwb
        -- split `init ++ [.write w, .close]` at the `.write w` that is not in `init`
        have key : ∀ (init pre post : List Out), Out.write w ∉ init →
            pre ++ .write w :: post = init ++ [.write w, .close] → post = [.close] := by
          intro init
          induction init with
          | nil =>
            intro pre post _ h
            cases pre with
            | nil => simp at h; exact h
            | cons p ps =>
              simp only [List.cons_append, List.nil_append, List.cons.injEq] at h
              obtain ⟨_, h2⟩ := h
              cases ps with
              | nil => simp at h2
              | cons q qs => simp at h2
          | cons i is ih =>
            intro pre post hni h
            cases pre with
            | nil =>
              simp only [List.nil_append, List.cons_append, List.cons.injEq] at h
              exact absurd (h.1 ▸ List.mem_cons_self) hni
            | cons p ps =>
              simp only [List.cons_append, List.cons.injEq] at h
              exact ih ps post (fun hm => hni (List.mem_cons_of_mem _ hm)) h.2
        exact key init pre post hnot (by rw [← h, e]; simp)
      · rename_i hb'
        rcases List.mem_append.mp hmem with hm | hm
        · exact absurd hm hnot
        · simp [hb'] at hm

/-- **C15 (a rejected CSM does not open the gate), the message.** A CSM with an unknown critical
option leaves the remote settings exactly as they were — unset, if no CSM had been accepted
before — and closes the connection (with the Abort naming the option). -/
theorem C15_rejected_csm_does_not_open_the_gate (c : Conn) (m : Msg) (hcode : m.code = codeCSM)
    (hcrit : ¬ noCritical m.opts) :
    (processSignaling c m).1.csm = c.csm ∧ (processSignaling c m).1.closed = true ∧
    ∃ n, n % 2 = 1 ∧ (∃ o ∈ m.opts, o.num = n) ∧
      (processSignaling c m).2 = abortOuts txtOptNotSupported (some n) := by
  obtain ⟨n, hodd, hmem, hpost⟩ := csmOpts_critical (c.csm.getD {}) hcrit
  have hc : csmOpts (c.csm.getD {}) m.opts = ((csmOpts (c.csm.getD {}) m.opts).1, some n) :=
    Prod.ext rfl hpost
  rw [ps_csm_bad hcode hc]
  exact ⟨rfl, by simp [abortOuts_any_close], n, hodd, hmem, rfl⟩

/-- **… the stream.** A new connection whose peer starts with a CSM carrying an unknown critical
option, followed by any bytes at all (requests, for instance), cut into chunks in any way:
the endpoint sends the Abort naming the option, closes, and does nothing else — in particular
nothing is dispatched, and no CSM counts as received. -/
theorem C15_rejected_csm_stream (M : Nat) (m : Msg) (b rest : Bytes) (cs : List Bytes)
    (hb : Rfc8323.Message b m) (hcode : m.code = codeCSM)
    (hcrit : ¬ noCritical m.opts) (hsz : b.length ≤ M) (hcut : cs.flatten = b ++ rest) :
    ∃ n, n % 2 = 1 ∧ (∃ o ∈ m.opts, o.num = n) ∧
      (feedAll (fresh M) cs).2 = abortOuts txtOptNotSupported (some n) ∧
      dispatched (feedAll (fresh M) cs).2 = [] ∧
      (feedAll (fresh M) cs).1.csm = none ∧ (feedAll (fresh M) cs).1.closed = true := by
  obtain ⟨h1, _, t, h3, _⟩ := C15_chunking_independent M cs
  have hsp : ((fresh M).app (b ++ rest)).spool = b ++ rest := by simp [fresh, connectionMade]
  have h224 : m.code ≥ 224 := by rw [hcode]; decide
  obtain ⟨_, hstep⟩ := step_of_frame (c := (fresh M).app (b ++ rest)) hsp hb
    (Msg.legal_of_signalling h224) (by simpa [fresh, connectionMade] using hsz)
  obtain ⟨g1, g2, n, hodd, hmem, g3⟩ :=
    C15_rejected_csm_does_not_open_the_gate (((fresh M).app (b ++ rest)).consume b.length) m
      hcode hcrit
  simp only [h224, ↓reduceIte, g2] at hstep
  have hfeed : feed (fresh M) (b ++ rest) =
      ((processSignaling (((fresh M).app (b ++ rest)).consume b.length) m).1,
       abortOuts txtOptNotSupported (some n)) := by
    rw [feed_eq, drain_eq, hstep, g3]
  rw [hcut, hfeed] at h1 h3
  have hcsm : (feedAll (fresh M) cs).1.csm = none := by
    have : (processSignaling (((fresh M).app (b ++ rest)).consume b.length) m).1.csm
        = (feedAll (fresh M) cs).1.csm := by rw [h3]
    rw [← this, g1]; rfl
  have hcl : (feedAll (fresh M) cs).1.closed = true := by
    have : (processSignaling (((fresh M).app (b ++ rest)).consume b.length) m).1.closed
        = (feedAll (fresh M) cs).1.closed := by rw [h3]
    rw [← this, g2]
  exact ⟨n, hodd, hmem, h1, by rw [h1]; exact dispatched_nil_of_no_dispatch (abortOuts_no_dispatch _ _),
    hcsm, hcl⟩

/-- **… the gate.** The remote settings get set only in an iteration of the receive loop that
takes a complete, parsable CSM frame *without critical options* off the spool (and outputs
nothing); with `C15_no_dispatch_before_csm` — nothing is dispatched while they are unset — no
request or response is dispatched unless such a CSM came first. -/
theorem C15_gate_opened_only_by_accepted_csm (c c' : Conn) (o : List Out)
    (hstep : step c = .next c' o ∨ step c = .stop c' o) (hset : c'.csm ≠ c.csm) :
    ∃ to tkl len m, extractSize c.spool = some (to, tkl, len) ∧
      to + tkl + len ≤ c.spool.length ∧
      decodeMessage (c.spool.take (to + tkl + len)) = some m ∧
      m.code = codeCSM ∧ noCritical m.opts ∧ o = [] := by
  have sig : ∀ to tkl len m, extractSize c.spool = some (to, tkl, len) →
      to + tkl + len ≤ c.spool.length →
      decodeMessage (c.spool.take (to + tkl + len)) = some m →
      (processSignaling (c.consume (to + tkl + len)) m).1 = c' →
      (processSignaling (c.consume (to + tkl + len)) m).2 = o →
      ∃ to tkl len m, extractSize c.spool = some (to, tkl, len) ∧
        to + tkl + len ≤ c.spool.length ∧
        decodeMessage (c.spool.take (to + tkl + len)) = some m ∧
        m.code = codeCSM ∧ noCritical m.opts ∧ o = [] := by
    intro to tkl len m hx hl hd e1 e2
    rcases (processSignaling_csm (c.consume (to + tkl + len)) m).2 with ⟨a, b, c0⟩ | hsame
    · exact ⟨to, tkl, len, m, hx, hl, hd, a, b, by rw [← e2, c0]⟩
    · rw [e1] at hsame
      exact absurd hsame hset
  rcases step_cases c with ⟨hw, _⟩ | ⟨_, _, _, _, _, hs⟩ | ⟨_, _, _, _, _, _, _, hs⟩ |
    ⟨to, tkl, len, m, hx, _, hl, hd, ⟨_, _, hs⟩ | ⟨_, _, hs⟩ | ⟨_, _, hs⟩ | ⟨_, _, hs⟩⟩
  · rw [hw] at hstep; rcases hstep with h | h <;> cases h
  · rw [hs] at hstep
    rcases hstep with h | h
    · cases h
    · simp only [Step.stop.injEq] at h; exact absurd (by rw [← h.1]; rfl) hset
  · rw [hs] at hstep
    rcases hstep with h | h
    · cases h
    · simp only [Step.stop.injEq] at h; exact absurd (by rw [← h.1]; rfl) hset
  · rw [hs] at hstep
    rcases hstep with h | h
    · cases h
    · simp only [Step.stop.injEq] at h; exact sig to tkl len m hx hl hd h.1 h.2
  · rw [hs] at hstep
    rcases hstep with h | h
    · simp only [Step.next.injEq] at h; exact sig to tkl len m hx hl hd h.1 h.2
    · cases h
  · rw [hs] at hstep
    rcases hstep with h | h
    · cases h
    · simp only [Step.stop.injEq] at h; exact absurd (by rw [← h.1]; rfl) hset
  · rw [hs] at hstep
    rcases hstep with h | h
    · simp only [Step.next.injEq] at h; exact absurd (by rw [← h.1]; rfl) hset
    · cases h

/-- **C15 (critical option in a CSM, at the receive loop).** For a connection with well-formed
bytes in the spool and a maximum message size below 2^64: a complete in-limit CSM frame with an
odd-numbered option is consumed, the outputs are Abort ("Option not supported", Bad-CSM-Option =
that number) and close and nothing else, the receive loop returns and the CSM is not recorded.
No assumption on the option number is needed: inside a frame it is below 65805 times the frame
length. -/
theorem C15_critical_csm_option_frame_aborts (c : Conn) (to tkl len : Nat) (m : Msg)
    (hwf : c.spool.wf) (hmax : c.maxSize < 2 ^ 64)
    (hx : extractSize c.spool = some (to, tkl, len)) (hfit : to + tkl + len ≤ c.maxSize)
    (hcomplete : to + tkl + len ≤ c.spool.length)
    (hd : decodeMessage (c.spool.take (to + tkl + len)) = some m)
    (hcode : m.code = codeCSM) (hcrit : ¬ noCritical m.opts) :
    ∃ n w c', step c = .stop c' [.write w, .close] ∧ c'.closed = true ∧ c'.csm = c.csm ∧
      n % 2 = 1 ∧ (∃ o ∈ m.opts, o.num = n) ∧
      Rfc8323.Message w (abortMsg txtOptNotSupported (some n)) := by
  have hnum : ∀ o ∈ m.opts, (minBE o.num).length < 13 := by
    intro o ho
    have h1 := decodeMessage_num_bound (Bytes.wf_take _ hwf) hd o ho
    have h2 : (c.spool.take (to + tkl + len)).length ≤ c.maxSize := by
      simp only [List.length_take]; omega
    exact minBE_small (Nat.le_trans h1 (Nat.mul_le_mul_left _ h2)) hmax
  obtain ⟨n, w, h1, h2, h3, h4, h4', h5⟩ :=
    C15_critical_csm_option_aborts (c.consume (to + tkl + len)) m hcode hcrit hnum
  refine ⟨n, w, _, ?_, h4, h4', h1, h2, h5⟩
  have a : ¬ to + tkl + len > c.maxSize := by omega
  have b : ¬ to + tkl + len > c.spool.length := by omega
  have h224 : m.code ≥ 224 := by rw [hcode]; decide
  unfold step
  simp only [hx, a, b, ↓reduceIte, hd, h224, h3, h4]

/-- **C15 (the receive path never fails to serialise).** With well-formed input bytes and a
maximum message size below 2^64, `_serialize` never raises for the messages the connection sends
by itself (initial CSM, Pong, Abort with or without Bad-CSM-Option), over any chunk history:
no exception escapes `data_received` from there. -/
theorem C15_never_send_error (M : Nat) (hM : M < 2 ^ 64) (cs : List Bytes)
    (hcs : ∀ x ∈ cs, Bytes.wf x) : Out.sendError ∉ (session M cs).2 := by
  have hcsm : noErr (connectionMade M).2 := by
    apply sendMessage_noErr
    have hl : (minBE M).length ≤ 8 := minBE_length (k := 8) (by simpa using hM)
    have a : (minBE M).length < 13 := by omega
    have b : (minBE M).length + 1 + 1 < 13 := by omega
    simp [serialize, initialCsm, encodeOpts, writeExt, a, frameBytes, encodeLength, payloadPart, b,
      codeCSM]
  have hfeed := feedAll_noErr cs (fresh M) (by simp [fresh, connectionMade, Bytes.wf])
    (by simpa [fresh, connectionMade] using hM) hcs
  simp only [session]
  change noErr ((connectionMade M).2 ++ (feedAll (fresh M) cs).2 ++
    (if (feedAll (fresh M) cs).1.closed then connectionLost else []))
  refine noErr_append.mpr ⟨noErr_append.mpr ⟨hcsm, hfeed⟩, ?_⟩
  split <;> simp [noErr, connectionLost]

-- =============================================================================================
-- non-vacuity and sanity examples
-- =============================================================================================

/-- GET with token 0x05, Uri-Path "a", Content-Format 0 (empty value), payload "hi" -/
def exampleGet : Msg :=
  { code := 1, token := [5], opts := [⟨11, [97]⟩, ⟨12, []⟩], payload := [104, 105] }
/-- 2.05 with a two-byte payload -/
def exampleResp : Msg := { code := 69, token := [5], opts := [], payload := [104, 105] }
def exampleEmpty : Msg := { code := 0, token := [], opts := [], payload := [] }
def exampleCsm : Msg := { code := 225, token := [], opts := [⟨2, [4, 128]⟩, ⟨4, []⟩], payload := [] }

example : exampleGet.legal := by decide
example : exampleCsm.legal ∧ noCritical exampleCsm.opts := by decide
/-- a Ping with the elective option 8 = `ff fe` (not UTF-8; 8 is Location-Path in requests and
responses): legal as a signalling message, and decoded with the value as sent; the same option in
a GET is not legal, and the GET frame is unparsable -/
def examplePing8 : Msg := { code := 226, token := [0x74, 0x6b], opts := [⟨8, [0xff, 0xfe]⟩], payload := [] }
example : examplePing8.legal ∧ noCritical examplePing8.opts ∧
    ¬ ({ examplePing8 with code := 1 } : Msg).legal := by decide
example : serialize examplePing8 = some [0x32, 226, 0x74, 0x6b, 0x82, 0xff, 0xfe] ∧
    decodeMessage [0x32, 226, 0x74, 0x6b, 0x82, 0xff, 0xfe] = some examplePing8 ∧
    decodeMessage [0x32, 1, 0x74, 0x6b, 0x82, 0xff, 0xfe] = none := by decide
example : serialize exampleGet = some [0x61, 1, 5, 0xB1, 97, 0x10, 255, 104, 105] := by decide
example : decodeMessage [0x61, 1, 5, 0xB1, 97, 0x10, 255, 104, 105] = some exampleGet := by decide
/-- a non-minimal integer option value is not legal (it is normalised when decoded) -/
example : ¬ (⟨12, [0, 1]⟩ : Opt).legal := by decide
/-- invalid UTF-8 in Uri-Path is unparsable -/
example : decodeMessage [0x20, 1, 0xB1, 0xFF] = none := by decide
/-- the extended length boundaries -/
example : encodeLength 12 = some (12, []) ∧ encodeLength 13 = some (13, [0]) ∧
    encodeLength 268 = some (13, [255]) ∧ encodeLength 269 = some (14, [0, 0]) ∧
    encodeLength 65804 = some (14, [255, 255]) ∧ encodeLength 65805 = some (15, [0, 0, 0, 0]) := by
  decide
/-- the hypotheses of `C15_dispatch_exact` are satisfiable: an empty message ahead of the CSM,
then CSM, GET, empty, response -/
example : ∃ b0 bcsm b1 b2 b3, Stream 1048576 [exampleEmpty] (b0 ++ []) ∧
    (∀ m ∈ [exampleEmpty], m.code = 0) ∧
    Rfc8323.Message bcsm exampleCsm ∧ bcsm.length ≤ 1048576 ∧
    Stream 1048576 [exampleGet, exampleEmpty, exampleResp] (b1 ++ (b2 ++ (b3 ++ []))) := by
  have h0 : serialize exampleCsm = some [0x40, 225, 0x22, 4, 128, 0x20] := by decide
  have h1 : serialize exampleGet = some [0x61, 1, 5, 0xB1, 97, 0x10, 255, 104, 105] := by decide
  have h2 : serialize exampleEmpty = some [0, 0] := by decide
  have h3 : serialize exampleResp = some [0x31, 69, 5, 255, 104, 105] := by decide
  exact ⟨_, _, _, _, _,
    .cons (serialize_message h2) (by decide) (by decide) (by decide) .nil, by decide,
    serialize_message h0, by decide,
    .cons (serialize_message h1) (by decide) (by decide) (by decide)
      (.cons (serialize_message h2) (by decide) (by decide) (by decide)
        (.cons (serialize_message h3) (by decide) (by decide) (by decide) .nil))⟩
/-- the model run on that stream cut in three odd places: CSM, GET, empty, response, Ping -/
example : (session 1048576 [[0x40, 225, 0x22, 4], [128, 0x20, 0x61, 1, 5, 0xB1, 97, 0x10, 255, 104],
      [105, 0, 0, 0x31, 69, 5, 255, 104, 105, 1, 226, 7]]).2 =
    [.write [0x50, 225, 0x23, 16, 0, 0, 0x20], .request exampleGet, .response exampleResp,
     .write [1, 227, 7]] := by decide
/-- Release, then a request in the same chunk and one in the next: neither is looked at -/
example : (session 1048576 [[0, 225], [0, 228, 0, 1], [0, 2]]).2 =
    [.write [0x50, 225, 0x23, 16, 0, 0, 0x20], .failPending .released, .close,
     .failPending .lost] := by decide
example : (session 1048576 [[0, 225], [0, 228, 0, 1], [0, 2]]).2 =
    (session 1048576 [[0, 225, 0, 228], [0, 1, 0, 2]]).2 := by decide
/-- the reviewer's inputs: a CSM with critical option 1 followed by a GET in the same chunk —
Abort, close, and the GET is not dispatched (the rejected CSM did not open the gate); a Ping with
a critical option followed by a GET — one Abort, no Pong, no dispatch -/
example : (session 1048576 [[0x10, 225, 0x10, 1, 1, 0xBB]]).2 =
    [.write [0x50, 225, 0x23, 16, 0, 0, 0x20],
     .write (208 :: 10 :: 229 :: 0x21 :: 1 :: 255 :: txtOptNotSupported), .close,
     .failPending .lost] ∧
    (session 1048576 [[0x10, 225, 0x10, 1, 1, 0xBB]]).1.csm = none := by decide
example : (session 1048576 [[0, 225], [0x10, 226, 0x10, 1, 1, 0xAA]]).2 =
    [.write [0x50, 225, 0x23, 16, 0, 0, 0x20],
     .write (208 :: 11 :: 229 :: 255 :: txtUnknownCritical), .close, .failPending .lost] := by
  decide
/-- two critical options in one CSM: one Abort (naming the first) -/
example : (session 1048576 [[0x20, 225, 0x10, 0x20]]).2 =
    [.write [0x50, 225, 0x23, 16, 0, 0, 0x20],
     .write (208 :: 10 :: 229 :: 0x21 :: 1 :: 255 :: txtOptNotSupported), .close,
     .failPending .lost] := by decide
/-- the state after a close differs by the dead spool only: uncut, the GET behind the Release is
spooled; cut, it is never delivered -/
example : (session 1048576 [[0, 225, 0, 228, 0, 1]]).1.spool = [0, 1] ∧
    (session 1048576 [[0, 225, 0, 228], [0, 1]]).1.spool = [] ∧
    (session 1048576 [[0, 225, 0, 228, 0, 1]]).1.live =
      (session 1048576 [[0, 225, 0, 228], [0, 1]]).1.live := by decide
/-- a GET with No-Response 26 keeps the option on the wire (option 258 = delta 247 after 11:
0xD1 0xEA); a 2.05 with the marker 26 is dropped, with 24 it is sent without the option -/
example : poolSend { code := 1, token := [1], opts := [⟨11, [120]⟩, ⟨258, [26]⟩], payload := [] } =
    [.write [0x51, 1, 1, 0xB1, 120, 0xD1, 0xEA, 26]] := by decide
example : poolSend { code := 69, token := [1], opts := [⟨258, [26]⟩], payload := [104] } = [] ∧
    poolSend { code := 69, token := [1], opts := [⟨258, [24]⟩], payload := [104] } =
      [.write [0x21, 69, 1, 255, 104]] := by decide
/-- `Out.isAbortWrite` recognises the Abort frames and not the Pong or the CSM -/
example : (Out.write (208 :: 11 :: 229 :: 255 :: txtUnknownCritical)).isAbortWrite = true ∧
    (Out.write [1, 227, 7]).isAbortWrite = false ∧
    (Out.write [0x50, 225, 0x23, 16, 0, 0, 0x20]).isAbortWrite = false := by decide
/-- a request before the CSM: Abort "No CSM received" -/
example : (feed (fresh 1048576) [0, 1]).2 =
    [.write (208 :: 3 :: 229 :: 255 :: txtNoCsm), .close] := by decide

/-- hypotheses of `C15_oversize_aborts`: five bytes announce 4 GiB + 65805 + 6 -/
example : extractSize ({ (fresh 1048576) with spool := [0xF0, 255, 255, 255, 255] } : Conn).spool
    = some (6, 0, 4295033100) ∧ 6 + 0 + 4295033100 > (fresh 1048576).maxSize := by decide
/-- hypotheses of `C15_tkl_above_8_aborts`: TKL 9, complete -/
example : extractSize [0x09, 1, 1, 2, 3, 4, 5, 6, 7, 8, 9] = some (2, 9, 0) := by decide
/-- a CSM with the critical option 1: Abort with Bad-CSM-Option 1, close; then connection lost -/
example : (session 1048576 [[0x10, 225, 0x10]]).2 =
    [.write [0x50, 225, 0x23, 16, 0, 0, 0x20],
     .write (208 :: 10 :: 229 :: 0x21 :: 1 :: 255 :: txtOptNotSupported), .close,
     .failPending .lost] := by decide
/-- an empty message after the CSM leaves no trace -/
example : (session 1048576 [[0, 225, 0, 0, 0, 0]]).2 = [.write [0x50, 225, 0x23, 16, 0, 0, 0x20]] := by
  decide
/-- the auditor's inputs (audit-E).  An empty message ahead of the CSM is ignored too: empty, CSM,
GET (token `t`, Uri-Path `a`) — the GET is dispatched, nothing is written, nothing closes -/
example : (session 1048576 [[0, 0, 0, 225, 0x21, 1, 0x74, 0xB1, 97]]).2 =
    [.write [0x50, 225, 0x23, 16, 0, 0, 0x20], .request ⟨1, [0x74], [⟨11, [97]⟩], []⟩] ∧
    (session 1048576 [[0, 0], [0, 225, 0x21, 1, 0x74, 0xB1, 97]]).1.closed = false := by decide
/-- … but it does not open the gate: empty, then a GET without any CSM — Abort "No CSM received" -/
example : (feed (fresh 1048576) [0, 0, 0, 1]).2 =
    [.write (208 :: 3 :: 229 :: 255 :: txtNoCsm), .close] := by decide
/-- a Ping (token `tk`) with the elective option 8 resp. 20 = `ff fe` is answered by the Pong; a
second CSM with such an option is accepted silently -/
example : (session 1048576 [[0, 225, 0x32, 226, 0x74, 0x6b, 0x82, 0xff, 0xfe]]).2 =
    [.write [0x50, 225, 0x23, 16, 0, 0, 0x20], .write [2, 227, 0x74, 0x6b]] ∧
    (session 1048576 [[0, 225, 0x42, 226, 0x74, 0x6b, 0xd2, 7, 0xff, 0xfe]]).2 =
    [.write [0x50, 225, 0x23, 16, 0, 0, 0x20], .write [2, 227, 0x74, 0x6b]] ∧
    (session 1048576 [[0, 225, 0x30, 225, 0x82, 0xff, 0xfe]]).2 =
    [.write [0x50, 225, 0x23, 16, 0, 0, 0x20]] := by decide
/-- a *critical* option with such a value keeps its RFC 8323 treatment, now with the proper
diagnostic: Ping with option 11 = `ff` — Abort "Unknown critical option" (it was "Failed to parse
message"); CSM with option 11 = `ff` — Abort "Option not supported", Bad-CSM-Option 11 -/
example : (session 1048576 [[0, 225, 0x20, 226, 0xB1, 0xff]]).2 =
    [.write [0x50, 225, 0x23, 16, 0, 0, 0x20],
     .write (208 :: 11 :: 229 :: 255 :: txtUnknownCritical), .close, .failPending .lost] ∧
    (session 1048576 [[0x20, 225, 0xB1, 0xff]]).2 =
    [.write [0x50, 225, 0x23, 16, 0, 0, 0x20],
     .write (208 :: 10 :: 229 :: 0x21 :: 11 :: 255 :: txtOptNotSupported), .close,
     .failPending .lost] := by decide
/-- structural errors of the option list make a signalling frame unparsable as before: Ping with
option nibble 15, Ping whose option value is announced but absent -/
example : (feed (fresh 1048576) [0x10, 226, 0xF0]).2 =
    [.write (208 :: 11 :: 229 :: 255 :: txtFailedParse), .close] ∧
    (feed (fresh 1048576) [0x10, 226, 0x85]).2 =
    [.write (208 :: 11 :: 229 :: 255 :: txtFailedParse), .close] := by decide
/-- a frame of exactly the maximum size passes, one byte more aborts (max size 5) -/
example : (feed (fresh 5) [0, 225, 0x30, 1, 255, 1, 2]).2 = [.request ⟨1, [], [], [1, 2]⟩] ∧
    (feed (fresh 5) [0, 225, 0x40, 1, 255, 1, 2, 3]).2 =
      [.write (208 :: 18 :: 229 :: 255 :: txtOverlyLarge), .close] := by decide

end Aiocoap.Tcp
