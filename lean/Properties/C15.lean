import Proofs.Tcp.Signal
import Proofs.Tcp.NoErr
/-!
# C15 — CoAP over TCP: framing independent of segmentation, signalling rules enforced

Model: `AiocoapModel/Tcp/Frame.lean` (`extractSize`, `decodeMessage`, `encodeLength`,
`serialize`, own option walker) and `AiocoapModel/Tcp/Conn.lean` (`step`, `drain`, `feed`,
`feedAll`, `processSignaling`, `session`); specification of the wire format:
`AiocoapModel/Tcp/Rfc8323.lean`.  All theorems quantify over every byte stream, every way of
cutting it into chunks, every message and every connection state named in their hypotheses;
there is no bound on lengths or on the number of frames or chunks.

"Up to and including the first close": the code keeps draining the chunk it is working on after
a peer Release/Abort (and after an abort raised from inside signalling processing, which does
not raise), but a closed transport is never fed again.  That chunk-dependent tail is modelled as
it is and excluded from the chunking claim by `uptoClose`.
-/
set_option linter.unusedSimpArgs false
namespace Aiocoap.Tcp

/-- the connection right after `connection_made` -/
def fresh (M : Nat) : Conn := (connectionMade M).1

theorem fresh_facts (M : Nat) :
    (fresh M).quiet ∧ (fresh M).closed = false ∧ (fresh M).csm = none ∧ (fresh M).spool = [] ∧
    (fresh M).maxSize = M := by
  refine ⟨?_, rfl, rfl, rfl, rfl⟩
  simp [Conn.quiet, step, fresh, connectionMade, extractSize]

/-- the messages handed to the token manager, in order -/
def dispatched : List Out → List Msg
  | [] => []
  | .request m :: os => m :: dispatched os
  | .response m :: os => m :: dispatched os
  | _ :: os => dispatched os

-- =============================================================================================
-- 1. outgoing messages are RFC 8323 §3.2 frames
-- =============================================================================================

/-- **C15 (serialisation).** Whatever `_serialize` returns is the RFC 8323 §3.2 frame of the
message: `Len` nibble = body length up to 12, else 13/14/15 with an 8/16/32-bit extended length
holding the length minus 13/269/65805, then TKL, code, token, the RFC 7252 §3.1 option list and
the 0xFF-prefixed payload. -/
theorem C15_serialize_is_rfc (m : Msg) (b : Bytes) (h : serialize m = some b) :
    Rfc8323.Message b m :=
  serialize_message h

/-- the framing is a function of the message: every RFC 8323 frame of (code, token, body) is the
one the final join of `_serialize` builds (so the 13/269/65805 thresholds cannot move) -/
theorem C15_serialize_framing_unique (code : Nat) (token body b : Bytes)
    (h : Rfc8323.Frame b code token body) : frameBytes code token body = some b :=
  frame_frameBytes h

/-- a token of more than 8 bytes is refused (ValueError), never put on the wire -/
theorem C15_serialize_rejects_long_token (m : Msg) (h : m.token.length > 8) :
    serialize m = none := by
  unfold serialize
  split
  · rfl
  · simp [h]

-- =============================================================================================
-- 2. frame round trip
-- =============================================================================================

/-- **C15 (round trip, own frames).** A serialised message is framed at exactly its own length,
whatever follows it in the stream, and decodes to the same code, token, options and payload. -/
theorem C15_frame_roundtrip (m : Msg) (b : Bytes) (hm : m.legal) (h : serialize m = some b) :
    decodeMessage b = some m ∧ ∀ rest, frameSize (b ++ rest) = some b.length := by
  obtain ⟨h1, _, h3⟩ := decodeMessage_of_message hm (serialize_message h)
  exact ⟨h1, h3⟩

/-- **C15 (round trip, any peer).** The same for every RFC 8323 frame, not only those this
implementation writes (e.g. option deltas of 65804). -/
theorem C15_rfc_frame_is_parsed (m : Msg) (b : Bytes) (hm : m.legal) (h : Rfc8323.Message b m) :
    decodeMessage b = some m ∧ ∀ rest, frameSize (b ++ rest) = some b.length := by
  obtain ⟨h1, _, h3⟩ := decodeMessage_of_message hm h
  exact ⟨h1, h3⟩

-- =============================================================================================
-- 3. chunking independence
-- =============================================================================================

/-- **C15 (chunking independence).** For every stream and every way `cs` of cutting it into
chunks (empty chunks and single bytes included), a new connection produces the same outputs —
dispatches, writes, failures of pending requests, close — up to and including the first close
as when the whole stream arrives in one piece. -/
theorem C15_chunking_independent (M : Nat) (cs : List Bytes) :
    uptoClose (feedAll (fresh M) cs).2 = uptoClose (feed (fresh M) cs.flatten).2 :=
  chunking_uptoClose cs (fresh M) (fresh_facts M).1 (fresh_facts M).2.1

/-- two ways of cutting the same stream are indistinguishable up to the first close -/
theorem C15_chunking_independent_pair (M : Nat) (cs cs' : List Bytes)
    (h : cs.flatten = cs'.flatten) :
    uptoClose (feedAll (fresh M) cs).2 = uptoClose (feedAll (fresh M) cs').2 := by
  rw [C15_chunking_independent, C15_chunking_independent M cs', h]

/-- the same from any state in which the receive loop is waiting (i.e. mid-stream, with part of
a frame in the spool and any remote settings) -/
theorem C15_chunking_independent_midstream (c : Conn) (hq : c.quiet) (hopen : c.closed = false)
    (cs : List Bytes) :
    uptoClose (feedAll c cs).2 = uptoClose (feed c cs.flatten).2 :=
  chunking_uptoClose cs c hq hopen

/-- when the stream does not make the connection close, all outputs *and the final state*
(spool remainder, remote settings) are independent of the chunking -/
theorem C15_chunking_independent_open (c : Conn) (hq : c.quiet) (cs : List Bytes)
    (hopen : (feed c cs.flatten).1.closed = false) :
    feedAll c cs = feed c cs.flatten :=
  chunking_open cs c hq hopen

-- =============================================================================================
-- 4. exact in-order dispatch
-- =============================================================================================

theorem dispatched_flatMap (ms : List Msg) :
    dispatched (ms.flatMap dispatchIncoming) = ms.filter (fun m => m.code ≠ 0) := by
  induction ms with
  | nil => rfl
  | cons m ms ih =>
    simp only [List.flatMap_cons, dispatchIncoming, List.filter_cons]
    by_cases h0 : m.code = 0
    · simp [h0, ih]
    · by_cases hr : 64 ≤ m.code ∧ m.code < 192
      · simp [h0, hr, dispatched, ih]
      · simp [h0, hr, dispatched, ih]

/-- **C15 (exact dispatch).** Let the stream be the frame of a CSM without critical options
followed by the frames (each within the local maximum message size) of any sequence `ms` of
requests, responses and empty messages with legal option values, cut into chunks in any way.
Then a new connection hands over to the token manager exactly the non-empty messages of `ms`,
in order, with identical code, token, options and payload (responses by `process_response`,
everything else by `process_request`); it writes nothing, does not close, ends with an empty
spool and has recorded the peer's settings. -/
theorem C15_dispatch_exact (M : Nat) (csm : Msg) (bcsm : Bytes) (ms : List Msg) (s : Bytes)
    (cs : List Bytes)
    (hcsm : Rfc8323.Message bcsm csm) (hcode : csm.code = codeCSM) (hlegal : csm.legal)
    (hnc : noCritical csm.opts) (hsz : bcsm.length ≤ M)
    (hs : Stream M ms s) (hcut : cs.flatten = bcsm ++ s) :
    (feedAll (fresh M) cs).2 = ms.flatMap dispatchIncoming ∧
    dispatched (feedAll (fresh M) cs).2 = ms.filter (fun m => m.code ≠ 0) ∧
    (feedAll (fresh M) cs).1 =
      { maxSize := M, spool := [], csm := some (csmOpts {} csm.opts).1, closed := false } := by
  -- the whole stream in one piece
  have hone : feed (fresh M) (bcsm ++ s) =
      ({ maxSize := M, spool := [], csm := some (csmOpts {} csm.opts).1, closed := false },
       ms.flatMap dispatchIncoming) := by
    rw [feed_eq]
    have hsp : ((fresh M).app (bcsm ++ s)).spool = bcsm ++ s := by simp [fresh, connectionMade]
    obtain ⟨hrest, hstep⟩ := step_of_frame (c := (fresh M).app (bcsm ++ s)) hsp hcsm hlegal
      (by simpa [fresh, connectionMade] using hsz)
    have h224 : csm.code ≥ 224 := by rw [hcode]; decide
    simp only [h224, ↓reduceIte] at hstep
    have hps : processSignaling (((fresh M).app (bcsm ++ s)).consume bcsm.length) csm =
        ({ maxSize := M, spool := s, csm := some (csmOpts {} csm.opts).1, closed := false }, []) := by
      have hc1 : (((fresh M).app (bcsm ++ s)).consume bcsm.length) =
          { maxSize := M, spool := s, csm := none, closed := false } := by
        simp [Conn.consume, Conn.app, fresh, connectionMade]
      rw [hc1]
      simp [processSignaling, hcode, csmOpts_noCritical _ hnc, Conn.note]
    rw [hps] at hstep
    rw [drain_eq, hstep]
    simp only
    rw [drain_stream hs _ rfl (by simp) rfl]
    simp
  have hopen : (feed (fresh M) cs.flatten).1.closed = false := by rw [hcut, hone]
  have hall := chunking_open cs (fresh M) (fresh_facts M).1 hopen
  rw [hall, hcut, hone]
  exact ⟨rfl, dispatched_flatMap ms, rfl⟩

-- =============================================================================================
-- 5. nothing is dispatched before the peer's CSM
-- =============================================================================================

/-- **C15 (CSM gate, whole histories).** For every chunk sequence fed to any connection: if the
remote settings are still unset afterwards (no CSM has been processed), then they were unset
before and no message at all has been handed to the token manager.  Since this holds for every
prefix of every chunk sequence and chunk borders are arbitrary (theorem 3), no request or
response is ever dispatched before the CSM. -/
theorem C15_no_dispatch_before_csm (c : Conn) (cs : List Bytes)
    (h : (feedAll c cs).1.csm = none) :
    c.csm = none ∧ dispatched (feedAll c cs).2 = [] := by
  obtain ⟨h1, h2⟩ := feedAll_csm cs c h
  refine ⟨h1, ?_⟩
  generalize (feedAll c cs).2 = outs at h2
  induction outs with
  | nil => rfl
  | cons o os ih =>
    have ho := h2 o (List.mem_cons_self)
    have hos := ih (fun x hx => h2 x (List.mem_cons_of_mem _ hx))
    cases o <;> simp_all [dispatched, Out.isDispatch]

/-- **C15 (CSM gate, the step).** While no CSM has been received, a complete, well-formed,
in-limit frame of a request, response or empty message is answered by Abort ("No CSM received")
and close, the receive loop returns, and nothing is dispatched. -/
theorem C15_message_before_csm_aborts (c : Conn) (b rest : Bytes) (m : Msg)
    (hs : c.spool = b ++ rest) (hb : Rfc8323.Message b m) (hm : m.legal)
    (hsize : b.length ≤ c.maxSize) (hcode : m.code < 224) (hcsm : c.csm = none) :
    ∃ c' w, step c = .stop c' [.write w, .close] ∧ c'.closed = true ∧
      Rfc8323.Message w (abortMsg txtNoCsm none) := by
  obtain ⟨_, hstep⟩ := step_of_frame hs hb hm hsize
  have h1 : ¬ m.code ≥ 224 := by omega
  simp only [h1, ↓reduceIte, hcsm, Option.isNone_none] at hstep
  have hser : (serialize (abortMsg txtNoCsm none)).isSome = true := by decide
  obtain ⟨w, hw⟩ := Option.isSome_iff_exists.mp hser
  refine ⟨(c.consume b.length).note (abortOuts txtNoCsm none), w, ?_, ?_, serialize_message hw⟩
  · rw [hstep]; simp [abortOuts, sendMessage, hw]
  · simp [abortOuts_any_close]

-- =============================================================================================
-- 6. oversize / TKL > 8 / unparsable / unknown critical signalling option → Abort, close
-- =============================================================================================

/-- what "Abort written, then close, and the receive loop returns" means for one iteration -/
def AbortsWith (c : Conn) (text : Bytes) : Prop :=
  ∃ c' w, step c = .stop c' [.write w, .close] ∧ c'.closed = true ∧
    Rfc8323.Message w (abortMsg text none)

/-- after an aborting iteration nothing else happens in this `data_received`, and no later chunk
is processed -/
theorem C15_abort_is_final (c c' : Conn) (o : List Out) (h : step c = .stop c' o)
    (later : List Bytes) :
    drain c = (c', o, true) ∧ feedAll c' later = (c', []) := by
  refine ⟨by rw [drain_eq, h], feedAll_closed ((step_closed c).2 c' o h).1 later⟩

/-- **C15 (oversize).** As soon as the length of a frame can be read and exceeds the local
maximum message size — whether or not the frame is complete — Abort is written and the
connection is closed. -/
theorem C15_oversize_aborts (c : Conn) (to tkl len : Nat)
    (hx : extractSize c.spool = some (to, tkl, len)) (hbig : to + tkl + len > c.maxSize) :
    AbortsWith c txtOverlyLarge := by
  have hser : (serialize (abortMsg txtOverlyLarge none)).isSome = true := by decide
  obtain ⟨w, hw⟩ := Option.isSome_iff_exists.mp hser
  refine ⟨c.note (abortOuts txtOverlyLarge none), w, ?_, by simp [abortOuts_any_close],
    serialize_message hw⟩
  unfold step
  simp [hx, hbig, abortOuts, sendMessage, hw]

/-- **C15 (unparsable).** A complete in-limit frame that `_decode_message` rejects (token length
above 8, option nibble 15, truncated option, option value not decodable, …) makes the endpoint
write Abort and close. -/
theorem C15_unparsable_aborts (c : Conn) (to tkl len : Nat)
    (hx : extractSize c.spool = some (to, tkl, len)) (hfit : to + tkl + len ≤ c.maxSize)
    (hcomplete : to + tkl + len ≤ c.spool.length)
    (hbad : decodeMessage (c.spool.take (to + tkl + len)) = none) :
    AbortsWith c txtFailedParse := by
  have hser : (serialize (abortMsg txtFailedParse none)).isSome = true := by decide
  obtain ⟨w, hw⟩ := Option.isSome_iff_exists.mp hser
  refine ⟨c.note (abortOuts txtFailedParse none), w, ?_, by simp [abortOuts_any_close],
    serialize_message hw⟩
  have a : ¬ to + tkl + len > c.maxSize := by omega
  have b : ¬ to + tkl + len > c.spool.length := by omega
  unfold step
  simp [hx, a, b, hbad, abortOuts, sendMessage, hw]

/-- the header of a frame is inside the frame -/
theorem extractSize_take {s : Bytes} {to tkl len : Nat}
    (hx : extractSize s = some (to, tkl, len)) :
    extractSize (s.take (to + tkl + len)) = some (to, tkl, len) := by
  match s, hx with
  | b0 :: rest, hx =>
    obtain ⟨ht, hc⟩ := extractSize_cases hx
    rcases hc with ⟨h1, h2, h3⟩ | ⟨h1, h2, e0, r, hr, h3⟩ | ⟨h1, h2, e0, e1, r, hr, h3⟩ |
      ⟨h1, h2, e0, e1, e2, e3, r, hr, h3⟩
    · subst h2
      have : 2 + tkl + len = (1 + tkl + len) + 1 := by omega
      rw [this, List.take_succ_cons]
      simp [extractSize, h1, ht, h3]
    · subst h2 hr
      have : 3 + tkl + len = (tkl + len + 1) + 1 + 1 := by omega
      rw [this, List.take_succ_cons, List.take_succ_cons]
      simp [extractSize, h1, ht, h3]
    · subst h2 hr
      have : 4 + tkl + len = (tkl + len + 1) + 1 + 1 + 1 := by omega
      rw [this, List.take_succ_cons, List.take_succ_cons, List.take_succ_cons]
      simp [extractSize, h1, ht, h3]
    · subst h2 hr
      have : 6 + tkl + len = (tkl + len + 1) + 1 + 1 + 1 + 1 + 1 := by omega
      rw [this, List.take_succ_cons, List.take_succ_cons, List.take_succ_cons,
        List.take_succ_cons, List.take_succ_cons]
      have a : ¬ b0 / 16 < 13 := by omega
      have b : ¬ b0 / 16 = 13 := by omega
      have c : ¬ b0 / 16 = 14 := by omega
      simp [extractSize, a, b, c, ht, h3]

/-- **C15 (token length).** A complete in-limit frame announcing a token length of 9 to 15 makes
the endpoint write Abort and close, whatever else the frame contains. -/
theorem C15_tkl_above_8_aborts (c : Conn) (to tkl len : Nat)
    (hx : extractSize c.spool = some (to, tkl, len)) (hfit : to + tkl + len ≤ c.maxSize)
    (hcomplete : to + tkl + len ≤ c.spool.length) (htkl : tkl > 8) :
    AbortsWith c txtFailedParse := by
  apply C15_unparsable_aborts c to tkl len hx hfit hcomplete
  unfold decodeMessage
  simp [extractSize_take hx, htkl]

/-- **C15 (critical option in Ping/Pong/Release/Abort).** If such a message carries an option
with an odd number, the first thing the endpoint does is write Abort ("Unknown critical
option") and close. -/
theorem C15_critical_option_aborts (c : Conn) (m : Msg)
    (hcode : m.code = codePing ∨ m.code = codePong ∨ m.code = codeRelease ∨ m.code = codeAbort)
    (hcrit : ¬ noCritical m.opts) :
    ∃ w post, (processSignaling c m).2 = .write w :: .close :: post ∧
      (processSignaling c m).1.closed = true ∧
      Rfc8323.Message w (abortMsg txtUnknownCritical none) := by
  have hser : (serialize (abortMsg txtUnknownCritical none)).isSome = true := by decide
  obtain ⟨w, hw⟩ := Option.isSome_iff_exists.mp hser
  obtain ⟨post, hpost⟩ := otherOpts_critical hcrit
  have habort : abortOuts txtUnknownCritical none = [.write w, .close] := by
    simp [abortOuts, sendMessage, hw]
  have hcl := processSignaling_closed c m
  rcases hcode with h | h | h | h <;>
    · simp only [processSignaling, h, codeCSM, codePing, codePong, codeRelease, codeAbort,
        Nat.reduceEqDiff, ↓reduceIte, hpost, habort, List.cons_append, List.nil_append,
        List.append_assoc] at hcl ⊢
      refine ⟨w, _, rfl, ?_, serialize_message hw⟩
      simp [Conn.note, Out.isClose]

/-- **C15 (critical option in a CSM).** An option with an odd number in a CSM (2 and 4 are the
known, even ones) makes the endpoint write Abort ("Option not supported", naming the option in
Bad-CSM-Option) and close, before anything else it outputs.  `hnum`: the option number fits in
12 bytes, which holds for every number that can be reached inside a frame of less than 2^64
bytes (numbers grow by at most 65804 per option). -/
theorem C15_critical_csm_option_aborts (c : Conn) (m : Msg) (hcode : m.code = codeCSM)
    (hcrit : ¬ noCritical m.opts) (hnum : ∀ o ∈ m.opts, (minBE o.num).length < 13) :
    ∃ n w post, n % 2 = 1 ∧ (∃ o ∈ m.opts, o.num = n) ∧
      (processSignaling c m).2 = .write w :: .close :: post ∧
      (processSignaling c m).1.closed = true ∧
      Rfc8323.Message w (abortMsg txtOptNotSupported (some n)) := by
  obtain ⟨n, post, hodd, ⟨o, ho, hon⟩, hpost⟩ := csmOpts_critical (c.csm.getD {}) hcrit
  have hlen : (minBE n).length < 13 := by
    have := hnum o ho
    rwa [hon] at this
  have hser : ∃ w, serialize (abortMsg txtOptNotSupported (some n)) = some w := by
    have a : ¬ (minBE n).length + 21 + 1 < 13 := by omega
    have b : (minBE n).length + 21 + 1 < 269 := by omega
    simp [serialize, abortMsg, encodeOpts, writeExt, codeAbort, payloadPart, frameBytes, hlen,
      txtOptNotSupported, encodeLength, a, b]
  obtain ⟨w, hw⟩ := hser
  have habort : abortOuts txtOptNotSupported (some n) = [.write w, .close] := by
    simp [abortOuts, sendMessage, hw]
  refine ⟨n, w, post, hodd, ⟨o, ho, hon⟩, ?_, ?_, serialize_message hw⟩
  · simp [processSignaling, hcode, hpost, habort]
  · rw [processSignaling_closed]
    simp [processSignaling, hcode, hpost, habort, Out.isClose]

-- =============================================================================================
-- 7. Ping → Pong with the same token
-- =============================================================================================

/-- **C15 (Ping).** A Ping is answered by writing the RFC 8323 frame of a Pong with the same
token and no options or payload; with no critical option on the Ping that is all that happens
(and it happens whether or not the CSM has been received). -/
theorem C15_ping_pong_token (c : Conn) (m : Msg) (hcode : m.code = codePing)
    (htok : m.token.length ≤ 8) :
    ∃ w, Rfc8323.Message w { code := codePong, token := m.token, opts := [], payload := [] } ∧
      (processSignaling c m).2 = otherOpts m.opts ++ [.write w] ∧
      (noCritical m.opts → processSignaling c m = (c.note [.write w], [.write w]) ∧
        (c.note [.write w]) = c) := by
  have hser : ∃ w, serialize { code := codePong, token := m.token, opts := [], payload := [] }
      = some w := by
    have : ¬ m.token.length > 8 := by omega
    simp [serialize, encodeOpts, this, frameBytes, encodeLength, payloadPart]
  obtain ⟨w, hw⟩ := hser
  refine ⟨w, serialize_message hw, ?_, fun hnc => ?_⟩
  · simp [processSignaling, hcode, codeCSM, codePing, sendMessage, hw]
  · constructor
    · simp [processSignaling, hcode, codeCSM, codePing, sendMessage, hw, otherOpts_noCritical hnc]
    · cases c; simp [Conn.note, Out.isClose]

/-- the same at the level of the receive loop: a Ping frame at the head of the spool is consumed
and answered -/
theorem C15_ping_frame_answered (c : Conn) (b rest : Bytes) (m : Msg)
    (hs : c.spool = b ++ rest) (hb : Rfc8323.Message b m) (hm : m.legal)
    (hsize : b.length ≤ c.maxSize) (hcode : m.code = codePing) (hnc : noCritical m.opts) :
    ∃ w, Rfc8323.Message w { code := codePong, token := m.token, opts := [], payload := [] } ∧
      step c = .next { c with spool := rest } [.write w] := by
  obtain ⟨hrest, hstep⟩ := step_of_frame hs hb hm hsize
  obtain ⟨_, htok, _⟩ := decodeMessage_of_message hm hb
  obtain ⟨w, hw, _, hall⟩ := C15_ping_pong_token (c.consume b.length) m hcode htok
  obtain ⟨hp, hn⟩ := hall hnc
  have h224 : m.code ≥ 224 := by rw [hcode]; decide
  simp only [h224, ↓reduceIte, hp, hn] at hstep
  refine ⟨w, hw, ?_⟩
  rw [hstep]
  congr 1
  cases c
  simp [Conn.consume] at hrest ⊢
  exact hrest

-- =============================================================================================
-- 8. Release / Abort from the peer
-- =============================================================================================

/-- **C15 (Release/Abort).** On a Release or Abort without critical options the pending requests
of the connection are failed (`RemoteServerShutdown`, a `NetworkError`) and then the transport is
closed; nothing is written. -/
theorem C15_release_abort_fail_pending (c : Conn) (m : Msg)
    (hcode : m.code = codeRelease ∨ m.code = codeAbort) (hnc : noCritical m.opts) :
    (processSignaling c m).2 =
      [.failPending (if m.code = codeRelease then .released else .aborted), .close] ∧
    (processSignaling c m).1.closed = true := by
  rcases hcode with h | h
  · simp [processSignaling, h, codeCSM, codePing, codePong, codeRelease,
      otherOpts_noCritical hnc, Conn.note, Out.isClose]
  · simp [processSignaling, h, codeCSM, codePing, codePong, codeRelease, codeAbort,
      otherOpts_noCritical hnc, Conn.note, Out.isClose]

/-- in any case — critical options or not — a Release/Abort ends with the pending requests
failed and the connection closed, and no later chunk is processed -/
theorem C15_release_abort_closes (c : Conn) (m : Msg)
    (hcode : m.code = codeRelease ∨ m.code = codeAbort) (later : List Bytes) :
    (∃ pre k, (processSignaling c m).2 = pre ++ [.failPending k, .close]) ∧
    feedAll (processSignaling c m).1 later = ((processSignaling c m).1, []) := by
  have hcl : (processSignaling c m).1.closed = true := by
    rw [processSignaling_closed]
    rcases hcode with h | h <;>
      simp [processSignaling, h, codeCSM, codePing, codePong, codeRelease, codeAbort, Out.isClose]
  refine ⟨?_, feedAll_closed hcl later⟩
  rcases hcode with h | h
  · exact ⟨otherOpts m.opts, .released, by
      simp [processSignaling, h, codeCSM, codePing, codePong, codeRelease]⟩
  · exact ⟨otherOpts m.opts, .aborted, by
      simp [processSignaling, h, codeCSM, codePing, codePong, codeRelease, codeAbort]⟩

/-- at the level of the receive loop: a Release/Abort frame (no critical options) at the head of
the spool fails the pending requests, closes, and whatever is fed later is not processed -/
theorem C15_release_frame (c : Conn) (b rest : Bytes) (m : Msg)
    (hs : c.spool = b ++ rest) (hb : Rfc8323.Message b m) (hm : m.legal)
    (hsize : b.length ≤ c.maxSize) (hcode : m.code = codeRelease ∨ m.code = codeAbort)
    (hnc : noCritical m.opts) :
    ∃ c', step c = .next c'
        [.failPending (if m.code = codeRelease then .released else .aborted), .close] ∧
      c'.closed = true ∧ ∀ later, feedAll c' later = (c', []) := by
  obtain ⟨_, hstep⟩ := step_of_frame hs hb hm hsize
  have h224 : m.code ≥ 224 := by
    rcases hcode with h | h <;> rw [h] <;> decide
  simp only [h224, ↓reduceIte] at hstep
  obtain ⟨h1, h2⟩ := C15_release_abort_fail_pending (c.consume b.length) m hcode hnc
  refine ⟨_, ?_, h2, fun later => feedAll_closed h2 later⟩
  rw [hstep, h1]

-- =============================================================================================
-- 9. empty messages are ignored
-- =============================================================================================

/-- **C15 (empty).** Once the CSM has been received, the frame of an empty message (code 0.00)
is consumed and nothing else happens: no dispatch, no write, no close, same settings. -/
theorem C15_empty_ignored (c : Conn) (b rest : Bytes) (m : Msg)
    (hs : c.spool = b ++ rest) (hb : Rfc8323.Message b m) (hm : m.legal)
    (hsize : b.length ≤ c.maxSize) (hcode : m.code = 0) (hcsm : c.csm ≠ none) :
    step c = .next { c with spool := rest } [] := by
  obtain ⟨hrest, hstep⟩ := step_of_frame hs hb hm hsize
  have h1 : ¬ m.code ≥ 224 := by omega
  have h2 : c.csm.isNone = false := by
    cases hc : c.csm with
    | none => exact absurd hc hcsm
    | some _ => rfl
  simp only [h1, ↓reduceIte, h2, Bool.false_eq_true, dispatchIncoming, hcode] at hstep
  rw [hstep]
  congr 1
  cases c
  simp [Conn.consume] at hrest ⊢
  exact hrest

/-- in a whole stream: empty messages anywhere after the CSM leave no trace in what is handed to
the token manager (this is `C15_dispatch_exact` read for `ms` containing empty messages) -/
theorem C15_empty_ignored_in_stream (ms : List Msg) :
    dispatched (ms.flatMap dispatchIncoming) =
      dispatched ((ms.filter (fun m => m.code ≠ 0)).flatMap dispatchIncoming) := by
  rw [dispatched_flatMap, dispatched_flatMap, List.filter_filter]
  simp

-- =============================================================================================
-- 10. whole sessions; no serialisation failure in the receive path
-- =============================================================================================

/-- `closed` after any chunk sequence = closed before, or a close among the outputs -/
theorem feedAll_closed_iff : ∀ (cs : List Bytes) (c : Conn),
    (feedAll c cs).1.closed = (c.closed || (feedAll c cs).2.any Out.isClose) := by
  intro cs
  induction cs with
  | nil => intro c; simp [feedAll]
  | cons y ys ih =>
    intro c
    simp only [feedAll]
    by_cases hc : c.closed = true
    · simp [hc]
    · simp only [hc, Bool.false_eq_true, ↓reduceIte, ih, List.any_append]
      have := (drain_facts' (c.app y)).1
      simp only [Conn.app_closed] at this
      rw [feed_eq]
      have hcf : c.closed = false := by cases h : c.closed <;> simp_all
      simp only [this, Bool.or_assoc, hcf]

theorem sendMessage_no_close (m : Msg) : (sendMessage m).any Out.isClose = false := by
  unfold sendMessage
  split <;> rfl

/-- outputs of a whole session up to the first close: the initial CSM, then those of the chunks -/
theorem session_uptoClose (M : Nat) (cs : List Bytes) :
    uptoClose (session M cs).2 = (connectionMade M).2 ++ uptoClose (feedAll (fresh M) cs).2 := by
  have hcl := feedAll_closed_iff cs (fresh M)
  simp only [(fresh_facts M).2.1, Bool.false_or] at hcl
  have hw : (connectionMade M).2.any Out.isClose = false := sendMessage_no_close _
  simp only [session]
  change uptoClose ((connectionMade M).2 ++ (feedAll (fresh M) cs).2 ++
    (if (feedAll (fresh M) cs).1.closed then connectionLost else [])) = _
  rw [List.append_assoc, uptoClose_append, hw]
  simp only [Bool.false_eq_true, ↓reduceIte, uptoClose_append]
  cases hany : (feedAll (fresh M) cs).2.any Out.isClose with
  | true => simp
  | false =>
    rw [hany] at hcl
    simp [hcl, uptoClose_of_no_close hany, uptoClose]

/-- **C15 (chunking independence, whole session).** What the driver and the harness run — the
initial CSM, the chunks, `connection_lost` after a close — is, up to and including the first
close, the same for every way of cutting the stream. -/
theorem C15_chunking_independent_session (M : Nat) (cs : List Bytes) :
    uptoClose (session M cs).2 = uptoClose (session M [cs.flatten]).2 := by
  rw [session_uptoClose, session_uptoClose, C15_chunking_independent M cs,
    C15_chunking_independent M [cs.flatten]]
  simp

/-- **C15 (critical option in a CSM, at the receive loop).** For a connection with well-formed
bytes in the spool and a maximum message size below 2^64: a complete in-limit CSM frame with an
odd-numbered option is consumed, and the first outputs are Abort ("Option not supported",
Bad-CSM-Option = that number) and close.  No assumption on the option number is needed: inside a
frame it is below 65805 times the frame length. -/
theorem C15_critical_csm_option_frame_aborts (c : Conn) (to tkl len : Nat) (m : Msg)
    (hwf : c.spool.wf) (hmax : c.maxSize < 2 ^ 64)
    (hx : extractSize c.spool = some (to, tkl, len)) (hfit : to + tkl + len ≤ c.maxSize)
    (hcomplete : to + tkl + len ≤ c.spool.length)
    (hd : decodeMessage (c.spool.take (to + tkl + len)) = some m)
    (hcode : m.code = codeCSM) (hcrit : ¬ noCritical m.opts) :
    ∃ n w post c', step c = .next c' (.write w :: .close :: post) ∧ c'.closed = true ∧
      n % 2 = 1 ∧ (∃ o ∈ m.opts, o.num = n) ∧
      Rfc8323.Message w (abortMsg txtOptNotSupported (some n)) := by
  have hnum : ∀ o ∈ m.opts, (minBE o.num).length < 13 := by
    intro o ho
    have h1 := decodeMessage_num_bound (Bytes.wf_take _ hwf) hd o ho
    have h2 : (c.spool.take (to + tkl + len)).length ≤ c.maxSize := by
      simp only [List.length_take]; omega
    exact minBE_small (Nat.le_trans h1 (Nat.mul_le_mul_left _ h2)) hmax
  obtain ⟨n, w, post, h1, h2, h3, h4, h5⟩ :=
    C15_critical_csm_option_aborts (c.consume (to + tkl + len)) m hcode hcrit hnum
  refine ⟨n, w, post, _, ?_, h4, h1, h2, h5⟩
  have a : ¬ to + tkl + len > c.maxSize := by omega
  have b : ¬ to + tkl + len > c.spool.length := by omega
  have h224 : m.code ≥ 224 := by rw [hcode]; decide
  unfold step
  simp only [hx, a, b, ↓reduceIte, hd, h224, h3]

/-- **C15 (the receive path never fails to serialise).** With well-formed input bytes and a
maximum message size below 2^64, `_serialize` never raises for the messages the connection sends
by itself (initial CSM, Pong, Abort with or without Bad-CSM-Option), over any chunk history:
no exception escapes `data_received` from there. -/
theorem C15_never_send_error (M : Nat) (hM : M < 2 ^ 64) (cs : List Bytes)
    (hcs : ∀ x ∈ cs, Bytes.wf x) : Out.sendError ∉ (session M cs).2 := by
  have hcsm : noErr (connectionMade M).2 := by
    apply sendMessage_noErr
    have hl : (minBE M).length ≤ 8 := minBE_length (k := 8) (by simpa using hM)
    have a : (minBE M).length < 13 := by omega
    have b : (minBE M).length + 1 + 1 < 13 := by omega
    simp [serialize, initialCsm, encodeOpts, writeExt, a, frameBytes, encodeLength, payloadPart, b,
      codeCSM]
  have hfeed := feedAll_noErr cs (fresh M) (by simp [fresh, connectionMade, Bytes.wf])
    (by simpa [fresh, connectionMade] using hM) hcs
  simp only [session]
  change noErr ((connectionMade M).2 ++ (feedAll (fresh M) cs).2 ++
    (if (feedAll (fresh M) cs).1.closed then connectionLost else []))
  refine noErr_append.mpr ⟨noErr_append.mpr ⟨hcsm, hfeed⟩, ?_⟩
  split <;> simp [noErr, connectionLost]

-- =============================================================================================
-- non-vacuity and sanity examples
-- =============================================================================================

/-- GET with token 0x05, Uri-Path "a", Content-Format 0 (empty value), payload "hi" -/
def exampleGet : Msg :=
  { code := 1, token := [5], opts := [⟨11, [97]⟩, ⟨12, []⟩], payload := [104, 105] }
/-- 2.05 with a two-byte payload -/
def exampleResp : Msg := { code := 69, token := [5], opts := [], payload := [104, 105] }
def exampleEmpty : Msg := { code := 0, token := [], opts := [], payload := [] }
def exampleCsm : Msg := { code := 225, token := [], opts := [⟨2, [4, 128]⟩, ⟨4, []⟩], payload := [] }

example : exampleGet.legal := by decide
example : exampleCsm.legal ∧ noCritical exampleCsm.opts := by decide
example : serialize exampleGet = some [0x61, 1, 5, 0xB1, 97, 0x10, 255, 104, 105] := by decide
example : decodeMessage [0x61, 1, 5, 0xB1, 97, 0x10, 255, 104, 105] = some exampleGet := by decide
/-- a non-minimal integer option value is not legal (it is normalised when decoded) -/
example : ¬ (⟨12, [0, 1]⟩ : Opt).legal := by decide
/-- invalid UTF-8 in Uri-Path is unparsable -/
example : decodeMessage [0x20, 1, 0xB1, 0xFF] = none := by decide
/-- the extended length boundaries -/
example : encodeLength 12 = some (12, []) ∧ encodeLength 13 = some (13, [0]) ∧
    encodeLength 268 = some (13, [255]) ∧ encodeLength 269 = some (14, [0, 0]) ∧
    encodeLength 65804 = some (14, [255, 255]) ∧ encodeLength 65805 = some (15, [0, 0, 0, 0]) := by
  decide
/-- the hypotheses of `C15_dispatch_exact` are satisfiable: CSM, GET, empty, response -/
example : ∃ bcsm b1 b2 b3, Rfc8323.Message bcsm exampleCsm ∧ bcsm.length ≤ 1048576 ∧
    Stream 1048576 [exampleGet, exampleEmpty, exampleResp] (b1 ++ (b2 ++ (b3 ++ []))) := by
  have h0 : serialize exampleCsm = some [0x40, 225, 0x22, 4, 128, 0x20] := by decide
  have h1 : serialize exampleGet = some [0x61, 1, 5, 0xB1, 97, 0x10, 255, 104, 105] := by decide
  have h2 : serialize exampleEmpty = some [0, 0] := by decide
  have h3 : serialize exampleResp = some [0x31, 69, 5, 255, 104, 105] := by decide
  exact ⟨_, _, _, _, serialize_message h0, by decide,
    .cons (serialize_message h1) (by decide) (by decide) (by decide)
      (.cons (serialize_message h2) (by decide) (by decide) (by decide)
        (.cons (serialize_message h3) (by decide) (by decide) (by decide) .nil))⟩
/-- the model run on that stream cut in three odd places: CSM, GET, empty, response, Ping -/
example : (session 1048576 [[0x40, 225, 0x22, 4], [128, 0x20, 0x61, 1, 5, 0xB1, 97, 0x10, 255, 104],
      [105, 0, 0, 0x31, 69, 5, 255, 104, 105, 1, 226, 7]]).2 =
    [.write [0x50, 225, 0x23, 16, 0, 0, 0x20], .request exampleGet, .response exampleResp,
     .write [1, 227, 7]] := by decide
/-- Release, then a request in the same chunk (still drained) and one in the next (never seen) -/
example : (session 1048576 [[0, 225], [0, 228, 0, 1], [0, 2]]).2 =
    [.write [0x50, 225, 0x23, 16, 0, 0, 0x20], .failPending .released, .close,
     .request { code := 1, token := [], opts := [], payload := [] }, .failPending .lost] := by decide
example : uptoClose (session 1048576 [[0, 225], [0, 228, 0, 1], [0, 2]]).2 =
    uptoClose (session 1048576 [[0, 225, 0, 228], [0, 1, 0, 2]]).2 := by decide
/-- a request before the CSM: Abort "No CSM received" -/
example : (feed (fresh 1048576) [0, 1]).2 =
    [.write (208 :: 3 :: 229 :: 255 :: txtNoCsm), .close] := by decide

/-- hypotheses of `C15_oversize_aborts`: five bytes announce 4 GiB + 65805 + 6 -/
example : extractSize ({ (fresh 1048576) with spool := [0xF0, 255, 255, 255, 255] } : Conn).spool
    = some (6, 0, 4295033100) ∧ 6 + 0 + 4295033100 > (fresh 1048576).maxSize := by decide
/-- hypotheses of `C15_tkl_above_8_aborts`: TKL 9, complete -/
example : extractSize [0x09, 1, 1, 2, 3, 4, 5, 6, 7, 8, 9] = some (2, 9, 0) := by decide
/-- a CSM with the critical option 1: Abort with Bad-CSM-Option 1, close; then connection lost -/
example : (session 1048576 [[0x10, 225, 0x10]]).2 =
    [.write [0x50, 225, 0x23, 16, 0, 0, 0x20],
     .write (208 :: 10 :: 229 :: 0x21 :: 1 :: 255 :: txtOptNotSupported), .close,
     .failPending .lost] := by decide
/-- an empty message after the CSM leaves no trace; before the CSM it is refused like any other -/
example : (session 1048576 [[0, 225, 0, 0, 0, 0]]).2 = [.write [0x50, 225, 0x23, 16, 0, 0, 0x20]] := by
  decide
/-- a frame of exactly the maximum size passes, one byte more aborts (max size 5) -/
example : (feed (fresh 5) [0, 225, 0x30, 1, 255, 1, 2]).2 = [.request ⟨1, [], [], [1, 2]⟩] ∧
    (feed (fresh 5) [0, 225, 0x40, 1, 255, 1, 2, 3]).2 =
      [.write (208 :: 18 :: 229 :: 255 :: txtOverlyLarge), .close] := by decide

end Aiocoap.Tcp
