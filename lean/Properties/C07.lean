import Proofs.Observe.Client
import Proofs.Observe.Joint
import Properties.C02
import Properties.C10
/-!
# C07 — observe client: notifications in freshness order, termination signalled once

Model: `AiocoapModel/Observe/Fresh.lean` (`fresher` = `is_recent` of `Request._run`) and
`AiocoapModel/Observe/Client.lean` (`step`/`run` = the runner of `aiocoap.protocol.Request`, one
step per event on the request's `Pipe`; deliveries = response future, observation callbacks,
errbacks, `_stop_interest`).  All theorems quantify over every history of pipe events — any
arrival order, duplication, Observe values (any `Nat`: wrap-around at 2^24, differences around
2^23, oversized values), arrival times, response codes (a notification is a 2.xx response that
carries an Observe option, `Msg.notif`; every other response terminates, whatever its options),
and position of terminating events — and of application calls: `observation.cancel()` between
events, from inside the callback that hands over a message (`Msg.cancels`) or once more after the
end, `response.cancel()` before or after the first response.
-/
namespace Aiocoap.Observe

/-- consecutive elements are related by `fresher` -/
def ChainFresh (reset : Nat) : List (Nat × Nat) → Prop
  | [] => True
  | [_] => True
  | a :: b :: rest => fresher reset a.1 a.2 b.1 b.2 = true ∧ ChainFresh reset (b :: rest)

theorem chainFresh_cons {reset : Nat} {a : Nat × Nat} {l : List (Nat × Nat)} :
    ChainFresh reset (a :: l) ↔
      (∀ b, l.head? = some b → fresher reset a.1 a.2 b.1 b.2 = true) ∧ ChainFresh reset l := by
  cases l with
  | nil => simp [ChainFresh]
  | cons b rest => simp [ChainFresh]

-- C07 clause 1: only notifications fresher than the last one handed over ------------------------

theorem chain_observing (cfg : Cfg) (es : List TEvent) (v1 t1 : Nat) :
    ChainFresh cfg.reset ((v1, t1) :: accepted (trace cfg (.observing v1 t1) es)) := by
  induction es generalizing v1 t1 with
  | nil => simp [trace_nil, ChainFresh]
  | cons e es ih =>
    obtain ⟨t, ev⟩ := e
    rw [trace_cons, accepted_append]
    cases ev with
    | message m last =>
      cases hobs : m.notif with
      | none =>
        rw [step_final cfg v1 t1 t m last hobs, quiet_accepted (Or.inr (Or.inl rfl))]
        cases last <;> cases m.cancels <;> simp [accepted_cons_callback, hobs, ChainFresh]
      | some v2 =>
        rw [step_notification cfg v1 t1 t m v2 last hobs]
        by_cases hf : fresher cfg.reset v1 t1 v2 t = true
        · cases last
          · cases hc : m.cancels
            · have := ih v2 t
              simp only [hf, Bool.false_eq_true, ↓reduceIte, List.append_nil, List.map_cons,
                List.map_nil, accepted_cons_callback, hobs, Option.map_some, Option.toList_some,
                accepted_nil, List.cons_append, List.nil_append, ChainFresh]
              exact ⟨trivial, this⟩
            · simp only [hf, ↓reduceIte, Bool.false_eq_true]
              rw [quiet_accepted (Or.inl rfl)]
              simp [accepted_cons_callback, hobs, ChainFresh, hf]
          · simp only [hf, ↓reduceIte]
            rw [quiet_accepted (Or.inr (Or.inl rfl))]
            cases m.cancels <;> simp [accepted_cons_callback, hobs, ChainFresh, hf]
        · have hf' : fresher cfg.reset v1 t1 v2 t = false := by
            cases h : fresher cfg.reset v1 t1 v2 t
            · rfl
            · exact absurd h hf
          cases last
          · simp only [hf', Bool.false_eq_true, ↓reduceIte, List.append_nil, List.map_nil,
              accepted_nil, List.nil_append]
            exact ih v1 t1
          · simp only [hf', ↓reduceIte, Bool.false_eq_true]
            rw [quiet_accepted (Or.inr (Or.inl rfl))]
            simp [ChainFresh]
    | exception k =>
      have hq : Quiet (step cfg (.observing v1 t1) ⟨t, .exception k⟩).1 := by
        simp [step, stepObserving, Quiet]
      rw [quiet_accepted hq]
      simp [step, stepObserving, ChainFresh]
    | obsCancel =>
      have hq : Quiet (step cfg (.observing v1 t1) ⟨t, .obsCancel⟩).1 := by
        simp [step, stepObserving, Quiet]
      rw [quiet_accepted hq]
      simp [step, stepObserving, ChainFresh]
    | respCancel =>
      simpa [step, stepObserving] using ih v1 t1

/-- a list with at most one element is a chain -/
theorem chainFresh_short (reset : Nat) (l : List (Nat × Nat)) (h : l.length ≤ 1) :
    ChainFresh reset l := by
  match l, h with
  | [], _ => simp [ChainFresh]
  | [_], _ => simp [ChainFresh]

/-- **C07 (only fresher notifications are handed over).** Over every history of events — any
arrival order, duplicates, any Observe values and arrival times, any terminating event anywhere,
application cancellations — the notifications handed to the application (the first response and
every callback that carries an Observe option), each taken with its Observe value and arrival
time, form a chain in which every element is fresher, by the rule as coded (= the RFC 7641 §3.4
rule, `fresher_iff`), than the one handed over before it. -/
theorem C07_only_fresher (cfg : Cfg) (es : List TEvent) :
    ChainFresh cfg.reset (accepted (trace cfg .awaitingFirst es)) := by
  cases es with
  | nil => simp [trace_nil, ChainFresh]
  | cons e es =>
    obtain ⟨t, ev⟩ := e
    rw [trace_cons, accepted_append]
    cases ev with
    | message m last =>
      by_cases hgo : cfg.observe = true ∧ last = false ∧ ∃ v, m.notif = some v
      · obtain ⟨ho, hl, v, hv⟩ := hgo
        have := chain_observing cfg es v t
        simpa [step, stepFirst, ho, hl, hv, accepted_cons_response] using this
      · have hq : Quiet (step cfg .awaitingFirst ⟨t, .message m last⟩).1 := by
          cases ho : cfg.observe
          · simp [step, stepFirst, ho, Quiet]
          · cases hl : last
            · cases hv : m.notif with
              | none => simp [step, stepFirst, ho, hv, Quiet]
              | some v => exact absurd ⟨ho, hl, v, hv⟩ hgo
            · simp [step, stepFirst, ho, Quiet]
        rw [quiet_accepted hq, List.append_nil]
        apply chainFresh_short
        simp only [step, stepFirst]
        split
        · cases last <;> cases m.notif <;> simp [accepted_cons_response]
        · split
          · cases m.notif <;> simp [accepted_cons_response]
          · split <;> simp [accepted_cons_response, *]
    | exception k =>
      have hq : Quiet (step cfg .awaitingFirst ⟨t, .exception k⟩).1 := by
        simp [step, stepFirst, Quiet]
      rw [quiet_accepted hq]
      cases ho : cfg.observe <;> simp [step, stepFirst, ho, ChainFresh]
    | obsCancel =>
      cases ho : cfg.observe
      · have hq : Quiet (step cfg .awaitingFirst ⟨t, .obsCancel⟩).1 := by
          simp [step, stepFirst, ho, Quiet]
        rw [quiet_accepted hq]
        simp [step, stepFirst, ho, ChainFresh]
      · apply chainFresh_short
        have : step cfg .awaitingFirst ⟨t, .obsCancel⟩ = (.cancelledFirst, []) := by
          simp [step, stepFirst, ho]
        rw [this]
        simpa using cancelledFirst_accepted cfg es
    | respCancel =>
      have hq : Quiet (step cfg .awaitingFirst ⟨t, .respCancel⟩).1 := by
        simp [step, stepFirst, Quiet]
      rw [quiet_accepted hq]
      cases ho : cfg.observe <;> simp [step, stepFirst, ho, ChainFresh]

-- C07 clause 2: a fresher notification is handed over at once ------------------------------------

/-- **C07 (handed over iff fresher, at once).** While an observation is established with `(v1, t1)`
the last notification handed over, a notification `(v2, t)` is passed to the callbacks — in the very
step in which it arrives, nothing is held back for later — if and only if it is fresher; and then
it becomes the reference for what follows (unless the application cancels the observation from
inside that very callback: then the observation is over for the application, `appCancelled`).
A notification is a successful (2.xx) response carrying an Observe option (`Msg.notif`). -/
theorem C07_handed_over_iff_fresher (cfg : Cfg) (v1 t1 t : Nat) (m : Msg) (v2 : Nat) (last : Bool)
    (h : m.notif = some v2) :
    (Delivery.callback m ∈ (step cfg (.observing v1 t1) ⟨t, .message m last⟩).2 ↔
      fresher cfg.reset v1 t1 v2 t = true) ∧
    (last = false → (step cfg (.observing v1 t1) ⟨t, .message m last⟩).1 =
      if fresher cfg.reset v1 t1 v2 t then (if m.cancels then .appCancelled else .observing v2 t)
      else .observing v1 t1) := by
  rw [step_notification cfg v1 t1 t m v2 last h]
  constructor
  · cases hf : fresher cfg.reset v1 t1 v2 t <;> cases last <;> cases m.cancels <;> simp
  · intro hl; simp [hl]

theorem quiet_not_observing {cfg : Cfg} {s : ObsState} (h : Quiet s) (es : List TEvent) (v t : Nat) :
    finalState cfg s es ≠ .observing v t := by
  intro he
  have := (quiet_run (cfg := cfg) h es).1
  rw [he] at this
  simp [Quiet] at this

theorem last_observing (cfg : Cfg) (es : List TEvent) (v0 t0 v1 t1 : Nat)
    (h : finalState cfg (.observing v0 t0) es = .observing v1 t1) :
    ((v0, t0) :: accepted (trace cfg (.observing v0 t0) es)).getLast? = some (v1, t1) := by
  induction es generalizing v0 t0 with
  | nil =>
    simp only [finalState_nil, ObsState.observing.injEq] at h
    simp [trace_nil, h.1, h.2]
  | cons e es ih =>
    obtain ⟨t, ev⟩ := e
    rw [finalState_cons] at h
    rw [trace_cons, accepted_append]
    cases ev with
    | message m last =>
      cases hobs : m.notif with
      | none =>
        exact absurd h (quiet_not_observing (by simp [step, stepObserving, hobs, Quiet]) es v1 t1)
      | some v2 =>
        rw [step_notification cfg v0 t0 t m v2 last hobs] at h ⊢
        cases last
        · by_cases hf : fresher cfg.reset v0 t0 v2 t = true
          · cases hc : m.cancels
            · simp only [hf, hc, Bool.false_eq_true, ↓reduceIte] at h
              have := ih v2 t h
              simpa [hf, hc, accepted_cons_callback, hobs] using this
            · simp only [hf, hc, Bool.false_eq_true, ↓reduceIte] at h
              exact absurd h (quiet_not_observing (by simp [Quiet]) es v1 t1)
          · have hf' : fresher cfg.reset v0 t0 v2 t = false := by
              cases h' : fresher cfg.reset v0 t0 v2 t
              · rfl
              · exact absurd h' hf
            simp only [hf', Bool.false_eq_true, ↓reduceIte] at h
            have := ih v0 t0 h
            simpa [hf'] using this
        · exact absurd h (quiet_not_observing (by simp [Quiet]) es v1 t1)
    | exception k =>
      exact absurd h (quiet_not_observing (by simp [step, stepObserving, Quiet]) es v1 t1)
    | obsCancel =>
      exact absurd h (quiet_not_observing (by simp [step, stepObserving, Quiet]) es v1 t1)
    | respCancel =>
      have := ih v0 t0 (by simpa [step, stepObserving] using h)
      simpa [step, stepObserving] using this

/-- **C07 (the runner's reference is the last notification handed over).** Whenever, after any
history, the observation is still established, the `(v1, t1)` the next arrival is compared with
is the Observe value and arrival time of the last notification that was handed to the application
(so `C07_handed_over_iff_fresher` speaks about exactly that one). -/
theorem C07_state_is_last_handed_over (cfg : Cfg) (es : List TEvent) (v1 t1 : Nat)
    (h : finalState cfg .awaitingFirst es = .observing v1 t1) :
    (accepted (trace cfg .awaitingFirst es)).getLast? = some (v1, t1) := by
  cases es with
  | nil => simp [finalState_nil] at h
  | cons e es =>
    obtain ⟨t, ev⟩ := e
    rw [finalState_cons] at h
    rw [trace_cons, accepted_append]
    cases ev with
    | message m last =>
      cases ho : cfg.observe
      · exact absurd h (quiet_not_observing (by simp [step, stepFirst, ho, Quiet]) es v1 t1)
      · cases hl : last
        · cases hv : m.notif with
          | none =>
            exact absurd h (quiet_not_observing (by simp [step, stepFirst, ho, hl, hv, Quiet]) es v1 t1)
          | some v =>
            have h' : finalState cfg (.observing v t) es = .observing v1 t1 := by
              simpa [step, stepFirst, ho, hl, hv] using h
            have := last_observing cfg es v t v1 t1 h'
            simpa [step, stepFirst, ho, hl, hv, accepted_cons_response] using this
        · exact absurd h (quiet_not_observing (by simp [step, stepFirst, ho, hl, Quiet]) es v1 t1)
    | exception k =>
      exact absurd h (quiet_not_observing (by simp [step, stepFirst, Quiet]) es v1 t1)
    | obsCancel =>
      cases ho : cfg.observe
      · exact absurd h (quiet_not_observing (by simp [step, stepFirst, ho, Quiet]) es v1 t1)
      · have : step cfg .awaitingFirst ⟨t, .obsCancel⟩ = (.cancelledFirst, []) := by
          simp [step, stepFirst, ho]
        rw [this] at h
        exact absurd h (cancelledFirst_not_observing cfg es v1 t1)
    | respCancel =>
      exact absurd h (quiet_not_observing (by simp [step, stepFirst, Quiet]) es v1 t1)

-- C07 clause 3: what is handed over is a subsequence of what arrived ---------------------------

theorem step_handedOver (cfg : Cfg) (s : ObsState) (e : TEvent) :
    handedOver (step cfg s e).2 = [] ∨
      ∃ m, e.ev.msg? = some m ∧ handedOver (step cfg s e).2 = [m] := by
  obtain ⟨t, ev⟩ := e
  cases s with
  | awaitingFirst =>
    cases ev with
    | message m last =>
      right; refine ⟨m, rfl, ?_⟩
      simp only [step, stepFirst]
      split
      · cases last <;> simp
      · split
        · simp
        · split <;> simp
    | exception k => left; cases ho : cfg.observe <;> simp [step, stepFirst, ho]
    | obsCancel => left; cases ho : cfg.observe <;> simp [step, stepFirst, ho]
    | respCancel => left; cases ho : cfg.observe <;> simp [step, stepFirst, ho]
  | cancelledFirst =>
    cases ev with
    | message m last =>
      right; refine ⟨m, rfl, ?_⟩
      cases last <;> cases hv : m.notif <;> simp [step, stepCancelledFirst, hv]
    | exception k => left; simp [step, stepCancelledFirst]
    | obsCancel => left; simp [step, stepCancelledFirst]
    | respCancel => left; simp [step, stepCancelledFirst]
  | observing v1 t1 =>
    cases ev with
    | message m last =>
      cases hobs : m.notif with
      | none =>
        right
        exact ⟨m, rfl, by rw [step_final cfg v1 t1 t m last hobs]; cases last <;> cases m.cancels <;> simp⟩
      | some v2 =>
        rw [step_notification cfg v1 t1 t m v2 last hobs]
        cases hf : fresher cfg.reset v1 t1 v2 t
        · left; cases last <;> simp
        · right; exact ⟨m, rfl, by cases last <;> cases m.cancels <;> simp⟩
    | exception k => left; simp [step, stepObserving]
    | obsCancel => left; simp [step, stepObserving]
    | respCancel => left; simp [step, stepObserving]
  | appCancelled => left; cases ev <;> simp [step, stepCancelled]
  | ended => left; simp [step]
  | unmodelled => left; simp [step]

/-- **C07 (subsequence).** For every history, from any state: the messages handed to the
application (response future and callbacks), in the order they are handed over, form a subsequence
of the messages that arrived, in arrival order — nothing is invented, duplicated or reordered. -/
theorem C07_subsequence (cfg : Cfg) (s : ObsState) (es : List TEvent) :
    (handedOver (deliveries cfg s es)).Sublist (arrived es) := by
  induction es generalizing s with
  | nil => simp [deliveries_nil, arrived]
  | cons e es ih =>
    rw [deliveries_cons, handedOver_append]
    have hrest := ih (step cfg s e).1
    have harr : arrived (e :: es) = (e.ev.msg?).toList ++ arrived es := by
      simp only [arrived, List.filterMap_cons]
      cases e.ev.msg? <;> simp
    rw [harr]
    rcases step_handedOver cfg s e with h | ⟨m, hm, h⟩
    · rw [h, List.nil_append]
      exact List.Sublist.trans hrest (List.sublist_append_right _ _)
    · rw [h, hm]
      simpa using hrest

-- C07 clause 4: the freshest notification that arrives ends up delivered -------------------------

theorem freshest_observing (cfg : Cfg) (b T : Nat) (es : List TEvent) (v0 t0 : Nat)
    (hv0 : v0 < 2 ^ 24) (ho0 : soff b v0 < 2 ^ 23) (ht0 : T ≤ t0)
    (hall : ∀ e ∈ es, ∃ m v, e.ev = .message m false ∧ m.notif = some v ∧ m.cancels = false ∧ v < 2 ^ 24 ∧
      soff b v < 2 ^ 23 ∧ T ≤ e.time ∧ e.time ≤ T + cfg.reset) :
    ∃ v1 t1, finalState cfg (.observing v0 t0) es = .observing v1 t1 ∧
      soff b v0 ≤ soff b v1 ∧
      (v1 = v0 ∨ ∃ m ∈ arrived es, m.notif = some v1) ∧
      ∀ m ∈ arrived es, ∀ v, m.notif = some v → soff b v ≤ soff b v1 := by
  induction es generalizing v0 t0 with
  | nil => exact ⟨v0, t0, rfl, Nat.le_refl _, Or.inl rfl, by simp [arrived]⟩
  | cons e es ih =>
    obtain ⟨m, v, hev, hobs, hcn, hv, ho, htT, ht⟩ := hall e List.mem_cons_self
    have hrest : ∀ e' ∈ es, ∃ m v, e'.ev = .message m false ∧ m.notif = some v ∧ m.cancels = false ∧ v < 2 ^ 24 ∧
        soff b v < 2 ^ 23 ∧ T ≤ e'.time ∧ e'.time ≤ T + cfg.reset :=
      fun e' he' => hall e' (List.mem_cons_of_mem _ he')
    obtain ⟨t, ev⟩ := e
    simp only at hev ht htT
    subst hev
    have harr : arrived (⟨t, .message m false⟩ :: es) = m :: arrived es := by
      simp [arrived, Event.msg?]
    rw [finalState_cons, step_notification cfg v0 t0 t m v false hobs, harr]
    have htime : decide (t > t0 + cfg.reset) = false := by simp; omega
    have hfr : fresher cfg.reset v0 t0 v t = true ↔ soff b v0 < soff b v := by
      rw [fresher_eq, htime, Bool.or_false]
      exact serialFresher_soff b v0 v hv0 hv ho0 ho
    by_cases hf : fresher cfg.reset v0 t0 v t = true
    · have hlt := hfr.mp hf
      obtain ⟨v1, t1, hfin, hle, hmem, hmax⟩ := ih v t hv ho (by omega) hrest
      refine ⟨v1, t1, by simpa [hf, hcn] using hfin, by omega, ?_, ?_⟩
      · right
        rcases hmem with h | ⟨m', hm', h⟩
        · exact ⟨m, List.mem_cons_self, by rw [h]; exact hobs⟩
        · exact ⟨m', List.mem_cons_of_mem _ hm', h⟩
      · intro m' hm' v' hv'
        rcases List.mem_cons.mp hm' with h | h
        · subst h
          rw [hobs] at hv'; cases hv'
          exact hle
        · exact hmax m' h v' hv'
    · have hf' : fresher cfg.reset v0 t0 v t = false := by
        cases h' : fresher cfg.reset v0 t0 v t
        · rfl
        · exact absurd h' hf
      have hnlt : ¬ soff b v0 < soff b v := fun h => hf (hfr.mpr h)
      obtain ⟨v1, t1, hfin, hle, hmem, hmax⟩ := ih v0 t0 hv0 ho0 ht0 hrest
      refine ⟨v1, t1, by simpa [hf'] using hfin, hle, ?_, ?_⟩
      · rcases hmem with h | ⟨m', hm', h⟩
        · exact Or.inl h
        · exact Or.inr ⟨m', List.mem_cons_of_mem _ hm', h⟩
      · intro m' hm' v' hv'
        rcases List.mem_cons.mp hm' with h | h
        · subst h
          rw [hobs] at hv'; cases hv'
          omega
        · exact hmax m' h v' hv'

/-- **C07 (the freshest notification that arrives is delivered).** Take any history of
notifications (first response included) — any order, any duplicates — whose 24-bit Observe values
all lie within one half of the number circle counted from some base `b` (`soff b v < 2^23`; the
circle may wrap at 2^24 anywhere inside that half) and which all arrive within the 128 s window
`[T, T + reset]`.  Then the observation is still established afterwards and the last notification
handed to the application is the one furthest ahead on the circle among all that arrived: the
freshest one was delivered, whatever the arrival order. -/
theorem C07_freshest_delivered (cfg : Cfg) (hobs : cfg.observe = true) (b T : Nat)
    (e0 : TEvent) (es : List TEvent)
    (hall : ∀ e ∈ e0 :: es, ∃ m v, e.ev = .message m false ∧ m.notif = some v ∧ m.cancels = false ∧ v < 2 ^ 24 ∧
      soff b v < 2 ^ 23 ∧ T ≤ e.time ∧ e.time ≤ T + cfg.reset) :
    ∃ v1 t1, finalState cfg .awaitingFirst (e0 :: es) = .observing v1 t1 ∧
      (accepted (trace cfg .awaitingFirst (e0 :: es))).getLast? = some (v1, t1) ∧
      (∃ m ∈ arrived (e0 :: es), m.notif = some v1) ∧
      ∀ m ∈ arrived (e0 :: es), ∀ v, m.notif = some v → soff b v ≤ soff b v1 := by
  obtain ⟨m0, v0, hev, hobs0, _, hv0, ho0, hT0, _⟩ := hall e0 List.mem_cons_self
  have hrest : ∀ e ∈ es, ∃ m v, e.ev = .message m false ∧ m.notif = some v ∧ m.cancels = false ∧ v < 2 ^ 24 ∧
      soff b v < 2 ^ 23 ∧ T ≤ e.time ∧ e.time ≤ T + cfg.reset :=
    fun e he => hall e (List.mem_cons_of_mem _ he)
  obtain ⟨t, ev⟩ := e0
  simp only at hev hT0
  subst hev
  obtain ⟨v1, t1, hfin, hle, hmem, hmax⟩ :=
    freshest_observing cfg b T es v0 t hv0 ho0 hT0 hrest
  have hfin' : finalState cfg .awaitingFirst (⟨t, .message m0 false⟩ :: es) = .observing v1 t1 := by
    rw [finalState_cons]
    simpa [step, stepFirst, hobs, hobs0] using hfin
  have harr : arrived (⟨t, .message m0 false⟩ :: es) = m0 :: arrived es := by
    simp [arrived, Event.msg?]
  refine ⟨v1, t1, hfin', C07_state_is_last_handed_over cfg _ v1 t1 hfin', ?_, ?_⟩
  · rw [harr]
    rcases hmem with h | ⟨m', hm', h⟩
    · exact ⟨m0, List.mem_cons_self, by rw [h]; exact hobs0⟩
    · exact ⟨m', List.mem_cons_of_mem _ hm', h⟩
  · rw [harr]
    intro m' hm' v' hv'
    rcases List.mem_cons.mp hm' with h | h
    · subst h
      rw [hobs0] at hv'; cases hv'
      exact hle
    · exact hmax m' h v' hv'

/-- the same without wrap-around: if all Observe values are below 2^23 (base `b = 0`), the last
notification handed over carries the numerically largest value that arrived -/
theorem C07_freshest_delivered_plain (cfg : Cfg) (hobs : cfg.observe = true) (T : Nat)
    (e0 : TEvent) (es : List TEvent)
    (hall : ∀ e ∈ e0 :: es, ∃ m v, e.ev = .message m false ∧ m.notif = some v ∧ m.cancels = false ∧ v < 2 ^ 23 ∧
      T ≤ e.time ∧ e.time ≤ T + cfg.reset) :
    ∃ v1 t1, (accepted (trace cfg .awaitingFirst (e0 :: es))).getLast? = some (v1, t1) ∧
      (∃ m ∈ arrived (e0 :: es), m.notif = some v1) ∧
      ∀ m ∈ arrived (e0 :: es), ∀ v, m.notif = some v → v ≤ v1 := by
  have hall' : ∀ e ∈ e0 :: es, ∃ m v, e.ev = .message m false ∧ m.notif = some v ∧ m.cancels = false ∧ v < 2 ^ 24 ∧
      soff 0 v < 2 ^ 23 ∧ T ≤ e.time ∧ e.time ≤ T + cfg.reset := by
    intro e he
    obtain ⟨m, v, h1, h2, hc, h3, h4, h5⟩ := hall e he
    exact ⟨m, v, h1, h2, hc, by omega, by rw [soff_zero v (by omega)]; exact h3, h4, h5⟩
  obtain ⟨v1, t1, _, hlast, ⟨m1, hm1, hv1⟩, hmax⟩ := C07_freshest_delivered cfg hobs 0 T e0 es hall'
  refine ⟨v1, t1, hlast, ⟨m1, hm1, hv1⟩, ?_⟩
  intro m hm v hv
  have h1 : v1 < 2 ^ 23 := by
    obtain ⟨e, he, hme⟩ : ∃ e ∈ e0 :: es, e.ev.msg? = some m1 := by
      simp only [arrived, List.mem_filterMap] at hm1; exact hm1
    obtain ⟨m', v', h1, h2, _, h3, _⟩ := hall e he
    rw [h1] at hme; simp only [Event.msg?, Option.some.injEq] at hme; subst hme
    rw [hv1] at h2; cases h2; exact h3
  have h2 : v < 2 ^ 23 := by
    obtain ⟨e, he, hme⟩ : ∃ e ∈ e0 :: es, e.ev.msg? = some m := by
      simp only [arrived, List.mem_filterMap] at hm; exact hm
    obtain ⟨m', v', h1, h2, _, h3, _⟩ := hall e he
    rw [h1] at hme; simp only [Event.msg?, Option.some.injEq] at hme; subst hme
    rw [hv] at h2; cases h2; exact h3
  have := hmax m hm v hv
  rwa [soff_zero v (by omega), soff_zero v1 (by omega)] at this

-- C07 clause 5: the observation ends exactly once, and how ---------------------------------------

/-- a pipe event after which no notification can follow: marked last, not a notification — without
Observe option, or with a code that is not 2.xx, whatever its options (`Msg.notif`) —, or an
exception -/
def Event.terminating : Event → Bool
  | .message m last => last || m.notif.isNone
  | .exception _ => true
  | _ => false

/-- the application cancels the observation from inside the callback that is handed this message -/
def Event.cancels : Event → Bool
  | .message m _ => m.cancels
  | _ => false

/-- how an observation has to end, as the property states it: with the network error when already
the initial request fails in the transport; as `NotObservable` when the first response carries no
Observe option — "as every non-2.xx one": or is not a 2.xx response — (or is marked last);
otherwise, at the first terminating event, the transport's exception or `ObservationCancelled`;
otherwise not at all -/
def expectedEnd : List Event → List ErrKind
  | [] => []
  | .exception k :: _ => [.transport k]
  | e :: rest =>
    if e.terminating then [.notObservable] else
    match rest.find? Event.terminating with
    | none => []
    | some (.exception k) => [.transport k]
    | some _ => [.observationCancelled]

/-- every step gives at most one termination signal, and when it does the runner has returned -/
theorem step_errbacks (cfg : Cfg) (s : ObsState) (e : TEvent) :
    errbacks (step cfg s e).2 = [] ∨
      ∃ k, errbacks (step cfg s e).2 = [k] ∧ (step cfg s e).1 = .ended := by
  obtain ⟨t, ev⟩ := e
  cases s with
  | awaitingFirst =>
    cases ev with
    | message m last =>
      simp only [step, stepFirst]
      split
      · left; cases last <;> simp
      · split
        · right; exact ⟨.notObservable, by simp, rfl⟩
        · split
          · right; exact ⟨.notObservable, by simp, rfl⟩
          · left; simp
    | exception k =>
      cases ho : cfg.observe
      · left; simp [step, stepFirst, ho]
      · right; exact ⟨.transport k, by simp [step, stepFirst, ho], by simp [step, stepFirst]⟩
    | obsCancel => left; cases ho : cfg.observe <;> simp [step, stepFirst, ho]
    | respCancel =>
      cases ho : cfg.observe
      · left; simp [step, stepFirst, ho]
      · right; exact ⟨.observationCancelled, by simp [step, stepFirst, ho], by simp [step, stepFirst]⟩
  | cancelledFirst =>
    left
    cases ev with
    | message m last => cases last <;> cases hv : m.notif <;> simp [step, stepCancelledFirst, hv]
    | exception k => simp [step, stepCancelledFirst]
    | obsCancel => simp [step, stepCancelledFirst]
    | respCancel => simp [step, stepCancelledFirst]
  | observing v1 t1 =>
    cases ev with
    | message m last =>
      cases hobs : m.notif with
      | none =>
        rw [step_final cfg v1 t1 t m last hobs]
        cases hc : m.cancels
        · right; exact ⟨.observationCancelled, by cases last <;> simp, rfl⟩
        · left; cases last <;> simp
      | some v2 =>
        rw [step_notification cfg v1 t1 t m v2 last hobs]
        cases last
        · left; cases fresher cfg.reset v1 t1 v2 t <;> simp
        · cases hf : fresher cfg.reset v1 t1 v2 t <;> cases hc : m.cancels
          · right; exact ⟨.observationCancelled, by simp, by simp⟩
          · right; exact ⟨.observationCancelled, by simp, by simp⟩
          · right; exact ⟨.observationCancelled, by simp, by simp⟩
          · left; simp
    | exception k => right; exact ⟨.transport k, by simp [step, stepObserving], by simp [step, stepObserving]⟩
    | obsCancel => left; simp [step, stepObserving]
    | respCancel => left; simp [step, stepObserving]
  | appCancelled => left; cases ev <;> simp [step, stepCancelled]
  | ended => left; simp [step]
  | unmodelled => left; simp [step]

theorem over_deliveries {cfg : Cfg} {s : ObsState} (h : Over s) (es : List TEvent) :
    deliveries cfg s es = [] := by
  simp [deliveries, (over_run (cfg := cfg) h es).2]

/-- **C07 (at most one termination signal).** For every history whatsoever — pipe events and
application calls, from any state — the errbacks are called at most once. -/
theorem C07_at_most_one_end (cfg : Cfg) (s : ObsState) (es : List TEvent) :
    (errbacks (deliveries cfg s es)).length ≤ 1 := by
  induction es generalizing s with
  | nil => simp [deliveries_nil]
  | cons e es ih =>
    rw [deliveries_cons, errbacks_append]
    rcases step_errbacks cfg s e with h | ⟨k, h, hend⟩
    · rw [h]; simpa using ih _
    · rw [h, over_deliveries (Or.inl hend)]; simp

theorem ends_observing (cfg : Cfg) (es : List TEvent) (v1 t1 : Nat)
    (hp : ∀ e ∈ es, e.ev.isPipe = true) (hnc : ∀ e ∈ es, e.ev.cancels = false) :
    errbacks (deliveries cfg (.observing v1 t1) es) =
      match (es.map (·.ev)).find? Event.terminating with
      | none => []
      | some (.exception k) => [.transport k]
      | some _ => [.observationCancelled] := by
  induction es generalizing v1 t1 with
  | nil => simp [deliveries_nil]
  | cons e es ih =>
    have hrest : ∀ e' ∈ es, e'.ev.isPipe = true := fun e' he' => hp e' (List.mem_cons_of_mem _ he')
    have hnrest : ∀ e' ∈ es, e'.ev.cancels = false := fun e' he' => hnc e' (List.mem_cons_of_mem _ he')
    have hpe := hp e List.mem_cons_self
    have hce := hnc e List.mem_cons_self
    obtain ⟨t, ev⟩ := e
    rw [deliveries_cons, errbacks_append, List.map_cons, List.find?_cons]
    cases ev with
    | message m last =>
      have hc : m.cancels = false := hce
      cases hobs : m.notif with
      | none =>
        have : Event.terminating (.message m last) = true := by simp [Event.terminating, hobs]
        simp only [this]
        rw [over_deliveries (by simp [step, stepObserving, hobs, Over])]
        cases last <;> simp [step, stepObserving, hobs, hc]
      | some v2 =>
        rw [step_notification cfg v1 t1 t m v2 last hobs]
        cases last
        · have : Event.terminating (.message m false) = false := by simp [Event.terminating, hobs]
          simp only [this]
          cases hf : fresher cfg.reset v1 t1 v2 t
          · simpa using ih v1 t1 hrest hnrest
          · simpa [hc] using ih v2 t hrest hnrest
        · have : Event.terminating (.message m true) = true := by simp [Event.terminating]
          simp only [this]
          rw [over_deliveries (by simp [Over])]
          cases fresher cfg.reset v1 t1 v2 t <;> simp [hc]
    | exception k =>
      have : Event.terminating (.exception k) = true := rfl
      simp only [this]
      rw [over_deliveries (by simp [step, stepObserving, Over])]
      simp [step, stepObserving]
    | obsCancel => simp [Event.isPipe] at hpe
    | respCancel => simp [Event.isPipe] at hpe

/-- **C07 (the observation ends exactly once, and as the property says).** For an observing
request and every history of pipe events (during which the application does not cancel the
observation itself — neither between events, `isPipe`, nor from inside a callback, `cancels`; for
those see `C07_nothing_after_app_cancel`, `C07_cancel_in_callback`): the sequence of termination
signals is exactly `expectedEnd` — the transport's exception, once, if already the first event is
an exception (the response future fails with it as well); `NotObservable`, once, iff the first
event is a response that is not a notification: without Observe option, or with a non-2.xx code
whatever its options (or marked last); otherwise nothing until the first terminating event, and at
that event exactly one signal: the transport's exception, or `ObservationCancelled` for a response
that is not a notification (or marked last); none if no terminating event arrives. -/
theorem C07_ends_exactly_once (cfg : Cfg) (hobs : cfg.observe = true) (es : List TEvent)
    (hp : ∀ e ∈ es, e.ev.isPipe = true) (hnc : ∀ e ∈ es.drop 1, e.ev.cancels = false) :
    errbacks (deliveries cfg .awaitingFirst es) = expectedEnd (es.map (·.ev)) := by
  cases es with
  | nil => simp [deliveries_nil, expectedEnd]
  | cons e es =>
    have hrest : ∀ e' ∈ es, e'.ev.isPipe = true := fun e' he' => hp e' (List.mem_cons_of_mem _ he')
    have hnrest : ∀ e' ∈ es, e'.ev.cancels = false := by simpa using hnc
    have hpe := hp e List.mem_cons_self
    obtain ⟨t, ev⟩ := e
    rw [deliveries_cons, errbacks_append, List.map_cons]
    cases ev with
    | message m last =>
      simp only [expectedEnd]
      cases hl : last
      · cases hv : m.notif with
        | none =>
          have : Event.terminating (.message m false) = true := by simp [Event.terminating, hv]
          simp only [this, ↓reduceIte]
          rw [over_deliveries (by simp [step, stepFirst, hobs, hv, Over])]
          simp [step, stepFirst, hobs, hv]
        | some v =>
          have : Event.terminating (.message m false) = false := by simp [Event.terminating, hv]
          simp only [this, Bool.false_eq_true, ↓reduceIte]
          have := ends_observing cfg es v t hrest hnrest
          simpa [step, stepFirst, hobs, hv] using this
      · have : Event.terminating (.message m true) = true := by simp [Event.terminating]
        simp only [this, ↓reduceIte]
        rw [over_deliveries (by simp [step, stepFirst, hobs, Over])]
        simp [step, stepFirst, hobs]
    | exception k =>
      simp only [expectedEnd]
      rw [over_deliveries (by simp [step, stepFirst, Over])]
      simp [step, stepFirst, hobs]
    | obsCancel => simp [Event.isPipe] at hpe
    | respCancel => simp [Event.isPipe] at hpe

/-- **C07 (final response, then the cancellation signal).** When, during an established
observation, a response arrives that is not a notification — without Observe option, or with a
code that is not 2.xx whatever options it carries (`Msg.notif`; `C07_non_2xx_is_final` spells the
second case out) — exactly this happens, in this order and whatever the response's Observe value
and arrival time (no freshness test): the response is passed to the callbacks, then the errbacks
get `ObservationCancelled` (then the runner stops its interest unless the pipe marked the response
last) — and nothing else for the rest of the history.  (`hc`: the application does not cancel the
observation from inside that callback; if it does, `C07_cancel_in_callback`.) -/
theorem C07_final_response_then_cancellation (cfg : Cfg) (pre post : List TEvent) (v1 t1 t : Nat)
    (m : Msg) (last : Bool)
    (hst : finalState cfg .awaitingFirst pre = .observing v1 t1) (hm : m.notif = none)
    (hc : m.cancels = false) :
    deliveries cfg .awaitingFirst (pre ++ ⟨t, .message m last⟩ :: post) =
      deliveries cfg .awaitingFirst pre ++
        ([.callback m, .errback .observationCancelled] ++ if last then [] else [.stopInterest]) := by
  have hover : Over (step cfg (.observing v1 t1) ⟨t, .message m last⟩).1 := by
    simp [step, stepObserving, hm, Over]
  rw [deliveries_append, hst, deliveries_cons, over_deliveries hover]
  simp [step, stepObserving, hm, hc]

/-- **C07 ("as every non-2.xx one is").** A response whose code is not 2.xx is never a
notification, whatever Observe option a server puts on it: as the first response of an observing
request it completes the response future and ends the observation with `NotObservable`; during an
established observation it is handed to the callbacks — unconditionally, its Observe value is not
compared with anything — and followed by `ObservationCancelled`; nothing else is delivered for the
rest of the history in either case. -/
theorem C07_non_2xx_is_final (cfg : Cfg) (hobs : cfg.observe = true) (t : Nat) (m : Msg)
    (last : Bool) (post : List TEvent) (hcode : successful m.code = false) :
    Event.terminating (.message m last) = true ∧
    deliveries cfg .awaitingFirst (⟨t, .message m last⟩ :: post) =
      [.response m, .errback .notObservable] ++ (if last then [] else [.stopInterest]) ∧
    ∀ v1 t1, m.cancels = false →
      deliveries cfg (.observing v1 t1) (⟨t, .message m last⟩ :: post) =
        [.callback m, .errback .observationCancelled] ++ (if last then [] else [.stopInterest]) := by
  have hn : m.notif = none := by simp [Msg.notif, hcode]
  refine ⟨by simp [Event.terminating, hn], ?_, ?_⟩
  · rw [deliveries_cons, over_deliveries (by cases last <;> simp [step, stepFirst, hobs, hn, Over])]
    cases last <;> simp [step, stepFirst, hobs, hn]
  · intro v1 t1 hc
    rw [deliveries_cons, step_final cfg v1 t1 t m last hn, over_deliveries (Or.inl rfl)]
    simp [hc]

/-- **C07 (transport failure).** An exception on the pipe during an established observation is
passed to the errbacks — that one signal and nothing else for the rest of the history. -/
theorem C07_network_error (cfg : Cfg) (pre post : List TEvent) (v1 t1 t k : Nat)
    (hst : finalState cfg .awaitingFirst pre = .observing v1 t1) :
    deliveries cfg .awaitingFirst (pre ++ ⟨t, .exception k⟩ :: post) =
      deliveries cfg .awaitingFirst pre ++ [.errback (.transport k)] := by
  have hover : Over (step cfg (.observing v1 t1) ⟨t, .exception k⟩).1 := by
    simp [step, stepObserving, Over]
  rw [deliveries_append, hst, deliveries_cons, over_deliveries hover]
  simp [step, stepObserving]

/-- **C07 (not observable).** The first response of an observing request: it always completes
the response future; the errbacks get `NotObservable` iff it is not a notification — it has no
Observe option, or its code is not 2.xx whatever its options — or is marked last, and then nothing
else is ever delivered; otherwise the observation is established with its Observe value and
arrival time. -/
theorem C07_first_response (cfg : Cfg) (hobs : cfg.observe = true) (t : Nat) (m : Msg) (last : Bool)
    (post : List TEvent) :
    (if last = true ∨ m.notif = none then
      deliveries cfg .awaitingFirst (⟨t, .message m last⟩ :: post) =
        [.response m, .errback .notObservable] ++
          (if last then [] else [.stopInterest])
     else
      ∃ v, m.notif = some v ∧ step cfg .awaitingFirst ⟨t, .message m last⟩ =
        (.observing v t, [.response m])) := by
  cases hl : last
  · cases hv : m.notif with
    | none =>
      simp only [Bool.false_eq_true, or_true, ↓reduceIte]
      rw [deliveries_cons, over_deliveries (by simp [step, stepFirst, hobs, hv, Over])]
      simp [step, stepFirst, hobs, hv]
    | some v => simp [step, stepFirst, hobs, hv]
  · simp only [true_or, ↓reduceIte]
    rw [deliveries_cons, over_deliveries (by simp [step, stepFirst, hobs, Over])]
    simp [step, stepFirst, hobs]

-- C07 clause 6: nothing after the end ------------------------------------------------------------

theorem errbacks_over (cfg : Cfg) (s : ObsState) (es : List TEvent)
    (h : errbacks (deliveries cfg s es) ≠ []) : Over (finalState cfg s es) := by
  induction es generalizing s with
  | nil => simp [deliveries_nil] at h
  | cons e es ih =>
    rw [finalState_cons]
    rw [deliveries_cons, errbacks_append] at h
    rcases step_errbacks cfg s e with h1 | ⟨k, _, hend⟩
    · rw [h1, List.nil_append] at h
      exact ih _ h
    · exact (over_run (cfg := cfg) (Or.inl hend) es).1

/-- **C07 (nothing after the end).** Once a termination signal has been given, whatever arrives
later — notifications, responses, exceptions, application calls — causes no delivery at all: the
deliveries of the longer history are those of the shorter one. -/
theorem C07_nothing_after_end (cfg : Cfg) (s : ObsState) (pre post : List TEvent)
    (h : errbacks (deliveries cfg s pre) ≠ []) :
    deliveries cfg s (pre ++ post) = deliveries cfg s pre := by
  rw [deliveries_append, over_deliveries (errbacks_over cfg s pre h), List.append_nil]

/-- … and once the runner has returned (state `ended`: the pipe has no interest left) it stays
returned and silent for every continuation that the application does not derail -/
theorem C07_ended_is_final (cfg : Cfg) (es : List TEvent) :
    trace cfg .ended es = [] ∧ Over (finalState cfg .ended es) :=
  ⟨(over_run (Or.inl rfl) es).2, (over_run (Or.inl rfl) es).1⟩

/-- what follows the termination signal inside a list of deliveries -/
def afterEnd (ds : List Delivery) : List Delivery :=
  (ds.dropWhile (fun d => d.err?.isNone)).drop 1

theorem afterEnd_append_of_none (a b : List Delivery) (h : errbacks a = []) :
    afterEnd (a ++ b) = afterEnd b := by
  induction a with
  | nil => rfl
  | cons d a ih =>
    cases d with
    | errback k => simp at h
    | response m => simpa [afterEnd, List.dropWhile_cons, Delivery.err?] using ih (by simpa using h)
    | responseExc k => simpa [afterEnd, List.dropWhile_cons, Delivery.err?] using ih (by simpa using h)
    | callback m => simpa [afterEnd, List.dropWhile_cons, Delivery.err?] using ih (by simpa using h)
    | stopInterest => simpa [afterEnd, List.dropWhile_cons, Delivery.err?] using ih (by simpa using h)

theorem step_afterEnd (cfg : Cfg) (s : ObsState) (e : TEvent) :
    ∀ d ∈ afterEnd (step cfg s e).2, d = .stopInterest := by
  obtain ⟨t, ev⟩ := e
  cases s with
  | awaitingFirst =>
    cases ev with
    | message m last =>
      simp only [step, stepFirst]
      split
      · cases last <;> simp [afterEnd, Delivery.err?]
      · split
        · simp [afterEnd, Delivery.err?]
        · split <;> simp [afterEnd, Delivery.err?]
    | exception k => cases ho : cfg.observe <;> simp [step, stepFirst, ho, afterEnd, Delivery.err?]
    | obsCancel => cases ho : cfg.observe <;> simp [step, stepFirst, ho, afterEnd]
    | respCancel => cases ho : cfg.observe <;> simp [step, stepFirst, ho, afterEnd, Delivery.err?]
  | cancelledFirst =>
    cases ev with
    | message m last =>
      cases last <;> cases hv : m.notif <;> simp [step, stepCancelledFirst, hv, afterEnd, Delivery.err?]
    | exception k => simp [step, stepCancelledFirst, afterEnd, Delivery.err?]
    | obsCancel => simp [step, stepCancelledFirst, afterEnd]
    | respCancel => simp [step, stepCancelledFirst, afterEnd, Delivery.err?]
  | observing v1 t1 =>
    cases ev with
    | message m last =>
      cases hobs : m.notif with
      | none =>
        cases last <;> cases hc : m.cancels <;>
          simp [step, stepObserving, hobs, hc, afterEnd, Delivery.err?]
      | some v2 =>
        rw [step_notification cfg v1 t1 t m v2 last hobs]
        cases last <;> cases fresher cfg.reset v1 t1 v2 t <;> cases m.cancels <;>
          simp [afterEnd, Delivery.err?]
    | exception k => simp [step, stepObserving, afterEnd, Delivery.err?]
    | obsCancel => simp [step, stepObserving, afterEnd]
    | respCancel => simp [step, stepObserving, afterEnd]
  | appCancelled => cases ev <;> simp [step, stepCancelled, afterEnd, Delivery.err?]
  | ended => simp [step, afterEnd]
  | unmodelled => simp [step, afterEnd]

/-- **C07 (nothing but `_stop_interest` after the termination signal).** In the sequence of
deliveries of any history, from any state, everything after the (first) termination signal is the
runner withdrawing from the pipe — no response, no callback, no second signal. -/
theorem C07_only_stop_after_end (cfg : Cfg) (s : ObsState) (es : List TEvent) :
    ∀ d ∈ afterEnd (deliveries cfg s es), d = .stopInterest := by
  induction es generalizing s with
  | nil => simp [deliveries_nil, afterEnd]
  | cons e es ih =>
    rw [deliveries_cons]
    rcases step_errbacks cfg s e with h | ⟨k, _, hend⟩
    · rw [afterEnd_append_of_none _ _ h]
      exact ih _
    · rw [over_deliveries (Or.inl hend), List.append_nil]
      exact step_afterEnd cfg s e

-- C07 clause 6b: nothing after the application's own cancel ----------------------------------------

/-- **C07 (nothing after the application's cancel).** Once the application has called
`request.observation.cancel()` — before the first response or during the observation, from any
state — nothing that arrives later is passed to the observation's listeners: no callback and no
errback in any continuation (and so, with `ClientObservation.error` never called on the cancelled
observation, nothing is raised into whoever delivers the event). -/
theorem C07_nothing_after_app_cancel (cfg : Cfg) (s : ObsState) (pre post : List TEvent) (t : Nat) :
    ∀ d ∈ deliveries cfg (finalState cfg s (pre ++ [⟨t, .obsCancel⟩])) post, d.isSignal = false := by
  rw [finalState_append]
  have hc : Calm (finalState cfg (finalState cfg s pre) [⟨t, .obsCancel⟩]) := by
    rw [finalState_cons, finalState_nil]
    generalize finalState cfg s pre = s1
    cases s1 with
    | awaitingFirst => cases ho : cfg.observe <;> simp [step, stepFirst, ho, Calm, Quiet]
    | cancelledFirst => simp [step, stepCancelledFirst, Calm, Quiet]
    | observing v1 t1 => simp [step, stepObserving, Calm, Quiet]
    | appCancelled => simp [step, stepCancelled, Calm, Quiet]
    | ended => simp [step, Calm, Quiet]
    | unmodelled => simp [step, Calm, Quiet]
  exact (calm_run hc post).2

/-- **C07 (cancelled before the first response: the response future still completes).** After
`observation.cancel()` before the first event, that event completes the response future exactly as
it would have otherwise — the response, or the transport's exception — and is not signalled to the
observation; a first notification merely lets the runner withdraw from the pipe at the next
event. -/
theorem C07_app_cancel_before_first_response (cfg : Cfg) (hobs : cfg.observe = true) (t t' : Nat) :
    step cfg .awaitingFirst ⟨t, .obsCancel⟩ = (.cancelledFirst, []) ∧
    (∀ m last, step cfg .cancelledFirst ⟨t', .message m last⟩ =
      (if last = true ∨ m.notif = none then .ended else .appCancelled,
       .response m :: if last = false ∧ m.notif = none then [.stopInterest] else [])) ∧
    (∀ k, step cfg .cancelledFirst ⟨t', .exception k⟩ = (.ended, [.responseExc k])) ∧
    (∀ e, (step cfg .appCancelled e).2 = if e.ev.isPipe then [.stopInterest] else []) := by
  refine ⟨by simp [step, stepFirst, hobs], ?_, fun k => rfl, ?_⟩
  · intro m last
    cases last <;> cases hv : m.notif <;> simp [step, stepCancelledFirst, hv]
  · intro e
    obtain ⟨t, ev⟩ := e
    cases ev <;> simp [step, stepCancelled, Event.isPipe]

/-- **C07 (cancelled from inside the callback).** When the application calls
`request.observation.cancel()` from inside the callback that hands it a message (`m.cancels`) —
a notification, the last notification, the final response —, then in that very turn of the runner
nothing follows the callback but (possibly) the runner's withdrawal from the pipe: in particular
`ClientObservation.error` is not called on the cancelled observation (it would raise into the
pipe's feeder, i.e. the transport), and nothing that arrives later is signalled to the observation's
listeners. -/
theorem C07_cancel_in_callback (cfg : Cfg) (s : ObsState) (t : Nat) (m : Msg) (last : Bool)
    (post : List TEvent) (hc : m.cancels = true)
    (hcb : Delivery.callback m ∈ (step cfg s ⟨t, .message m last⟩).2) :
    errbacks (step cfg s ⟨t, .message m last⟩).2 = [] ∧
    (∀ d ∈ (step cfg s ⟨t, .message m last⟩).2, d = .callback m ∨ d = .stopInterest) ∧
    Quiet (step cfg s ⟨t, .message m last⟩).1 ∧
    ∀ d ∈ deliveries cfg (step cfg s ⟨t, .message m last⟩).1 post, d.isSignal = false := by
  have key : errbacks (step cfg s ⟨t, .message m last⟩).2 = [] ∧
      (∀ d ∈ (step cfg s ⟨t, .message m last⟩).2, d = .callback m ∨ d = .stopInterest) ∧
      Quiet (step cfg s ⟨t, .message m last⟩).1 := by
    cases s with
    | awaitingFirst =>
      exfalso; revert hcb
      simp only [step, stepFirst]
      split
      · cases last <;> simp
      · split
        · simp
        · split <;> simp
    | cancelledFirst =>
      exfalso; revert hcb
      cases last <;> cases hv : m.notif <;> simp [step, stepCancelledFirst, hv]
    | observing v1 t1 =>
      cases hobs : m.notif with
      | none =>
        rw [step_final cfg v1 t1 t m last hobs]
        cases last <;> simp [hc, Quiet]
      | some v2 =>
        rw [step_notification cfg v1 t1 t m v2 last hobs] at hcb ⊢
        cases hf : fresher cfg.reset v1 t1 v2 t
        · exfalso; revert hcb; cases last <;> simp [hf]
        · cases last <;> simp [hc, Quiet]
    | appCancelled => exfalso; revert hcb; simp [step, stepCancelled]
    | ended => exfalso; revert hcb; simp [step]
    | unmodelled => exfalso; revert hcb; simp [step]
  exact ⟨key.1, key.2.1, key.2.2, (calm_run (Or.inr key.2.2) post).2⟩

/-- **C07 (cancelling once more does nothing).** `request.observation.cancel()` on an observation
that is cancelled already — by the application before the first response or during the
observation, or because it has ended (`error()` cancels it; state `ended` of an observing request)
— changes nothing and delivers nothing; in particular it raises nothing into whoever is just
delivering the end to an errback that cancels "its" observation (the sweep of
`TokenManager.shutdown`, the transport): the deliveries of a history are the same with and without
such calls. -/
theorem C07_cancel_again_is_noop (cfg : Cfg) (hobs : cfg.observe = true) (s : ObsState) (t : Nat)
    (hs : s = .cancelledFirst ∨ s = .appCancelled ∨ s = .ended) (pre post : List TEvent)
    (hpre : finalState cfg .awaitingFirst pre = s) :
    step cfg s ⟨t, .obsCancel⟩ = (s, []) ∧
    deliveries cfg .awaitingFirst (pre ++ ⟨t, .obsCancel⟩ :: post) =
      deliveries cfg .awaitingFirst (pre ++ post) := by
  have h1 : step cfg s ⟨t, .obsCancel⟩ = (s, []) := by
    rcases hs with h | h | h <;> subst h <;> simp [step, stepCancelledFirst, stepCancelled, hobs]
  refine ⟨h1, ?_⟩
  rw [deliveries_append, deliveries_append, hpre, deliveries_cons, h1]
  rfl

-- C07 clause 6c: the application gives the request up before its first response --------------------

/-- **C07 (response future cancelled before the first response).** When the application cancels
`request.response` of an observing request before the first event (`asyncio.wait_for` does that on
time-out), the runner is dropped, the interest in the exchange withdrawn, and the observation is
ended, once, with `ObservationCancelled` — so that an `async for` over it stops and errbacks fire
(`C07_iter_compose` with `errbacks = [observationCancelled]`) — and nothing else is ever delivered;
an observation the application had cancelled before is told nothing; and once the first response
is in, `response.cancel()` finds a completed future and changes nothing: the observation goes on. -/
theorem C07_response_cancelled_ends_observation (cfg : Cfg) (hobs : cfg.observe = true) (t : Nat)
    (post : List TEvent) :
    deliveries cfg .awaitingFirst (⟨t, .respCancel⟩ :: post) =
      [.stopInterest, .errback .observationCancelled] ∧
    deliveries cfg .cancelledFirst (⟨t, .respCancel⟩ :: post) = [.stopInterest] ∧
    ∀ v1 t1, step cfg (.observing v1 t1) ⟨t, .respCancel⟩ = (.observing v1 t1, []) := by
  refine ⟨?_, ?_, fun _ _ => rfl⟩
  · rw [deliveries_cons, over_deliveries (by simp [step, stepFirst, Over])]
    simp [step, stepFirst, hobs]
  · rw [deliveries_cons, over_deliveries (by simp [step, stepCancelledFirst, Over])]
    simp [step, stepCancelledFirst]

-- C07 clause 7: joint with the message layer — after the end the token is retired -----------------

open Aiocoap.MsgLayer in
/-- **C07 (the token manager marks every response that is not a notification as last).**
Whatever `process_response` puts on a request's pipe for a datagram that is not a notification —
without Observe option, or with a code that is not 2.xx whatever its options — is marked last: so
on the real stack a first response of that kind always takes the `NotObservable` branch and a
later one the `callback, ObservationCancelled` branch of the runner, the runner never has to
withdraw from the pipe itself, and the token is retired in that very call
(`C07_joint_end_retires_token`); and for a request that observes, a notification (2.xx with
Observe option) is never marked last. -/
theorem C07_joint_no_observe_is_last (s : MsgLayer.State) (remote : Remote) (w : Wire) (r : Nat)
    (w' : Wire) (f : Bool) (h : (r, w', f) ∈ respOf (processResponse s remote w).2.1) :
    pipeEventOf r (.response r w' f) = some (.message (msgOfWire w) f) ∧
    ((msgOfWire w).notif = none → f = true ∧ Event.terminating (.message (msgOfWire w) f) = true) ∧
    ((w.obs = none ∨ isSuccessful w.code = false) → f = true) ∧
    ((∀ o ∈ s.outgoing, o.req = r → o.observing = true) → (msgOfWire w).notif.isSome = true →
      f = false) := by
  obtain ⟨hw, _, o, ho, hr, _, _, hf⟩ := C02_delivery_matches s remote w r w' f h
  subst hw
  have hsucc : successful w'.code = isSuccessful w'.code := by
    simp [successful, isSuccessful]
  have hraw : (w'.obs = none ∨ isSuccessful w'.code = false) → f = true := by
    intro hn
    rcases hn with hn | hn <;> rw [hf, hn] <;> simp
  refine ⟨by simp [pipeEventOf], ?_, hraw, ?_⟩
  · intro hn
    have : f = true := by
      apply hraw
      simp only [Msg.notif, msgOfWire, hsucc] at hn
      cases hs : isSuccessful w'.code
      · exact Or.inr rfl
      · left; simpa [hs] using hn
    exact ⟨this, by simp [Event.terminating, this]⟩
  · intro hob hs
    simp only [Msg.notif, msgOfWire, hsucc] at hs
    cases hc : isSuccessful w'.code
    · simp [hc] at hs
    · rw [hf, hob o ho hr, hc]
      simp only [hc, ↓reduceIte] at hs
      simp [hs]

/-- **C07 (once the runner has returned, the token is retired).** Start from any state of the
message layer in which request `r` is not registered, submit it, and let anything happen — any
datagrams from anywhere (notifications in any order, duplicates, forged ones, Resets), timers,
transport errors, other requests, shutdown, application cancellations — as long as `r` is not
submitted again.  Whenever the runner of `r` has returned (state `ended`: it was told the pipe's
last event, or it withdrew), `outgoing_requests` holds no entry for `r` any more. -/
theorem C07_joint_end_retires_token (cfg : Cfg) (r : Nat) (ms0 : MsgLayer.State)
    (h0 : ∀ o ∈ ms0.outgoing, o.req ≠ r) (t0 : Nat) (remote : MsgLayer.Remote) (mc ob : Bool)
    (m : MsgLayer.OutMsg) (es : List JEv) (hns : ∀ e ∈ es, e.isSubmit r = false) :
    (jointRun cfg r ⟨ms0, .awaitingFirst⟩ (.net ⟨t0, .submit r remote mc ob m⟩ :: es)).1.st = .ended →
    ∀ o ∈ (jointRun cfg r ⟨ms0, .awaitingFirst⟩
      (.net ⟨t0, .submit r remote mc ob m⟩ :: es)).1.ms.outgoing, o.req ≠ r := by
  have h0' : MsgLayer.outCount ms0 r = 0 := by
    simp only [MsgLayer.outCount, List.countP_eq_zero]
    intro o ho; simpa using h0 o ho
  have hfirst : JInv r (jointStep cfg r ⟨ms0, .awaitingFirst⟩
      (.net ⟨t0, .submit r remote mc ob m⟩)).1 := by
    apply jointStep_inv
    · simp [JEv.isSubmit, h0']
    · intro h; cases h
  have hinv := jointRun_inv cfg r _ es hfirst hns
  intro hend o ho
  have hz := hinv.2 (by simpa [jointRun] using hend)
  simp only [MsgLayer.outCount, List.countP_eq_zero] at hz
  have := hz o (by simpa [jointRun] using ho)
  simpa using this

open Aiocoap.MsgLayer in
/-- **C07 (after the end, later notifications reach nobody).** In a state in which request `r`
has no table entry (e.g. the one `C07_joint_end_retires_token` ends in), `process_response` puts
nothing on the pipe of `r` for any datagram whatsoever, so its runner sees no event. -/
theorem C07_joint_after_end_unmatched (cfg : Cfg) (r t : Nat) (st : ObsState) (ms : MsgLayer.State)
    (hret : ∀ o ∈ ms.outgoing, o.req ≠ r) (remote : Remote) (w : Wire) :
    (∀ w' f, (r, w', f) ∉ respOf (processResponse ms remote w).2.1) ∧
    feed cfg r t st (processResponse ms remote w).2.1 = (st, []) := by
  constructor
  · intro w' f h
    obtain ⟨_, _, o, ho, hr, _⟩ := C02_delivery_matches ms remote w r w' f h
    exact hret o ho hr
  · apply feed_no_events
    intro o ho
    cases o with
    | response r' w' f =>
      have : (r', w', f) ∈ respOf (processResponse ms remote w).2.1 := by
        simp only [respOf, List.mem_filterMap]
        exact ⟨_, ho, rfl⟩
      obtain ⟨_, _, o, ho', hr, _⟩ := C02_delivery_matches ms remote w r' w' f this
      have : r' ≠ r := fun e => hret o ho' (hr.trans e)
      simp [pipeEventOf, this]
    | fail r' k =>
      exfalso
      revert ho
      unfold processResponse
      simp only
      split <;> simp
    | send _ _ _ => rfl
    | deliver _ _ _ => rfl
    | stop _ => rfl

open Aiocoap.MsgLayer in
/-- **C07 (… and a confirmable one is rejected with a Reset, like any unknown response).** Take a
state in which the outstanding requests carry pairwise different tokens (`C02_tokens_distinct`:
every reachable state) and retire request `r`.  A confirmable response that still carries the
token `r` had — a late or repeated notification — matches nothing, is delivered to nobody and is
answered with a Reset carrying its message id. -/
theorem C07_joint_late_notification_reset (s : MsgLayer.State) (r : Nat) (o : OutReq)
    (ho : o ∈ s.outgoing) (hr : o.req = r)
    (hdist : ∀ o1 ∈ s.outgoing, ∀ o2 ∈ s.outgoing, o1.token = o2.token → o1 = o2)
    (remote : Remote) (w : Wire) (htok : w.token = o.token) (hcon : w.mtype = .con)
    (hresp : isResponse w.code = true) :
    processResponse (dropOutgoing s r) remote w = (dropOutgoing s r, [], false) ∧
    sendsOf (recvCode (dropOutgoing s r) remote false w).2 = [(s.now, remote, bare .rst w.mid)] := by
  have hun : processResponse (dropOutgoing s r) remote w = (dropOutgoing s r, [], false) := by
    apply C02_unmatched_never_delivered
    intro o' ho' htok'
    exfalso
    simp only [dropOutgoing, List.mem_filter, bne_iff_ne, ne_eq] at ho'
    have := hdist o' ho'.1 o ho (htok'.trans htok)
    exact ho'.2 (this ▸ hr)
  refine ⟨hun, ?_⟩
  rw [C10_table, hun]
  have hc0 : w.code ≠ 0 := by
    intro h; rw [h] at hresp; simp [isResponse] at hresp
  simp [expectedReply, hc0, hresp, hcon, dropOutgoing]

-- C07 clause "with a network error on transport failure", whatever else is outstanding ----------------

open Aiocoap.MsgLayer in
/-- the pipe events of request `r` among the failures `TokenManager.dispatch_error` hands out for a
list of table entries: if `r` has an entry among them, its runner — observing — is told exactly that
error, once, and has returned; entries of other requests before or after it change nothing -/
theorem feed_fails_observing (cfg : Cfg) (r t v1 t1 : Nat) (k : MsgLayer.ErrKind) (l : List OutReq)
    (rest : List MsgLayer.Out) (h : ∃ o ∈ l, o.req = r) :
    feed cfg r t (.observing v1 t1) (l.map (fun o => Out.fail o.req k) ++ rest) =
      (.ended, [Delivery.errback (ErrKind.transport (excCode k))]) := by
  induction l with
  | nil => obtain ⟨o, ho, _⟩ := h; cases ho
  | cons o l ih =>
    simp only [List.map_cons, List.cons_append, feed]
    by_cases hr : o.req = r
    · simp only [pipeEventOf, hr, ↓reduceIte]
      simp [step, stepObserving, feed_ended]
    · simp only [pipeEventOf, hr, ↓reduceIte]
      apply ih
      obtain ⟨o', ho', hr'⟩ := h
      rcases List.mem_cons.mp ho' with rfl | hm
      · exact absurd hr' hr
      · exact ⟨o', hm, hr'⟩

open Aiocoap.MsgLayer in
/-- **C07 (a transport failure ends the observation, whatever other requests are outstanding).**
`TokenManager.dispatch_error` for peer `rem` with error `k` (a network error reported by the
transport, or `ConRetransmitsExceeded` when any confirmable message to that peer ran out of
retransmissions), in any state of the tables — any number of other requests outstanding, to the same
peer or to others, registered before or after the observing request `r`:

* if `r` is outstanding to `rem`, its runner, observing, is told exactly that error, once
  ("ends … with a network error on transport failure"), has returned, and `r` has no table entry
  left (its token is retired: `C07_joint_after_end_unmatched`, `C07_joint_late_notification_reset`);
* every request with an entry for `rem` is failed with `k`; a request none of whose entries is for
  `rem` is not failed and keeps its entries;
* if none of `r`'s entries is for `rem` (the failure is some other peer's), the runner of `r` sees
  nothing at all — in whatever state it is — and its entries stay. -/
theorem C07_joint_transport_failure (cfg : Cfg) (r t v1 t1 : Nat) (s : MsgLayer.State) (rem : Remote)
    (k : MsgLayer.ErrKind) (hs : s.shutTok = false) :
    ((∃ o ∈ s.outgoing, o.req = r ∧ o.remote = some rem) →
      feed cfg r t (.observing v1 t1) (tokenDispatchError s rem k).2 =
        (.ended, [Delivery.errback (ErrKind.transport (excCode k))]) ∧
      ((∀ o ∈ s.outgoing, o.req = r → o.remote = some rem) →
        ∀ o ∈ (tokenDispatchError s rem k).1.outgoing, o.req ≠ r)) ∧
    (∀ o ∈ s.outgoing, o.remote = some rem → Out.fail o.req k ∈ (tokenDispatchError s rem k).2) ∧
    (∀ r', (∀ o ∈ s.outgoing, o.req = r' → o.remote ≠ some rem) →
      (∀ k' : MsgLayer.ErrKind, Out.fail r' k' ∉ (tokenDispatchError s rem k).2) ∧
      (∀ o ∈ s.outgoing, o.req = r' → o ∈ (tokenDispatchError s rem k).1.outgoing) ∧
      ∀ st, feed cfg r' t st (tokenDispatchError s rem k).2 = (st, [])) := by
  have hout : (tokenDispatchError s rem k).2 =
      (s.outgoing.filter (fun o => o.remote == some rem)).map (fun o => Out.fail o.req k) ++
      (s.incoming.filter (fun i => i.remote == rem)).map (fun i => Out.stop i.srv) := by
    simp [tokenDispatchError, hs]
  have hst : (tokenDispatchError s rem k).1.outgoing =
      s.outgoing.filter (fun o => !(o.remote == some rem)) := by
    simp [tokenDispatchError, hs]
  refine ⟨?_, ?_, ?_⟩
  · intro ⟨o, ho, hr, hrem⟩
    refine ⟨?_, ?_⟩
    · rw [hout]
      apply feed_fails_observing
      exact ⟨o, List.mem_filter.mpr ⟨ho, by simp [hrem]⟩, hr⟩
    · intro hall o' ho' hr'
      rw [hst] at ho'
      obtain ⟨hm, hne⟩ := List.mem_filter.mp ho'
      have := hall o' hm hr'
      simp [this] at hne
  · intro o ho hrem
    rw [hout]
    apply List.mem_append_left
    exact List.mem_map.mpr ⟨o, List.mem_filter.mpr ⟨ho, by simp [hrem]⟩, rfl⟩
  · intro r' hnone
    have hnf : ∀ k' : MsgLayer.ErrKind, Out.fail r' k' ∉ (tokenDispatchError s rem k).2 := by
      intro k' hmem
      rw [hout] at hmem
      rcases List.mem_append.mp hmem with hm | hm
      · obtain ⟨o, ho, heq⟩ := List.mem_map.mp hm
        obtain ⟨ho1, ho2⟩ := List.mem_filter.mp ho
        injection heq with h1 _
        exact hnone o ho1 h1 (by simpa using ho2)
      · obtain ⟨i, _, heq⟩ := List.mem_map.mp hm
        cases heq
    refine ⟨hnf, ?_, ?_⟩
    · intro o ho hr
      rw [hst]
      exact List.mem_filter.mpr ⟨ho, by simpa using hnone o ho hr⟩
    · intro st
      apply feed_no_events
      intro o ho
      cases o with
      | fail r'' k'' =>
        by_cases h : r'' = r'
        · subst h
          rw [hout] at ho
          rcases List.mem_append.mp ho with hm | hm
          · obtain ⟨o, ho', heq⟩ := List.mem_map.mp hm
            obtain ⟨ho1, ho2⟩ := List.mem_filter.mp ho'
            injection heq with h1 _
            exact absurd (by simpa using ho2) (hnone o ho1 h1)
          · obtain ⟨i, _, heq⟩ := List.mem_map.mp hm
            cases heq
        · simp [pipeEventOf, h]
      | response r'' w f =>
        rw [hout] at ho
        rcases List.mem_append.mp ho with hm | hm
        · obtain ⟨_, _, heq⟩ := List.mem_map.mp hm; cases heq
        · obtain ⟨_, _, heq⟩ := List.mem_map.mp hm; cases heq
      | send _ _ _ => rfl
      | deliver _ _ _ => rfl
      | stop _ => rfl

open Aiocoap.MsgLayer in
/-- an observation to peer 0 established, then two more requests registered (to peer 0 and to peer 1),
then the transport reports an error for peer 0: the observation (the OLDEST entry) is told the network
error, the other request to peer 0 fails too, the one to peer 1 is left alone -/
example :
    let s : MsgLayer.State := { MsgLayer.init ⟨1, 1⟩ 0 32 (fun _ => 0) with outgoing :=
      [{ token := [33], remote := some 0, req := 0, observing := true, idx := 0 },
       { token := [34], remote := some 0, req := 1, observing := false, idx := 1 },
       { token := [35], remote := some 1, req := 2, observing := false, idx := 2 }] }
    feed ⟨128, true⟩ 0 9 (.observing 5 1) (tokenDispatchError s 0 .networkError).2 =
        (.ended, [Delivery.errback (ErrKind.transport 2)]) ∧
    (tokenDispatchError s 0 .networkError).2 = [.fail 0 .networkError, .fail 1 .networkError] ∧
    (tokenDispatchError s 0 .networkError).1.outgoing.map (·.req) = [2] := by
  decide

-- C07 clause 0: the comparison itself -------------------------------------------------------------

/-- **C07 (the coded comparison is RFC 7641 §3.4).** `is_recent` as coded holds exactly when
`(V1 < V2 and V2 - V1 < 2^23) or (V1 > V2 and V1 - V2 > 2^23) or (T2 > T1 + 128 s)`; a duplicate
(same Observe value) passes only by the clock; two values exactly half the circle apart are fresher
in neither direction; and among 24-bit values within one half of the circle counted from any base
(so across the wrap-around at 2^24) the sequence-number part is the order "further ahead". -/
theorem C07_fresher_is_rfc7641 (reset v1 t1 v2 t2 : Nat) :
    (fresher reset v1 t1 v2 t2 = true ↔ Rfc7641Fresher reset v1 t1 v2 t2) ∧
    (fresher reset v1 t1 v1 t2 = true ↔ t2 > t1 + reset) ∧
    (fresher reset v1 t1 (v1 + 2 ^ 23) t2 = true ↔ t2 > t1 + reset) ∧
    (fresher reset (v1 + 2 ^ 23) t1 v1 t2 = true ↔ t2 > t1 + reset) ∧
    (∀ b, v1 < 2 ^ 24 → v2 < 2 ^ 24 → soff b v1 < 2 ^ 23 → soff b v2 < 2 ^ 23 →
      (serialFresher v1 v2 = true ↔ soff b v1 < soff b v2)) := by
  refine ⟨fresher_iff _ _ _ _ _, ?_, ?_, ?_, fun b h1 h2 o1 o2 => serialFresher_soff b v1 v2 h1 h2 o1 o2⟩
  · rw [fresher_eq, serialFresher_irrefl]; simp
  · rw [fresher_eq, (serialFresher_half v1).1]; simp
  · rw [fresher_eq, (serialFresher_half v1).2]; simp

-- non-vacuity and sanity --------------------------------------------------------------------------

def exCfg : Cfg := { reset := 128 * 2 ^ 20, observe := true }
def exN (t v body : Nat) : TEvent := ⟨t, .message ⟨69, some v, body, false⟩ false⟩

/-- reordering, a duplicate, the half-circle boundary, the 128 s rule at ±1 tick, a 4.04 that ends
the observation, and a late notification -/
def exHistory : List TEvent :=
  [exN 0 5 0, exN 1 7 1, exN 2 6 2, exN 3 7 3, exN 4 (7 + 2 ^ 23) 4, exN 5 (6 + 2 ^ 23) 5,
   exN (5 + 128 * 2 ^ 20) (2 ^ 23) 6, exN (6 + 128 * 2 ^ 20) (2 ^ 23) 7,
   ⟨7 + 128 * 2 ^ 20, .message ⟨132, none, 8, false⟩ true⟩, exN (8 + 128 * 2 ^ 20) 9 9]

example : deliveries exCfg .awaitingFirst exHistory =
    [.response ⟨69, some 5, 0, false⟩, .callback ⟨69, some 7, 1, false⟩, .callback ⟨69, some (6 + 2 ^ 23), 5, false⟩,
     .callback ⟨69, some (2 ^ 23), 7, false⟩, .callback ⟨132, none, 8, false⟩, .errback .observationCancelled] := by
  decide
example : finalState exCfg .awaitingFirst exHistory = .ended := by decide
example : expectedEnd (exHistory.map (·.ev)) = [.observationCancelled] := by decide
example : ∀ e ∈ exHistory, e.ev.isPipe = true := by decide
example : errbacks (deliveries exCfg .awaitingFirst (exHistory.take 8)) = [] := by decide
/-- a first response without Observe that the pipe does not mark last (the fixed defect) -/
example : deliveries exCfg .awaitingFirst [⟨0, .message ⟨69, none, 1, false⟩ false⟩, exN 1 5 2] =
    [.response ⟨69, none, 1, false⟩, .errback .notObservable, .stopInterest] := by decide

/-- transport failure of the initial request (the second fixed defect): the observation ends with
that error -/
example : deliveries exCfg .awaitingFirst [⟨0, .exception 2⟩, exN 1 5 2] =
    [.responseExc 2, .errback (.transport 2)] := by decide
example : expectedEnd [.exception 2, .message ⟨69, some 5, 2, false⟩ false] = [.transport 2] := by decide
/-- `observation.cancel()` before the first response (fixed in 5a6f232): the response future still
completes, nobody is told anything, the runner withdraws at the next event -/
example : deliveries exCfg .awaitingFirst
    [⟨0, .obsCancel⟩, exN 1 5 2, exN 2 6 3, ⟨3, .message ⟨132, none, 4, false⟩ true⟩] =
    [.response ⟨69, some 5, 2, false⟩, .stopInterest] := by decide
example : deliveries exCfg .awaitingFirst [⟨0, .obsCancel⟩, ⟨1, .exception 3⟩] = [.responseExc 3] := by
  decide
example : deliveries exCfg .awaitingFirst [⟨0, .obsCancel⟩, ⟨1, .message ⟨69, none, 4, false⟩ true⟩] =
    [.response ⟨69, none, 4, false⟩] := by decide

/-- a 4.04 that carries an Observe option (stale, even) ends the observation like any final
response; as the first response it means "not observable" -/
example : deliveries exCfg .awaitingFirst
    [exN 0 5 0, exN 1 7 1, ⟨2, .message ⟨132, some 3, 2, false⟩ true⟩, exN 3 9 3] =
    [.response ⟨69, some 5, 0, false⟩, .callback ⟨69, some 7, 1, false⟩,
     .callback ⟨132, some 3, 2, false⟩, .errback .observationCancelled] := by decide
example : deliveries exCfg .awaitingFirst [⟨0, .message ⟨132, some 5, 0, false⟩ false⟩, exN 1 7 1] =
    [.response ⟨132, some 5, 0, false⟩, .errback .notObservable, .stopInterest] := by decide
example : successful 132 = false ∧ successful 69 = true ∧ successful 95 = true ∧
    successful 96 = false ∧ successful 63 = false := by decide
/-- the application cancels from inside the callback: on a notification (the next event makes the
runner withdraw), on the final response (no `error()` on the cancelled observation) -/
example : deliveries exCfg .awaitingFirst
    [exN 0 5 0, ⟨1, .message ⟨69, some 7, 1, true⟩ false⟩, exN 2 8 2, exN 3 9 3] =
    [.response ⟨69, some 5, 0, false⟩, .callback ⟨69, some 7, 1, true⟩, .stopInterest] := by decide
example : deliveries exCfg .awaitingFirst
    [exN 0 5 0, ⟨1, .message ⟨132, none, 1, true⟩ true⟩, exN 2 8 2] =
    [.response ⟨69, some 5, 0, false⟩, .callback ⟨132, none, 1, true⟩] := by decide
example : Delivery.callback ⟨132, none, 1, true⟩ ∈
    (step exCfg (.observing 5 0) ⟨1, .message ⟨132, none, 1, true⟩ true⟩).2 := by decide
/-- `observation.cancel()` after the end, and twice: nothing happens, nothing leaves the model -/
example : deliveries exCfg .awaitingFirst
    [exN 0 5 0, ⟨1, .message ⟨132, none, 1, false⟩ true⟩, ⟨2, .obsCancel⟩, ⟨3, .obsCancel⟩, exN 4 8 2] =
    [.response ⟨69, some 5, 0, false⟩, .callback ⟨132, none, 1, false⟩, .errback .observationCancelled] := by
  decide
example : finalState exCfg .awaitingFirst
    [exN 0 5 0, ⟨1, .message ⟨132, none, 1, false⟩ true⟩, ⟨2, .obsCancel⟩, ⟨3, .obsCancel⟩] = .ended := by
  decide
/-- `response.cancel()` before the first response ends the observation -/
example : deliveries exCfg .awaitingFirst [⟨0, .respCancel⟩, exN 1 5 0] =
    [.stopInterest, .errback .observationCancelled] := by decide

/-- hypotheses of `C07_freshest_delivered` are met by a history that wraps around 2^24 -/
def exWrap : List TEvent := [exN 10 (2 ^ 24 - 2) 0, exN 11 1 1, exN 12 (2 ^ 24 - 1) 2, exN 13 0 3, exN 14 1 4]

example : ∀ e ∈ exWrap, ∃ m v, e.ev = .message m false ∧ m.notif = some v ∧ m.cancels = false ∧ v < 2 ^ 24 ∧
    soff (2 ^ 24 - 2) v < 2 ^ 23 ∧ 10 ≤ e.time ∧ e.time ≤ 10 + exCfg.reset := by
  intro e he
  simp only [exWrap, List.mem_cons, List.not_mem_nil, or_false] at he
  rcases he with rfl | rfl | rfl | rfl | rfl <;>
    exact ⟨_, _, rfl, rfl, by decide, by decide, by decide, by decide⟩
example : finalState exCfg .awaitingFirst exWrap = .observing 1 11 := by decide
example : accepted (trace exCfg .awaitingFirst exWrap) = [(2 ^ 24 - 2, 10), (1, 11)] := by decide

-- the joint model on a concrete exchange: request 0 (token 08, to remote 5, observing) is
-- outstanding; piggy-backed first response, a CON notification, a NON 4.04, a late CON notification
open Aiocoap.MsgLayer in
def exJoint : List JEv :=
  [.net ⟨2, .recv 5 false { mtype := .ack, code := 69, mid := 100, token := [8], obs := some 5, body := 1 }⟩,
   .net ⟨3, .recv 5 false { mtype := .con, code := 69, mid := 900, token := [8], obs := some 6, body := 2 }⟩,
   .net ⟨4, .recv 5 false { mtype := .non, code := 132, mid := 901, token := [8], obs := none, body := 3 }⟩,
   .net ⟨5, .recv 5 false { mtype := .con, code := 69, mid := 902, token := [8], obs := some 7, body := 4 }⟩]

def exJointStart : JState :=
  ⟨{ MsgLayer.init ⟨1000, 100⟩ 100 7 (fun _ => 2000) with
      outgoing := [{ token := [8], remote := some 5, req := 0, observing := true, idx := 0 }] },
   .awaitingFirst⟩

example : (jointRun exCfg 0 exJointStart exJoint).2 =
    [.response ⟨69, some 5, 1, false⟩, .callback ⟨69, some 6, 2, false⟩, .callback ⟨132, none, 3, false⟩,
     .errback .observationCancelled] := by decide
example : (jointRun exCfg 0 exJointStart exJoint).1.st = .ended := by decide
example : (jointRun exCfg 0 exJointStart exJoint).1.ms.outgoing = [] := by decide
/-- the same exchange with a 4.04 that carries an (older) Observe option: the token manager marks
it last, the runner hands it over as the final response, the token is retired and the next
confirmable notification is reset -/
def exJointErr : List JEv :=
  [.net ⟨2, .recv 5 false { mtype := .ack, code := 69, mid := 100, token := [8], obs := some 5, body := 1 }⟩,
   .net ⟨3, .recv 5 false { mtype := .con, code := 69, mid := 900, token := [8], obs := some 6, body := 2 }⟩,
   .net ⟨4, .recv 5 false { mtype := .con, code := 132, mid := 901, token := [8], obs := some 3, body := 3 }⟩,
   .net ⟨5, .recv 5 false { mtype := .con, code := 69, mid := 902, token := [8], obs := some 7, body := 4 }⟩]

example : (jointRun exCfg 0 exJointStart exJointErr).2 =
    [.response ⟨69, some 5, 1, false⟩, .callback ⟨69, some 6, 2, false⟩, .callback ⟨132, some 3, 3, false⟩,
     .errback .observationCancelled] := by decide
example : (jointRun exCfg 0 exJointStart (exJointErr.take 3)).1.ms.outgoing = [] := by decide
example : (jointStep exCfg 0 (jointRun exCfg 0 exJointStart (exJointErr.take 3)).1
    (exJointErr.getD 3 (.app 0 .obsCancel))).2.1 =
    [.send 5 5 { mtype := .rst, code := 0, mid := 902, token := [], obs := none, body := 0 }] := by decide
/-- the late CON notification (mid 902) is answered with a Reset -/
example : (jointStep exCfg 0 (jointRun exCfg 0 exJointStart (exJoint.take 3)).1 (exJoint.getD 3 (.app 0 .obsCancel))).2.1 =
    [.send 5 5 { mtype := .rst, code := 0, mid := 902, token := [], obs := none, body := 0 }] := by decide
example : ∀ e ∈ exJoint, e.isSubmit 0 = false := by decide
example : ∀ o ∈ (MsgLayer.init ⟨1000, 100⟩ 100 7 (fun _ => 2000)).outgoing, o.req ≠ 0 := by
  simp [MsgLayer.init]

end Aiocoap.Observe
