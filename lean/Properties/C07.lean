import Proofs.Observe.Client
/-!
# C07 — observe client: notifications in freshness order, termination signalled once

Model: `AiocoapModel/Observe/Fresh.lean` (`fresher` = `is_recent` of `Request._run`) and
`AiocoapModel/Observe/Client.lean` (`step`/`run` = the runner of `aiocoap.protocol.Request`, one
step per event on the request's `Pipe`; deliveries = response future, observation callbacks,
errbacks, `_stop_interest`).  All theorems quantify over every history of pipe events — any
arrival order, duplication, Observe values (any `Nat`: wrap-around at 2^24, differences around
2^23, oversized values), arrival times, and position of terminating events.
-/
namespace Aiocoap.Observe

/-- consecutive elements are related by `fresher` -/
def ChainFresh (reset : Nat) : List (Nat × Nat) → Prop
  | [] => True
  | [_] => True
  | a :: b :: rest => fresher reset a.1 a.2 b.1 b.2 = true ∧ ChainFresh reset (b :: rest)

theorem chainFresh_cons {reset : Nat} {a : Nat × Nat} {l : List (Nat × Nat)} :
    ChainFresh reset (a :: l) ↔
      (∀ b, l.head? = some b → fresher reset a.1 a.2 b.1 b.2 = true) ∧ ChainFresh reset l := by
  cases l with
  | nil => simp [ChainFresh]
  | cons b rest => simp [ChainFresh]

-- single steps from `observing` ------------------------------------------------------------------

/-- what one notification does while an observation is established -/
theorem step_notification (cfg : Cfg) (v1 t1 t : Nat) (m : Msg) (v2 : Nat) (last : Bool)
    (h : m.obs = some v2) :
    step cfg (.observing v1 t1) ⟨t, .message m last⟩ =
      (if last then .ended else if fresher cfg.reset v1 t1 v2 t then .observing v2 t
        else .observing v1 t1,
       (if fresher cfg.reset v1 t1 v2 t then [.callback m] else []) ++
       (if last then [.errback .observationCancelled] else [])) := by
  simp only [step, stepObserving, h]
  cases last <;> simp

-- C07 clause 1: only notifications fresher than the last one handed over ------------------------

theorem chain_observing (cfg : Cfg) (es : List TEvent) (v1 t1 : Nat) :
    ChainFresh cfg.reset ((v1, t1) :: accepted (trace cfg (.observing v1 t1) es)) := by
  induction es generalizing v1 t1 with
  | nil => simp [trace_nil, ChainFresh]
  | cons e es ih =>
    obtain ⟨t, ev⟩ := e
    rw [trace_cons, accepted_append]
    cases ev with
    | message m last =>
      cases hobs : m.obs with
      | none =>
        have hq : Quiet (step cfg (.observing v1 t1) ⟨t, .message m last⟩).1 := by
          simp [step, stepObserving, hobs, Quiet]
        rw [quiet_accepted hq]
        cases last <;> simp [step, stepObserving, hobs, accepted_cons_callback, ChainFresh]
      | some v2 =>
        rw [step_notification cfg v1 t1 t m v2 last hobs]
        by_cases hf : fresher cfg.reset v1 t1 v2 t = true
        · cases last
          · have := ih v2 t
            simp only [hf, Bool.false_eq_true, ↓reduceIte, List.append_nil, List.map_cons,
              List.map_nil, accepted_cons_callback, hobs, Option.map_some, Option.toList_some,
              accepted_nil, List.cons_append, List.nil_append, ChainFresh]
            exact ⟨trivial, this⟩
          · simp only [hf, ↓reduceIte]
            rw [quiet_accepted (Or.inr (Or.inl rfl))]
            simp [accepted_cons_callback, hobs, ChainFresh, hf]
        · have hf' : fresher cfg.reset v1 t1 v2 t = false := by
            cases h : fresher cfg.reset v1 t1 v2 t
            · rfl
            · exact absurd h hf
          cases last
          · simp only [hf', Bool.false_eq_true, ↓reduceIte, List.append_nil, List.map_nil,
              accepted_nil, List.nil_append]
            exact ih v1 t1
          · simp only [hf', ↓reduceIte, Bool.false_eq_true]
            rw [quiet_accepted (Or.inr (Or.inl rfl))]
            simp [ChainFresh]
    | exception k =>
      have hq : Quiet (step cfg (.observing v1 t1) ⟨t, .exception k⟩).1 := by
        simp [step, stepObserving, Quiet]
      rw [quiet_accepted hq]
      simp [step, stepObserving, ChainFresh]
    | obsCancel =>
      have hq : Quiet (step cfg (.observing v1 t1) ⟨t, .obsCancel⟩).1 := by
        simp [step, stepObserving, Quiet]
      rw [quiet_accepted hq]
      simp [step, stepObserving, ChainFresh]
    | respCancel =>
      simpa [step, stepObserving] using ih v1 t1

/-- a list with at most one element is a chain -/
theorem chainFresh_short (reset : Nat) (l : List (Nat × Nat)) (h : l.length ≤ 1) :
    ChainFresh reset l := by
  match l, h with
  | [], _ => simp [ChainFresh]
  | [_], _ => simp [ChainFresh]

/-- **C07 (only fresher notifications are handed over).** Over every history of events — any
arrival order, duplicates, any Observe values and arrival times, any terminating event anywhere,
application cancellations — the notifications handed to the application (the first response and
every callback that carries an Observe option), each taken with its Observe value and arrival
time, form a chain in which every element is fresher, by the rule as coded (= the RFC 7641 §3.4
rule, `fresher_iff`), than the one handed over before it. -/
theorem C07_only_fresher (cfg : Cfg) (es : List TEvent) :
    ChainFresh cfg.reset (accepted (trace cfg .awaitingFirst es)) := by
  cases es with
  | nil => simp [trace_nil, ChainFresh]
  | cons e es =>
    obtain ⟨t, ev⟩ := e
    rw [trace_cons, accepted_append]
    cases ev with
    | message m last =>
      by_cases hgo : cfg.observe = true ∧ last = false ∧ ∃ v, m.obs = some v
      · obtain ⟨ho, hl, v, hv⟩ := hgo
        have := chain_observing cfg es v t
        simpa [step, stepFirst, ho, hl, hv, accepted_cons_response] using this
      · have hq : Quiet (step cfg .awaitingFirst ⟨t, .message m last⟩).1 := by
          cases ho : cfg.observe
          · simp [step, stepFirst, ho, Quiet]
          · cases hl : last
            · cases hv : m.obs with
              | none => simp [step, stepFirst, ho, hv, Quiet]
              | some v => exact absurd ⟨ho, hl, v, hv⟩ hgo
            · simp [step, stepFirst, ho, Quiet]
        rw [quiet_accepted hq, List.append_nil]
        apply chainFresh_short
        simp only [step, stepFirst]
        split
        · cases last <;> cases m.obs <;> simp [accepted_cons_response]
        · split
          · cases m.obs <;> simp [accepted_cons_response]
          · split <;> simp [accepted_cons_response, *]
    | exception k =>
      have hq : Quiet (step cfg .awaitingFirst ⟨t, .exception k⟩).1 := by
        simp [step, stepFirst, Quiet]
      rw [quiet_accepted hq]
      cases ho : cfg.observe <;> simp [step, stepFirst, ho, ChainFresh]
    | obsCancel =>
      have hq : Quiet (step cfg .awaitingFirst ⟨t, .obsCancel⟩).1 := by
        simp [step, stepFirst, Quiet]
      rw [quiet_accepted hq]
      simp [step, stepFirst, ChainFresh]
    | respCancel =>
      have hq : Quiet (step cfg .awaitingFirst ⟨t, .respCancel⟩).1 := by
        simp [step, stepFirst, Quiet]
      rw [quiet_accepted hq]
      simp [step, stepFirst, ChainFresh]

-- C07 clause 2: a fresher notification is handed over at once ------------------------------------

/-- **C07 (handed over iff fresher, at once).** While an observation is established with `(v1, t1)`
the last notification handed over, a notification `(v2, t)` is passed to the callbacks — in the very
step in which it arrives, nothing is held back for later — if and only if it is fresher; and then
it becomes the reference for what follows. -/
theorem C07_handed_over_iff_fresher (cfg : Cfg) (v1 t1 t : Nat) (m : Msg) (v2 : Nat) (last : Bool)
    (h : m.obs = some v2) :
    (Delivery.callback m ∈ (step cfg (.observing v1 t1) ⟨t, .message m last⟩).2 ↔
      fresher cfg.reset v1 t1 v2 t = true) ∧
    (last = false → (step cfg (.observing v1 t1) ⟨t, .message m last⟩).1 =
      if fresher cfg.reset v1 t1 v2 t then .observing v2 t else .observing v1 t1) := by
  rw [step_notification cfg v1 t1 t m v2 last h]
  constructor
  · cases hf : fresher cfg.reset v1 t1 v2 t <;> cases last <;> simp
  · intro hl; simp [hl]

theorem quiet_not_observing {cfg : Cfg} {s : ObsState} (h : Quiet s) (es : List TEvent) (v t : Nat) :
    finalState cfg s es ≠ .observing v t := by
  intro he
  have := (quiet_run (cfg := cfg) h es).1
  rw [he] at this
  simp [Quiet] at this

theorem last_observing (cfg : Cfg) (es : List TEvent) (v0 t0 v1 t1 : Nat)
    (h : finalState cfg (.observing v0 t0) es = .observing v1 t1) :
    ((v0, t0) :: accepted (trace cfg (.observing v0 t0) es)).getLast? = some (v1, t1) := by
  induction es generalizing v0 t0 with
  | nil =>
    simp only [finalState_nil, ObsState.observing.injEq] at h
    simp [trace_nil, h.1, h.2]
  | cons e es ih =>
    obtain ⟨t, ev⟩ := e
    rw [finalState_cons] at h
    rw [trace_cons, accepted_append]
    cases ev with
    | message m last =>
      cases hobs : m.obs with
      | none =>
        exact absurd h (quiet_not_observing (by simp [step, stepObserving, hobs, Quiet]) es v1 t1)
      | some v2 =>
        rw [step_notification cfg v0 t0 t m v2 last hobs] at h ⊢
        cases last
        · by_cases hf : fresher cfg.reset v0 t0 v2 t = true
          · simp only [hf, Bool.false_eq_true, ↓reduceIte] at h
            have := ih v2 t h
            simpa [hf, accepted_cons_callback, hobs] using this
          · have hf' : fresher cfg.reset v0 t0 v2 t = false := by
              cases h' : fresher cfg.reset v0 t0 v2 t
              · rfl
              · exact absurd h' hf
            simp only [hf', Bool.false_eq_true, ↓reduceIte] at h
            have := ih v0 t0 h
            simpa [hf'] using this
        · exact absurd h (quiet_not_observing (by simp [Quiet]) es v1 t1)
    | exception k =>
      exact absurd h (quiet_not_observing (by simp [step, stepObserving, Quiet]) es v1 t1)
    | obsCancel =>
      exact absurd h (quiet_not_observing (by simp [step, stepObserving, Quiet]) es v1 t1)
    | respCancel =>
      have := ih v0 t0 (by simpa [step, stepObserving] using h)
      simpa [step, stepObserving] using this

/-- **C07 (the runner's reference is the last notification handed over).** Whenever, after any
history, the observation is still established, the `(v1, t1)` the next arrival is compared with
is the Observe value and arrival time of the last notification that was handed to the application
(so `C07_handed_over_iff_fresher` speaks about exactly that one). -/
theorem C07_state_is_last_handed_over (cfg : Cfg) (es : List TEvent) (v1 t1 : Nat)
    (h : finalState cfg .awaitingFirst es = .observing v1 t1) :
    (accepted (trace cfg .awaitingFirst es)).getLast? = some (v1, t1) := by
  cases es with
  | nil => simp [finalState_nil] at h
  | cons e es =>
    obtain ⟨t, ev⟩ := e
    rw [finalState_cons] at h
    rw [trace_cons, accepted_append]
    cases ev with
    | message m last =>
      cases ho : cfg.observe
      · exact absurd h (quiet_not_observing (by simp [step, stepFirst, ho, Quiet]) es v1 t1)
      · cases hl : last
        · cases hv : m.obs with
          | none =>
            exact absurd h (quiet_not_observing (by simp [step, stepFirst, ho, hl, hv, Quiet]) es v1 t1)
          | some v =>
            have h' : finalState cfg (.observing v t) es = .observing v1 t1 := by
              simpa [step, stepFirst, ho, hl, hv] using h
            have := last_observing cfg es v t v1 t1 h'
            simpa [step, stepFirst, ho, hl, hv, accepted_cons_response] using this
        · exact absurd h (quiet_not_observing (by simp [step, stepFirst, ho, hl, Quiet]) es v1 t1)
    | exception k =>
      exact absurd h (quiet_not_observing (by simp [step, stepFirst, Quiet]) es v1 t1)
    | obsCancel =>
      exact absurd h (quiet_not_observing (by simp [step, stepFirst, Quiet]) es v1 t1)
    | respCancel =>
      exact absurd h (quiet_not_observing (by simp [step, stepFirst, Quiet]) es v1 t1)

-- C07 clause 3: what is handed over is a subsequence of what arrived ---------------------------

theorem step_handedOver (cfg : Cfg) (s : ObsState) (e : TEvent) :
    handedOver (step cfg s e).2 = [] ∨
      ∃ m, e.ev.msg? = some m ∧ handedOver (step cfg s e).2 = [m] := by
  obtain ⟨t, ev⟩ := e
  cases s with
  | awaitingFirst =>
    cases ev with
    | message m last =>
      right; refine ⟨m, rfl, ?_⟩
      simp only [step, stepFirst]
      split
      · cases last <;> simp
      · split
        · simp
        · split <;> simp
    | exception k => left; cases ho : cfg.observe <;> simp [step, stepFirst, ho]
    | obsCancel => left; simp [step, stepFirst]
    | respCancel => left; simp [step, stepFirst]
  | observing v1 t1 =>
    cases ev with
    | message m last =>
      cases hobs : m.obs with
      | none => right; exact ⟨m, rfl, by cases last <;> simp [step, stepObserving, hobs]⟩
      | some v2 =>
        rw [step_notification cfg v1 t1 t m v2 last hobs]
        cases hf : fresher cfg.reset v1 t1 v2 t
        · left; cases last <;> simp
        · right; exact ⟨m, rfl, by cases last <;> simp⟩
    | exception k => left; simp [step, stepObserving]
    | obsCancel => left; simp [step, stepObserving]
    | respCancel => left; simp [step, stepObserving]
  | appCancelled => left; cases ev <;> simp [step, stepCancelled]
  | ended => left; simp [step]
  | unmodelled => left; simp [step]

/-- **C07 (subsequence).** For every history, from any state: the messages handed to the
application (response future and callbacks), in the order they are handed over, form a subsequence
of the messages that arrived, in arrival order — nothing is invented, duplicated or reordered. -/
theorem C07_subsequence (cfg : Cfg) (s : ObsState) (es : List TEvent) :
    (handedOver (deliveries cfg s es)).Sublist (arrived es) := by
  induction es generalizing s with
  | nil => simp [deliveries_nil, arrived]
  | cons e es ih =>
    rw [deliveries_cons, handedOver_append]
    have hrest := ih (step cfg s e).1
    have harr : arrived (e :: es) = (e.ev.msg?).toList ++ arrived es := by
      simp only [arrived, List.filterMap_cons]
      cases e.ev.msg? <;> simp
    rw [harr]
    rcases step_handedOver cfg s e with h | ⟨m, hm, h⟩
    · rw [h, List.nil_append]
      exact List.Sublist.trans hrest (List.sublist_append_right _ _)
    · rw [h, hm]
      simpa using hrest

-- C07 clause 4: the freshest notification that arrives ends up delivered -------------------------

theorem freshest_observing (cfg : Cfg) (b T : Nat) (es : List TEvent) (v0 t0 : Nat)
    (hv0 : v0 < 2 ^ 24) (ho0 : soff b v0 < 2 ^ 23) (ht0 : T ≤ t0)
    (hall : ∀ e ∈ es, ∃ m v, e.ev = .message m false ∧ m.obs = some v ∧ v < 2 ^ 24 ∧
      soff b v < 2 ^ 23 ∧ T ≤ e.time ∧ e.time ≤ T + cfg.reset) :
    ∃ v1 t1, finalState cfg (.observing v0 t0) es = .observing v1 t1 ∧
      soff b v0 ≤ soff b v1 ∧
      (v1 = v0 ∨ ∃ m ∈ arrived es, m.obs = some v1) ∧
      ∀ m ∈ arrived es, ∀ v, m.obs = some v → soff b v ≤ soff b v1 := by
  induction es generalizing v0 t0 with
  | nil => exact ⟨v0, t0, rfl, Nat.le_refl _, Or.inl rfl, by simp [arrived]⟩
  | cons e es ih =>
    obtain ⟨m, v, hev, hobs, hv, ho, htT, ht⟩ := hall e List.mem_cons_self
    have hrest : ∀ e' ∈ es, ∃ m v, e'.ev = .message m false ∧ m.obs = some v ∧ v < 2 ^ 24 ∧
        soff b v < 2 ^ 23 ∧ T ≤ e'.time ∧ e'.time ≤ T + cfg.reset :=
      fun e' he' => hall e' (List.mem_cons_of_mem _ he')
    obtain ⟨t, ev⟩ := e
    simp only at hev ht htT
    subst hev
    have harr : arrived (⟨t, .message m false⟩ :: es) = m :: arrived es := by
      simp [arrived, List.filterMap_cons, Event.msg?]
    rw [finalState_cons, step_notification cfg v0 t0 t m v false hobs, harr]
    have htime : decide (t > t0 + cfg.reset) = false := by simp; omega
    have hfr : fresher cfg.reset v0 t0 v t = true ↔ soff b v0 < soff b v := by
      rw [fresher_eq, htime, Bool.or_false]
      exact serialFresher_soff b v0 v hv0 hv ho0 ho
    by_cases hf : fresher cfg.reset v0 t0 v t = true
    · have hlt := hfr.mp hf
      obtain ⟨v1, t1, hfin, hle, hmem, hmax⟩ := ih v t hv ho (by omega) hrest
      refine ⟨v1, t1, by simpa [hf] using hfin, by omega, ?_, ?_⟩
      · right
        rcases hmem with h | ⟨m', hm', h⟩
        · exact ⟨m, List.mem_cons_self, by rw [h]; exact hobs⟩
        · exact ⟨m', List.mem_cons_of_mem _ hm', h⟩
      · intro m' hm' v' hv'
        rcases List.mem_cons.mp hm' with h | h
        · subst h
          rw [hobs] at hv'; cases hv'
          exact hle
        · exact hmax m' h v' hv'
    · have hf' : fresher cfg.reset v0 t0 v t = false := by
        cases h' : fresher cfg.reset v0 t0 v t
        · rfl
        · exact absurd h' hf
      have hnlt : ¬ soff b v0 < soff b v := fun h => hf (hfr.mpr h)
      obtain ⟨v1, t1, hfin, hle, hmem, hmax⟩ := ih v0 t0 hv0 ho0 ht0 hrest
      refine ⟨v1, t1, by simpa [hf'] using hfin, hle, ?_, ?_⟩
      · rcases hmem with h | ⟨m', hm', h⟩
        · exact Or.inl h
        · exact Or.inr ⟨m', List.mem_cons_of_mem _ hm', h⟩
      · intro m' hm' v' hv'
        rcases List.mem_cons.mp hm' with h | h
        · subst h
          rw [hobs] at hv'; cases hv'
          omega
        · exact hmax m' h v' hv'

/-- **C07 (the freshest notification that arrives is delivered).** Take any history of
notifications (first response included) — any order, any duplicates — whose 24-bit Observe values
all lie within one half of the number circle counted from some base `b` (`soff b v < 2^23`; the
circle may wrap at 2^24 anywhere inside that half) and which all arrive within the 128 s window
`[T, T + reset]`.  Then the observation is still established afterwards and the last notification
handed to the application is the one furthest ahead on the circle among all that arrived: the
freshest one was delivered, whatever the arrival order. -/
theorem C07_freshest_delivered (cfg : Cfg) (hobs : cfg.observe = true) (b T : Nat)
    (e0 : TEvent) (es : List TEvent)
    (hall : ∀ e ∈ e0 :: es, ∃ m v, e.ev = .message m false ∧ m.obs = some v ∧ v < 2 ^ 24 ∧
      soff b v < 2 ^ 23 ∧ T ≤ e.time ∧ e.time ≤ T + cfg.reset) :
    ∃ v1 t1, finalState cfg .awaitingFirst (e0 :: es) = .observing v1 t1 ∧
      (accepted (trace cfg .awaitingFirst (e0 :: es))).getLast? = some (v1, t1) ∧
      (∃ m ∈ arrived (e0 :: es), m.obs = some v1) ∧
      ∀ m ∈ arrived (e0 :: es), ∀ v, m.obs = some v → soff b v ≤ soff b v1 := by
  obtain ⟨m0, v0, hev, hobs0, hv0, ho0, hT0, _⟩ := hall e0 List.mem_cons_self
  have hrest : ∀ e ∈ es, ∃ m v, e.ev = .message m false ∧ m.obs = some v ∧ v < 2 ^ 24 ∧
      soff b v < 2 ^ 23 ∧ T ≤ e.time ∧ e.time ≤ T + cfg.reset :=
    fun e he => hall e (List.mem_cons_of_mem _ he)
  obtain ⟨t, ev⟩ := e0
  simp only at hev hT0
  subst hev
  obtain ⟨v1, t1, hfin, hle, hmem, hmax⟩ :=
    freshest_observing cfg b T es v0 t hv0 ho0 hT0 hrest
  have hfin' : finalState cfg .awaitingFirst (⟨t, .message m0 false⟩ :: es) = .observing v1 t1 := by
    rw [finalState_cons]
    simpa [step, stepFirst, hobs, hobs0] using hfin
  have harr : arrived (⟨t, .message m0 false⟩ :: es) = m0 :: arrived es := by
    simp [arrived, List.filterMap_cons, Event.msg?]
  refine ⟨v1, t1, hfin', C07_state_is_last_handed_over cfg _ v1 t1 hfin', ?_, ?_⟩
  · rw [harr]
    rcases hmem with h | ⟨m', hm', h⟩
    · exact ⟨m0, List.mem_cons_self, by rw [h]; exact hobs0⟩
    · exact ⟨m', List.mem_cons_of_mem _ hm', h⟩
  · rw [harr]
    intro m' hm' v' hv'
    rcases List.mem_cons.mp hm' with h | h
    · subst h
      rw [hobs0] at hv'; cases hv'
      exact hle
    · exact hmax m' h v' hv'

/-- the same without wrap-around: if all Observe values are below 2^23 (base `b = 0`), the last
notification handed over carries the numerically largest value that arrived -/
theorem C07_freshest_delivered_plain (cfg : Cfg) (hobs : cfg.observe = true) (T : Nat)
    (e0 : TEvent) (es : List TEvent)
    (hall : ∀ e ∈ e0 :: es, ∃ m v, e.ev = .message m false ∧ m.obs = some v ∧ v < 2 ^ 23 ∧
      T ≤ e.time ∧ e.time ≤ T + cfg.reset) :
    ∃ v1 t1, (accepted (trace cfg .awaitingFirst (e0 :: es))).getLast? = some (v1, t1) ∧
      (∃ m ∈ arrived (e0 :: es), m.obs = some v1) ∧
      ∀ m ∈ arrived (e0 :: es), ∀ v, m.obs = some v → v ≤ v1 := by
  have hall' : ∀ e ∈ e0 :: es, ∃ m v, e.ev = .message m false ∧ m.obs = some v ∧ v < 2 ^ 24 ∧
      soff 0 v < 2 ^ 23 ∧ T ≤ e.time ∧ e.time ≤ T + cfg.reset := by
    intro e he
    obtain ⟨m, v, h1, h2, h3, h4, h5⟩ := hall e he
    exact ⟨m, v, h1, h2, by omega, by rw [soff_zero v (by omega)]; exact h3, h4, h5⟩
  obtain ⟨v1, t1, _, hlast, ⟨m1, hm1, hv1⟩, hmax⟩ := C07_freshest_delivered cfg hobs 0 T e0 es hall'
  refine ⟨v1, t1, hlast, ⟨m1, hm1, hv1⟩, ?_⟩
  intro m hm v hv
  have h1 : v1 < 2 ^ 23 := by
    obtain ⟨e, he, hme⟩ : ∃ e ∈ e0 :: es, e.ev.msg? = some m1 := by
      simp only [arrived, List.mem_filterMap] at hm1; exact hm1
    obtain ⟨m', v', h1, h2, h3, _⟩ := hall e he
    rw [h1] at hme; simp only [Event.msg?, Option.some.injEq] at hme; subst hme
    rw [hv1] at h2; cases h2; exact h3
  have h2 : v < 2 ^ 23 := by
    obtain ⟨e, he, hme⟩ : ∃ e ∈ e0 :: es, e.ev.msg? = some m := by
      simp only [arrived, List.mem_filterMap] at hm; exact hm
    obtain ⟨m', v', h1, h2, h3, _⟩ := hall e he
    rw [h1] at hme; simp only [Event.msg?, Option.some.injEq] at hme; subst hme
    rw [hv] at h2; cases h2; exact h3
  have := hmax m hm v hv
  rwa [soff_zero v (by omega), soff_zero v1 (by omega)] at this

-- C07 clause 5: the observation ends exactly once, and how ---------------------------------------

/-- a pipe event after which no notification can follow: marked last, without Observe option, or
an exception -/
def Event.terminating : Event → Bool
  | .message m last => last || m.obs.isNone
  | .exception _ => true
  | _ => false

/-- how an observation has to end, as the property states it: `NotObservable` when already the
first event is terminating; otherwise, at the first terminating event, the transport's exception
or `ObservationCancelled`; otherwise not at all -/
def expectedEnd : List Event → List ErrKind
  | [] => []
  | e :: rest =>
    if e.terminating then [.notObservable] else
    match rest.find? Event.terminating with
    | none => []
    | some (.exception k) => [.transport k]
    | some _ => [.observationCancelled]

/-- every step gives at most one termination signal, and when it does the runner has returned -/
theorem step_errbacks (cfg : Cfg) (s : ObsState) (e : TEvent) :
    errbacks (step cfg s e).2 = [] ∨
      ∃ k, errbacks (step cfg s e).2 = [k] ∧ (step cfg s e).1 = .ended := by
  obtain ⟨t, ev⟩ := e
  cases s with
  | awaitingFirst =>
    cases ev with
    | message m last =>
      simp only [step, stepFirst]
      split
      · left; cases last <;> simp
      · split
        · right; exact ⟨.notObservable, by simp, rfl⟩
        · split
          · right; exact ⟨.notObservable, by simp, rfl⟩
          · left; simp
    | exception k =>
      cases ho : cfg.observe
      · left; simp [step, stepFirst, ho]
      · right; exact ⟨.notObservable, by simp [step, stepFirst, ho], by simp [step, stepFirst]⟩
    | obsCancel => left; simp [step, stepFirst]
    | respCancel => left; simp [step, stepFirst]
  | observing v1 t1 =>
    cases ev with
    | message m last =>
      cases hobs : m.obs with
      | none =>
        right
        exact ⟨.observationCancelled, by cases last <;> simp [step, stepObserving, hobs],
          by simp [step, stepObserving, hobs]⟩
      | some v2 =>
        rw [step_notification cfg v1 t1 t m v2 last hobs]
        cases last
        · left; cases fresher cfg.reset v1 t1 v2 t <;> simp
        · right
          exact ⟨.observationCancelled, by cases fresher cfg.reset v1 t1 v2 t <;> simp, by simp⟩
    | exception k => right; exact ⟨.transport k, by simp [step, stepObserving], by simp [step, stepObserving]⟩
    | obsCancel => left; simp [step, stepObserving]
    | respCancel => left; simp [step, stepObserving]
  | appCancelled => left; cases ev <;> simp [step, stepCancelled]
  | ended => left; simp [step]
  | unmodelled => left; simp [step]

theorem over_deliveries {cfg : Cfg} {s : ObsState} (h : Over s) (es : List TEvent) :
    deliveries cfg s es = [] := by
  simp [deliveries, (over_run (cfg := cfg) h es).2]

/-- **C07 (at most one termination signal).** For every history whatsoever — pipe events and
application calls, from any state — the errbacks are called at most once. -/
theorem C07_at_most_one_end (cfg : Cfg) (s : ObsState) (es : List TEvent) :
    (errbacks (deliveries cfg s es)).length ≤ 1 := by
  induction es generalizing s with
  | nil => simp [deliveries_nil]
  | cons e es ih =>
    rw [deliveries_cons, errbacks_append]
    rcases step_errbacks cfg s e with h | ⟨k, h, hend⟩
    · rw [h]; simpa using ih _
    · rw [h, over_deliveries (Or.inl hend)]; simp

theorem ends_observing (cfg : Cfg) (es : List TEvent) (v1 t1 : Nat)
    (hp : ∀ e ∈ es, e.ev.isPipe = true) :
    errbacks (deliveries cfg (.observing v1 t1) es) =
      match (es.map (·.ev)).find? Event.terminating with
      | none => []
      | some (.exception k) => [.transport k]
      | some _ => [.observationCancelled] := by
  induction es generalizing v1 t1 with
  | nil => simp [deliveries_nil]
  | cons e es ih =>
    have hrest : ∀ e' ∈ es, e'.ev.isPipe = true := fun e' he' => hp e' (List.mem_cons_of_mem _ he')
    have hpe := hp e List.mem_cons_self
    obtain ⟨t, ev⟩ := e
    rw [deliveries_cons, errbacks_append, List.map_cons, List.find?_cons]
    cases ev with
    | message m last =>
      cases hobs : m.obs with
      | none =>
        have : Event.terminating (.message m last) = true := by simp [Event.terminating, hobs]
        simp only [this]
        rw [over_deliveries (by simp [step, stepObserving, hobs, Over])]
        cases last <;> simp [step, stepObserving, hobs]
      | some v2 =>
        rw [step_notification cfg v1 t1 t m v2 last hobs]
        cases last
        · have : Event.terminating (.message m false) = false := by simp [Event.terminating, hobs]
          simp only [this]
          cases hf : fresher cfg.reset v1 t1 v2 t
          · simpa using ih v1 t1 hrest
          · simpa using ih v2 t hrest
        · have : Event.terminating (.message m true) = true := by simp [Event.terminating]
          simp only [this]
          rw [over_deliveries (by simp [Over])]
          cases fresher cfg.reset v1 t1 v2 t <;> simp
    | exception k =>
      have : Event.terminating (.exception k) = true := rfl
      simp only [this]
      rw [over_deliveries (by simp [step, stepObserving, Over])]
      simp [step, stepObserving]
    | obsCancel => simp [Event.isPipe] at hpe
    | respCancel => simp [Event.isPipe] at hpe

/-- **C07 (the observation ends exactly once, and as the property says).** For an observing
request and every history of pipe events: the sequence of termination signals is exactly
`expectedEnd` — `NotObservable`, once, iff the first event is a response without Observe option
(or marked last, or an exception: then the response future fails as well); otherwise nothing until
the first terminating event, and at that event exactly one signal: the transport's exception, or
`ObservationCancelled` for a response without Observe option (or marked last); none if no
terminating event arrives. -/
theorem C07_ends_exactly_once (cfg : Cfg) (hobs : cfg.observe = true) (es : List TEvent)
    (hp : ∀ e ∈ es, e.ev.isPipe = true) :
    errbacks (deliveries cfg .awaitingFirst es) = expectedEnd (es.map (·.ev)) := by
  cases es with
  | nil => simp [deliveries_nil, expectedEnd]
  | cons e es =>
    have hrest : ∀ e' ∈ es, e'.ev.isPipe = true := fun e' he' => hp e' (List.mem_cons_of_mem _ he')
    have hpe := hp e List.mem_cons_self
    obtain ⟨t, ev⟩ := e
    rw [deliveries_cons, errbacks_append, List.map_cons, expectedEnd]
    cases ev with
    | message m last =>
      cases hl : last
      · cases hv : m.obs with
        | none =>
          have : Event.terminating (.message m false) = true := by simp [Event.terminating, hv]
          simp only [this, ↓reduceIte]
          rw [over_deliveries (by simp [step, stepFirst, hobs, hv, Over])]
          simp [step, stepFirst, hobs, hv]
        | some v =>
          have : Event.terminating (.message m false) = false := by simp [Event.terminating, hv]
          simp only [this, Bool.false_eq_true, ↓reduceIte]
          have := ends_observing cfg es v t hrest
          simpa [step, stepFirst, hobs, hv] using this
      · have : Event.terminating (.message m true) = true := by simp [Event.terminating]
        simp only [this, ↓reduceIte]
        rw [over_deliveries (by simp [step, stepFirst, hobs, Over])]
        simp [step, stepFirst, hobs]
    | exception k =>
      have : Event.terminating (.exception k) = true := rfl
      simp only [this, ↓reduceIte]
      rw [over_deliveries (by simp [step, stepFirst, Over])]
      simp [step, stepFirst, hobs]
    | obsCancel => simp [Event.isPipe] at hpe
    | respCancel => simp [Event.isPipe] at hpe

/-- **C07 (final response, then the cancellation signal).** When, during an established
observation, a response without Observe option arrives (every non-2.xx response is one), exactly
this happens, in this order: the response is passed to the callbacks, then the errbacks get
`ObservationCancelled` (then the runner stops its interest unless the pipe marked the response
last) — and nothing else for the rest of the history. -/
theorem C07_final_response_then_cancellation (cfg : Cfg) (pre post : List TEvent) (v1 t1 t : Nat)
    (m : Msg) (last : Bool)
    (hst : finalState cfg .awaitingFirst pre = .observing v1 t1) (hm : m.obs = none) :
    deliveries cfg .awaitingFirst (pre ++ ⟨t, .message m last⟩ :: post) =
      deliveries cfg .awaitingFirst pre ++
        ([.callback m, .errback .observationCancelled] ++ if last then [] else [.stopInterest]) := by
  have hover : Over (step cfg (.observing v1 t1) ⟨t, .message m last⟩).1 := by
    simp [step, stepObserving, hm, Over]
  rw [deliveries_append, hst, deliveries_cons, over_deliveries hover]
  simp [step, stepObserving, hm]

/-- **C07 (transport failure).** An exception on the pipe during an established observation is
passed to the errbacks — that one signal and nothing else for the rest of the history. -/
theorem C07_network_error (cfg : Cfg) (pre post : List TEvent) (v1 t1 t k : Nat)
    (hst : finalState cfg .awaitingFirst pre = .observing v1 t1) :
    deliveries cfg .awaitingFirst (pre ++ ⟨t, .exception k⟩ :: post) =
      deliveries cfg .awaitingFirst pre ++ [.errback (.transport k)] := by
  have hover : Over (step cfg (.observing v1 t1) ⟨t, .exception k⟩).1 := by
    simp [step, stepObserving, Over]
  rw [deliveries_append, hst, deliveries_cons, over_deliveries hover]
  simp [step, stepObserving]

/-- **C07 (not observable).** The first response of an observing request: it always completes
the response future; the errbacks get `NotObservable` iff it has no Observe option or is marked
last, and then nothing else is ever delivered; otherwise the observation is established with its
Observe value and arrival time. -/
theorem C07_first_response (cfg : Cfg) (hobs : cfg.observe = true) (t : Nat) (m : Msg) (last : Bool)
    (post : List TEvent) :
    (if last = true ∨ m.obs = none then
      deliveries cfg .awaitingFirst (⟨t, .message m last⟩ :: post) =
        [.response m, .errback .notObservable] ++
          (if last then [] else [.stopInterest])
     else
      ∃ v, m.obs = some v ∧ step cfg .awaitingFirst ⟨t, .message m last⟩ =
        (.observing v t, [.response m])) := by
  cases hl : last
  · cases hv : m.obs with
    | none =>
      simp only [Bool.false_eq_true, or_true, ↓reduceIte]
      rw [deliveries_cons, over_deliveries (by simp [step, stepFirst, hobs, hv, Over])]
      simp [step, stepFirst, hobs, hv]
    | some v => simp [step, stepFirst, hobs, hv]
  · simp only [true_or, ↓reduceIte]
    rw [deliveries_cons, over_deliveries (by simp [step, stepFirst, hobs, Over])]
    simp [step, stepFirst, hobs]

-- C07 clause 6: nothing after the end ------------------------------------------------------------

theorem errbacks_over (cfg : Cfg) (s : ObsState) (es : List TEvent)
    (h : errbacks (deliveries cfg s es) ≠ []) : Over (finalState cfg s es) := by
  induction es generalizing s with
  | nil => simp [deliveries_nil] at h
  | cons e es ih =>
    rw [finalState_cons]
    rw [deliveries_cons, errbacks_append] at h
    rcases step_errbacks cfg s e with h1 | ⟨k, _, hend⟩
    · rw [h1, List.nil_append] at h
      exact ih _ h
    · exact (over_run (cfg := cfg) (Or.inl hend) es).1

/-- **C07 (nothing after the end).** Once a termination signal has been given, whatever arrives
later — notifications, responses, exceptions, application calls — causes no delivery at all: the
deliveries of the longer history are those of the shorter one. -/
theorem C07_nothing_after_end (cfg : Cfg) (s : ObsState) (pre post : List TEvent)
    (h : errbacks (deliveries cfg s pre) ≠ []) :
    deliveries cfg s (pre ++ post) = deliveries cfg s pre := by
  rw [deliveries_append, over_deliveries (errbacks_over cfg s pre h), List.append_nil]

/-- … and once the runner has returned (state `ended`: the pipe has no interest left) it stays
returned and silent for every continuation that the application does not derail -/
theorem C07_ended_is_final (cfg : Cfg) (es : List TEvent) :
    trace cfg .ended es = [] ∧ Over (finalState cfg .ended es) :=
  ⟨(over_run (Or.inl rfl) es).2, (over_run (Or.inl rfl) es).1⟩

/-- what follows the termination signal inside a list of deliveries -/
def afterEnd (ds : List Delivery) : List Delivery :=
  (ds.dropWhile (fun d => d.err?.isNone)).drop 1

theorem afterEnd_append_of_none (a b : List Delivery) (h : errbacks a = []) :
    afterEnd (a ++ b) = afterEnd b := by
  induction a with
  | nil => rfl
  | cons d a ih =>
    cases d with
    | errback k => simp at h
    | response m => simpa [afterEnd, List.dropWhile_cons, Delivery.err?] using ih (by simpa using h)
    | responseExc k => simpa [afterEnd, List.dropWhile_cons, Delivery.err?] using ih (by simpa using h)
    | callback m => simpa [afterEnd, List.dropWhile_cons, Delivery.err?] using ih (by simpa using h)
    | stopInterest => simpa [afterEnd, List.dropWhile_cons, Delivery.err?] using ih (by simpa using h)

theorem step_afterEnd (cfg : Cfg) (s : ObsState) (e : TEvent) :
    ∀ d ∈ afterEnd (step cfg s e).2, d = .stopInterest := by
  obtain ⟨t, ev⟩ := e
  cases s with
  | awaitingFirst =>
    cases ev with
    | message m last =>
      simp only [step, stepFirst]
      split
      · cases last <;> simp [afterEnd, List.dropWhile_cons, Delivery.err?]
      · split
        · simp [afterEnd, List.dropWhile_cons, Delivery.err?]
        · split <;> simp [afterEnd, List.dropWhile_cons, Delivery.err?]
    | exception k => cases ho : cfg.observe <;> simp [step, stepFirst, ho, afterEnd, List.dropWhile_cons, Delivery.err?]
    | obsCancel => simp [step, stepFirst, afterEnd]
    | respCancel => simp [step, stepFirst, afterEnd, List.dropWhile_cons, Delivery.err?]
  | observing v1 t1 =>
    cases ev with
    | message m last =>
      cases hobs : m.obs with
      | none => cases last <;> simp [step, stepObserving, hobs, afterEnd, List.dropWhile_cons, Delivery.err?]
      | some v2 =>
        rw [step_notification cfg v1 t1 t m v2 last hobs]
        cases last <;> cases fresher cfg.reset v1 t1 v2 t <;>
          simp [afterEnd, List.dropWhile_cons, Delivery.err?]
    | exception k => simp [step, stepObserving, afterEnd, List.dropWhile_cons, Delivery.err?]
    | obsCancel => simp [step, stepObserving, afterEnd]
    | respCancel => simp [step, stepObserving, afterEnd]
  | appCancelled => cases ev <;> simp [step, stepCancelled, afterEnd, List.dropWhile_cons, Delivery.err?]
  | ended => simp [step, afterEnd]
  | unmodelled => simp [step, afterEnd]

/-- **C07 (nothing but `_stop_interest` after the termination signal).** In the sequence of
deliveries of any history, from any state, everything after the (first) termination signal is the
runner withdrawing from the pipe — no response, no callback, no second signal. -/
theorem C07_only_stop_after_end (cfg : Cfg) (s : ObsState) (es : List TEvent) :
    ∀ d ∈ afterEnd (deliveries cfg s es), d = .stopInterest := by
  induction es generalizing s with
  | nil => simp [deliveries_nil, afterEnd]
  | cons e es ih =>
    rw [deliveries_cons]
    rcases step_errbacks cfg s e with h | ⟨k, _, hend⟩
    · rw [afterEnd_append_of_none _ _ h]
      exact ih _
    · rw [over_deliveries (Or.inl hend), List.append_nil]
      exact step_afterEnd cfg s e

end Aiocoap.Observe
