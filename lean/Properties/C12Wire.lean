import Properties.C12Mixed
import Proofs.Oscore.Wire
/-!
# C12 over arriving messages with an arbitrary OUTER code

`Properties/C12.lean` and `Properties/C12Mixed.lean` quantify over requests and responses, i.e.
they take the classification of an arriving message as given.  The classification is made from
the outer CoAP code, which OSCORE does not authenticate: whoever re-sends a recorded message picks
it.  Here the clauses are proved for `unprotectWire` / `runWire` (the functions the driver runs
for the `U` and `M` lines) — every sequence of messages, each with ANY outer code 0..255 (and
beyond), any partial IV or none, any verdict of the AEAD on either path.

In particular the property's last sentence holds whatever the unauthenticated fields say: while
the window is uninitialised nothing is accepted as a request, and the window stays uninitialised,
until a message arrives that proves freshness (`FreshProof`): an authentic request echoing the
value issued by this process, or an authentic response to a request of this process.
-/
namespace Aiocoap.Oscore

/-- sequence numbers of the messages `unprotect` accepted *as requests* (outer code not of a
response class: replay-checked, handed to the application as a request), in order -/
def wireAccepted (c : Ctx) : List WireMsg → List Nat
  | [] => []
  | m :: ms =>
    let r := unprotectWire c m
    (if r.2 = .plain .accepted ∧ codeIsResponse m.code = false then m.piv.toList else []) ++
      wireAccepted r.1 ms

def finalWire (c : Ctx) (ms : List WireMsg) : Ctx := (runWire c ms).1

theorem finalWire_cons (c : Ctx) (m : WireMsg) (ms : List WireMsg) :
    finalWire c (m :: ms) = finalWire (unprotectWire c m).1 ms := by
  simp [finalWire, runWire]

/-- **C12 (refinement).** A sequence of arriving messages with arbitrary outer codes does to the
context, and accepts as requests, exactly what the sequence of its classified members (`classify`:
outer FETCH/POST with a partial IV → request flow; outer 2.xx-5.xx → response flow) does in the
request/response model; everything else is dropped without effect.  So every theorem of
`Properties/C12.lean` and `Properties/C12Mixed.lean` transfers to the wire level. -/
theorem C12_wire_refines (c : Ctx) (ms : List WireMsg) :
    finalWire c ms = (runMsgs c (ms.filterMap classify)).1 ∧
    wireAccepted c ms = msgsAccepted c (ms.filterMap classify) := by
  induction ms generalizing c with
  | nil => simp [finalWire, runWire, runMsgs, wireAccepted, msgsAccepted]
  | cons m ms ih =>
    rw [finalWire_cons]
    rcases unprotectWire_classify c m with ⟨msg, hcl, hstep⟩ | ⟨hcl, hsame, hna⟩
    · have h1 : (unprotectWire c m).1 = (stepMsg c msg).1 := by rw [hstep]
      have h2 : (unprotectWire c m).2 = .plain (stepMsg c msg).2 := by rw [hstep]
      simp only [List.filterMap_cons, hcl, runMsgs, wireAccepted, msgsAccepted, h1, h2]
      refine ⟨(ih _).1, ?_⟩
      rw [(ih _).2]
      congr 1
      -- the head: same sequence number, same verdict
      unfold classify at hcl
      cases hr : codeIsResponse m.code with
      | true =>
        simp only [hr, ↓reduceIte, Option.some.injEq] at hcl
        subst hcl
        simp
      | false =>
        simp only [hr] at hcl
        cases hp : m.piv with
        | none => simp [hp] at hcl
        | some n =>
          cases hs : codeStyleOk m.code with
          | false => simp [hp, hs] at hcl
          | true =>
            have hk : m.kid = true := by
              cases hk : m.kid with
              | true => rfl
              | false => simp [hp, hs, hk] at hcl
            simp only [hp, hs, hk, Bool.and_self, ↓reduceIte, Option.some.injEq, Bool.false_eq_true] at hcl
            subst hcl
            by_cases hacc :
                (stepMsg c (.req { seq := n, authentic := m.asRequest, echo := m.echo })).2 = .accepted
            · simp [hacc]
            · simp [hacc]
    · simp only [List.filterMap_cons, hcl, wireAccepted, hsame]
      refine ⟨(ih _).1, ?_⟩
      rw [(ih _).2]
      simp [hna]

/-- **C12 (at most once, any outer codes).** For every well-formed start state and every sequence
of arriving messages — each under any outer code, authentic on either path or not — each sender
sequence number is accepted as a request at most once. -/
theorem C12_wire_at_most_once (c : Ctx) (hc : c.wf) (ms : List WireMsg) (n : Nat) :
    (wireAccepted c ms).count n ≤ 1 := by
  rw [(C12_wire_refines c ms).2]
  exact C12_at_most_once_mixed c hc _ n

/-- **C12 (the outer code alone does nothing).** A message whose outer code is neither of a
response class nor FETCH/POST — 0.00, the other request codes, 1.xx, 6.xx, 7.xx — is refused and
leaves the context as it was, whatever else it carries and whatever the AEAD would say. -/
theorem C12_wire_other_code_inert (c : Ctx) (m : WireMsg)
    (hr : codeIsResponse m.code = false) (hs : codeStyleOk m.code = false) :
    (unprotectWire c m).1 = c ∧ (unprotectWire c m).2 ≠ .plain .accepted :=
  unprotectWire_other c m hr (Or.inr (Or.inl hs))

/-- **C12 (forgery inert, any outer code).** A message that fails authentication on both paths
never changes the context and is never accepted, under any outer code. -/
theorem C12_wire_forgery_inert (c : Ctx) (m : WireMsg)
    (h1 : m.asRequest = false) (h2 : m.asResponse = false) :
    (unprotectWire c m).1 = c ∧ (unprotectWire c m).2 ≠ .plain .accepted := by
  rcases unprotectWire_classify c m with ⟨msg, hcl, hstep⟩ | ⟨_, h⟩
  · unfold classify at hcl
    cases hr : codeIsResponse m.code with
    | true =>
      simp only [hr, ↓reduceIte, Option.some.injEq] at hcl
      subst hcl
      rw [hstep]
      simp only [stepMsg]
      rw [C12_forged_response_inert c _ h2]
      simp
    | false =>
      simp only [hr] at hcl
      cases hp : m.piv with
      | none => simp [hp] at hcl
      | some n =>
        cases hs : codeStyleOk m.code with
        | false => simp [hp, hs] at hcl
        | true =>
          have hk : m.kid = true := by
            cases hk : m.kid with
            | true => rfl
            | false => simp [hp, hs, hk] at hcl
          simp only [hp, hs, hk, Bool.and_self, ↓reduceIte, Option.some.injEq, Bool.false_eq_true] at hcl
          subst hcl
          rw [hstep]
          simp only [stepMsg]
          have := C12_forgery_inert c { seq := n, authentic := m.asRequest, echo := m.echo } h1
          exact ⟨this.1, by simpa using this.2⟩
  · exact h

/-- a message that proves freshness to a context whose window is lost: an authentic request (outer
FETCH/POST) that echoes the value issued by this process, or an authentic response (it verified
against a request this process sent) that carries a sequence number of the peer -/
def FreshProof (c : Ctx) (m : WireMsg) : Prop :=
  c.echoRecovery.isSome ∧ m.piv.isSome ∧
  ((codeStyleOk m.code = true ∧ m.asRequest = true ∧ m.echo = c.echoRecovery) ∨
   (codeIsResponse m.code = true ∧ m.asResponse = true))

/-- **C12 (uninitialised window, any outer code).** While the window is uninitialised: a message
is accepted as a request only if it is an authentic request echoing the issued value; and the
window becomes initialised only by a `FreshProof` message.  No condition on the outer code. -/
theorem C12_wire_uninitialised (c : Ctx) (hwin : c.win = none) (m : WireMsg) :
    ((unprotectWire c m).2 = .plain .accepted → codeIsResponse m.code = false → FreshProof c m) ∧
    ((unprotectWire c m).1.win ≠ none → FreshProof c m) := by
  rcases unprotectWire_classify c m with ⟨msg, hcl, hstep⟩ | ⟨_, hsame, hna⟩
  · unfold classify at hcl
    cases hr : codeIsResponse m.code with
    | true =>
      simp only [hr, ↓reduceIte, Option.some.injEq] at hcl
      subst hcl
      refine ⟨fun _ h => (by cases h), ?_⟩
      intro hne
      rw [hstep] at hne
      rcases (C12_uninitialised_mixed c hwin _).2 hne with ⟨a, ha, _⟩ | ⟨r, n, hm, hauth, hseq, hsome⟩
      · cases ha
      · cases hm
        exact ⟨hsome, (by simp at hseq; simp [hseq]), Or.inr ⟨hr, hauth⟩⟩
    | false =>
      simp only [hr] at hcl
      cases hp : m.piv with
      | none => simp [hp] at hcl
      | some n =>
        cases hs : codeStyleOk m.code with
        | false => simp [hp, hs] at hcl
        | true =>
          have hk : m.kid = true := by
            cases hk : m.kid with
            | true => rfl
            | false => simp [hp, hs, hk] at hcl
          simp only [hp, hs, hk, Bool.and_self, ↓reduceIte, Option.some.injEq, Bool.false_eq_true] at hcl
          subst hcl
          constructor
          · intro hacc _
            rw [hstep] at hacc
            simp only [WOut.plain.injEq] at hacc
            have hacc' : (unprotect c { seq := n, authentic := m.asRequest, echo := m.echo }).2
                = .accepted := hacc
            obtain ⟨h1, h2, h3⟩ := C12_uninitialised_needs_echo c hwin _ hacc'
            exact ⟨h2, (by simp [hp]), Or.inl ⟨hs, h1, h3⟩⟩
          · intro hne
            rw [hstep] at hne
            rcases (C12_uninitialised_mixed c hwin _).2 hne with ⟨a, ha, hauth, hecho, hsome⟩ | ⟨r, _, hm, _⟩
            · cases ha
              exact ⟨hsome, (by simp [hp]), Or.inl ⟨hs, hauth, hecho⟩⟩
            · cases hm
  · refine ⟨fun h => absurd h hna, ?_⟩
    intro hne
    rw [hsame] at hne
    exact absurd hwin hne

/-- **C12 (uninitialised window, whole history).** From an uninitialised window, as long as no
`FreshProof` message has arrived, nothing has been accepted as a request and the context is
unchanged — for every sequence of messages under any outer codes. -/
theorem C12_wire_uninitialised_history (c : Ctx) (hwin : c.win = none) (ms : List WireMsg)
    (hno : ∀ m ∈ ms, ¬ FreshProof c m) :
    wireAccepted c ms = [] ∧ finalWire c ms = c := by
  induction ms with
  | nil => simp [wireAccepted, finalWire, runWire]
  | cons m ms ih =>
    obtain ⟨hacc, hinit⟩ := C12_wire_uninitialised c hwin m
    have hnf := hno m List.mem_cons_self
    have hwin' : (unprotectWire c m).1.win = none := by
      cases h : (unprotectWire c m).1.win with
      | none => rfl
      | some w => exact absurd (hinit (by rw [h]; simp)) hnf
    have hsame : (unprotectWire c m).1 = c := by
      rcases unprotectWire_classify c m with ⟨msg, hcl, hstep⟩ | ⟨_, hsame, _⟩
      · rw [hstep] at hwin' ⊢
        cases msg with
        | req a =>
          rcases unprotect_cases c a with h | ⟨w, _, hw, _⟩ | ⟨_, _, _, _, h⟩
          · exact h.1
          · rw [hwin] at hw; cases hw
          · simp only [stepMsg] at hwin'; rw [h] at hwin'; cases hwin'
        | resp r =>
          rcases unprotectResponse_cases c r with h | ⟨_, _, _, _, _, h⟩
          · exact h
          · simp only [stepMsg] at hwin'; rw [h] at hwin'; cases hwin'
      · exact hsame
    have hhead : ¬ ((unprotectWire c m).2 = .plain .accepted ∧ codeIsResponse m.code = false) :=
      fun h => hnf (hacc h.1 h.2)
    obtain ⟨ih1, ih2⟩ := ih (fun x hx => hno x (List.mem_cons_of_mem _ hx))
    rw [finalWire_cons]
    simp only [wireAccepted, hhead, ↓reduceIte, hsame, List.nil_append]
    exact ⟨ih1, ih2⟩

/-- request sequences under the outer codes an OSCORE sender uses are the request model: the
driver's `runWire` on them is `run` of `Properties/C12.lean` -/
theorem C12_wire_requests_are_run (c : Ctx) (as : List (Arrival × Nat))
    (h : ∀ p ∈ as, codeStyleOk p.2 = true) :
    finalWire c (as.map fun p => WireMsg.ofArrival p.1 p.2) = finalCtx c (as.map (·.1)) ∧
    wireAccepted c (as.map fun p => WireMsg.ofArrival p.1 p.2) = runAccepted c (as.map (·.1)) := by
  induction as generalizing c with
  | nil => simp [finalWire, runWire, finalCtx, run, wireAccepted, runAccepted]
  | cons p as ih =>
    obtain ⟨⟨sq, au, ec⟩, code⟩ := p
    have hp : codeStyleOk code = true := h _ List.mem_cons_self
    have hstep := unprotectWire_request c (WireMsg.ofArrival ⟨sq, au, ec⟩ code) sq rfl hp
    have hr := (codeStyleOk_spec hp).2
    simp only [WireMsg.ofArrival] at hstep
    have ih' := ih (unprotect c ⟨sq, au, ec⟩).1 (fun q hq => h q (List.mem_cons_of_mem _ hq))
    simp only [WireMsg.ofArrival] at ih'
    simp only [List.map_cons, finalWire_cons, finalCtx_cons, wireAccepted, runAccepted,
      WireMsg.ofArrival, hstep, hr]
    refine ⟨ih'.1, ?_⟩
    rw [ih'.2]
    by_cases hacc : (unprotect c ⟨sq, au, ec⟩).2 = .accepted
    · simp [hacc]
    · simp [hacc]

-- non-vacuity ----------------------------------------------------------------------------------

/-- the state-loss scenario: recorded requests 2, 3, 4 are re-sent after the window was lost — 2
under the outer codes 0.00, 1.01, 7.01, GET; 3 and 4 unmodified — nothing is accepted and the
window stays uninitialised; then the genuine Echo exchange on request 5; afterwards every
recorded request is refused -/
def exampleLost : Ctx := { size := 32, win := none, echoRecovery := some 7 }
def exampleRecorded : List WireMsg :=
  [⟨0, true, some 2, true, false, none⟩, ⟨33, true, some 2, true, false, none⟩, ⟨225, true, some 2, true, false, none⟩,
   ⟨1, true, some 2, true, false, none⟩, ⟨2, true, some 3, true, false, none⟩, ⟨5, true, some 4, true, false, none⟩]

example : (runWire exampleLost exampleRecorded).2 =
    [.codeRefused, .codeRefused, .codeRefused, .codeRefused, .plain .replayEcho, .plain .replayEcho] := by decide
example : finalWire exampleLost exampleRecorded = exampleLost := by decide
example : ∀ m ∈ exampleRecorded, ¬ FreshProof exampleLost m := by
  intro m hm
  simp only [exampleRecorded, List.mem_cons, List.not_mem_nil, or_false] at hm
  rcases hm with h | h | h | h | h | h <;> subst h <;> simp [FreshProof, exampleLost, codeStyleOk, codeIsResponse, codeFETCH, codePOST]
example : FreshProof exampleLost ⟨2, true, some 5, true, false, some 7⟩ := by
  simp [FreshProof, exampleLost, codeStyleOk, codePOST, codeFETCH]
example : wireAccepted exampleLost
    (exampleRecorded ++ [⟨2, true, some 5, true, false, none⟩, ⟨2, true, some 5, true, false, some 7⟩,
      ⟨2, true, some 3, true, false, none⟩, ⟨0, true, some 6, true, false, none⟩, ⟨2, true, some 6, true, false, none⟩,
      -- a recorded request re-sent as a response, a recorded response re-sent as a request
      ⟨69, true, some 7, true, false, none⟩, ⟨2, false, some 7, false, true, none⟩, ⟨2, true, some 7, true, false, none⟩]) =
    [5, 6, 7] := by decide

end Aiocoap.Oscore
