import Proofs.MsgLayer.Retransmit
/-!
# C03 — confirmable messages: bounded exponential back-off that always terminates

Model: `AiocoapModel/MsgLayer/Model.lean` (`_add_exchange`, `_schedule_retransmit`,
`_retransmit`, `_remove_exchange`).  Times are ticks; the initial time-out `T0` is the value
`random.uniform(ACK_TIMEOUT, ACK_TIMEOUT*ACK_RANDOM_FACTOR)` returned (`drawFn`), its range is
checked on the implementation by the correspondence harness.  Everything is parametric in the
per-message `MAX_RETRANSMIT` (`maxRetr`) and in `T0`.
-/
namespace Aiocoap.MsgLayer

/-- **C03 (schedule invariant).** In every state reachable by a run in which retransmission
timers fire at their deadline (what the event loop does), every exchange in flight has been
transmitted `counter + 1 ≤ MAX_RETRANSMIT + 1` times, its running interval is `2^counter · T0`
and its next timer is due exactly at `t0 + (2^(counter+1) − 1) · T0`: the copies are sent at
`t0, t0 + T0, t0 + 3·T0, t0 + 7·T0, …` — every gap twice the previous one. -/
theorem C03_schedule (cfg : Cfg) (mid token : Nat) (f : Nat → Nat) (es : List TEv)
    (ht : Timely (init cfg mid token f) es) :
    ∀ x ∈ (run (init cfg mid token f) es).1.exchanges,
      x.timeout = 2 ^ x.counter * x.T0 ∧
      x.fireAt = x.t0 + (2 ^ (x.counter + 1) - 1) * x.T0 ∧
      x.counter ≤ x.maxRetr :=
  run_ExInv (fun x hx => by simp [init] at hx) es ht

/-- **C03 (first transmission).** Sending a confirmable message puts it on the wire at once and
opens an exchange with `counter = 0` whose initial time-out is the next `random.uniform` draw. -/
theorem C03_first_transmission (s : State) (remote : Remote) (w : Wire) (mon : Monitor) (k : Nat)
    (hc : w.mtype = .con) :
    let r := sendInitially s remote w mon k
    r.2 = [.send s.now remote w] ∧
    r.1.exchanges = s.exchanges ++ [(⟨remote, w, s.drawFn s.drawIdx, 0, k, s.now + s.drawFn s.drawIdx,
      mon, s.now, s.drawFn s.drawIdx⟩ : Exchange)] := by
  simp [sendInitially, hc, addExchange]

theorem find_dropExchange_none (s : State) (remote : Remote) (mid : Nat) :
    (dropExchange s remote mid).exchanges.find? (fun e => e.remote == remote && e.msg.mid == mid) = none := by
  rw [List.find?_eq_none]
  intro x hx
  have := (List.mem_filter.mp hx).2
  intro hp
  simp [hp] at this

/-- **C03 (retransmission).** When the timer of an exchange with `counter < MAX_RETRANSMIT` fires
(at its deadline), exactly one datagram is sent: the *same* message, at
`t0 + (2^(counter+1) − 1) · T0`; the exchange stays in flight with `counter + 1`, the interval
doubled, and the same message, monitor and limits. -/
theorem C03_retransmit (s : State) (remote : Remote) (mid : Nat) (x : Exchange)
    (hx : findExchange s remote mid = some x) (hinv : ExInv x) (hlt : x.counter < x.maxRetr)
    (hnow : s.now = x.fireAt) :
    (fireRetransmit s remote mid).2 = [.send (x.t0 + (2 ^ (x.counter + 1) - 1) * x.T0) remote x.msg] ∧
    findExchange (fireRetransmit s remote mid).1 remote mid = some (x.next s.now) ∧
    (x.next s.now).msg = x.msg ∧ (x.next s.now).counter = x.counter + 1 ∧
    (x.next s.now).timeout = 2 * x.timeout ∧ ExInv (x.next s.now) := by
  have hkey : (x.remote == remote && x.msg.mid == mid) = true :=
    List.find?_some (p := fun (e : Exchange) => e.remote == remote && e.msg.mid == mid) hx
  have hr : fireRetransmit s remote mid =
      ({ dropExchange s remote mid with
          exchanges := (dropExchange s remote mid).exchanges ++ [x.next s.now] },
       [.send s.now remote x.msg]) := by
    simp [fireRetransmit, hx, hlt]
  simp only [hr]
  refine ⟨by rw [hnow, hinv.2.1], ?_, rfl, rfl, by simp [Exchange.next, Nat.mul_comm], ?_⟩
  · simp only [findExchange, List.find?_append, find_dropExchange_none, Option.none_or]
    have hk' : ((x.next s.now).remote == remote && (x.next s.now).msg.mid == mid) = true := hkey
    simp [List.find?_cons, hk']
  · rw [hnow]; exact ExInv_next hinv hlt

/-- **C03 (gives up).** When the timer fires with `counter = MAX_RETRANSMIT` — i.e. at
`t0 + (2^(MAX_RETRANSMIT+1) − 1) · T0`, one more doubled interval after the last copy — nothing is
sent any more: the exchange is closed and every request outstanding towards that remote fails with
the retransmission time-out error. -/
theorem C03_gives_up (s : State) (remote : Remote) (mid : Nat) (x : Exchange)
    (hx : findExchange s remote mid = some x) (hinv : ExInv x) (hlast : ¬ x.counter < x.maxRetr)
    (hsh : s.shutTok = false) :
    (∀ t rem w, Out.send t rem w ∉ (fireRetransmit s remote mid).2) ∧
    (∀ o ∈ s.outgoing, o.remote = some remote →
      Out.fail o.req .conRetransmitsExceeded ∈ (fireRetransmit s remote mid).2) ∧
    findExchange (fireRetransmit s remote mid).1 remote mid = none ∧
    x.fireAt = x.t0 + (2 ^ (x.maxRetr + 1) - 1) * x.T0 := by
  have hc : x.counter = x.maxRetr := by have := hinv.2.2; omega
  have hr : fireRetransmit s remote mid =
      tokenDispatchError (dropBacklog (dropExchange s remote mid) remote) remote .conRetransmitsExceeded := by
    simp [fireRetransmit, hx, hlast]
  simp only [hr]
  have hsh' : (dropBacklog (dropExchange s remote mid) remote).shutTok = false := hsh
  refine ⟨?_, ?_, ?_, by rw [← hc]; exact hinv.2.1⟩
  · intro t rem w
    simp [tokenDispatchError, hsh']
  · intro o ho hor
    simp only [tokenDispatchError, hsh', Bool.false_eq_true, ↓reduceIte, List.mem_append, List.mem_map,
      List.mem_filter]
    exact Or.inl ⟨o, ⟨ho, by simp [hor]⟩, rfl⟩
  · simp only [findExchange]
    rw [(tokenDispatchError_tables _ remote _).1]
    exact find_dropExchange_none s remote mid

/-- **C03 (bounded by MAX_TRANSMIT_WAIT).** With a draw `T0 ≤ ACK_TIMEOUT · ACK_RANDOM_FACTOR`
(here `hi`), giving up happens no later than `(2^(MAX_RETRANSMIT+1) − 1) · hi =
MAX_TRANSMIT_WAIT` after the first transmission. -/
theorem C03_within_max_transmit_wait (x : Exchange) (hinv : ExInv x) (hi : Nat) (hT : x.T0 ≤ hi)
    (hc : x.counter = x.maxRetr) :
    x.fireAt ≤ x.t0 + (2 ^ (x.maxRetr + 1) - 1) * hi := by
  rw [hinv.2.1, hc]
  exact Nat.add_le_add_left (Nat.mul_le_mul_left _ hT) _

/-- **C03 (no exchange, no copy).** A retransmission timer whose exchange is gone does nothing. -/
theorem C03_no_exchange_no_copy (s : State) (remote : Remote) (mid : Nat)
    (h : findExchange s remote mid = none) : fireRetransmit s remote mid = (s, []) := by
  simp [fireRetransmit, h]

/-- **C03 (ACK or Reset stops it).** An ACK or RST carrying the exchange's message id from the
exchange's remote closes the exchange.  Afterwards every exchange in flight is either an *other*
old exchange or one opened in this very step (`counter = 0`: the next held-back message) — the
acknowledged message's retransmission state is gone, so none of its timers can send again
(`C03_no_exchange_no_copy`). -/
def AckPost (s : State) (remote : Remote) (w : Wire) (y : Exchange) : Prop :=
  (y ∈ s.exchanges ∧ ¬ (y.remote = remote ∧ y.msg.mid = w.mid) ∧ (findExchange s remote w.mid).isSome) ∨
  (y ∈ s.exchanges ∧ findExchange s remote w.mid = none) ∨
  (y.counter = 0 ∧ y.timeout = y.T0 ∧ y.fireAt = y.t0 + y.T0)

theorem C03_ack_stops (s : State) (remote : Remote) (w : Wire) :
    ∀ y ∈ (removeExchange s remote w).1.exchanges, AckPost s remote w y := by
  unfold removeExchange
  split
  · rename_i hnone
    intro y hy; exact Or.inr (Or.inl ⟨hy, hnone⟩)
  · rename_i e he
    simp only
    have hfresh : Fresh (AckPost s remote w) := by
      intro _ _ _ _ _ _; exact Or.inr (Or.inr ⟨rfl, rfl, rfl⟩)
    apply continueBacklog_AllEx hfresh
    have h1 : AllEx (AckPost s remote w) (dropExchange s remote w.mid) := by
      intro y hy
      have := List.mem_filter.mp hy
      refine Or.inl ⟨this.1, ?_, by simp [he]⟩
      have h2 := this.2
      intro ⟨ha, hb⟩
      simp [ha, hb] at h2
    split
    · exact AllEx_of_exchanges h1 (runMonitor_tables _ _).1
    · exact h1

/-- **C03 (ACK or Reset stops it — through `dispatch_message`).** The same for the whole of `recv`:
an ACK or Reset whose code fits its type (empty, or a response piggy-backed on an ACK — RFC 7252
table 1; `fitsReply`) is never taken for a duplicate, closes the exchange with its message ID, and
what the type/code table does with it afterwards (nothing, or handing the piggy-backed response to
the token manager) opens or re-opens no exchange.  An ACK/RST whose code does not fit is ignored
altogether (`C10_misfits_ignored`): it does not stop the retransmission. -/
theorem C03_ack_stops_recv (s : State) (remote : Remote) (mcLocal : Bool) (w : Wire)
    (hfit : fitsReply w = true) :
    ∀ y ∈ (recv s remote mcLocal w).1.exchanges, AckPost s remote w y := by
  have hnd : dedupable w = false := by
    unfold fitsReply at hfit
    unfold dedupable
    cases hm : w.mtype <;> simp [hm] at hfit ⊢
  have hdup : isDup s remote w = false := by simp [isDup, hnd]
  have hnc : (w.mtype == MType.con) = false := by
    unfold fitsReply at hfit
    cases hm : w.mtype <;> simp [hm] at hfit ⊢
  have hnn : (w.mtype == MType.non) = false := by
    unfold fitsReply at hfit
    cases hm : w.mtype <;> simp [hm] at hfit ⊢
  have hex : (recv s remote mcLocal w).1.exchanges = (removeExchange s remote w).1.exchanges := by
    simp only [recv, hdup, Bool.false_eq_true, ↓reduceIte, hnd, hfit]
    unfold recvCode
    simp only [hnc, hnn, Bool.and_false, Bool.false_eq_true, ↓reduceIte, Bool.or_false, Bool.false_or,
      Bool.or_self]
    split
    · rfl
    · split
      · split <;> exact (processResponse_tables _ remote w).1
      · rfl
  intro y hy
  rw [hex] at hy
  exact C03_ack_stops s remote w y hy

/-- **C03 (Reset fails the request).** If the acknowledged exchange was opened by request `r`
(still outstanding), a Reset for it puts the message error on that request's pipe. -/
theorem C03_rst_fails_request (s : State) (remote : Remote) (w : Wire) (x : Exchange) (r : Nat)
    (hx : findExchange s remote w.mid = some x) (hrst : w.mtype = .rst) (hm : x.monitor = .req r)
    (hout : s.outgoing.any (fun o => o.req == r) = true) :
    Out.fail r .messageError ∈ (removeExchange s remote w).2 := by
  have hout' : (dropExchange s remote w.mid).outgoing.any (fun o => o.req == r) = true := hout
  simp only [removeExchange, hx, hrst, beq_self_eq_true, ↓reduceIte, hm, runMonitor, hout']
  simp

/-- **C03 (foreign ACK/RST is inert).** An empty ACK or RST whose (remote, message id) matches no
exchange in flight — another id, or another endpoint — changes nothing at all and produces no
output. -/
theorem C03_foreign_ack_inert (s : State) (remote : Remote) (mcLocal : Bool) (w : Wire)
    (hcode : w.code = 0) (ht : w.mtype = .ack ∨ w.mtype = .rst)
    (hno : findExchange s remote w.mid = none) :
    recv s remote mcLocal w = (s, []) := by
  have h1 : isDup s remote w = false := by simp [isDup, dedupable, isRequest, hcode]
  have h2 : dedupable w = false := by simp [dedupable, isRequest, hcode]
  have h3 : fitsReply w = true := by
    rcases ht with h | h <;> simp [fitsReply, h, hcode]
  have h4 : (w.mtype == MType.con) = false := by
    rcases ht with h | h <;> simp [h]
  have h5 : isRequest 0 = false := by decide
  have h6 : (w.mtype == MType.ack || w.mtype == MType.rst) = true := by
    rcases ht with h | h <;> simp [h]
  have h6' : w.mtype = MType.ack ∨ w.mtype = MType.rst := ht
  simp [recv, h1, h2, h3, removeExchange, hno, recvCode, hcode, h4, h5, h6']

-- non-vacuity ------------------------------------------------------------------------------------

def c03Cfg : Cfg := { exchangeLifetime := 1000, emptyAckDelay := 10 }
def c03Msg : OutMsg :=
  { mtype := none, reliability := some true, code := 1, obs := none, body := 7, noResponse := 0, maxRetr := 4 }
/-- an unanswered confirmable request with T0 = 20 submitted at 5: the timers fire at their
deadlines 25, 65, 145, 305 (copies) and 625 (give-up) -/
def c03Run : List TEv :=
  [⟨5, .submit 0 3 false false c03Msg⟩, ⟨25, .fireRetransmit 3 9⟩, ⟨65, .fireRetransmit 3 9⟩,
   ⟨145, .fireRetransmit 3 9⟩, ⟨305, .fireRetransmit 3 9⟩, ⟨625, .fireRetransmit 3 9⟩]

example : Timely (init c03Cfg 9 0 (fun _ => 20)) c03Run := by decide
example : ((run (init c03Cfg 9 0 (fun _ => 20)) c03Run).2.map fun o =>
    match o with | .send t _ _ => some t | _ => none) =
    [some 5, some 25, some 65, some 145, some 305, none] := by decide
example : (run (init c03Cfg 9 0 (fun _ => 20)) c03Run).2.getLast? = some (.fail 0 .conRetransmitsExceeded) := by
  decide

end Aiocoap.MsgLayer
