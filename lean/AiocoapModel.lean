-- Root of the model library: core Lean only, no Mathlib.
import AiocoapModel.Basic.Bytes
import AiocoapModel.Oscore.ReplayWindow
