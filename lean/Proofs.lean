import Proofs.Oscore.ReplayWindow
