import AiocoapModel.Basic.Bytes
/-!
# The two pipes of one incoming request (aiocoap/pipe.py)

For every request it hands to the application, the server side of aiocoap wires up **two**
`Pipe` objects (aiocoap/pipe.py:13-202):

* the *outer* pipe, created by `TokenManager.process_request` (tokenmanager.py:112-175).  Its
  callbacks are, in registration order,
  `tmSend`    = `process_request.on_event` (interest; sends every message event through
                `token_interface.send_message` with the request's token and remote),
  `tmOnEnd`   = the wrapper `on_interest_end(on_end)` installs (drops the entry of
                `incoming_requests`),
  `e2mRemove` = the wrapper `on_interest_end(remove_interest)` installs in `error_to_message`
                (pipe.py:282-283; forwards the loss of interest to the inner pipe);
* the *inner* pipe `next_pr` of `error_to_message` (pipe.py:234-284), which only ever carries the
  exception `run_driving_pipe` (pipe.py:205-231) catches.  Its callbacks are
  `e2mEvent`   = `error_to_message.on_event` (interest; turns exceptions into messages on the
                 outer pipe),
  `taskCancel` = the wrapper `on_interest_end(task.cancel)` installs.

`_event_callbacks` is a list of `(callback, is_interest)` or `False` once the pipe has ended; here
`Option (List (κ × Bool))` with `none` = `False`.  The functions below are the methods of `Pipe`
(`on_event`, `on_interest_end`, `_unregister_on_event`, `_end`, `_add_event`) specialised to the
closed set of callbacks above, each returning the new state and the observable effects.

The model follows the code after the `fix:` commits of C09: `_add_event` on an ended pipe
logs (it used to raise `TypeError`), `run_driving_pipe` reports a `CancelledError` nobody
asked for as a terminal event (and, since round 4, every other exception outside the `Exception`
hierarchy except KeyboardInterrupt / SystemExit / GeneratorExit), an error rendering without a
response code is a failed rendering, and the token manager's callback refuses a message that is
no response (round 4; see `runDriving` in `Render.lean`).
-/
namespace Aiocoap.Render

abbrev Payload := List Nat

/-- a response message as it is put on a pipe -/
structure Resp where
  code : Nat
  payload : Payload
  noResponse : Option Nat        -- value of the No-Response option carried by the message
deriving DecidableEq, Repr

/-- an exception as `error_to_message.on_event` sees it.  `text` fields are ghost data: whatever
text the exception carries (`str(e)`, `repr` of a wrongly returned value). -/
inductive Exc
  | renderable (code : Nat) (diag : Payload)   -- `RenderableError`; `to_message()` = Message(code, payload=diag)
  | rendererRaises (text : Payload)            -- `RenderableError` whose `to_message()` raises
  | rendererNone                               -- … whose `to_message()` returns `None`
  | other (text : Payload)                     -- any other exception
deriving DecidableEq, Repr

/-- `Pipe.Event(message, exception, is_last)`; `tombstone` is `Event(None, None, True)` -/
inductive Event
  | message (m : Resp) (isLast : Bool)
  | exception (e : Exc)
  | tombstone
deriving DecidableEq, Repr

def Event.isLast : Event → Bool
  | .message _ l => l
  | _ => true

/-- callbacks on the outer pipe -/
inductive PCb | tmSend | tmOnEnd | e2mRemove
deriving DecidableEq, Repr

/-- callbacks on the inner pipe -/
inductive ECb | e2mEvent | taskCancel
deriving DecidableEq, Repr

inductive LogKind
  | unhandled        -- ERROR   "An exception occurred while rendering a resource"        pipe.py:275
  | rendererFailed   -- ERROR   "Rendering the renderable exception failed"               pipe.py:269
  | tmGotError       -- ERROR   "Requests shouldn't receive errors at the level of a TokenManager"  tokenmanager.py:153
  | discarded        -- ERROR   "Discarded exception in … added after … has ended"        pipe.py:173
  | lateResponse     -- WARNING "Response … added after … has already ended"              pipe.py:181
deriving DecidableEq, Repr

def LogKind.isError : LogKind → Bool
  | .lateResponse => false
  | _ => true

inductive Eff
  | send (m : Resp) (isLast : Bool)   -- `token_interface.send_message(m, stop)`, `m.token = request.token`
  | unregister                        -- `del incoming_requests[key]`
  | cancelTask                        -- `task.cancel()` of the rendering task
  | log (k : LogKind)
  | strayTombstone                    -- `error_to_message.on_event` called with the tombstone; the
                                      -- code would answer 5.00 — proved unreachable (`Proofs/Render`)
deriving DecidableEq, Repr

structure ReqState where
  outer : Option (List (PCb × Bool))
  inner : Option (List (ECb × Bool))
  registered : Bool          -- the key is in `incoming_requests`
  cancelRequested : Bool     -- `task.cancel()` has been called (`task.cancelling() > 0`)
deriving DecidableEq, Repr

def anyInterest {κ : Type} (l : List (κ × Bool)) : Bool := l.any (·.2)

/-- `on_event(cb, is_interest)` on a live pipe (pipe.py:119) -/
def onEvent {κ : Type} (p : Option (List (κ × Bool))) (cb : κ) (interest : Bool) :
    Option (List (κ × Bool)) :=
  p.map (· ++ [(cb, interest)])

/-- `on_interest_end(cb)` (pipe.py:137-160): the wrapper is appended while there is interest;
otherwise (no interest, or pipe ended) the callback is to be called right away (`true`). -/
def onInterestEnd {κ : Type} (p : Option (List (κ × Bool))) (cb : κ) :
    Option (List (κ × Bool)) × Bool :=
  match p with
  | none => (none, true)
  | some l => if anyInterest l then (some (l ++ [(cb, false)]), false) else (some l, true)

/-- the wiring of tokenmanager.py:124-175 + protocol.py:581-591 + pipe.py:243,282-283,227-231.
None of the three `on_interest_end` calls fires immediately (`start_eq`). -/
def ReqState.start : ReqState :=
  let outer0 : Option (List (PCb × Bool)) := some []
  let outer1 := onEvent outer0 .tmSend true                 -- stop = pipe.on_event(on_event)
  let outer2 := (onInterestEnd outer1 .tmOnEnd).1           -- pipe.on_interest_end(on_end)
  let inner0 : Option (List (ECb × Bool)) := some []
  let inner1 := onEvent inner0 .e2mEvent true               -- remove_interest = next_pr.on_event(on_event)
  let outer3 := (onInterestEnd outer2 .e2mRemove).1         -- old_pr.on_interest_end(remove_interest)
  let inner2 := (onInterestEnd inner1 .taskCancel).1        -- pipe.on_interest_end(task.cancel)
  { outer := outer3, inner := inner2, registered := true, cancelRequested := false }

/-- both pipes ended, entry gone, task cancellation requested: where every request ends up -/
def ReqState.done : ReqState :=
  { outer := none, inner := none, registered := false, cancelRequested := true }

def cancelTask (st : ReqState) : ReqState × List Eff :=
  ({ st with cancelRequested := true }, [.cancelTask])

-- inner pipe: ending -------------------------------------------------------------------------

/-- the tombstone handed to the callbacks `_end` found (pipe.py:165-166) -/
def innerTomb : List (ECb × Bool) → ReqState → ReqState × List Eff
  | [], st => (st, [])
  | (cb, _) :: rest, st =>
    let r1 : ReqState × List Eff := match cb with
      | .taskCancel => cancelTask st          -- wrapper: `callback()` since the tombstone is last
      | .e2mEvent => (st, [.strayTombstone])
    let r2 := innerTomb rest r1.1
    (r2.1, r1.2 ++ r2.2)

/-- `_end` (pipe.py:162-166); only ever called on a live pipe -/
def innerEnd (st : ReqState) : ReqState × List Eff :=
  match st.inner with
  | none => (st, [])
  | some l => innerTomb l { st with inner := none }

/-- `remove_interest()` = `next_pr._unregister_on_event(on_event)` (pipe.py:122-135) -/
def innerUnregister (st : ReqState) : ReqState × List Eff :=
  match st.inner with
  | none => (st, [])
  | some l =>
    let l' := l.filter (fun c => c.1 != .e2mEvent)
    let st1 := { st with inner := some l' }
    if anyInterest l' then (st1, []) else innerEnd st1

-- outer pipe ---------------------------------------------------------------------------------

/-- one callback of the outer pipe on one event; the `Bool` is its return value (keep calling) -/
def outerCall (cb : PCb) (ev : Event) (st : ReqState) : ReqState × List Eff × Bool :=
  match cb with
  | .tmSend =>
    match ev with
    | .message m last => (st, [.send m last], !last)       -- tokenmanager.py:129-148,157-158
    | _ => (st, [.log .tmGotError], false)                  -- tokenmanager.py:149-156
  | .tmOnEnd =>                                             -- pipe.py:155 around tokenmanager.py:160-164
    if ev.isLast then
      ({ st with registered := false }, if st.registered then [.unregister] else [], false)
    else (st, [], true)
  | .e2mRemove =>                                           -- pipe.py:155 around `remove_interest`
    if ev.isLast then
      let r := innerUnregister st
      (r.1, r.2, false)
    else (st, [], true)

/-- the loop of `_add_event` over the snapshot of the callbacks (pipe.py:186-193); the last
component says that the loop returned early because the pipe ended inside a callback -/
def outerLoop : List (PCb × Bool) → Event → ReqState → ReqState × List Eff × Bool
  | [], _, st => (st, [], false)
  | (cb, i) :: rest, ev, st =>
    let r1 := outerCall cb ev st
    if r1.2.2 then
      let r2 := outerLoop rest ev r1.1
      (r2.1, r1.2.1 ++ r2.2.1, r2.2.2)
    else
      match r1.1.outer with
      | none => (r1.1, r1.2.1, true)
      | some l =>
        let r2 := outerLoop rest ev { r1.1 with outer := some (l.erase (cb, i)) }
        (r2.1, r1.2.1 ++ r2.2.1, r2.2.2)

def outerTomb : List (PCb × Bool) → ReqState → ReqState × List Eff
  | [], st => (st, [])
  | (cb, _) :: rest, st =>
    let r1 := outerCall cb .tombstone st
    let r2 := outerTomb rest r1.1
    (r2.1, r1.2.1 ++ r2.2)

def outerEnd (st : ReqState) : ReqState × List Eff :=
  match st.outer with
  | none => (st, [])
  | some l => outerTomb l { st with outer := none }

/-- `_add_event` on the outer pipe (pipe.py:170-196) -/
def outerAddEvent (ev : Event) (st : ReqState) : ReqState × List Eff :=
  match st.outer with
  | none =>
    (st, [.log (match ev with
                | .exception _ => .discarded
                | _ => .lateResponse)])
  | some l =>
    let r1 := outerLoop l ev st
    if r1.2.2 then (r1.1, r1.2.1) else
    match r1.1.outer with
    | none => (r1.1, r1.2.1)
    | some l1 =>
      if anyInterest l1 then (r1.1, r1.2.1) else
      let r2 := outerEnd r1.1
      (r2.1, r1.2.1 ++ r2.2)

/-- `stop()` = `pipe._unregister_on_event(on_event)` of the token manager: the peer (RST, a new
request on the same token, a transport error, shutdown) has lost interest (pipe.py:122-135) -/
def outerStop (st : ReqState) : ReqState × List Eff :=
  match st.outer with
  | none => (st, [])
  | some l =>
    let l' := l.filter (fun c => c.1 != .tmSend)
    let st1 := { st with outer := some l' }
    if anyInterest l' then (st1, []) else outerEnd st1

-- inner pipe: events -------------------------------------------------------------------------

def bare500 : Resp := { code := 160, payload := [], noResponse := none }

/-- `Code.is_response()` (numbers/codes.py:82-84): classes 2 to 5 -/
def isResponseCode (c : Nat) : Bool := 64 ≤ c && c < 192

/-- the message `error_to_message.on_event` builds for an exception, and what it logs at
WARNING or above (pipe.py:250-278).  A renderable error is only logged at INFO.  A rendering
whose code is no response code is a failed rendering (pipe.py:262-275, since fix 89cd7f9). -/
def excToMessage : Exc → Resp × List Eff
  | .renderable c d =>
    if isResponseCode c then ({ code := c, payload := d, noResponse := none }, [])
    else (bare500, [.log .rendererFailed])
  | .rendererRaises _ => (bare500, [.log .rendererFailed])
  | .rendererNone => (bare500, [.log .rendererFailed])
  | .other _ => (bare500, [.log .unhandled])

def innerCall (cb : ECb) (ev : Event) (st : ReqState) : ReqState × List Eff × Bool :=
  match cb with
  | .e2mEvent =>
    match ev with
    | .message m last =>                                   -- pipe.py:246-248
      let r := outerAddEvent (.message m last) st
      (r.1, r.2, !last)
    | .exception e =>                                      -- pipe.py:250-280
      let ml := excToMessage e
      let r := outerAddEvent (.message ml.1 true) st
      (r.1, ml.2 ++ r.2, false)
    | .tombstone => (st, [.strayTombstone], false)
  | .taskCancel =>
    if ev.isLast then
      let r := cancelTask st
      (r.1, r.2, false)
    else (st, [], true)

def innerLoop : List (ECb × Bool) → Event → ReqState → ReqState × List Eff × Bool
  | [], _, st => (st, [], false)
  | (cb, i) :: rest, ev, st =>
    let r1 := innerCall cb ev st
    if r1.2.2 then
      let r2 := innerLoop rest ev r1.1
      (r2.1, r1.2.1 ++ r2.2.1, r2.2.2)
    else
      match r1.1.inner with
      | none => (r1.1, r1.2.1, true)
      | some l =>
        let r2 := innerLoop rest ev { r1.1 with inner := some (l.erase (cb, i)) }
        (r2.1, r1.2.1 ++ r2.2.1, r2.2.2)

/-- `_add_event` on the inner pipe -/
def innerAddEvent (ev : Event) (st : ReqState) : ReqState × List Eff :=
  match st.inner with
  | none =>
    (st, [.log (match ev with
                | .exception _ => .discarded
                | _ => .lateResponse)])
  | some l =>
    let r1 := innerLoop l ev st
    if r1.2.2 then (r1.1, r1.2.1) else
    match r1.1.inner with
    | none => (r1.1, r1.2.1)
    | some l1 =>
      if anyInterest l1 then (r1.1, r1.2.1) else
      let r2 := innerEnd r1.1
      (r2.1, r1.2.1 ++ r2.2)

end Aiocoap.Render
