import AiocoapModel.Render.Render
import AiocoapModel.Tcp.Conn
/-!
# A final response on its way out over CoAP-over-TCP

`TokenManager.process_request.on_event` (tokenmanager.py:129-160) is transport independent: it
writes the request's token and remote into the response and calls
`token_interface.send_message`.  Behind a TCP (or TLS) server the token interface is
`_TCPPooling.send_message` (transports/tcp.py:287-301, modelled for C15 as `Tcp.poolSend`), which
applies the No-Response rule and hands the message to `TcpConnection._send_message`, i.e.
`transport.write(_serialize(msg))` (`Tcp.sendMessage`, `Tcp.serialize`).

A response of the rendering model carries no options of its own; what it may carry is aiocoap's
internal copy of the request's No-Response value (`Resource.render`, resource.py:146-147), a uint
option (258) in its minimal big-endian encoding.
-/
namespace Aiocoap.Render

/-- the message `on_event` passes to the TCP token interface -/
def toTcpMsg (token : Bytes) (m : Resp) : Tcp.Msg :=
  { code := m.code, token,
    opts := match m.noResponse with
      | some n => [⟨258, natToMinBE n⟩]
      | none => [],
    payload := m.payload }

/-- what `token_interface.send_message(m, stop)` does to the connection's transport -/
def tcpSend (token : Bytes) (m : Resp) : List Tcp.Out := Tcp.poolSend (toTcpMsg token m)

end Aiocoap.Render
