import AiocoapModel.Render.Pipe
/-!
# Rendering one request: `Context.render_to_pipe` down to the handler and back

What the rendering task of a request does, as a function of the server site and of the **handler
outcome, which is an input** of the model:

* `Context.render_to_pipe` / `_render_to_pipe` (protocol.py:581-600): no site → 4.04 "not a server";
* `Site.render_to_pipe` (resource.py:464-487): unknown path → raises `NotFound` (4.04, empty
  diagnostic).  Sub-site routing is C17's subject; here a site is a flat table;
* `interfaces.Resource._render_to_pipe` (interfaces.py:416-444): for a request without Block1/Block2
  options and a response that fits one message (everything else is C06's subject and is
  `out-of-model` in the driver) it puts the result of `render` on the pipe with `is_last=True`;
* `resource.Resource.render` (resource.py:114-144): method dispatch by `render_<method>`; missing
  → `UnallowedMethod` (4.05 "Error: Method not allowed!"); not a request code → `UnsupportedMethod`;
  default response code by method when the handler's message has none; the request's No-Response
  value is copied into a response that has none;
* `run_driving_pipe` (pipe.py:205-242): an exception ends up as a terminal event on the inner
  pipe — `Exception`s, and since round 4 every other `BaseException` but KeyboardInterrupt,
  SystemExit and GeneratorExit (outcome class `raisesOther`); a `CancelledError` does so only if
  nobody cancelled the task;
* `error_to_message` (pipe.py:234-284): see `Pipe.lean`.

A *wrong return type* (`None`, `str`, `int`, …) makes `response.code` (resource.py:126) or
`len(assembled.payload)` (blockwise.py) raise `AttributeError`; the model therefore maps the
outcome class `returnsNonMessage` to `Exc.other`.  The same holds for a resource with a `render`
of its own and `needs_blockwise_assembly` False, where the value reaches `pipe.add_response`
unchecked: `None` is refused there with `TypeError` (pipe.py:198-204, since fix 4aba5c5; before,
it was taken for the tombstone event and the request went unanswered), any other non-message makes
the token manager's `on_event` raise `AttributeError` into the rendering task.  An error renderer
returning a non-message is `rendererFails` (pipe.py:272, since fix 7c9a80f for values other than
`None`).  The correspondence check tests exactly this classification on both paths.
-/
namespace Aiocoap.Render

structure Request where
  code : Nat                    -- 1 GET 2 POST 3 PUT 4 DELETE 5 FETCH 6 PATCH 7 iPATCH, 8…31 unassigned
  path : List String            -- Uri-Path
  token : Bytes
  noResponse : Option Nat       -- value of the No-Response option, if present
deriving DecidableEq, Repr

/-- what the application's `render_<method>` does — an input of the model -/
inductive Outcome
  | returns (code : Option Nat) (payload : Payload) (noResponse : Option Nat)
  | raisesRenderable (code : Nat) (diag : Payload)
  | raisesOther (text : Payload)
  | returnsNonMessage (text : Payload)
  | rendererFails (returnsNone : Bool) (text : Payload)   -- raises a RenderableError whose `to_message` fails
  | raisesCancelled                                       -- raises `asyncio.CancelledError` itself
  | neverReturns
deriving DecidableEq, Repr

/-- the `render_<method>` attributes a resource has, by request code -/
abbrev Resource := List (Nat × Outcome)

structure Site where
  resources : List (List String × Resource)
deriving Repr

/-- how the coroutine handed to `run_driving_pipe` ends -/
inductive Res
  | responds (m : Resp)       -- `pipe.add_response(m, is_last=True)`, then returns
  | raises (e : Exc)
  | raisesCancelled
  | pending                   -- never finishes
deriving DecidableEq, Repr

def isRequestCode (c : Nat) : Bool := 1 ≤ c && c < 32

/-- resource.py:134-141 -/
def defaultCode (reqCode : Nat) : Nat :=
  if reqCode = 1 ∨ reqCode = 5 then 69        -- GET, FETCH → 2.05 Content
  else if reqCode = 4 then 66                 -- DELETE → 2.02 Deleted
  else 68                                     -- anything else → 2.04 Changed

def ascii (s : String) : Payload := s.toList.map Char.toNat

def notAllowedDiag : Payload := ascii "Error: Method not allowed!"          -- error.UnallowedMethod
def notRecognizedDiag : Payload := ascii "Error: Method not recognized!"    -- error.UnsupportedMethod
def notAServerDiag : Payload := ascii "not a server"                        -- protocol.py:596

/-- `resource.Resource.render` wrapped in `interfaces.Resource._render_to_pipe` -/
def resourceRender (req : Request) (r : Resource) : Res :=
  if !isRequestCode req.code then .raises (.renderable 133 notRecognizedDiag) else
  match r.lookup req.code with
  | none => .raises (.renderable 133 notAllowedDiag)
  | some (.returns c p nr) =>
    .responds { code := c.getD (defaultCode req.code), payload := p,
                noResponse := match nr with
                  | some n => some n
                  | none => req.noResponse }
  | some (.raisesRenderable c d) => .raises (.renderable c d)
  | some (.raisesOther t) => .raises (.other t)
  | some (.returnsNonMessage t) => .raises (.other t)     -- AttributeError on `response.code`
  | some (.rendererFails true _) => .raises .rendererNone
  | some (.rendererFails false t) => .raises (.rendererRaises t)
  | some .raisesCancelled => .raisesCancelled
  | some .neverReturns => .pending

/-- `Site.render_to_pipe` -/
def siteRender (s : Site) (req : Request) : Res :=
  match s.resources.lookup req.path with
  | none => .raises (.renderable 132 [])                  -- error.NotFound: message = ""
  | some r => resourceRender req r

/-- `Context._render_to_pipe` -/
def contextRender (site : Option Site) (req : Request) : Res :=
  match site with
  | none => .responds { code := 132, payload := notAServerDiag, noResponse := none }
  | some s => siteRender s req

/-- the end of `run_driving_pipe.wrapped()` for a coroutine ending as `res`.

`responds m`: the coroutine calls `pipe.add_response(m, is_last=True)` on the outer pipe and
returns.  On a live outer pipe the first callback is the token manager's `on_event`
(`ReqState.start`; `C09_two_states`: a live outer pipe is always wired like that), and that
callback refuses a message whose code is no response code by raising `ValueError` before it has
touched anything (tokenmanager.py:131-141, round-4 fix: such a message used to leave as a request
of the server's own, and the client's request stayed unanswered).  The exception leaves
`_add_event` and `add_response`, ends the coroutine and is the coroutine's outcome for
`run_driving_pipe`.  On a pipe that has ended no callback is reached: the message is only logged
(pipe.py:178-183). -/
def runDriving (res : Res) (st : ReqState) : ReqState × List Eff :=
  match res with
  | .responds m =>
    if isResponseCode m.code || st.outer.isNone then outerAddEvent (.message m true) st
    else innerAddEvent (.exception (.other [])) st
  | .raises e => innerAddEvent (.exception e) st
  | .raisesCancelled =>
    if st.cancelRequested then (st, [])                   -- `task.cancelling()`: re-raised
    else innerAddEvent (.exception (.other [])) st
  | .pending => (st, [])

-- all requests of a context ------------------------------------------------------------------

structure Entry where
  req : Request
  res : Res             -- how its rendering coroutine ends, once it does
  st : ReqState
  finished : Bool
deriving DecidableEq, Repr

/-- the requests of one server context, by the number the token manager delivered them under -/
structure Sys where
  site : Option Site
  entries : Nat → Option Entry

inductive In
  | deliver (id : Nat) (req : Request)   -- `TokenManager.process_request` → `Context.render_to_pipe`
  | complete (id : Nat)                  -- the rendering coroutine of `id` runs to its end
  | stop (id : Nat)                      -- the token manager's `stop()` for `id`
deriving DecidableEq, Repr

def In.id : In → Nat
  | .deliver i _ => i
  | .complete i => i
  | .stop i => i

structure Out where
  id : Nat
  token : Bytes
  eff : Eff
deriving DecidableEq, Repr

def Sys.init (site : Option Site) : Sys := { site, entries := fun _ => none }

def Sys.set (s : Sys) (id : Nat) (e : Entry) : Sys :=
  { s with entries := fun j => if j = id then some e else s.entries j }

def tag (id : Nat) (e : Entry) (o : List Eff) : List Out := o.map (Out.mk id e.req.token)

def step (s : Sys) : In → Sys × List Out
  | .deliver id req =>
    match s.entries id with
    | some _ => (s, [])                  -- the token manager numbers requests consecutively
    | none =>
      (s.set id { req, res := contextRender s.site req, st := ReqState.start, finished := false }, [])
  | .complete id =>
    match s.entries id with
    | none => (s, [])
    | some e =>
      if e.finished || e.res == .pending then (s, []) else
      let r := runDriving e.res e.st
      (s.set id { e with st := r.1, finished := true }, tag id e r.2)
  | .stop id =>
    match s.entries id with
    | none => (s, [])
    | some e =>
      let r := outerStop e.st
      (s.set id { e with st := r.1 }, tag id e r.2)

def run (s : Sys) : List In → Sys × List Out
  | [] => (s, [])
  | a :: as =>
    let r1 := step s a
    let r2 := run r1.1 as
    (r2.1, r1.2 ++ r2.2)

/-- the final responses (`is_last = True` sends) among the outputs, for request `id` -/
def finalsOf (id : Nat) (os : List Out) : List (Bytes × Resp) :=
  os.filterMap fun o =>
    match o.eff with
    | .send m true => if o.id = id then some (o.token, m) else none
    | _ => none

end Aiocoap.Render
