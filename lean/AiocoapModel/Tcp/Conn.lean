import AiocoapModel.Tcp.Frame
/-!
# The receiving side of a CoAP-over-TCP connection

Model of `TcpConnection.data_received` (tcp.py:209-265), `_abort_with`/`_send_message`
(tcp.py:148-164), `connection_made`/`connection_lost` as far as they write or report
(tcp.py:168-207), `_TCPPooling._dispatch_incoming`/`_dispatch_error` (tcp.py:305-327) and
`RFC8323Remote._send_initial_csm`/`_process_signaling`/`abort` (rfc8323common.py:122-194), and
`_TCPPooling.send_message` (tcp.py:287-301).

This is the code after the fix "stop processing a TCP connection's data once it is aborted or
released": `_process_signaling` returns right after `self.abort(...)`, a CSM is taken over into
`_remote_settings` only when all its options were accepted, and `data_received` returns when the
transport `is_closing()` after a signalling message — and after the fix "an empty message received
over TCP ahead of the peer's CSM is ignored": the test for code 0.00 sits in `data_received`
ahead of the "No CSM received" gate (tcp.py:256-259) and no longer in `_dispatch_incoming`.

Observable outputs are, in order: messages handed to the token manager, bytes written to the
stream transport, `transport.close()`, and errors handed to the token manager (which fails the
pending requests of that remote with them).
-/
namespace Aiocoap.Tcp

/-- `_remote_settings` once a CSM was received (rfc8323common.py:136-153) -/
structure Settings where
  maxMessageSize : Option Nat := none      -- "max-message-size"
  blockwise : Bool := false                -- "block-wise-transfer"
deriving DecidableEq, Repr

/-- why the pending requests are failed (`_dispatch_error(self, exc)`) -/
inductive FailKind
  | released     -- RemoteServerShutdown("Peer released connection")
  | aborted      -- RemoteServerShutdown("Peer aborted connection")
  | lost         -- `connection_lost(None)` after the transport was closed
deriving DecidableEq, Repr

inductive Out
  | request (m : Msg)        -- `_tokenmanager.process_request(msg)`
  | response (m : Msg)       -- `_tokenmanager.process_response(msg)`
  | write (b : Bytes)        -- `transport.write(b)`
  | close                    -- `transport.close()`
  | failPending (k : FailKind)  -- `_tokenmanager.dispatch_error(exc, connection)`
  | sendError                -- `_serialize` raised inside `_send_message` (shown unreachable)
deriving DecidableEq, Repr

structure Conn where
  maxSize : Nat                    -- `_my_max_message_size` (configuration)
  spool : Bytes := []              -- `_spool`: received but not yet framed
  csm : Option Settings := none    -- `_remote_settings`
  closed : Bool := false           -- `transport.close()` has been called
deriving DecidableEq, Repr

def Out.isClose : Out → Bool
  | .close => true
  | _ => false

def Out.isDispatch : Out → Bool
  | .request _ => true
  | .response _ => true
  | _ => false

/-- the transport is closed once any output so far was a `close` -/
def Conn.note (c : Conn) (outs : List Out) : Conn :=
  { c with closed := c.closed || outs.any Out.isClose }

-- message texts (checked against the code by the correspondence: they are in the Abort frames)
/-- "Overly large message announced" -/
def txtOverlyLarge : Bytes := [79, 118, 101, 114, 108, 121, 32, 108, 97, 114, 103, 101, 32, 109, 101, 115, 115, 97, 103, 101, 32, 97, 110, 110, 111, 117, 110, 99, 101, 100]
/-- "Failed to parse message" -/
def txtFailedParse : Bytes := [70, 97, 105, 108, 101, 100, 32, 116, 111, 32, 112, 97, 114, 115, 101, 32, 109, 101, 115, 115, 97, 103, 101]
/-- "No CSM received" -/
def txtNoCsm : Bytes := [78, 111, 32, 67, 83, 77, 32, 114, 101, 99, 101, 105, 118, 101, 100]
/-- "Option not supported" -/
def txtOptNotSupported : Bytes := [79, 112, 116, 105, 111, 110, 32, 110, 111, 116, 32, 115, 117, 112, 112, 111, 114, 116, 101, 100]
/-- "Unknown critical option" -/
def txtUnknownCritical : Bytes := [85, 110, 107, 110, 111, 119, 110, 32, 99, 114, 105, 116, 105, 99, 97, 108, 32, 111, 112, 116, 105, 111, 110]
/-- "Unknown signalling code" -/
def txtUnknownSignalling : Bytes := [85, 110, 107, 110, 111, 119, 110, 32, 115, 105, 103, 110, 97, 108, 108, 105, 110, 103, 32, 99, 111, 100, 101]

def codeCSM : Nat := 225
def codePing : Nat := 226
def codePong : Nat := 227
def codeRelease : Nat := 228
def codeAbort : Nat := 229

/-- `_send_message(msg)`: `transport.write(_serialize(msg))` -/
def sendMessage (m : Msg) : List Out :=
  match serialize m with
  | some b => [.write b]
  | none => [.sendError]

/-- the Abort message built by `abort(errormessage, bad_csm_option)` (rfc8323common.py:186-194):
payload = the text, and option 2 (Bad-CSM-Option, a UintOption) when given -/
def abortMsg (text : Bytes) (bad : Option Nat) : Msg :=
  { code := codeAbort, token := [],
    opts := match bad with
      | none => []
      | some n => [⟨2, minBE n⟩],
    payload := text }

/-- `abort(...)` → `_abort_with`: send the Abort, close the transport (tcp.py:155-158; the
transport is never `None` after `connection_made`) -/
def abortOuts (text : Bytes) (bad : Option Nat) : List Out :=
  sendMessage (abortMsg text bad) ++ [.close]

/-- the initial CSM (rfc8323common.py:122-131): option 2 = own max message size, option 4 empty -/
def initialCsm (maxSize : Nat) : Msg :=
  { code := codeCSM, token := [], opts := [⟨2, minBE maxSize⟩, ⟨4, []⟩], payload := [] }

/-- `connection_made`: nothing but the initial CSM is observable -/
def connectionMade (maxSize : Nat) : Conn × List Out :=
  ({ maxSize := maxSize }, sendMessage (initialCsm maxSize))

/-- the option loop of a CSM (rfc8323common.py:138-153) over the local copy `remote_settings`:
the settings after the loop, or — `some n` — the number of the first critical option, on which
the code calls `abort(..., bad_csm_option=n)` and returns (the local copy is then dropped) -/
def csmOpts (s : Settings) : List Opt → Settings × Option Nat
  | [] => (s, none)
  | o :: os =>
    if o.num = 2 then csmOpts { s with maxMessageSize := some (beToNat o.val) } os
    else if o.num = 4 then csmOpts { s with blockwise := true } os
    else if o.num % 2 = 1 then (s, some o.num)            -- `opt.number.is_critical()`
    else csmOpts s os

/-- the option loop of Ping/Pong/Release/Abort (rfc8323common.py:156-161): is there a critical
option (the loop aborts and returns at the first one) -/
def hasCritical : List Opt → Bool
  | [] => false
  | o :: os => if o.num % 2 = 1 then true else hasCritical os

/-- `_process_signaling(msg)` including the `except CloseConnection` of `data_received`
(tcp.py:243-248): `_dispatch_error(self, e.args[0])`, `transport.close()` -/
def processSignaling (c : Conn) (m : Msg) : Conn × List Out :=
  if m.code = codeCSM then
    match csmOpts (c.csm.getD {}) m.opts with
    | (s, none) => ({ c with csm := some s }, [])          -- rfc8323common.py:153
    | (_, some n) =>                                       -- abort; return
      let outs := abortOuts txtOptNotSupported (some n)
      (c.note outs, outs)
  else if m.code = codePing ∨ m.code = codePong ∨ m.code = codeRelease ∨ m.code = codeAbort then
    if hasCritical m.opts then                             -- abort; return
      let outs := abortOuts txtUnknownCritical none
      (c.note outs, outs)
    else if m.code = codePing then
      let outs := sendMessage { code := codePong, token := m.token, opts := [], payload := [] }
      (c.note outs, outs)
    else if m.code = codePong then (c, [])
    else if m.code = codeRelease then
      let outs := [.failPending .released, .close]
      (c.note outs, outs)
    else
      let outs := [.failPending .aborted, .close]
      (c.note outs, outs)
  else
    let outs := abortOuts txtUnknownSignalling none
    (c.note outs, outs)

/-- `_dispatch_incoming` (tcp.py:305-311) -/
def dispatchIncoming (m : Msg) : List Out :=
  if 64 ≤ m.code ∧ m.code < 192 then [.response m]        -- `msg.code.is_response()`
  else [.request m]

/-- what the tail of the loop body of `data_received` (tcp.py:256-265) does with a message that is
not a signalling message and that the CSM gate does not stop: an empty message is ignored
(`if msg.code == 0: continue`), every other one goes to `_dispatch_incoming` -/
def deliver (m : Msg) : List Out :=
  if m.code = 0 then [] else dispatchIncoming m

/-- `self._spool = self._spool[msglen:]` -/
def Conn.consume (c : Conn) (n : Nat) : Conn := { c with spool := c.spool.drop n }

/-- one iteration of the `while True` loop of `data_received` -/
inductive Step
  | wait                                   -- `break`: more data needed
  | stop (c : Conn) (outs : List Out)      -- `return`: after `abort(...)`, or the transport is closing
  | next (c : Conn) (outs : List Out)      -- the loop continues
deriving Repr

def step (c : Conn) : Step :=
  match extractSize c.spool with
  | none => .wait                                          -- tcp.py:221
  | some (to, tkl, len) =>
    let msglen := to + tkl + len
    if msglen > c.maxSize then                             -- tcp.py:224
      let o := abortOuts txtOverlyLarge none
      .stop (c.note o) o
    else if msglen > c.spool.length then .wait             -- tcp.py:228
    else
      match decodeMessage (c.spool.take msglen) with
      | none =>                                            -- tcp.py:235
        let o := abortOuts txtFailedParse none
        .stop (c.note o) o
      | some m =>
        let c1 : Conn := c.consume msglen                 -- tcp.py:241
        if m.code ≥ 224 then                               -- `msg.code.is_signalling()`
          let r := processSignaling c1 m
          if r.1.closed then .stop r.1 r.2                 -- tcp.py:249 `is_closing()`: return
          else .next r.1 r.2                               -- tcp.py:254 `continue`
        else if m.code = 0 then .next c1 []                -- tcp.py:256 empty message: `continue`
        else if c1.csm.isNone then                         -- tcp.py:261
          let o := abortOuts txtNoCsm none
          .stop (c1.note o) o
        else .next c1 (dispatchIncoming m)                 -- tcp.py:265

/-- the `while True` loop; the `Bool` tells whether `data_received` left the loop by `return`
(after an abort of its own, or because the transport is closing after a signalling message).  Fuel: every continuing iteration removes a frame (≥ 2 bytes) from the spool, so
`spool.length + 1` always suffices (`Proofs/Tcp/Conn.lean`, `drainF_fuel`). -/
def drainF : Nat → Conn → Conn × List Out × Bool
  | 0, c => (c, [], false)
  | fuel + 1, c =>
    match step c with
    | .wait => (c, [], false)
    | .stop c' o => (c', o, true)
    | .next c' o =>
      let r := drainF fuel c'
      (r.1, o ++ r.2.1, r.2.2)

def drain (c : Conn) : Conn × List Out × Bool := drainF (c.spool.length + 1) c

/-- `data_received(data)` -/
def feed (c : Conn) (data : Bytes) : Conn × List Out :=
  let r := drain { c with spool := c.spool ++ data }
  (r.1, r.2.1)

/-- a stream transport delivers chunk after chunk until `close()` was called on it: asyncio
does not call `data_received` on a closing transport -/
def feedAll (c : Conn) : List Bytes → Conn × List Out
  | [] => (c, [])
  | x :: xs =>
    if c.closed then (c, [])
    else
      let r := feed c x
      let r' := feedAll r.1 xs
      (r'.1, r.2 ++ r'.2)

/-- `connection_lost(None)` → `_dispatch_error(self, None)` (tcp.py:200-207) -/
def connectionLost : List Out := [.failPending .lost]

/-- a whole session as the harness runs it: connect, receive the chunks, and if the transport
was closed, asyncio's `connection_lost(None)` -/
def session (maxSize : Nat) (chunks : List Bytes) : Conn × List Out :=
  let r0 := connectionMade maxSize
  let r := feedAll r0.1 chunks
  (r.1, r0.2 ++ r.2 ++ (if r.1.closed then connectionLost else []))

-- ---------------------------------------------------------------------------------------------
-- the sending side of the token interface

/-- `message.opt.no_response or 0` (options.py:44-62, `_single_value_view`): the value of the
first No-Response option (number 258, a uint), 0 when there is none -/
def noResponseOf : List Opt → Nat
  | [] => 0
  | o :: os => if o.num = 258 then beToNat o.val else noResponseOf os

/-- `_TCPPooling.send_message(message, messageerror_monitor)` (tcp.py:287-301, after the fix
"keep the No-Response option on requests sent over TCP").  On a response the No-Response option
is aiocoap's internal copy of the request's option (interfaces.py, `TokenInterface.send_message`):
the response is dropped when bit `class - 1` of the value is set (`(nr or 0) & (1 << class_ - 1)`),
otherwise it is sent with the option removed (`message.opt.no_response = None` deletes every
option 258).  Anything else — requests — is handed to `_send_message` as it is. -/
def poolSend (m : Msg) : List Out :=
  if 64 ≤ m.code ∧ m.code < 192 then                      -- `message.code.is_response()`
    if (noResponseOf m.opts).testBit (m.code / 32 - 1) then []
    else sendMessage { m with opts := m.opts.filter (fun o => o.num != 258) }
  else sendMessage m

/-- What of the connection state can still have any effect.  While the transport is open that is
everything.  Once `close()` was called, `data_received` is never called again and nothing else
reads `_spool`: the bytes left in it are dead.  (They do depend on the segmentation: the spool
holds what was delivered up to the close, and a closed transport delivers nothing more.) -/
def Conn.live (c : Conn) : Conn := if c.closed then { c with spool := [] } else c

end Aiocoap.Tcp
