import AiocoapModel.Tcp.Frame
/-!
# Declarative reading of the wire format

RFC 8323 §3.2 (Figure 4: `Len | TKL | Extended Length | Code | Token | Options | 0xFF Payload`)
and the option format of RFC 7252 §3.1 it refers to, as inductive relations.  These are the
specification the model functions are proved against; they contain no algorithm.
-/
namespace Aiocoap.Tcp.Rfc8323

/-- RFC 7252 §3.1, option delta / option length: `ExtField v nibble ext` — values up to 12 sit in
the nibble; 13 announces one extension byte holding `v - 13`; 14 announces two bytes in network
byte order holding `v - 269`; 15 is reserved. -/
inductive ExtField : Nat → Nat → Bytes → Prop
  | nibble (v : Nat) : v ≤ 12 → ExtField v v []
  | one (v : Nat) : 13 ≤ v → v ≤ 268 → ExtField v 13 [v - 13]
  | two (v : Nat) : 269 ≤ v → v ≤ 65804 → ExtField v 14 [(v - 269) / 256, (v - 269) % 256]

/-- RFC 7252 §3.1: the options of a message in order of their numbers, each as delta to its
predecessor (`cur`), length, extensions, value. -/
inductive OptList : Nat → List Opt → Bytes → Prop
  | nil (cur : Nat) : OptList cur [] []
  | cons {cur : Nat} {o : Opt} {os : List Opt} {d l : Nat} {ed el rest : Bytes} :
      cur ≤ o.num → ExtField (o.num - cur) d ed → ExtField o.val.length l el →
      OptList o.num os rest →
      OptList cur (o :: os) ([d * 16 + l] ++ ed ++ el ++ o.val ++ rest)

/-- RFC 8323 §3.2: `Frame b code token body` — `Len` is the length of options plus payload
marker plus payload when that is at most 12; 13/14/15 announce an 8/16/32-bit Extended Length
holding the length minus 13/269/65805; `TKL` is the token length (0..8). -/
inductive Frame : Bytes → Nat → Bytes → Bytes → Prop
  | len4 (code : Nat) (token body : Bytes) : token.length ≤ 8 → body.length ≤ 12 →
      Frame ([body.length * 16 + token.length] ++ [code] ++ token ++ body) code token body
  | ext8 (code : Nat) (token body : Bytes) : token.length ≤ 8 →
      13 ≤ body.length → body.length ≤ 268 →
      Frame ([13 * 16 + token.length, body.length - 13] ++ [code] ++ token ++ body)
        code token body
  | ext16 (code : Nat) (token body : Bytes) : token.length ≤ 8 →
      269 ≤ body.length → body.length ≤ 65804 →
      Frame ([14 * 16 + token.length, (body.length - 269) / 256, (body.length - 269) % 256]
        ++ [code] ++ token ++ body) code token body
  | ext32 (code : Nat) (token body : Bytes) : token.length ≤ 8 →
      65805 ≤ body.length → body.length - 65805 < 4294967296 →
      Frame ([15 * 16 + token.length, (body.length - 65805) / 16777216,
          (body.length - 65805) / 65536 % 256, (body.length - 65805) / 256 % 256,
          (body.length - 65805) % 256] ++ [code] ++ token ++ body) code token body

/-- RFC 7252 §3: the payload, if any, is prefixed by the marker 0xFF; a marker followed by a
zero-length payload is not produced -/
def payloadBytes (payload : Bytes) : Bytes :=
  match payload with
  | [] => []
  | p :: ps => 255 :: p :: ps

/-- a whole message on the wire -/
def Message (b : Bytes) (m : Msg) : Prop :=
  ∃ ob, OptList 0 m.opts ob ∧ Frame b m.code m.token (ob ++ payloadBytes m.payload)

end Aiocoap.Tcp.Rfc8323
