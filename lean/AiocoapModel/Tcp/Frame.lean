import AiocoapModel.Basic.Bytes
/-!
# CoAP over TCP framing (RFC 8323 §3.2) as implemented in `aiocoap/transports/tcp.py:19-122`

Model of `_extract_message_size`, `_decode_signalling_options`, `_decode_message`,
`_encode_length`, `_serialize`, together with the part of `aiocoap/options.py`
(`Options.decode`/`Options.encode`, `_read/_write_extended_field_value`) and
`aiocoap/optiontypes.py` (value decoding per option format) they call.  This is an own small
option walker: the C15 model does not depend on the datagram codec of C01.

The code modelled is the one after the fix "options of signalling messages received over TCP
are not read in the formats of request and response options": `_decode_message` walks the
options of a message with a signalling code (7.xx) with `_decode_signalling_options`, which keeps
every value as the opaque bytes it arrived as (RFC 8323 §5.2: the option numbers of signalling
messages are specific to the code), and only those of other messages with `Options.decode`.

Core Lean only.  Recursions that the code does with `while` loops take a fuel argument that is
initialised with the length of the data (every iteration consumes at least one byte).
-/
namespace Aiocoap.Tcp

/-- one option as seen on a `Message`: its number and its *encoded* value
(`option.encode()`), in `Options.option_list()` order -/
structure Opt where
  num : Nat
  val : Bytes
deriving DecidableEq, Repr

/-- what the TCP transport reads out of / puts into a frame: there is no mtype and no mid -/
structure Msg where
  code : Nat
  token : Bytes
  opts : List Opt
  payload : Bytes
deriving DecidableEq, Repr

-- ---------------------------------------------------------------------------------------------
-- `_extract_message_size` (tcp.py:17-47)

/-- `_extract_message_size(data)`: `none` when the length cannot be read yet, otherwise
`(tokenoffset, tkl, length)`; the frame is `tokenoffset + tkl + length` bytes long.
`int.from_bytes(data[1:1+extlen], "big")` is spelled out for extlen 1, 2, 4. -/
def extractSize : Bytes → Option (Nat × Nat × Nat)
  | [] => none                                            -- tcp.py:26
  | b0 :: rest =>
    let length := b0 / 16                                 -- data[0] >> 4
    let tkl := b0 % 16                                    -- data[0] & 0x0F
    if length < 13 then some (2, tkl, length)
    else if length = 13 then                              -- extlen 1, offset 13
      match rest with
      | e0 :: _ => some (3, tkl, e0 + 13)
      | _ => none                                         -- tcp.py:43
    else if length = 14 then                              -- extlen 2, offset 269
      match rest with
      | e0 :: e1 :: _ => some (4, tkl, e0 * 256 + e1 + 269)
      | _ => none
    else                                                  -- extlen 4, offset 65805
      match rest with
      | e0 :: e1 :: e2 :: e3 :: _ =>
        some (6, tkl, ((e0 * 256 + e1) * 256 + e2) * 256 + e3 + 65805)
      | _ => none

/-- `sum(msglen)` (tcp.py:192) -/
def frameSize (data : Bytes) : Option Nat :=
  (extractSize data).map fun (to, tkl, len) => to + tkl + len

-- ---------------------------------------------------------------------------------------------
-- option values (`optiontypes.py`) and the number → format table (`numbers/optionnumbers.py`)

/-- continuation byte 80..BF -/
def isCont (b : Nat) : Bool := 128 ≤ b && b ≤ 191

/-- `bytes.decode("utf-8")` succeeds (CPython's strict decoder = RFC 3629: no overlong forms,
no surrogates, nothing above U+10FFFF) -/
def utf8Valid : Bytes → Bool
  | [] => true
  | b0 :: rest =>
    if b0 < 128 then utf8Valid rest
    else if 194 ≤ b0 ∧ b0 ≤ 223 then
      match rest with
      | b1 :: r => isCont b1 && utf8Valid r
      | _ => false
    else if 224 ≤ b0 ∧ b0 ≤ 239 then
      match rest with
      | b1 :: b2 :: r =>
        (if b0 = 224 then 160 ≤ b1 && b1 ≤ 191
         else if b0 = 237 then 128 ≤ b1 && b1 ≤ 159
         else isCont b1) && isCont b2 && utf8Valid r
      | _ => false
    else if 240 ≤ b0 ∧ b0 ≤ 244 then
      match rest with
      | b1 :: b2 :: b3 :: r =>
        (if b0 = 240 then 144 ≤ b1 && b1 ≤ 191
         else if b0 = 244 then 128 ≤ b1 && b1 ≤ 143
         else isCont b1) && isCont b2 && isCont b3 && utf8Valid r
      | _ => false
    else false

inductive OptKind | str | uint | opaque
deriving DecidableEq, Repr

/-- `OptionNumber(n).format`, grouped by what decode-then-encode does to the value:
StringOption (optionnumbers.py: URI_HOST 3, LOCATION_PATH 8, URI_PATH 11, URI_QUERY 15,
LOCATION_QUERY 20, PROXY_URI 35, PROXY_SCHEME 39); UintOption, ContentFormatOption and
BlockOption all read `int.from_bytes` and write the minimal big-endian form (OBSERVE 6,
URI_PORT 7, CONTENT_FORMAT 12, URI_PATH_ABBREV 13, MAX_AGE 14, HOP_LIMIT 16, ACCEPT 17,
BLOCK2 23, BLOCK1 27, SIZE2 28, SIZE1 60, NO_RESPONSE 258); everything else is OpaqueOption. -/
def optKind (n : Nat) : OptKind :=
  if [3, 8, 11, 15, 20, 35, 39].contains n then .str
  else if [6, 7, 12, 13, 14, 16, 17, 23, 27, 28, 60, 258].contains n then .uint
  else .opaque

/-- `int.from_bytes(raw, "big")` written back on the minimal number of bytes
(`_to_minimum_bytes`, optiontypes.py:11): the same bytes without leading zero bytes -/
def stripZeros : Bytes → Bytes
  | [] => []
  | b :: rest => if b = 0 then stripZeros rest else b :: rest

/-- `_to_minimum_bytes(v)` for a number: big-endian, no leading zero byte, zero is empty.
(Fuel `v` is more than enough: the value shrinks by a factor 256 per byte.) -/
def minBEAux : Nat → Nat → Bytes → Bytes
  | 0, _, acc => acc
  | fuel + 1, v, acc => if v = 0 then acc else minBEAux fuel (v / 256) (v % 256 :: acc)

def minBE (v : Nat) : Bytes := minBEAux v v []

/-- `option_number.create_option(decode=raw)` followed by `option.encode()`: the encoded form of
the option object that ends up on the message; `none` = the value cannot be decoded
(UnicodeDecodeError, reported as UnparsableMessage by `Options.decode`, options.py:183-187). -/
def decodeVal (num : Nat) (raw : Bytes) : Option Bytes :=
  match optKind num with
  | .str => if utf8Valid raw then some raw else none
  | .uint => some (stripZeros raw)
  | .opaque => some raw

/-- the value of one option as it ends up on the message.  `sig = true`: the walker of
signalling messages, `optiontypes.OpaqueOption(number, rawdata[:length])` (tcp.py:73) — the bytes
as they are, whatever the number; `sig = false`: `Options.decode`, the format registered for the
number (`decodeVal`). -/
def decodeValFor (sig : Bool) (num : Nat) (raw : Bytes) : Option Bytes :=
  if sig then some raw else decodeVal num raw

-- ---------------------------------------------------------------------------------------------
-- `Options.decode` (options.py:165-190) and `_decode_signalling_options` (tcp.py:52-75)

/-- `_read_extended_field_value` (options.py:12-26); `none` = UnparsableMessage -/
def readExt (v : Nat) (d : Bytes) : Option (Nat × Bytes) :=
  if v < 13 then some (v, d)
  else if v = 13 then
    match d with
    | b :: r => some (b + 13, r)
    | [] => none
  else if v = 14 then
    match d with
    | b0 :: b1 :: r => some (b0 * 256 + b1 + 269, r)
    | _ => none
  else none

/-- the `while rawdata:` loop of `Options.decode` (`sig = false`) and of
`_decode_signalling_options` (`sig = true`) — the two loops read the same RFC 7252 §3.1 option
format with the same `_read_extended_field_value` and the same checks and differ only in what
they make of the value bytes; `cur` is `option_number` / `number`.  Result: options in
wire order (which is `option_list()` order, numbers never decrease) and the payload.
`none` = UnparsableMessage.  Fuel: one unit per loop iteration, `data.length` always suffices. -/
def decodeOptsF (sig : Bool) : Nat → Nat → Bytes → Option (List Opt × Bytes)
  | _, _, [] => some ([], [])                             -- loop ends, `return b""`
  | 0, _, _ :: _ => none                                  -- (out of fuel: not reached from decodeOpts)
  | fuel + 1, cur, b :: rest =>
    if b = 255 then some ([], rest)                       -- payload marker
    else
      match readExt (b / 16) rest with
      | none => none
      | some (delta, r1) =>
        match readExt (b % 16) r1 with
        | none => none
        | some (len, r2) =>
          if r2.length < len then none                    -- "Option announced but absent"
          else
            match decodeValFor sig (cur + delta) (r2.take len) with
            | none => none
            | some v =>
              match decodeOptsF sig fuel (cur + delta) (r2.drop len) with
              | none => none
              | some (os, pl) => some (⟨cur + delta, v⟩ :: os, pl)

def decodeOpts (sig : Bool) (data : Bytes) : Option (List Opt × Bytes) :=
  decodeOptsF sig data.length 0 data

-- ---------------------------------------------------------------------------------------------
-- `_decode_message` (tcp.py:78-93)

/-- `_decode_message(data)` for a complete frame; `none` = UnparsableMessage.  (The two other
`none` branches — size unreadable, code byte missing — would be a TypeError/IndexError in the
code and are not reachable from `data_received`, which only passes complete frames; see
`Proofs/Tcp/Frame.lean`, `decodeMessage_crash_free`.) -/
def decodeMessage (data : Bytes) : Option Msg :=
  match extractSize data with
  | none => none
  | some (to, tkl, _) =>
    if tkl > 8 then none                                  -- "Overly long token"
    else
      match data[to - 1]? with
      | none => none
      | some code =>
        -- tcp.py:87 `if msg.code.is_signalling()` (code ≥ 7.00): opaque option values
        match decodeOpts (decide (code ≥ 224)) (data.drop (to + tkl)) with
        | none => none
        | some (opts, pl) =>
          some { code := code, token := (data.drop to).take tkl, opts := opts, payload := pl }

-- ---------------------------------------------------------------------------------------------
-- `_encode_length`, `Options.encode`, `_serialize` (tcp.py:65-89, options.py:29-41,188-207)

/-- `_encode_length(length)`: length nibble and extended length bytes.  `none` only for bodies
of 4 GiB and more, where `to_bytes(4, "big")` raises OverflowError. -/
def encodeLength (n : Nat) : Option (Nat × Bytes) :=
  if n < 13 then some (n, [])
  else if n < 269 then some (13, [n - 13])
  else if n < 65805 then some (14, [(n - 269) / 256, (n - 269) % 256])
  else if n - 65805 < 4294967296 then
    let v := n - 65805
    some (15, [v / 16777216, v / 65536 % 256, v / 256 % 256, v % 256])
  else none

/-- `_write_extended_field_value` (options.py:29-41) as it is in the tree: values from 65804 on
raise ValueError (`none`). -/
def writeExt (v : Nat) : Option (Nat × Bytes) :=
  if v < 13 then some (v, [])
  else if v < 269 then some (13, [v - 13])
  else if v < 65804 then some (14, [(v - 269) / 256, (v - 269) % 256])
  else none

/-- `Options.encode` over `option_list()`; `cur` is `current_opt_num`; `none` = ValueError -/
def encodeOpts (cur : Nat) : List Opt → Option Bytes
  | [] => some []
  | o :: os =>
    if o.num < cur then none                              -- negative delta: "Value out of range."
    else
      match writeExt (o.num - cur), writeExt o.val.length, encodeOpts o.num os with
      | some (d, ed), some (l, el), some rest =>
        some ([d * 16 + l] ++ ed ++ el ++ o.val ++ rest)
      | _, _, _ => none

/-- `if msg.payload: data_list += [b"\xff", msg.payload]` -/
def payloadPart (payload : Bytes) : Bytes :=
  if payload.isEmpty then [] else 255 :: payload

/-- the final `b"".join(...)` of `_serialize` given the encoded options-plus-payload `body` -/
def frameBytes (code : Nat) (token : Bytes) (body : Bytes) : Option Bytes :=
  match encodeLength body.length with
  | none => none
  | some (nib, ext) => some ([nib * 16 + token.length] ++ ext ++ [code] ++ token ++ body)

/-- `_serialize(msg)`; `none` = an exception leaves (ValueError for an overlong token or an
unencodable option; OverflowError for ≥ 4 GiB) -/
def serialize (m : Msg) : Option Bytes :=
  match encodeOpts 0 m.opts with
  | none => none
  | some ob =>
    if m.token.length > 8 then none                       -- "Overly long token"
    else frameBytes m.code m.token (ob ++ payloadPart m.payload)

end Aiocoap.Tcp
