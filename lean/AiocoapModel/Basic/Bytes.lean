/-
Bytes are `List Nat` with an explicit well-formedness predicate (every element
< 256).  This keeps all arithmetic in `Nat`, where `omega` works.
-/
namespace Aiocoap

abbrev Bytes := List Nat

/-- every element is a byte -/
def Bytes.wf (b : Bytes) : Prop := ∀ x ∈ b, x < 256

instance (b : Bytes) : Decidable b.wf := by unfold Bytes.wf; exact inferInstance

theorem Bytes.wf_nil : Bytes.wf [] := by intro x h; cases h
theorem Bytes.wf_cons {x : Nat} {b : Bytes} : Bytes.wf (x :: b) ↔ x < 256 ∧ Bytes.wf b := by
  simp [Bytes.wf]
theorem Bytes.wf_append {a b : Bytes} : Bytes.wf (a ++ b) ↔ Bytes.wf a ∧ Bytes.wf b := by
  simp only [Bytes.wf, List.mem_append]
  constructor
  · intro h; exact ⟨fun x hx => h x (Or.inl hx), fun x hx => h x (Or.inr hx)⟩
  · rintro ⟨h1, h2⟩ x (hx | hx); exact h1 x hx; exact h2 x hx
theorem Bytes.wf_take {b : Bytes} (n : Nat) (h : b.wf) : Bytes.wf (b.take n) :=
  fun x hx => h x (List.mem_of_mem_take hx)
theorem Bytes.wf_drop {b : Bytes} (n : Nat) (h : b.wf) : Bytes.wf (b.drop n) :=
  fun x hx => h x (List.mem_of_mem_drop hx)

/-- big-endian value of a byte string (Python: `int.from_bytes(b, "big")`) -/
def beToNat (b : Bytes) : Nat := b.foldl (fun acc x => acc * 256 + x) 0

/-- big-endian encoding on exactly `n` bytes (Python: `v.to_bytes(n, "big")`, value reduced mod 256^n) -/
def natToBE : Nat → Nat → Bytes
  | 0, _ => []
  | n + 1, v => natToBE n (v / 256) ++ [v % 256]

/-- number of bytes needed: Python `(v.bit_length() + 7) // 8` -/
def byteLen (v : Nat) : Nat := if v = 0 then 0 else byteLen (v / 256) + 1
decreasing_by omega

/-- minimal big-endian encoding (zero is the empty string) -/
def natToMinBE (v : Nat) : Bytes := natToBE (byteLen v) v

-- hex / text helpers for the line protocol ---------------------------------

def hexDigit (n : Nat) : Char :=
  if n < 10 then Char.ofNat (48 + n) else Char.ofNat (87 + n)

def bytesToHex (b : Bytes) : String :=
  if b.isEmpty then "-" else
  String.ofList (b.flatMap fun x => [hexDigit (x / 16 % 16), hexDigit (x % 16)])

def hexVal (c : Char) : Option Nat :=
  let n := c.toNat
  if 48 ≤ n ∧ n ≤ 57 then some (n - 48)
  else if 97 ≤ n ∧ n ≤ 102 then some (n - 87)
  else if 65 ≤ n ∧ n ≤ 70 then some (n - 55)
  else none

def hexCharsToBytes : List Char → Option Bytes
  | [] => some []
  | [_] => none
  | a :: b :: rest => do
    let x ← hexVal a
    let y ← hexVal b
    let r ← hexCharsToBytes rest
    pure ((x * 16 + y) :: r)

/-- "-" is the empty byte string -/
def hexToBytes (s : String) : Option Bytes :=
  if s = "-" then some [] else hexCharsToBytes s.toList

def words (s : String) : List String :=
  (s.splitOn " ").filter (· ≠ "")

end Aiocoap
