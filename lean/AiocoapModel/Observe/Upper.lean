import AiocoapModel.Observe.Client
/-!
# Block-wise notifications: the loop of `BlockwiseRequest._run_observation`

With the default API (`Context.request()`, `handle_blockwise=True`) the application's
`request.observation` is fed by `BlockwiseRequest._run_observation`
(`aiocoap/protocol.py:1128-1170`, after the `fix:` commit "a block-wise notification whose body
cannot be fetched no longer ends the observation"):

    async for block1_notification in lower_observation:
        try:
            full_notification = await cls._complete_by_requesting_block2(...)
        except (error.NetworkError, error.LibraryShutdown):
            raise
        except error.Error as e:
            log.warning(...); continue
        weak_observation().callback(full_notification)
    weak_observation().error(error.ObservationCancelled())
    except asyncio.CancelledError: return
    except Exception as e: weak_observation().error(e)

The lower observation is that of the plain `Request` underneath (`Observe/Client.lean`), iterated
through its `_Iterator` (`Observe/Iterator.lean`).  One `LowerEv` = one thing the `async for` gets:
an item together with what became of fetching the rest of its body, or the end of the lower
iteration.  `Out` = what the application's observation is told.  The task is cancelled when the
application cancels its observation (`obs.on_cancel(subtask.cancel)`, `protocol.py:1123`): from
inside a callback (`cancels`) that is state `cancelled`, in which the loop does nothing more.

Round 4.  The loop runs in a task of its own that `BlockwiseRequest._run` creates once the response
is complete (`protocol.py:1101-1138`):

    obs = weak_observation()
    if obs is None: lower_observation.cancel(); return
    subtask = asyncio.create_task(cls._run_observation(...))
    obs.on_cancel(subtask.cancel)          # called at once when obs is cancelled already
    try: await subtask
    finally:
        if not lower_observation.cancelled: lower_observation.cancel()

`Start` says how `_run` finds the application's observation at that point.  A task cancelled before
it took its first step executes none of its code (asyncio; exercised by the level (d)
correspondence, not proved): that is `cancelledEarly` — the application called
`request.observation.cancel()` before the first response, while the body of the first response was
fetched, or right after `await request.response` returned (the waiter of the response future runs
before the new task) — and the loop then starts in state `cancelled`.  `LowerEv.cancel` is the same
call while the loop waits for the next item.  `lowerGivenUp` says whether
`lower_observation.cancel()` has been reached — by the `finally` of `_run_observation`
(`protocol.py:1165-1170`) when the task ran, by the `finally` around `await subtask` (the `fix:`
commit "an observation cancelled before its block-wise runner starts gives up its token") when it
did not, by the `obs is None` branch —: from then on the lower runner is in `appCancelled` /
`ended` (`Observe/Client.lean`), withdraws from the pipe at its next event and the token manager
forgets the token (`C07_nothing_after_app_cancel`, `C07_joint_end_retires_token`).

Not modelled: the fetch itself (`_complete_by_requesting_block2`: C05), exceptions of a fetch that
are no `error.Error` (they end the observation like a network error: `except Exception`), garbage
collection of the application's observation (cancels the task).
-/
namespace Aiocoap.Observe.Upper

/-- what became of `_complete_by_requesting_block2` for one item of the lower iteration -/
inductive Fetch
  | ok                  -- nothing to fetch, or all blocks assembled: the completed message is handed over
  | failed              -- an `error.Error` that is no network error: `ResourceChanged` (the ETag changed),
                        -- `UnexpectedBlock2`, `NotImplemented` … — this one notification is discarded
  | network (k : Nat)   -- `NetworkError` / `LibraryShutdown` from a block request: re-raised
deriving DecidableEq, Repr

inductive LowerEv (α : Type)
  | item (m : α) (f : Fetch) (cancels : Bool)   -- `cancels`: the application's callback cancels the
                                                -- observation when handed this (completed) message
  | stop                                        -- `StopAsyncIteration`: the lower observation ended with
                                                -- `NotObservable` / `ObservationCancelled`
  | raise (k : Nat)                             -- the lower iteration raises (transport failure, shutdown)
  | cancel                                      -- the application calls `observation.cancel()` while the loop
                                                -- waits for the next item: `subtask.cancel()`
deriving DecidableEq, Repr

inductive Out (α : Type)
  | callback (m : α)
  | errback (e : ErrKind)
deriving DecidableEq, Repr

inductive St
  | running
  | ended        -- `error()` was called on the application's observation; the task has returned
  | cancelled    -- the application cancelled its observation; the task was cancelled
deriving DecidableEq, Repr

/-- one turn of the loop (`protocol.py:1135-1165`) -/
def step {α : Type} : St → LowerEv α → St × List (Out α)
  | .running, .item m .ok c => (if c then .cancelled else .running, [.callback m])
  | .running, .item _ .failed _ => (.running, [])
  | .running, .item _ (.network k) _ => (.ended, [.errback (.transport k)])
  | .running, .stop => (.ended, [.errback .observationCancelled])
  | .running, .raise k => (.ended, [.errback (.transport k)])
  | .running, .cancel => (.cancelled, [])
  | s, _ => (s, [])

def run {α : Type} (s : St) : List (LowerEv α) → St × List (Out α)
  | [] => (s, [])
  | e :: es =>
    let a := step s e
    let b := run a.1 es
    (b.1, a.2 ++ b.2)

def outs {α : Type} (es : List (LowerEv α)) : List (Out α) := (run .running es).2

/-- how `_run` finds the application's observation when it hands over to the loop -/
inductive Start
  | alive             -- registered and not cancelled: the loop's task runs
  | cancelledEarly    -- cancelled by the application before the task took its first step
  | collected         -- the application dropped the request: `weak_observation()` is `None`
deriving DecidableEq, Repr

/-- the state the loop is in when its events begin -/
def start : Start → St
  | .alive => .running
  | .cancelledEarly => .cancelled
  | .collected => .cancelled

/-- has `lower_observation.cancel()` been reached (see the module text) -/
def lowerGivenUp : St → Bool
  | .running => false
  | .ended => true
  | .cancelled => true

def runFrom {α : Type} (b : Start) (es : List (LowerEv α)) : St × List (Out α) := run (start b) es

end Aiocoap.Observe.Upper
