import AiocoapModel.Observe.Client
/-!
# Block-wise notifications: the loop of `BlockwiseRequest._run_observation`

With the default API (`Context.request()`, `handle_blockwise=True`) the application's
`request.observation` is fed by `BlockwiseRequest._run_observation`
(`aiocoap/protocol.py:1128-1170`, after the `fix:` commit "a block-wise notification whose body
cannot be fetched no longer ends the observation"):

    async for block1_notification in lower_observation:
        try:
            full_notification = await cls._complete_by_requesting_block2(...)
        except (error.NetworkError, error.LibraryShutdown):
            raise
        except error.Error as e:
            log.warning(...); continue
        weak_observation().callback(full_notification)
    weak_observation().error(error.ObservationCancelled())
    except asyncio.CancelledError: return
    except Exception as e: weak_observation().error(e)

The lower observation is that of the plain `Request` underneath (`Observe/Client.lean`), iterated
through its `_Iterator` (`Observe/Iterator.lean`).  One `LowerEv` = one thing the `async for` gets:
an item together with what became of fetching the rest of its body, or the end of the lower
iteration.  `Out` = what the application's observation is told.  The task is cancelled when the
application cancels its observation (`obs.on_cancel(subtask.cancel)`, `protocol.py:1123`): from
inside a callback (`cancels`) that is state `cancelled`, in which the loop does nothing more.

Not modelled: the fetch itself (`_complete_by_requesting_block2`: C05), exceptions of a fetch that
are no `error.Error` (they end the observation like a network error: `except Exception`), garbage
collection of the application's observation (cancels the task).
-/
namespace Aiocoap.Observe.Upper

/-- what became of `_complete_by_requesting_block2` for one item of the lower iteration -/
inductive Fetch
  | ok                  -- nothing to fetch, or all blocks assembled: the completed message is handed over
  | failed              -- an `error.Error` that is no network error: `ResourceChanged` (the ETag changed),
                        -- `UnexpectedBlock2`, `NotImplemented` … — this one notification is discarded
  | network (k : Nat)   -- `NetworkError` / `LibraryShutdown` from a block request: re-raised
deriving DecidableEq, Repr

inductive LowerEv (α : Type)
  | item (m : α) (f : Fetch) (cancels : Bool)   -- `cancels`: the application's callback cancels the
                                                -- observation when handed this (completed) message
  | stop                                        -- `StopAsyncIteration`: the lower observation ended with
                                                -- `NotObservable` / `ObservationCancelled`
  | raise (k : Nat)                             -- the lower iteration raises (transport failure, shutdown)
deriving DecidableEq, Repr

inductive Out (α : Type)
  | callback (m : α)
  | errback (e : ErrKind)
deriving DecidableEq, Repr

inductive St
  | running
  | ended        -- `error()` was called on the application's observation; the task has returned
  | cancelled    -- the application cancelled its observation; the task was cancelled
deriving DecidableEq, Repr

/-- one turn of the loop (`protocol.py:1135-1165`) -/
def step {α : Type} : St → LowerEv α → St × List (Out α)
  | .running, .item m .ok c => (if c then .cancelled else .running, [.callback m])
  | .running, .item _ .failed _ => (.running, [])
  | .running, .item _ (.network k) _ => (.ended, [.errback (.transport k)])
  | .running, .stop => (.ended, [.errback .observationCancelled])
  | .running, .raise k => (.ended, [.errback (.transport k)])
  | s, _ => (s, [])

def run {α : Type} (s : St) : List (LowerEv α) → St × List (Out α)
  | [] => (s, [])
  | e :: es =>
    let a := step s e
    let b := run a.1 es
    (b.1, a.2 ++ b.2)

def outs {α : Type} (es : List (LowerEv α)) : List (Out α) := (run .running es).2

end Aiocoap.Observe.Upper
