import AiocoapModel.Observe.Fresh
/-!
# The client side of an observation: the runner of `aiocoap.protocol.Request`

Model of `Request.__init__` / `_response_cancellation_handler` / `_is_notification` / `_run`
(`aiocoap/protocol.py:651-848`, after the `fix:` commits for C07 — a first response that lacks
the Observe option but is not marked last signals `NotObservable` like one that is marked
last; only a *successful* response with Observe option is a notification (`_is_notification`,
`protocol.py:703-708`), every other response is the final one; the `error()` calls of the loop
are guarded by `observation.cancelled` (the application may cancel from inside its callback);
cancelling the response future before the first event ends the observation with
`ObservationCancelled`) together with the parts of `ClientObservation`
(`protocol.py:1256-1455`) it drives: `callback`, `error` (which cancels) and `cancel`.

The runner is a generator that is resumed once per event put on the request's `Pipe`
(`Pipe.add_response(message, is_last)`, `Pipe.add_exception(exc)` — an exception is always last,
`pipe.py:191-195`).  One `step` = one resumption; what it does to the outside world is a list of
`Delivery`s in program order:

* `response m` / `responseExc k` — `self.response.set_result(m)` / `.set_exception(exc)`
  (`protocol.py:729/731`);
* `callback m` — `self.observation.callback(m)`: every registered callback (and the async
  iterator's `push`) gets `m` (`protocol.py:830`, `1406`);
* `errback k` — `self.observation.error(exc)`: every registered errback gets the exception, the
  observation is cancelled (`protocol.py:695/759/761/766/794/836/841`, `1414`);
* `stopInterest` — `self._stop_interest()`, the requester withdraws from the pipe, which makes
  the token manager forget the token (`tokenmanager.py:261`).

When the runner returns, its `process` callback is dropped from the pipe, the pipe ends
(`pipe.py:186-189`) and discards every later event (`pipe.py:166-180`): state `ended`.

A third thing the application can do is part of a message: `Msg.cancels` says that the
application calls `request.observation.cancel()` from inside the callback that hands it this very
message (`ClientObservation.callback` runs the application's code synchronously, in the middle of
the runner's turn: `protocol.py:830`).

Two things the application can do are events as well: `obsCancel` = `request.observation.cancel()`
(the runner notices at its next resumption: `self.observation.cancelled` is tested in the loop and —
since commit 5a6f232 — on the first-event paths as well, so an observation
cancelled before the first response is never told anything while the response future completes as
usual) and `respCancel` = `request.response.cancel()` (`protocol.py:681-698`).  `obsCancel` on an
observation that is cancelled already — by the application, or because it has ended: `error()`
cancels — does nothing (`ClientObservation.cancel`, `protocol.py:1428-1449`, since the `fix:`
commit "cancelling an observation that is already cancelled does nothing"; that also covers an
errback that cancels the observation it is being told the end of: no separate event, the
deliveries are the same).  `obsCancel` on a request without Observe option
(`request.observation` is `None`) is not modelled: state `unmodelled` (the driver answers
`out-of-model`).

The lossy `_Iterator` behind `async for` and the replay done by `__aiter__` are modelled in
`Observe/Iterator.lean`.  Not modelled (runtime): the asyncio future behind `response`,
`register_callback` / `register_errback` called late by the application itself (deprecated
interface), logging.
-/
namespace Aiocoap.Observe

/-- a response as far as the runner and the application's view of it matter: the runner reads
the Observe option and whether the code is a successful one; `body` identifies the message;
`cancels`: the application's callback, when handed this message, calls
`request.observation.cancel()` (an attribute of the application's reaction to the message, fixed
by the harness per arrival) -/
structure Msg where
  code : Nat
  obs : Option Nat
  body : Nat
  cancels : Bool := false
deriving DecidableEq, Repr

/-- `Code.is_successful` (`numbers/codes.py:89-91`): class 2.xx -/
def successful (code : Nat) : Bool := decide (64 ≤ code) && decide (code < 96)

/-- `Request._is_notification` (`protocol.py:703-708`): the Observe value of a response that is a
notification — a successful response carrying the option — `none` for every other response -/
def Msg.notif (m : Msg) : Option Nat := if successful m.code then m.obs else none

/-- what the errbacks receive -/
inductive ErrKind
  | notObservable            -- `error.NotObservable()`
  | observationCancelled     -- `error.ObservationCancelled()`
  | transport (k : Nat)      -- the exception the pipe delivered, `k` identifies it
deriving DecidableEq, Repr

inductive Delivery
  | response (m : Msg)
  | responseExc (k : Nat)
  | callback (m : Msg)
  | errback (k : ErrKind)
  | stopInterest
deriving DecidableEq, Repr

inductive Event
  | message (m : Msg) (isLast : Bool)   -- `Pipe.add_response(m, is_last)`
  | exception (k : Nat)                 -- `Pipe.add_exception(exc)` (always last)
  | obsCancel                           -- application: `request.observation.cancel()`
  | respCancel                          -- application: `request.response.cancel()`
deriving DecidableEq, Repr

/-- an event with the reading of `time.time()` at the moment it is processed -/
structure TEvent where
  time : Nat
  ev : Event
deriving DecidableEq, Repr

inductive ObsState
  | awaitingFirst               -- suspended at `first_event = yield None`
  | cancelledFirst              -- the same, after `observation.cancel()` by the application
  | observing (v1 t1 : Nat)     -- suspended at `next_event = yield True`
  | appCancelled                -- the same, after `observation.cancel()` by the application
  | ended                       -- the runner has returned; the pipe has ended
  | unmodelled
deriving DecidableEq, Repr

structure Cfg where
  reset : Nat        -- OBSERVATION_RESET_TIME in ticks
  observe : Bool     -- `pipe.request.opt.observe == 0`, i.e. `self.observation is not None`
deriving DecidableEq, Repr

def Event.isPipe : Event → Bool
  | .message _ _ => true
  | .exception _ => true
  | _ => false

/-- `protocol.py:719-777`; `respCancel`: `_response_cancellation_handler`, `protocol.py:681-698` -/
def stepFirst (cfg : Cfg) (t : Nat) : Event → ObsState × List Delivery
  | .message m last =>
    if !cfg.observe then
      (.ended, .response m :: (if last then [] else [.stopInterest]))
    else if last then
      (.ended, [.response m, .errback .notObservable])
    else match m.notif with
      | none => (.ended, [.response m, .errback .notObservable, .stopInterest])
      | some v => (.observing v t, [.response m])
  | .exception k =>
    -- `protocol.py:750-762` (second `fix:` commit for C07): the observation is told the
    -- transport's exception, not `NotObservable`
    (.ended, .responseExc k :: (if cfg.observe then [.errback (.transport k)] else []))
  | .obsCancel => if cfg.observe then (.cancelledFirst, []) else (.unmodelled, [])
  | .respCancel =>
    -- the runner is dropped, the interest withdrawn, and a not yet cancelled observation is told
    -- that nothing will come (`protocol.py:686-695`)
    (.ended, .stopInterest :: (if cfg.observe then [.errback .observationCancelled] else []))

/-- the first event when the application has cancelled the observation before
(`protocol.py:719-773`, the `self.observation.cancelled` tests of commit 5a6f232): the
response future completes as usual, the observation is told nothing; a first notification still
starts the loop, whose first resumption withdraws from the pipe (`stepCancelled`) -/
def stepCancelledFirst : Event → ObsState × List Delivery
  | .message m last =>
    if last then (.ended, [.response m])
    else match m.notif with
      | none => (.ended, [.response m, .stopInterest])
      | some _ => (.appCancelled, [.response m])
  | .exception k => (.ended, [.responseExc k])
  | .obsCancel => (.cancelledFirst, [])        -- cancelled already: `cancel()` does nothing
  | .respCancel => (.ended, [.stopInterest])

/-- one turn of the `while True` loop, `protocol.py:779-848`.  `gone`: the application cancelled
the observation from inside the callback (`m.cancels`, and there was a callback) — the
`observation.cancelled` guards of `protocol.py:832-841` then skip `error()`, and a loop that goes
on finds the observation cancelled at its next resumption (`protocol.py:788-791`). -/
def stepObserving (cfg : Cfg) (v1 t1 t : Nat) : Event → ObsState × List Delivery
  | .message m last =>
    match m.notif with
    | some v2 =>
      let recent := fresher cfg.reset v1 t1 v2 t
      let ds : List Delivery := if recent then [.callback m] else []
      let gone := recent && m.cancels
      if last then (.ended, ds ++ (if gone then [] else [.errback .observationCancelled]))
      else (if gone then .appCancelled else if recent then .observing v2 t else .observing v1 t1, ds)
    | none =>
      -- "the terminal message is always the last": handed over without a freshness test
      (.ended, .callback m :: (if m.cancels then [] else [.errback .observationCancelled]) ++
                 (if last then [] else [.stopInterest]))
  | .exception k => (.ended, [.errback (.transport k)])
  | .obsCancel => (.appCancelled, [])
  | .respCancel => (.observing v1 t1, [])      -- the future is done: `cancel()` does nothing

/-- `protocol.py:788-791`: the observation was cancelled by the application -/
def stepCancelled : Event → ObsState × List Delivery
  | .message _ _ => (.ended, [.stopInterest])
  | .exception _ => (.ended, [.stopInterest])
  | .obsCancel => (.appCancelled, [])          -- cancelled already: `cancel()` does nothing
  | .respCancel => (.appCancelled, [])

def step (cfg : Cfg) (s : ObsState) (e : TEvent) : ObsState × List Delivery :=
  match s with
  | .awaitingFirst => stepFirst cfg e.time e.ev
  | .cancelledFirst => stepCancelledFirst e.ev
  | .observing v1 t1 => stepObserving cfg v1 t1 e.time e.ev
  | .appCancelled => stepCancelled e.ev
  | .ended =>
    -- the pipe discards the event (`pipe.py:166-180`); `response.cancel()` finds nothing to do;
    -- `observation.cancel()`: the observation of a runner that has returned is cancelled (by
    -- `error()` or by the application), so it does nothing; without Observe option there is no
    -- observation to call it on: not modelled
    (if e.ev = .obsCancel && !cfg.observe then .unmodelled else .ended, [])
  | .unmodelled => (.unmodelled, [])

/-- a whole history; every delivery is tagged with the time of the event that caused it -/
def run (cfg : Cfg) (s : ObsState) : List TEvent → ObsState × List (Nat × Delivery)
  | [] => (s, [])
  | e :: es =>
    let r := step cfg s e
    let r' := run cfg r.1 es
    (r'.1, r.2.map (fun d => (e.time, d)) ++ r'.2)

def finalState (cfg : Cfg) (s : ObsState) (es : List TEvent) : ObsState := (run cfg s es).1
def trace (cfg : Cfg) (s : ObsState) (es : List TEvent) : List (Nat × Delivery) := (run cfg s es).2
def deliveries (cfg : Cfg) (s : ObsState) (es : List TEvent) : List Delivery :=
  (trace cfg s es).map (·.2)

end Aiocoap.Observe
