import AiocoapModel.MsgLayer.Model
/-!
# Observe, server side: the render tasks of an observable resource on top of the message layer

Model of

* `aiocoap/interfaces.py` `ObservableResource._render_to_pipe` (the notification loop and its
  `finally` → cancellation callback; after the `fix:` commits for C08 — a response handed to
  several observations is copied per registration, the callback is only called for an
  accepted observation, and a response is the observation's last only if no newer trigger is
  pending when it is ready) and `Resource._render_to_pipe` (a plain request on the same resource);
* `aiocoap/protocol.py` `ServerObservation` (`accept`, `deregister`, the lossy latest-value
  `trigger` future);
* `aiocoap/resource.py` `ObservableResource` (`_observations`, `add_observation`, the `_cancel`
  closure, `update_observation_count`, `updated_state`);
* `aiocoap/pipe.py` `run_driving_pipe` (loss of interest in the pipe cancels the render task;
  an exception ends the pipe with an error response through `error_to_message`);

composed with the message-layer model `Aiocoap.MsgLayer` (`tokenmanager.py`, `messagemanager.py`):
a response put on the pipe is `MsgLayer.respond`; `Out.stop srv` of the message layer (RST on a
CON notification, a new request on the same token, retransmissions exhausted, transport error,
shutdown) is `Task.cancel()` of the render task of pipe `srv`; `Out.deliver` creates a render task.

**Granularity.**  A render task is a coroutine; between two `await`s that really suspend it runs
atomically.  One `Ev.step` is exactly that: the task runs from where it was suspended to its next
suspension (or its end).  The suspension points are: task creation (not started yet), the
`await self.render(...)` of the first response and of a notification (only if the resource's
render suspends: `Plan.susp`), and `await servobs._trigger` (only if the future is not done).
`runnable` says that a wake-up of the task is in the loop's ready queue; `cancelReq` that
`Task.cancel()` has been called, so the next step throws `CancelledError` into the coroutine
(`finally` runs; a task that has not started never runs at all).  These task semantics of asyncio
are assumed, not verified.

The resource under observation is a version counter: `value` is bumped by every state change;
a render samples it when it starts; the payload (`body`) of a notification is that sample, so
"rendered at or after the last change" is `body ≥ version of the last change`.
-/
namespace Aiocoap.Observe.Server

open Aiocoap.MsgLayer (Remote Token Wire OutMsg MType)

/-- where the coroutine of a render task is suspended -/
inductive Phase
  | fresh        -- task created, coroutine not entered yet
  | firstRender  -- `first_response = await self.render(pipe.request)`   (interfaces.py:511)
  | waitTrig     -- `await servobs._trigger`                             (interfaces.py:533)
  | loopRender   -- `response = await self.render(pipe.request)`         (interfaces.py:542)
  | plainRender  -- `Resource._render_to_pipe`: `await self.render(req)` (interfaces.py:416-444)
  | done
deriving DecidableEq, Repr

/-- what a render produced or an explicit trigger carries.  `exc`: the render raised; `code` is
then the code `error_to_message` answers with -/
structure Resp where
  code : Nat
  body : Nat
  exc : Bool
deriving DecidableEq, Repr

/-- how the resource's `render` behaves when it is called in this step -/
inductive Plan
  | imm (code : Nat) (exc : Bool)   -- returns / raises without suspending
  | susp                            -- suspends; the result arrives with `Ev.release`
deriving DecidableEq, Repr

structure Task where
  srv : Nat                      -- the pipe (`MsgLayer.InReq.srv`) this task renders into
  remote : Remote                -- ghost: `pipe.request.remote`
  token : Token                  -- ghost: `pipe.request.token`
  observe : Bool                 -- `pipe.request.opt.observe == 0`
  phase : Phase
  runnable : Bool                -- a wake-up is queued in the event loop
  cancelReq : Bool               -- `Task.cancel()` was called
  accepted : Bool                -- `servobs._accepted`
  obsNo : Nat                    -- `next_observation_number`
  trig : Option (Option Resp)    -- `servobs._trigger`: `none` = not done, `some v` = done with `v`
  early : Bool                   -- `servobs._early_deregister`
  late : Bool                    -- `servobs._late_deregister`
  renderOut : Option Resp        -- the suspended render's future is done with this result
  renderVer : Nat                -- version the suspended render sampled when it started
  cbRuns : Nat                   -- how often the cancellation callback has run
  seen : Nat                     -- ghost: resource version at the last trigger of this observation
  sentVer : Nat                  -- ghost: version carried by the last notification put on the pipe
  lastSent : Bool                -- ghost: the task ended by putting a successful last-marked
                                 --        notification (of version `sentVer`) on the pipe
deriving DecidableEq, Repr

structure State where
  ml : MsgLayer.State
  tasks : List Task
  observations : List Nat        -- `ObservableResource._observations` (as pipes' `srv`)
  value : Nat                    -- the resource's state
  maxRetr : Nat                  -- `TransportTuning.MAX_RETRANSMIT` of the responses

inductive Out
  | net (o : MsgLayer.Out)                       -- datagram sent / request delivered / pipe stopped
  | sendFailed (time : Nat) (remote : Remote) (w : Wire)
                                                 -- a datagram handed to the transport whose `sendmsg()` raised
  | count (n : Nat)                              -- `update_observation_count(n)`
  | cancelled (sv : Nat)                         -- the cancellation callback of registration `sv` runs
  | render (sv : Nat) (ver : Nat)                -- `render` is called for `sv` and samples `ver`
  | notify (sv : Nat) (code : Nat) (obs : Option Nat) (body : Nat) (isLast : Bool)
                                                 -- `pipe.add_response` by the task of `sv`
deriving DecidableEq, Repr

inductive Ev
  -- from the transport / the event loop, handled by the message layer
  | recv (remote : Remote) (mcLocal : Bool) (w : Wire)
  | error (remote : Remote)
  | fireRetransmit (remote : Remote) (mid : Nat)
  | fireEmptyAck (remote : Remote) (token : Token)
  | fireExpire (remote : Remote) (mid : Nat)
  | shutdown
  -- from the application (the resource)
  | update (resp : Option Nat)                   -- state change + `updated_state(None | Message(code))`
  | trigger (sv : Nat) (resp : Option Nat) (isLast : Bool)   -- state change + `servobs.trigger(...)`
  | deregister (sv : Nat)                        -- `servobs.deregister()`
  | release (sv : Nat) (code : Nat) (exc : Bool) -- the suspended render of `sv` finishes
  -- from the event loop: task `sv` runs until it suspends again
  | step (sv : Nat) (plan : Plan) (accept : Bool)
  -- ... and the transport reports an error for the observer SYNCHRONOUSLY, from inside the send of the
  -- first datagram the step hands to it (udp6: `sendmsg()` raises -> `error_received` ->
  -- `MessageManager.dispatch_error` before `send()` returns; recvmsg.py:141-147, udp6.py:699-725)
  | stepFail (sv : Nat) (plan : Plan) (accept : Bool)
deriving DecidableEq, Repr

structure TEv where
  time : Nat
  ev : Ev
deriving DecidableEq, Repr

def init (ml : MsgLayer.State) (maxRetr : Nat) : State :=
  { ml, tasks := [], observations := [], value := 0, maxRetr }

def success (code : Nat) : Bool := 64 ≤ code && code < 96      -- `Code.is_successful`

/-- the pipe is still wanted and the coroutine has not ended -/
def Task.live (t : Task) : Bool := t.phase != .done && !t.cancelReq

def newTask (sv : Nat) (remote : Remote) (w : Wire) : Task :=
  { srv := sv, remote, token := w.token, observe := w.obs == some 0, phase := .fresh,
    runnable := true, cancelReq := false, accepted := false, obsNo := 0, trig := none,
    early := false, late := false, renderOut := none, renderVer := 0, cbRuns := 0,
    seen := 0, sentVer := 0, lastSent := false }

/-- `Task.cancel()` (pipe.py:243 `pipe.on_interest_end(task.cancel)`): a finished task ignores it;
a task that has not started will never run; otherwise the task is woken with `CancelledError` -/
def cancelTask (t : Task) : Task :=
  if t.phase == .done then t
  else if t.phase == .fresh then { t with phase := .done, runnable := false, cancelReq := true }
  else { t with cancelReq := true, runnable := true }

def stops (os : List MsgLayer.Out) (sv : Nat) : Bool := os.any (fun o => o == .stop sv)

def delivered (os : List MsgLayer.Out) : List Task :=
  os.filterMap fun o => match o with
    | .deliver sv r w => some (newTask sv r w)
    | _ => none

/-- what the outputs of the message layer mean for the render tasks -/
def absorb (c : State) (os : List MsgLayer.Out) : State :=
  { c with tasks := c.tasks.map (fun t => if stops os t.srv then cancelTask t else t) ++ delivered os }

def findTask (c : State) (sv : Nat) : Option Task := c.tasks.find? (fun t => t.srv == sv)

def putTask (c : State) (t : Task) : State :=
  { c with tasks := c.tasks.map fun x => if x.srv == t.srv then t else x }

-- the coroutine ---------------------------------------------------------------------------------

/-- what the coroutine does to the world while it runs, in order -/
inductive Act
  | accept                 -- `add_observation` accepts: `_observations.add`, `update_observation_count`
  | render (ver : Nat)     -- `self.render(pipe.request)` is called and samples the state
  | emit (code : Nat) (obs : Option Nat) (body : Nat) (isLast : Bool)   -- `pipe.add_response`
  | callback               -- the cancellation callback handed to `accept`
deriving DecidableEq, Repr

/-- the coroutine ends with `r` as the pipe's last event: a returned response is added before the
`finally` clause runs; a raised exception passes through `finally` first and is turned into a
response by `error_to_message` afterwards.  The callback is only there for an accepted
observation. -/
def finish (t : Task) (r : Resp) : Task × List Act :=
  let cb : List Act := if t.observe && t.accepted then [.callback] else []
  ({ t with phase := .done, runnable := false, renderOut := none,
            cbRuns := if t.observe && t.accepted then t.cbRuns + 1 else t.cbRuns },
   if r.exc then cb ++ [.emit r.code none r.body true] else .emit r.code none r.body true :: cb)

/-- a notification's content is ready (interfaces.py:553-571).  A render that raised or an
unsuccessful response ends the observation whatever else is going on.  Otherwise the response is
the observation's last one iff a trigger has marked the observation as ending
(`servobs._late_deregister`) AND no trigger is pending (`not servobs._trigger.done()`): a trigger
that arrived while this response was being rendered stays in the future — which was replaced at
interfaces.py:539 when the older trigger was consumed — and is served by the next iteration.  Leaves the task
ended, or at the top of the loop again (`await servobs._trigger`, not yet evaluated). -/
def afterLoop (t : Task) (r : Resp) : Task × List Act :=
  if r.exc || !success r.code then finish t r
  else if t.late && t.trig.isNone then finish { t with sentVer := r.body, lastSent := true } r
  else
    ({ t with obsNo := t.obsNo + 1, sentVer := r.body, phase := .waitTrig, runnable := false,
              renderOut := none }, [.emit r.code (some (t.obsNo + 1)) r.body false])

def renderResp (val : Nat) : Plan → Option Resp
  | .imm code exc => some { code, body := if exc then 0 else val, exc }
  | .susp => none

/-- at `await servobs._trigger` (interfaces.py:533-551): a done future does not suspend -/
def atAwait (val : Nat) (t : Task) (plan : Plan) : Task × List Act :=
  match t.trig with
  | none => ({ t with phase := .waitTrig, runnable := false }, [])
  | some (some r) => afterLoop { t with trig := none } r
  | some none =>
    match renderResp val plan with
    | some r =>
      let x := afterLoop { t with trig := none } r
      (x.1, .render val :: x.2)
    | none =>
      ({ t with trig := none, phase := .loopRender, renderVer := val, renderOut := none,
                runnable := false }, [.render val])

/-- the first response is ready (interfaces.py:513-530) -/
def afterFirst (val : Nat) (t : Task) (r : Resp) (plan : Plan) : Task × List Act :=
  if r.exc || !t.accepted || t.early || !success r.code then finish t r
  else
    let x := atAwait val { t with obsNo := 0, sentVer := r.body, renderOut := none } plan
    (x.1, .emit r.code (some 0) r.body false :: x.2)

/-- `CancelledError` is thrown into the coroutine: only `finally` runs -/
def cancelStep (t : Task) : Task × List Act :=
  ({ t with phase := .done, runnable := false, renderOut := none,
            cbRuns := if t.observe && t.accepted then t.cbRuns + 1 else t.cbRuns },
   if t.observe && t.accepted then [.callback] else [])

/-- first step of the task: `add_observation` (resource.py:159-167) and the first render -/
def startTask (val : Nat) (t : Task) (plan : Plan) (accept : Bool) : Task × List Act :=
  if t.observe then
    match renderResp val plan with
    | some r =>
      let x := afterFirst val { t with accepted := accept } r .susp
      (x.1, (if accept then [Act.accept] else []) ++ .render val :: x.2)
    | none =>
      ({ t with accepted := accept, phase := .firstRender, renderVer := val, runnable := false },
       (if accept then [Act.accept] else []) ++ [.render val])
  else
    match renderResp val plan with
    | some r =>
      let x := finish t r
      (x.1, .render val :: x.2)
    | none =>
      ({ t with phase := .plainRender, renderVer := val, runnable := false }, [.render val])

/-- the task runs until it suspends again; `val` is the resource's state during the step -/
def stepTask (val : Nat) (t : Task) (plan : Plan) (accept : Bool) : Task × List Act :=
  if !t.runnable then (t, [])
  else if t.cancelReq then cancelStep t
  else match t.phase with
    | .fresh => startTask val t plan accept
    | .firstRender =>
      match t.renderOut with
      | some r => afterFirst val t r plan
      | none => ({ t with runnable := false }, [])
    | .waitTrig => atAwait val t plan
    | .loopRender =>
      match t.renderOut with
      | some r =>
        let x := afterLoop t r
        if x.1.phase == .done then x
        else
          let y := atAwait val x.1 plan
          (y.1, x.2 ++ y.2)
      | none => ({ t with runnable := false }, [])
    | .plainRender =>
      match t.renderOut with
      | some r => finish t r
      | none => ({ t with runnable := false }, [])
    | .done => ({ t with runnable := false }, [])

def mkMsg (c : State) (code : Nat) (obs : Option Nat) (body : Nat) : OutMsg :=
  { mtype := none, reliability := none, code, obs, body, noResponse := 0, maxRetr := c.maxRetr }

/-- one effect of the coroutine of pipe `sv` on the resource and the message layer.
`emit`: `pipe.add_response` → `TokenManager.process_request.on_event` → `send_message`;
`callback`: the `_cancel` closure of `resource.ObservableResource.add_observation` (:162-164) -/
def execAct (c : State) (sv : Nat) : Act → State × List Out
  | .accept => ({ c with observations := c.observations ++ [sv] }, [.count (c.observations.length + 1)])
  | .render ver => (c, [.render sv ver])
  | .emit code obs body isLast =>
    let r := MsgLayer.respond c.ml sv (mkMsg c code obs body) isLast
    ({ c with ml := r.1 }, r.2.map Out.net ++ [.notify sv code obs body isLast])
  | .callback =>
    ({ c with observations := c.observations.erase sv },
     [.cancelled sv, .count (c.observations.erase sv).length])

def exec (c : State) (sv : Nat) : List Act → State × List Out
  | [] => (c, [])
  | a :: as =>
    let x := execAct c sv a
    let y := exec x.1 sv as
    (y.1, x.2 ++ y.2)

-- a step during which the transport fails a send -------------------------------------------------

/-- `pipe.add_response` of the task of pipe `sv` when `sendmsg()` raises for the datagram: `some` iff
the message layer hands a datagram to the transport for this response at all (not when the response
is queued behind an unacknowledged CON, and not when the pipe has ended).  The order of the code:
`TokenManager.process_request.on_event` -> `send_message` -> `_send_initially` (`_add_exchange` draws
the time-out, then `message_interface.send`) -> the transport catches the `OSError` and calls
`error_received` -> `MessageManager.dispatch_error(remote)`: every request of and to that endpoint is
stopped (this pipe's stopper among them: its table entry is still there, also for a last event,
which is only removed when `on_event` returns), the endpoint's exchanges and backlog are dropped ->
`send()` returns normally, the reply is stored for duplicates.  Nothing goes onto the wire.
Returns the state, the outputs and what `dispatch_error` put out (the stops). -/
def failingEmit (c : State) (sv : Nat) : Act → Option (State × List Out × List MsgLayer.Out)
  | .emit code obs body isLast =>
    let r := MsgLayer.respond c.ml sv (mkMsg c code obs body) false
    match r.2 with
    | [.send tm remote w] =>
      let e := MsgLayer.handle r.1 (.error remote)
      let ml' := if isLast then MsgLayer.dropIncoming e.1 sv else e.1
      some ({ c with ml := ml' },
            .sendFailed tm remote w :: e.2.map Out.net ++ [.notify sv code obs body isLast], e.2)
    | _ => none
  | _ => none

/-- the effects of a step in which the first datagram handed to the transport fails.  After that
the coroutine goes on as usual until it suspends (pipe.py `_add_event` returns normally since the
`fix:` commit; `Task.cancel()` called from inside the task itself only takes effect at the next
suspension): what it puts on the pipe now is discarded (`respond` on a pipe that has ended). -/
def execF (c : State) (sv : Nat) : List Act → State × List Out × List MsgLayer.Out
  | [] => (c, [], [])
  | a :: as =>
    match failingEmit c sv a with
    | some (c', os, st) =>
      let y := exec c' sv as
      (y.1, os ++ y.2, st)
    | none =>
      let x := execAct c sv a
      let y := execF x.1 sv as
      (y.1, x.2 ++ y.2.1, y.2.2)

-- the resource side -----------------------------------------------------------------------------

/-- `ServerObservation.trigger(response, is_last=…)` (protocol.py:1431-1446) at version `ver` -/
def trigTask (t : Task) (v : Option Resp) (isLast : Bool) (ver : Nat) : Task :=
  if !(t.observe && t.accepted) || t.phase == .done || t.phase == .fresh then t
  else { t with late := t.late || isLast, trig := some v, seen := ver,
                runnable := t.runnable || t.phase == .waitTrig }

/-- `ServerObservation.deregister()` (protocol.py:1416-1429): the first call only sets the
early-deregistration flag, any later one triggers a 5.00 notification -/
def deregTask (t : Task) (ver : Nat) : Task :=
  if !(t.observe && t.accepted) || t.phase == .done || t.phase == .fresh then t
  else if !t.early then { t with early := true }
  else trigTask t (some { code := 160, body := 0, exc := false }) false ver

/-- the harness finishes the suspended render of the task -/
def releaseTask (t : Task) (code : Nat) (exc : Bool) : Task :=
  if (t.phase == .firstRender || t.phase == .loopRender || t.phase == .plainRender)
      && t.renderOut.isNone && !t.cancelReq then
    { t with renderOut := some { code, body := if exc then 0 else t.renderVer, exc },
             runnable := true }
  else t

def mapTask (c : State) (sv : Nat) (f : Task → Task) : State :=
  { c with tasks := c.tasks.map fun t => if t.srv == sv then f t else t }

def explicitResp (resp : Option Nat) (ver : Nat) : Option Resp :=
  resp.map fun code => { code, body := ver, exc := false }

-- events ------------------------------------------------------------------------------------------

def netEvent (c : State) (e : MsgLayer.Ev) : State × List Out :=
  let r := MsgLayer.handle c.ml e
  (absorb { c with ml := r.1 } r.2, r.2.map Out.net)

def handle (c : State) : Ev → State × List Out
  | .recv remote mcLocal w => netEvent c (.recv remote mcLocal w)
  | .error remote => netEvent c (.error remote)
  | .fireRetransmit remote mid => netEvent c (.fireRetransmit remote mid)
  | .fireEmptyAck remote token => netEvent c (.fireEmptyAck remote token)
  | .fireExpire remote mid => netEvent c (.fireExpire remote mid)
  | .shutdown => netEvent c .shutdown
  | .update resp =>
    -- resource.py:173-178 `for o in self._observations: o.trigger(response)`
    let ver := c.value + 1
    ({ c with value := ver,
              tasks := c.tasks.map fun t =>
                if c.observations.contains t.srv then trigTask t (explicitResp resp ver) false ver
                else t }, [])
  | .trigger sv resp isLast =>
    let ver := c.value + 1
    (mapTask { c with value := ver } sv (fun t => trigTask t (explicitResp resp ver) isLast ver), [])
  | .deregister sv => (mapTask c sv (fun t => deregTask t c.value), [])
  | .release sv code exc => (mapTask c sv (fun t => releaseTask t code exc), [])
  | .step sv plan accept =>
    match findTask c sv with
    | none => (c, [])
    | some t =>
      let x := stepTask c.value t plan accept
      let y := exec c sv x.2
      (putTask y.1 x.1, y.2)
  | .stepFail sv plan accept =>
    -- the stoppers called `Task.cancel()`; like every cancellation it is recorded in the task
    -- records when the step is over (`exec` does not read them)
    match findTask c sv with
    | none => (c, [])
    | some t =>
      let x := stepTask c.value t plan accept
      let y := execF c sv x.2
      (absorb (putTask y.1 x.1) y.2.2, y.2.1)

def step (c : State) (e : TEv) : State × List Out :=
  handle { c with ml := MsgLayer.setNow c.ml e.time } e.ev

def run (c : State) : List TEv → State × List Out
  | [] => (c, [])
  | e :: es =>
    let x := step c e
    let y := run x.1 es
    (y.1, x.2 ++ y.2)

end Aiocoap.Observe.Server
