import AiocoapModel.MsgLayer.Model
import AiocoapModel.Observe.Client
/-!
# The runner of one request on top of the message layer

`Aiocoap.MsgLayer` models `MessageManager` + `TokenManager`; its outputs `.response r w final`
and `.fail r kind` are the events put on the `Pipe` of client request `r`
(`tokenmanager.py:217` `request.add_response(response, is_last=final)`, `:267`/`dispatch_error`
`request.add_exception(...)`).  Here they are fed to the runner of that request
(`Aiocoap.Observe.step`), and the one thing that flows back is modelled too: when the runner (or
the application, by cancelling the response future) withdraws from the pipe, the pipe ends and the
hook the token manager registered (`tokenmanager.py:261`
`request.on_interest_end(functools.partial(self.outgoing_requests.pop, key, None))`) forgets the
request — `MsgLayer.dropOutgoing`.  In the code that happens in the middle of
`process_response`; nothing the message layer does afterwards in the same call (`_send_empty_ack`)
reads `outgoing_requests`, so applying it after the message-layer step is the same.
-/
namespace Aiocoap.Observe

/-- identification of the exception kinds of the message layer for `Event.exception` -/
def excCode : MsgLayer.ErrKind → Nat
  | .messageError => 0
  | .conRetransmitsExceeded => 1
  | .networkError => 2
  | .libraryShutdown => 3
  | .conToMulticast => 4

def msgOfWire (w : MsgLayer.Wire) : Msg := { code := w.code, obs := w.obs, body := w.body }

/-- the event an output of the message layer puts on the pipe of request `r` -/
def pipeEventOf (r : Nat) : MsgLayer.Out → Option Event
  | .response r' w final => if r' = r then some (.message (msgOfWire w) final) else none
  | .fail r' k => if r' = r then some (.exception (excCode k)) else none
  | _ => none

/-- feed the pipe events of request `r` among `os` to its runner, in order, at time `t` -/
def feed (cfg : Cfg) (r t : Nat) (st : ObsState) : List MsgLayer.Out → ObsState × List Delivery
  | [] => (st, [])
  | o :: os =>
    match pipeEventOf r o with
    | none => feed cfg r t st os
    | some ev =>
      let a := step cfg st ⟨t, ev⟩
      let b := feed cfg r t a.1 os
      (b.1, a.2 ++ b.2)

structure JState where
  ms : MsgLayer.State
  st : ObsState

inductive JEv
  | net (e : MsgLayer.TEv)       -- any event of the message layer: datagram, timer, submit, error, …
  | app (t : Nat) (e : Event)    -- an application call on request `r` (`obsCancel` / `respCancel`)

/-- the pipe lost its last interest: the token manager forgets the request -/
def release (r : Nat) (ms : MsgLayer.State) (ds : List Delivery) : MsgLayer.State :=
  if ds.contains .stopInterest then MsgLayer.dropOutgoing ms r else ms

def jointStep (cfg : Cfg) (r : Nat) (j : JState) : JEv → JState × List MsgLayer.Out × List Delivery
  | .net e =>
    let a := MsgLayer.step j.ms e
    let b := feed cfg r e.time j.st a.2
    ({ ms := release r a.1 b.2, st := b.1 }, a.2, b.2)
  | .app t ev =>
    if ev.isPipe then (j, [], []) else
    let b := step cfg j.st ⟨t, ev⟩
    ({ ms := release r j.ms b.2, st := b.1 }, [], b.2)

def jointRun (cfg : Cfg) (r : Nat) (j : JState) : List JEv → JState × List Delivery
  | [] => (j, [])
  | e :: es =>
    let a := jointStep cfg r j e
    let b := jointRun cfg r a.1 es
    (b.1, a.2.2 ++ b.2)

end Aiocoap.Observe
