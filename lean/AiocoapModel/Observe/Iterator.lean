import AiocoapModel.Observe.Client
/-!
# The async-iteration interface of an observation: `ClientObservation._Iterator`

Model of `ClientObservation.__aiter__` and `ClientObservation._Iterator`
(`aiocoap/protocol.py:1197-1264`, after the `fix:` commits for C07: an error pushed while the
latest item has not been fetched is kept aside instead of replacing it; an iterator opened on an
observation that has already ended is still given the last response) together with the asyncio
semantics it relies on.

The iterator is a one-slot lossy queue made of asyncio futures.  A future is an object with an
identity: the coroutine `__anext__` suspends on *one specific* future object and later compares it
with whatever `self._future` has become in the meantime (`if f is self._future`).  So the model
keeps every future ever created in a store (`futs`, the index is the identity) with its content

* `pending` — not done;
* `result m` — `set_result(m)`;
* `exc e` — `set_exception(e)`;
* `cancelled` — the consumer task was cancelled while it was suspended on it (`Task.cancel()`
  cancels the future the task waits for),

the identity `slot` of `self._future`, the error kept aside (`self._deferred_error`) and what the
consumer task is doing: `idle` (not inside `__anext__`: it has not asked yet, is busy in the body
of its `async for`, or — `BlockwiseRequest._run_observation` — is fetching the Block2 rest of a
notification) or `waiting f` (suspended in `result = await self._future` on future `f`).

Operations (any interleaving, chosen by the network, the event loop and the application):

* `push m` / `pushErr e` — `it.push(m)` / `it.push_err(e)`, called synchronously from
  `ClientObservation.callback` / `.error`, i.e. from inside the runner of `Request` (or from
  `__aiter__` when it replays);
* `next` — the consumer calls `__anext__`.  `await` on a future that is already done does not
  suspend (`Future.__await__`: `if not self.done(): yield self`), so the call completes at once in
  that case; otherwise the consumer now waits on that future object;
* `wake` — the event loop resumes the consumer after the future it waits on was completed
  (the wake-up is scheduled with `call_soon`, so any number of `push`/`pushErr` can happen between
  completion and wake-up);
* `cancel` — the consumer task is cancelled (`task.cancel()`, `asyncio.wait_for` timing out …):
  when it waits on a pending future, that future is cancelled and `CancelledError` is thrown
  into `__anext__`; when the future is already done (wake-up due), `Task.cancel()` cannot cancel it
  (`_must_cancel`) and `CancelledError` is thrown at the wake-up instead of the result being read —
  the future stays in the slot with its result.  Both are one step here: nothing else reads the
  consumer's state in between.  While the consumer is `idle` the iterator is not involved.

Outputs are what comes out of `__anext__`: an item, `StopAsyncIteration` (`stop`), an exception
(`raise k`), or `CancelledError` (`cancelled`; also what awaiting a cancelled future gives).

Not modelled: `__del__` (it only reads the slot to log; after the fix an error kept aside that the
consumer never fetched is dropped silently); a second `__anext__` while one is suspended (two tasks
iterating the same iterator): `next` while `waiting` leaves the state alone and the driver answers
`out-of-model`; `observation.cancel()` by the application followed by iteration
(`_cancellation_reason` is `None` then).
-/
namespace Aiocoap.Observe.Iter

inductive Fut (α : Type) where
  | pending
  | result (m : α)
  | exc (e : ErrKind)
  | cancelled
deriving DecidableEq, Repr

def Fut.done {α : Type} : Fut α → Bool
  | .pending => false
  | _ => true

inductive Cons where
  | idle
  | waiting (f : Nat)
deriving DecidableEq, Repr

structure St (α : Type) where
  futs : List (Fut α)          -- every future ever created; identity = index
  slot : Nat                   -- `self._future`
  deferred : Option ErrKind    -- `self._deferred_error`
  cons : Cons
deriving DecidableEq, Repr

inductive Op (α : Type) where
  | push (m : α)
  | pushErr (e : ErrKind)
  | next
  | wake
  | cancel
deriving DecidableEq, Repr

inductive Out (α : Type) where
  | item (m : α)
  | stop                  -- `StopAsyncIteration`
  | raise (k : Nat)       -- the transport's exception comes out of `__anext__`
  | cancelled             -- `asyncio.CancelledError` comes out of `__anext__`
deriving DecidableEq, Repr

variable {α : Type}

/-- `_Iterator.__init__` (`protocol.py:1217-1221`) -/
def init : St α := { futs := [.pending], slot := 0, deferred := none, cons := .idle }

def St.get (s : St α) (f : Nat) : Fut α := s.futs.getD f .pending

/-- `self._future = loop.create_future()` followed by completing it with `c` (or not) -/
def St.install (s : St α) (c : Fut α) : St α :=
  { s with futs := s.futs ++ [c], slot := s.futs.length }

/-- complete the future in the slot -/
def St.complete (s : St α) (c : Fut α) : St α :=
  { s with futs := s.futs.set s.slot c }

/-- `push` (`protocol.py:1223-1227`): a done future — fetched or not — is replaced -/
def push (s : St α) (m : α) : St α :=
  if (s.get s.slot).done then s.install (.result m) else s.complete (.result m)

/-- `push_err` (`protocol.py:1229-1244`, first `fix:` commit of this round): an unfetched result
stays, the error is kept aside -/
def pushErr (s : St α) (e : ErrKind) : St α :=
  match s.get s.slot with
  | .pending => s.complete (.exc e)
  | .result _ => { s with deferred := some e }
  | .exc _ => s.install (.exc e)
  | .cancelled => s.install (.exc e)

/-- `except (error.NotObservable, error.ObservationCancelled): raise StopAsyncIteration`
(`protocol.py:1259-1264`); everything else propagates -/
def endOut : ErrKind → Out α
  | .notObservable => .stop
  | .observationCancelled => .stop
  | .transport k => .raise k

/-- the fresh future `__anext__` puts into the slot: completed at once with the error that was
kept aside, if there is one (`protocol.py:1253-1257`) -/
def freshFut : Option ErrKind → Fut α
  | some e => .exc e
  | none => .pending

/-- what `__anext__` does once `await self._future` on future `f` returns or raises
(`protocol.py:1246-1264`); the consumer is out of `__anext__` afterwards -/
def finish (s : St α) (f : Nat) : St α × List (Out α) :=
  match s.get f with
  | .result m =>
    (if f = s.slot then
      { futs := s.futs ++ [freshFut s.deferred],
        slot := s.futs.length, deferred := none, cons := .idle }
     else { s with cons := .idle }, [.item m])
  | .exc e => ({ s with cons := .idle }, [endOut e])
  | .cancelled => ({ s with cons := .idle }, [.cancelled])
  | .pending => (s, [])          -- not reached: `finish` is only used on done futures

def step (s : St α) : Op α → St α × List (Out α)
  | .push m => (push s m, [])
  | .pushErr e => (pushErr s e, [])
  | .next =>
    match s.cons with
    | .idle =>
      -- a future cancelled by an earlier, cancelled `__anext__` is replaced first (the `fix:` for waits that
      -- timed out): that cancellation said nothing about the observation
      let s := match s.get s.slot with
        | .cancelled => s.install .pending
        | _ => s
      if (s.get s.slot).done then finish s s.slot
      else ({ s with cons := .waiting s.slot }, [])
    | .waiting _ => (s, [])      -- a second concurrent `__anext__`: not modelled
  | .wake =>
    match s.cons with
    | .waiting f => if (s.get f).done then finish s f else (s, [])
    | .idle => (s, [])
  | .cancel =>
    match s.cons with
    | .waiting f =>
      if (s.get f).done then ({ s with cons := .idle }, [.cancelled])
      else ({ s with futs := s.futs.set f .cancelled, cons := .idle }, [.cancelled])
    | .idle => (s, [])

def run (s : St α) : List (Op α) → St α × List (Out α)
  | [] => (s, [])
  | o :: os =>
    let r := step s o
    let r' := run r.1 os
    (r'.1, r.2 ++ r'.2)

def outs (s : St α) (ops : List (Op α)) : List (Out α) := (run s ops).2
def final (s : St α) (ops : List (Op α)) : St α := (run s ops).1

/-- one complete `__anext__` of a consumer that keeps iterating: resume it if it is suspended,
else call `__anext__` (which completes at once when the slot is done) -/
def pullOp (s : St α) : Op α :=
  match s.cons with
  | .waiting _ => .wake
  | .idle => .next

def pulls : Nat → St α → St α × List (Out α)
  | 0, s => (s, [])
  | n + 1, s =>
    let r := step s (pullOp s)
    let r' := pulls n r.1
    (r'.1, r.2 ++ r'.2)

-- `ClientObservation` around it ------------------------------------------------------------------

/-- what `ClientObservation.callback` / `.error` do to an iterator registered with it
(`protocol.py:1328-1348`); the response future and `_stop_interest` do not touch it -/
def opsOfDelivery : Delivery → List (Op Msg)
  | .callback m => [.push m]
  | .errback e => [.pushErr e]
  | _ => []

def opsOfDeliveries (ds : List Delivery) : List (Op Msg) := ds.flatMap opsOfDelivery

def lastCallback : List Delivery → Option Msg
  | [] => none
  | d :: ds =>
    match lastCallback ds with
    | some m => some m
    | none => match d with
      | .callback m => some m
      | _ => none

def firstErrback : List Delivery → Option ErrKind
  | [] => none
  | .errback e :: _ => some e
  | _ :: ds => firstErrback ds

/-- `ClientObservation.__aiter__` (`protocol.py:1197-1214`, third `fix:` commit of this round) on an
observation that has been through the deliveries `ds` already: the new iterator is given
`_latest_response` (by `register_callback` while the observation runs, by `__aiter__` itself when
it has ended) and then, if the observation has ended, `_cancellation_reason` (by
`register_errback`) -/
def openOps (ds : List Delivery) : List (Op Msg) :=
  (lastCallback ds).toList.map .push ++ (firstErrback ds).toList.map .pushErr

/-- an application driving `request.observation` by async iteration: the runner's deliveries
interleaved with what the consumer task does -/
inductive JOp where
  | pipe (e : TEvent)             -- an event on the request's pipe (processed synchronously)
  | cons (c : Op Msg)             -- `next` / `wake` / `cancel` of the consumer

def JOp.isCons : JOp → Bool
  | .cons (.push _) => false
  | .cons (.pushErr _) => false
  | _ => true

def JOp.event? : JOp → Option TEvent
  | .pipe e => some e
  | .cons _ => none

/-- runner and iterator side by side -/
def jrun (cfg : Cfg) (r : ObsState) (s : St Msg) : List JOp → (ObsState × St Msg) × List (Out Msg)
  | [] => ((r, s), [])
  | .pipe e :: js =>
    let a := Aiocoap.Observe.step cfg r e
    let b := run s (opsOfDeliveries a.2)
    let c := jrun cfg a.1 b.1 js
    (c.1, b.2 ++ c.2)
  | .cons o :: js =>
    let b := step s o
    let c := jrun cfg r b.1 js
    (c.1, b.2 ++ c.2)

end Aiocoap.Observe.Iter
