/-!
# RFC 7641 §3.4 freshness of a notification, as coded in `Request._run`

`aiocoap/protocol.py:801-809` (after the `fix:` commits for C07):

    is_recent = (
        (v1 < v2 and v2 - v1 < 2**23)
        or (v1 > v2 and v1 - v2 > 2**23)
        or (t2 > t1 + self._pipe.request.transport_tuning.OBSERVATION_RESET_TIME)
    )

`v1`/`t1` are the Observe value and arrival time of the last notification handed to the
application, `v2`/`t2` those of the one that just arrived.  Observe values are Python ints taken
from the option (nothing reduces them modulo 2^24), times are `time.time()` readings; the harness
clock hands out multiples of 2^-20 s, so times are `Nat` ticks and `reset` is
`OBSERVATION_RESET_TIME` (`numbers/constants.py:146`, 128 s) in ticks, read from the
implementation at run time.
-/
namespace Aiocoap.Observe

/-- `is_recent` exactly as coded (`and`/`or` of Python comparisons; `v2 - v1` is only evaluated
when `v1 < v2`, so truncated subtraction in `Nat` is the same number). -/
def fresher (reset v1 t1 v2 t2 : Nat) : Bool :=
  (decide (v1 < v2) && decide (v2 - v1 < 2 ^ 23)) ||
  (decide (v1 > v2) && decide (v1 - v2 > 2 ^ 23)) ||
  decide (t2 > t1 + reset)

/-- RFC 7641 §3.4, the condition under which an incoming notification `(V2, T2)` is fresher than
the freshest one known `(V1, T1)`, as a proposition (written from the RFC, `reset` = 128 s). -/
def Rfc7641Fresher (reset v1 t1 v2 t2 : Nat) : Prop :=
  (v1 < v2 ∧ v2 - v1 < 2 ^ 23) ∨ (v1 > v2 ∧ v1 - v2 > 2 ^ 23) ∨ t2 > t1 + reset

/-- the sequence-number part alone (no clock) -/
def serialFresher (v1 v2 : Nat) : Bool :=
  (decide (v1 < v2) && decide (v2 - v1 < 2 ^ 23)) || (decide (v1 > v2) && decide (v1 - v2 > 2 ^ 23))

/-- how far the 24-bit number `v` is ahead of `b`, going round the circle of 2^24 -/
def soff (b v : Nat) : Nat := (v + 2 ^ 24 - b % 2 ^ 24) % 2 ^ 24

end Aiocoap.Observe
