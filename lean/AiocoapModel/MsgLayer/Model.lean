import AiocoapModel.Basic.Bytes
/-!
# Message layer: `MessageManager` + `TokenManager` as one state machine

Model of `aiocoap/messagemanager.py` and `aiocoap/tokenmanager.py` (after the `fix:` commits for
C04 — only ACK/RST are stored for duplicates — and C18 — empty-ACK timers are cancelled at
shutdown).  One event per call into the pair from outside:

* from the transport: `recv` (`dispatch_message`), `error` (`dispatch_error`);
* from the application: `submit` (`Context.request` → `TokenManager.request` →
  `MessageManager.send_message`), `respond` (a response put on the pipe of an incoming
  request), `appCancel` (the requester drops its interest), `shutdown`;
* from the event loop: the three kinds of timers (`fireRetransmit`, `fireEmptyAck`,
  `fireExpire`), each identified by the key of the table entry that owns it.

Time is a `Nat` of ticks carried by every event.  A *schedule* is valid when times never go
back, a timer fires exactly at its deadline, and no event is handled while an earlier timer is
still pending (`Valid` in `Properties`); this is how asyncio runs the real code.

Outputs are the observable effects: datagrams handed to the transport, requests handed to the
server application, pipes stopped, and events put on client pipes.
-/
namespace Aiocoap.MsgLayer

abbrev Remote := Nat
abbrev Token := List Nat

inductive MType | con | non | ack | rst
deriving DecidableEq, Repr, Inhabited

/-- a message as it is on the wire, reduced to what this layer looks at -/
structure Wire where
  mtype : MType
  code : Nat
  mid : Nat
  token : Token
  obs : Option Nat      -- value of the Observe option, if any
  body : Nat            -- opaque identity of the remaining options and the payload
deriving DecidableEq, Repr

def isRequest (c : Nat) : Bool := 1 ≤ c && c < 32
def isResponse (c : Nat) : Bool := 64 ≤ c && c < 192
/-- `Code.is_successful` (`numbers/codes.py:89-91`): class 2.xx -/
def isSuccessful (c : Nat) : Bool := 64 ≤ c && c < 96
def codeClass (c : Nat) : Nat := c / 32

/-- `messageerror_monitor` of a sent message -/
inductive Monitor
  | req (r : Nat)       -- `lambda: request.add_exception(error.MessageError)`
  | srv (s : Nat)       -- the stopper of the incoming request's pipe
  | none
deriving DecidableEq, Repr

/-- a message passed to `send_message` (mid not assigned yet) -/
structure OutMsg where
  mtype : Option MType       -- explicitly set type, if any
  reliability : Option Bool  -- `transport_tuning.reliability`
  code : Nat
  obs : Option Nat
  body : Nat
  noResponse : Nat           -- value of the No-Response option on a response (0 = absent)
  maxRetr : Nat              -- `transport_tuning.MAX_RETRANSMIT`
deriving DecidableEq, Repr

/-- an entry of `_active_exchanges` together with what its pending `retr` closure captured.
`t0`/`T0` are ghost fields (first transmission time and initial time-out draw). -/
structure Exchange where
  remote : Remote
  msg : Wire
  timeout : Nat
  counter : Nat
  maxRetr : Nat
  fireAt : Nat
  monitor : Monitor
  t0 : Nat
  T0 : Nat
deriving DecidableEq, Repr

structure Recent where
  remote : Remote
  mid : Nat
  reply : Option Wire
  expiry : Nat
deriving DecidableEq, Repr

structure Piggy where
  remote : Remote
  token : Token
  mid : Nat
  fireAt : Nat
deriving DecidableEq, Repr

/-- `outgoing_requests[(token, remote or None)] = pipe of request r` -/
structure OutReq where
  token : Token
  remote : Option Remote
  req : Nat
  observing : Bool          -- `request.opt.observe == 0`
  idx : Nat                 -- ghost: how many tokens had been handed out before this one
deriving DecidableEq, Repr

/-- `incoming_requests[(token, remote)] = (pipe, stop)` -/
structure InReq where
  token : Token
  remote : Remote
  srv : Nat
  wasNon : Bool             -- `request.mtype is NON`
deriving DecidableEq, Repr

/-- a backlogged message with everything `_send_initially` will need -/
structure Queued where
  msg : Wire
  monitor : Monitor
  maxRetr : Nat
deriving DecidableEq, Repr

structure Cfg where
  exchangeLifetime : Nat
  emptyAckDelay : Nat
deriving DecidableEq, Repr

structure State where
  cfg : Cfg
  now : Nat
  nextMid : Nat
  tokenCtr : Nat
  drawFn : Nat → Nat                     -- the results of `random.uniform`, in call order
  drawIdx : Nat                          -- how many have been consumed
  issued : Nat                           -- ghost: number of tokens handed out so far
  tokenCtr0 : Nat                        -- ghost: the initial (random) value of `_token`
  recent : List Recent
  exchanges : List Exchange
  backlogs : List (Remote × List Queued)
  piggy : List Piggy
  outgoing : List OutReq
  incoming : List InReq
  nextSrv : Nat
  shutMsg : Bool                         -- `_active_exchanges is None`
  shutTok : Bool                         -- `outgoing_requests is None`

inductive ErrKind
  | messageError | conRetransmitsExceeded | networkError | libraryShutdown | conToMulticast
deriving DecidableEq, Repr

inductive Out
  | send (time : Nat) (remote : Remote) (w : Wire)
  | deliver (srv : Nat) (remote : Remote) (w : Wire)
  | stop (srv : Nat)
  | response (req : Nat) (w : Wire) (final : Bool)
  | fail (req : Nat) (kind : ErrKind)
deriving DecidableEq, Repr

inductive Ev
  | submit (r : Nat) (remote : Remote) (mc : Bool) (observing : Bool) (m : OutMsg)
  | recv (remote : Remote) (mcLocal : Bool) (w : Wire)
  | respond (srv : Nat) (m : OutMsg) (isLast : Bool)
  | appCancel (r : Nat)
  | error (remote : Remote)
  | fireRetransmit (remote : Remote) (mid : Nat)
  | fireEmptyAck (remote : Remote) (token : Token)
  | fireExpire (remote : Remote) (mid : Nat)
  | shutdown
deriving DecidableEq, Repr

structure TEv where
  time : Nat
  ev : Ev
deriving DecidableEq, Repr

def init (cfg : Cfg) (mid token : Nat) (drawFn : Nat → Nat) : State :=
  { cfg, now := 0, nextMid := mid, tokenCtr := token, drawFn, drawIdx := 0, issued := 0,
    tokenCtr0 := token,
    recent := [], exchanges := [], backlogs := [], piggy := [], outgoing := [], incoming := [],
    nextSrv := 0, shutMsg := false, shutTok := false }

/-- `next_token`: `(n+1) % 2**64` big-endian without leading zeros -/
def tokenOf (n : Nat) : Token := natToMinBE n

def hasExchange (s : State) (remote : Remote) : Bool :=
  s.exchanges.any (fun e => e.remote == remote)

def hasBacklog (s : State) (remote : Remote) : Bool :=
  s.backlogs.any (fun b => b.1 == remote)

-- sending ---------------------------------------------------------------------------------

/-- `_store_response_for_duplicates` (fixed: only ACK and RST can answer a duplicate) -/
def storeReply (s : State) (remote : Remote) (w : Wire) : State :=
  if w.mtype == .ack || w.mtype == .rst then
    { s with recent := s.recent.map fun r =>
        if r.remote == remote && r.mid == w.mid then { r with reply := some w } else r }
  else s

/-- `_add_exchange` -/
def addExchange (s : State) (remote : Remote) (w : Wire) (mon : Monitor) (maxRetr : Nat) : State :=
  let bl := if hasBacklog s remote then s.backlogs else s.backlogs ++ [(remote, [])]
  let T := s.drawFn s.drawIdx
  { s with backlogs := bl, drawIdx := s.drawIdx + 1,
           exchanges := s.exchanges ++ [{ remote, msg := w, timeout := T, counter := 0, maxRetr,
                                          fireAt := s.now + T, monitor := mon,
                                          t0 := s.now, T0 := T }] }

/-- `_send_initially` -/
def sendInitially (s : State) (remote : Remote) (w : Wire) (mon : Monitor) (maxRetr : Nat) :
    State × List Out :=
  let s1 := if w.mtype == .con then addExchange s remote w mon maxRetr else s
  (storeReply s1 remote w, [.send s.now remote w])

def appendBacklog (bl : List (Remote × List Queued)) (remote : Remote) (qd : Queued) :
    List (Remote × List Queued) :=
  bl.map fun b => if b.1 == remote then (b.1, b.2 ++ [qd]) else b

/-- result of `send_message` -/
inductive SendRes | sent | suppressed | conToMulticast
deriving DecidableEq, Repr

/-- does the No-Response option of response `m` suppress it?
`(no_response or 0) & (1 << class - 1) != 0` -/
def suppressed (m : OutMsg) : Bool :=
  isResponse m.code && (m.noResponse / 2 ^ (codeClass m.code - 1)) % 2 == 1

/-- the pending piggy-back opportunity a response can use -/
def findPiggy (s : State) (remote : Remote) (token : Token) (m : OutMsg) : Option Piggy :=
  if isResponse m.code then s.piggy.find? (fun p => p.remote == remote && p.token == token) else none

def dropPiggy (s : State) (remote : Remote) (token : Token) : State :=
  { s with piggy := s.piggy.filter (fun p => !(p.remote == remote && p.token == token)) }

/-- the message type `send_message` settles on when no ACK is being piggy-backed -/
def chooseType (s : State) (mc wasNon : Bool) (m : OutMsg) : MType :=
  match m.mtype with
  | none =>
    if s.shutMsg then .non
    else if mc then .non
    else match m.reliability with
      | some true => .con
      | some false => .non
      | none => if wasNon then .non else .con
  | some t => if s.shutMsg then .non else t

/-- last stage of `send_message`: the message has its type and id; CONs to a busy remote wait -/
def dispatchOut (s : State) (remote : Remote) (w : Wire) (mon : Monitor) (maxRetr : Nat) :
    State × List Out :=
  if w.mtype == .con && hasBacklog s remote then
    ({ s with backlogs := appendBacklog s.backlogs remote ⟨w, mon, maxRetr⟩ }, [])
  else sendInitially s remote w mon maxRetr

def takeMid (s : State) : Nat × State := (s.nextMid, { s with nextMid := (s.nextMid + 1) % 65536 })

/-- `send_message`; `wasNon` is `message.request.mtype is NON` (false when there is no request) -/
def sendMessage (s : State) (remote : Remote) (mc : Bool) (token : Token) (m : OutMsg)
    (wasNon : Bool) (mon : Monitor) : State × List Out × SendRes :=
  match findPiggy s remote token m with
  | some p =>
    let s1 := dropPiggy s remote token
    if suppressed m then
      -- turned into an empty ACK
      let (s2, o) := sendInitially s1 remote
        { mtype := .ack, code := 0, mid := p.mid, token := [], obs := none, body := 0 } mon m.maxRetr
      (s2, o, .sent)
    else
      let (s2, o) := dispatchOut s1 remote
        { mtype := .ack, code := m.code, mid := p.mid, token, obs := m.obs, body := m.body } mon m.maxRetr
      (s2, o, .sent)
  | none =>
    if suppressed m then (s, [], .suppressed) else
    let mtype := chooseType s mc wasNon m
    if mtype == .con && mc then (s, [], .conToMulticast) else
    let (mid, s1) := takeMid s
    let (s2, o) := dispatchOut s1 remote
      { mtype, code := m.code, mid, token, obs := m.obs, body := m.body } mon m.maxRetr
    (s2, o, .sent)

/-- `_send_empty_ack` / the RSTs of `_process_ping` and unknown responses -/
def sendBare (s : State) (remote : Remote) (t : MType) (mid : Nat) : State × List Out :=
  sendInitially s remote { mtype := t, code := 0, mid, token := [], obs := none, body := 0 } .none 0

-- token manager ---------------------------------------------------------------------------

def dropOutgoing (s : State) (r : Nat) : State :=
  { s with outgoing := s.outgoing.filter (fun x => x.req != r) }

def dropIncoming (s : State) (sv : Nat) : State :=
  { s with incoming := s.incoming.filter (fun x => x.srv != sv) }

/-- calling a monitor / stopper -/
def runMonitor (s : State) (mon : Monitor) : State × List Out :=
  match mon with
  | .req r =>
    -- `request.add_exception(MessageError)`: the pipe ends, its interest-end hook pops the entry
    if s.outgoing.any (fun o => o.req == r) then
      (dropOutgoing s r, [.fail r .messageError])
    else (s, [])
  | .srv sv =>
    if s.incoming.any (fun i => i.srv == sv) then
      (dropIncoming s sv, [.stop sv])
    else (s, [])
  | .none => (s, [])

/-- `TokenManager.dispatch_error`: fail the requests to and stop the requests from `remote` -/
-- (An error for a *multicast destination address* ends the requests sent to it as well — the code
-- compares the request message's own remote, tokenmanager.py:97-102 — ; multicast requests carry
-- `remote := none` here, that case is `out-of-model` in the driver.)
def tokenDispatchError (s : State) (remote : Remote) (kind : ErrKind) : State × List Out :=
  if s.shutTok then (s, []) else
  let failed := s.outgoing.filter (fun o => o.remote == some remote)
  let stopped := s.incoming.filter (fun i => i.remote == remote)
  ({ s with outgoing := s.outgoing.filter (fun o => !(o.remote == some remote)),
            incoming := s.incoming.filter (fun i => !(i.remote == remote)) },
   failed.map (fun o => Out.fail o.req kind) ++ stopped.map (fun i => Out.stop i.srv))

/-- `process_response`; returns whether the response was expected -/
def processResponse (s : State) (remote : Remote) (w : Wire) : State × List Out × Bool :=
  let hit := match s.outgoing.find? (fun o => o.token == w.token && o.remote == some remote) with
    | some o => some o
    | none => s.outgoing.find? (fun o => o.token == w.token && o.remote == none)
  match hit with
  | none => (s, [], false)
  | some o =>
    -- `tokenmanager.py:208-212`: only a successful response with Observe option to a request that
    -- asked to observe is a notification (RFC 7641 §4.2: non-2.xx responses carry no Observe)
    let final := !(o.observing && w.obs.isSome && isSuccessful w.code)
    let s1 := if final then dropOutgoing s o.req else s
    (s1, [.response o.req w final], true)

/-- `process_request` -/
def tokenProcessRequest (s : State) (remote : Remote) (w : Wire) : State × List Out :=
  let old := s.incoming.find? (fun i => i.token == w.token && i.remote == remote)
  let (s1, o1) : State × List Out := match old with
    | some i => (dropIncoming s i.srv, [.stop i.srv])
    | none => (s, [])
  let sv := s1.nextSrv
  ({ s1 with nextSrv := sv + 1,
             incoming := s1.incoming ++ [{ token := w.token, remote, srv := sv,
                                           wasNon := w.mtype == .non }] },
   o1 ++ [.deliver sv remote w])

-- message manager, incoming ---------------------------------------------------------------

def setBacklog (bl : List (Remote × List Queued)) (remote : Remote) (l : List Queued) :
    List (Remote × List Queued) :=
  bl.map fun b => if b.1 == remote then (b.1, l) else b

/-- the loop of `_continue_backlog` over the queue `l` of `remote` (no exchange with `remote` is
active): send the head; stop as soon as that opened an exchange (always, for a CON); when the
queue runs empty, drop the backlog key. -/
def drainBacklog (s : State) (remote : Remote) : List Queued → State × List Out
  | [] => ({ s with backlogs := s.backlogs.filter (fun b => !(b.1 == remote)) }, [])
  | qd :: rest =>
    let s1 := { s with backlogs := setBacklog s.backlogs remote rest }
    let (s2, o) := sendInitially s1 remote qd.msg qd.monitor qd.maxRetr
    if qd.msg.mtype == .con then (s2, o)
    else
      let (s3, o') := drainBacklog s2 remote rest
      (s3, o ++ o')

/-- `_continue_backlog` -/
def continueBacklog (s : State) (remote : Remote) : State × List Out :=
  if hasExchange s remote then (s, []) else
  match s.backlogs.find? (fun b => b.1 == remote) with
  | none => (s, [])
  | some (_, l) => drainBacklog s remote l

def findExchange (s : State) (remote : Remote) (mid : Nat) : Option Exchange :=
  s.exchanges.find? (fun e => e.remote == remote && e.msg.mid == mid)

def dropExchange (s : State) (remote : Remote) (mid : Nat) : State :=
  { s with exchanges := s.exchanges.filter (fun x => !(x.remote == remote && x.msg.mid == mid)) }

def dropBacklog (s : State) (remote : Remote) : State :=
  { s with backlogs := s.backlogs.filter (fun b => !(b.1 == remote)) }

/-- `_remove_exchange` -/
def removeExchange (s : State) (remote : Remote) (w : Wire) : State × List Out :=
  match findExchange s remote w.mid with
  | none => (s, [])
  | some e =>
    let s1 := dropExchange s remote w.mid
    let (s2, o) := if w.mtype == .rst then runMonitor s1 e.monitor else (s1, [])
    let (s3, o') := continueBacklog s2 remote
    (s3, o ++ o')

/-- the `on_timeout` of `_process_request`; also what `_process_request` does to the opportunity of
an earlier request on the same token: the empty ACK goes out at once -/
def fireEmptyAck (s : State) (remote : Remote) (token : Token) : State × List Out :=
  match s.piggy.find? (fun p => p.remote == remote && p.token == token) with
  | none => (s, [])
  | some p => sendBare (dropPiggy s remote token) remote .ack p.mid

/-- `_process_request`: a request of either type on a token whose earlier CON request is not yet
acknowledged flushes that opportunity (empty ACK under the old message ID); a CON request then
opens its own -/
def processRequest (s : State) (remote : Remote) (w : Wire) : State × List Out :=
  let (s0, o0) := fireEmptyAck s remote w.token
  let s1 := if w.mtype == .con then
      { s0 with piggy := s0.piggy ++ [{ remote, token := w.token, mid := w.mid,
                                        fireAt := s0.now + s0.cfg.emptyAckDelay }] }
    else s0
  let (s2, o2) := tokenProcessRequest s1 remote w
  (s2, o0 ++ o2)

/-- is the message subject to deduplication: a request code on a CON or NON -/
def dedupable (w : Wire) : Bool := isRequest w.code && (w.mtype == .con || w.mtype == .non)

/-- does the code fit the type of an ACK or RST (RFC 7252 table 1): empty, or a response on an ACK -/
def fitsReply (w : Wire) : Bool :=
  ((w.mtype == .ack || w.mtype == .rst) && w.code == 0) || (w.mtype == .ack && isResponse w.code)

/-- is this request a duplicate (`_deduplicate_message` finds its key)? -/
def isDup (s : State) (remote : Remote) (w : Wire) : Bool :=
  dedupable w && s.recent.any (fun r => r.remote == remote && r.mid == w.mid)

/-- the stored reply for `(remote, mid)`, if any -/
def storedReply (s : State) (remote : Remote) (mid : Nat) : Option Wire :=
  (s.recent.find? (fun r => r.remote == remote && r.mid == mid)).bind (·.reply)

/-- `_deduplicate_message` on a duplicate: repeat the stored reply to a CON, else nothing -/
def recvDup (s : State) (remote : Remote) (w : Wire) : State × List Out :=
  if w.mtype == .con then
    match storedReply s remote w.mid with
    | some reply => sendInitially s remote reply .none 0
    | none => (s, [])
  else (s, [])

/-- the code/type table of `dispatch_message` (after deduplication and exchange removal) -/
def recvCode (s : State) (remote : Remote) (mcLocal : Bool) (w : Wire) : State × List Out :=
  if w.code == 0 && w.mtype == .con then sendBare s remote .rst w.mid
  else if w.code == 0 && (w.mtype == .ack || w.mtype == .rst) then (s, [])
  else if isRequest w.code && (w.mtype == .con || w.mtype == .non) then processRequest s remote w
  else if isResponse w.code && (w.mtype == .con || w.mtype == .non || w.mtype == .ack) then
    let (s2, o, ok) := processResponse s remote w
    if ok then
      if w.mtype == .con then
        let (s3, o') := sendBare s2 remote .ack w.mid
        (s3, o ++ o')
      else (s2, o)
    else if w.mtype == .con && !mcLocal then sendBare s2 remote .rst w.mid
    else (s2, o)
  else (s, [])

/-- `dispatch_message` -/
def recv (s : State) (remote : Remote) (mcLocal : Bool) (w : Wire) : State × List Out :=
  if isDup s remote w then recvDup s remote w else
  let s0 := if dedupable w then
      { s with recent := s.recent ++ [{ remote, mid := w.mid, reply := none,
                                        expiry := s.now + s.cfg.exchangeLifetime }] }
    else s
  let (s1, o1) := if fitsReply w then removeExchange s0 remote w else (s0, [])
  let (s2, o2) := recvCode s1 remote mcLocal w
  (s2, o1 ++ o2)

/-- `MessageManager.dispatch_error` -/
def dispatchError (s : State) (remote : Remote) : State × List Out :=
  if s.shutMsg then (s, []) else
  let (s1, o) := tokenDispatchError s remote .networkError
  (dropBacklog { s1 with exchanges := s1.exchanges.filter (fun e => !(e.remote == remote)) } remote, o)

-- timers ----------------------------------------------------------------------------------

/-- the exchange after one more retransmission at `now` -/
def Exchange.next (e : Exchange) (now : Nat) : Exchange :=
  { e with counter := e.counter + 1, timeout := e.timeout * 2, fireAt := now + e.timeout * 2 }

/-- `_retransmit` -/
def fireRetransmit (s : State) (remote : Remote) (mid : Nat) : State × List Out :=
  match findExchange s remote mid with
  | none => (s, [])
  | some e =>
    let s1 := dropExchange s remote mid
    if e.counter < e.maxRetr then
      ({ s1 with exchanges := s1.exchanges ++ [e.next s.now] }, [.send s.now remote e.msg])
    else
      tokenDispatchError (dropBacklog s1 remote) remote .conRetransmitsExceeded

def fireExpire (s : State) (remote : Remote) (mid : Nat) : State × List Out :=
  ({ s with recent := s.recent.filter (fun r => !(r.remote == remote && r.mid == mid)) }, [])

-- application side ------------------------------------------------------------------------

/-- the token `next_token` hands out in state `s` -/
def nextToken (s : State) : Token := tokenOf ((s.tokenCtr + 1) % 2 ^ 64)

/-- `next_token` + registration in `outgoing_requests` -/
def registerOutgoing (s : State) (r : Nat) (remote : Remote) (mc observing : Bool) : State :=
  { s with tokenCtr := (s.tokenCtr + 1) % 2 ^ 64, issued := s.issued + 1,
           outgoing := s.outgoing ++ [{ token := nextToken s, remote := if mc then none else some remote,
                                        req := r, observing, idx := s.issued }] }

/-- `TokenManager.request` -/
def submit (s : State) (r : Nat) (remote : Remote) (mc : Bool) (observing : Bool) (m : OutMsg) :
    State × List Out :=
  if s.shutTok then (s, [.fail r .libraryShutdown]) else
  let s1 := registerOutgoing s r remote mc observing
  let (s2, o, res) := sendMessage s1 remote mc (nextToken s) m false (.req r)
  match res with
  | .conToMulticast => (dropOutgoing s2 r, o ++ [.fail r .conToMulticast])
  | _ => (s2, o)

/-- a response event on the pipe of incoming request `srv` -/
def respond (s : State) (sv : Nat) (m : OutMsg) (isLast : Bool) : State × List Out :=
  match s.incoming.find? (fun i => i.srv == sv) with
  | none => (s, [])        -- the pipe has ended; the event is discarded
  | some i =>
    let (s1, o, _) := sendMessage s i.remote false i.token m i.wasNon (.srv sv)
    if isLast then (dropIncoming s1 sv, o)
    else (s1, o)

def appCancel (s : State) (r : Nat) : State × List Out := (dropOutgoing s r, [])

/-- `Context.shutdown`: token manager first, then message manager -/
def shutdown (s : State) : State × List Out :=
  if s.shutTok then (s, []) else
  let o := s.incoming.map (fun i => Out.stop i.srv) ++
           s.outgoing.map (fun x => Out.fail x.req .libraryShutdown)
  ({ s with incoming := [], outgoing := [], shutTok := true, shutMsg := true,
            exchanges := [], backlogs := [], piggy := [] }, o)

def handle (s : State) : Ev → State × List Out
  | .submit r remote mc observing m => submit s r remote mc observing m
  | .recv remote mcLocal w => if s.shutMsg then (s, []) else recv s remote mcLocal w
  | .respond sv m isLast => respond s sv m isLast
  | .appCancel r => appCancel s r
  | .error remote => dispatchError s remote
  | .fireRetransmit remote mid => fireRetransmit s remote mid
  | .fireEmptyAck remote token => fireEmptyAck s remote token
  | .fireExpire remote mid => fireExpire s remote mid
  | .shutdown => shutdown s

def setNow (s : State) (t : Nat) : State := { s with now := t }

def step (s : State) (e : TEv) : State × List Out :=
  handle (setNow s e.time) e.ev

def run (s : State) : List TEv → State × List Out
  | [] => (s, [])
  | e :: es =>
    let (s1, o) := step s e
    let (s2, o') := run s1 es
    (s2, o ++ o')

-- the event loop's view of pending timers -------------------------------------------------

inductive Timer
  | retransmit (remote : Remote) (mid : Nat)
  | emptyAck (remote : Remote) (token : Token)
  | expire (remote : Remote) (mid : Nat)
deriving DecidableEq, Repr

def timers (s : State) : List (Nat × Timer) :=
  s.exchanges.map (fun e => (e.fireAt, Timer.retransmit e.remote e.msg.mid)) ++
  s.piggy.map (fun p => (p.fireAt, Timer.emptyAck p.remote p.token)) ++
  s.recent.map (fun r => (r.expiry, Timer.expire r.remote r.mid))

def Timer.toEv : Timer → Ev
  | .retransmit r m => .fireRetransmit r m
  | .emptyAck r t => .fireEmptyAck r t
  | .expire r m => .fireExpire r m

/-- earliest pending timer with deadline `< bound` (first in table order among equals) -/
def earliestBefore (s : State) (bound : Nat) : Option (Nat × Timer) :=
  (timers s).foldl (fun acc t =>
    if t.1 < bound then
      match acc with
      | none => some t
      | some a => if t.1 < a.1 then some t else some a
    else acc) none

/-- what asyncio does between two external events: fire the timers due before `bound`, earliest
first.  Returns the fired events (with their times) as well. -/
def advance (fuel : Nat) (s : State) (bound : Nat) : State × List Out × List TEv :=
  match fuel with
  | 0 => (s, [], [])
  | fuel + 1 =>
    match earliestBefore s bound with
    | none => (s, [], [])
    | some (t, tm) =>
      let e : TEv := { time := t, ev := tm.toEv }
      let (s1, o) := step s e
      let (s2, o', es) := advance fuel s1 bound
      (s2, o ++ o', e :: es)

/-- number of pending timers due exactly at `t` (a tie the harness refuses to compare) -/
def tiesAt (s : State) (t : Nat) : Nat := ((timers s).filter (fun x => x.1 == t)).length

end Aiocoap.MsgLayer
