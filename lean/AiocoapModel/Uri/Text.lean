import AiocoapModel.Basic.Bytes
/-!
# Text primitives for the URI model (C16)

All text is a byte list (`Bytes = List Nat`): the UTF-8 encoding of the Python `str` the
implementation handles.  Every delimiter the URI code looks at is ASCII and UTF-8 never uses
an ASCII byte inside a multi-byte sequence, so `str.split("/")`, `str.partition(":")`,
`str.lower()` on ASCII letters … act on the UTF-8 bytes exactly as on the code points.

This file restates the handful of `str` methods used by `aiocoap/message.py`,
`aiocoap/util/__init__.py` and `urllib.parse` (`partition`, `rpartition`, `split`, `join`,
`lower`, `%d`, `int()`), as small structural recursions that are easy to reason about.
-/
namespace Aiocoap.Uri

-- character classes (ASCII codes) --------------------------------------------------------

def isDigit (c : Nat) : Bool := 48 ≤ c && c ≤ 57
def isUpper (c : Nat) : Bool := 65 ≤ c && c ≤ 90
def isLower (c : Nat) : Bool := 97 ≤ c && c ≤ 122
def isAlpha (c : Nat) : Bool := isUpper c || isLower c
/-- `string.hexdigits` -/
def isHex (c : Nat) : Bool := isDigit c || (65 ≤ c && c ≤ 70) || (97 ≤ c && c ≤ 102)

/-- RFC 3986 `unreserved` (`aiocoap/util/uri.py:10`): letters, digits, `-._~` -/
def isUnreserved (c : Nat) : Bool :=
  isAlpha c || isDigit c || c == 45 || c == 46 || c == 95 || c == 126

/-- RFC 3986 `sub-delims` (`aiocoap/util/uri.py:13`): ``!$&'()*+,;=`` -/
def isSubDelim (c : Nat) : Bool :=
  c == 33 || c == 36 || c == 38 || c == 39 || c == 40 || c == 41 || c == 42 || c == 43 ||
  c == 44 || c == 59 || c == 61

/-- `str.translate(_ascii_lowercase)` on one character (`message.py:877`) -/
def lowerChar (c : Nat) : Nat := if isUpper c then c + 32 else c

def asciiLower (s : Bytes) : Bytes := s.map lowerChar

-- partition / rpartition ------------------------------------------------------------------

/-- the text before the first character satisfying `p` (everything if there is none) -/
def takeUntil (p : Nat → Bool) : Bytes → Bytes
  | [] => []
  | x :: r => if p x then [] else x :: takeUntil p r

/-- the text from the first character satisfying `p` on, that character included -/
def dropUntil (p : Nat → Bool) : Bytes → Bytes
  | [] => []
  | x :: r => if p x then x :: r else dropUntil p r

/-- `s.partition(c)[0]` -/
def before (c : Nat) (s : Bytes) : Bytes := takeUntil (· == c) s

/-- `s.partition(c)[2]` (empty when `c` does not occur) -/
def after (c : Nat) (s : Bytes) : Bytes := (dropUntil (· == c) s).drop 1

/-- `s.rpartition(c)[2]`: the text after the last `c`, the whole text when `c` does not occur -/
def afterLast (c : Nat) : Bytes → Bytes
  | [] => []
  | x :: r => if r.contains c then afterLast c r else if x == c then r else x :: r

/-- `s.rpartition(c)[0]`: the text before the last `c` (empty when `c` does not occur) -/
def beforeLast (c : Nat) : Bytes → Bytes
  | [] => []
  | x :: r => if r.contains c then x :: beforeLast c r else []

-- split / join ----------------------------------------------------------------------------

/-- `s.split(c)` for a one-character separator: never empty, `"".split(c) == [""]` -/
def splitOn (c : Nat) : Bytes → List Bytes
  | [] => [[]]
  | x :: r =>
    if x == c then [] :: splitOn c r
    else match splitOn c r with
      | h :: t => (x :: h) :: t
      | [] => [[x]]

/-- `c.join(parts)` -/
def joinWith (c : Nat) : List Bytes → Bytes
  | [] => []
  | [s] => s
  | s :: t => s ++ c :: joinWith c t

-- decimal numbers -------------------------------------------------------------------------

/-- `"%d" % n` -/
def natToDec (n : Nat) : Bytes :=
  if n < 10 then [48 + n] else natToDec (n / 10) ++ [48 + n % 10]
decreasing_by omega

/-- `int(s)` for a string of ASCII digits (leading zeros allowed, as in Python) -/
def decToNat (s : Bytes) : Nat := s.foldl (fun a d => a * 10 + (d - 48)) 0

/-- `s.isdigit() and s.isascii()`; at byte level a non-ASCII digit is a sequence of bytes
≥ 128, none of which is an ASCII digit -/
def allDigits (s : Bytes) : Bool := s.all isDigit

def startsWith (s pre : Bytes) : Bool := pre.isPrefixOf s

end Aiocoap.Uri
