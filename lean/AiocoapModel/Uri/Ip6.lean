import AiocoapModel.Uri.HostPort
/-!
# A concrete `IpOracle`: `str(ipaddress.IPv6Address(text))` (C16)

Restatement of CPython 3.12 `ipaddress.IPv6Address.__init__` / `_ip_int_from_string` /
`_string_from_ip_int` / `_compress_hextets` (RFC 4291 text forms incl. an embedded IPv4 tail
and a `%zone` suffix, RFC 5952 output).  It is what the *driver* plugs into the model; no
theorem depends on it (the property theorems hold for every oracle satisfying `IpLaws`), and
it is compared with the `ipaddress` module by the correspondence check.
-/
namespace Aiocoap.Uri

/-- `'%x' % n` -/
def natToHexLower (n : Nat) : Bytes :=
  let d := fun k => if k < 10 then 48 + k else 87 + k
  if n < 16 then [d n] else natToHexLower (n / 16) ++ [d (n % 16)]
decreasing_by omega

/-- `_parse_hextet` -/
def parseHextet (s : Bytes) : Option Nat :=
  if s = [] ∨ s.length > 4 ∨ !s.all isHex then none
  else some (s.foldl (fun a c => a * 16 + (hexValN c).getD 0) 0)

def parseHextets : List Bytes → Option (List Nat)
  | [] => some []
  | s :: t =>
    match parseHextet s, parseHextets t with
    | some a, some b => some (a :: b)
    | _, _ => none

/-- value of a strictly written IPv4 address (`IPv4Address(text)._ip`) -/
def ip4Value (h : Bytes) : Option Nat :=
  if ip4Strict h then some ((splitOn 46 h).foldl (fun a x => a * 256 + decToNat x) 0) else none

/-- indices `1 ≤ i < len-1` whose part is empty -/
def emptyMiddle (parts : List Bytes) : List Nat :=
  (List.range parts.length).filter (fun i =>
    1 ≤ i && i + 1 < parts.length && parts.getD i [1] == [])

/-- `_ip_int_from_string`, result as the eight 16-bit groups -/
def ip6Groups (addr : Bytes) : Option (List Nat) :=
  if addr = [] then none else
  let parts := splitOn 58 addr
  if parts.length < 3 then none else
  let parts? : Option (List Bytes) :=
    if (parts.getLast?.getD []).contains 46 then
      match ip4Value (parts.getLast?.getD []) with
      | some v => some (parts.dropLast ++
          [natToHexLower (v / 65536 % 65536), natToHexLower (v % 65536)])
      | none => none
    else some parts
  match parts? with
  | none => none
  | some parts =>
    if parts.length > 9 then none else
    let n := parts.length
    let first := parts.head?.getD []
    let last := parts.getLast?.getD []
    match emptyMiddle parts with
    | [] =>
      if n ≠ 8 ∨ first = [] ∨ last = [] then none else parseHextets parts
    | [i] =>
      let hi := i
      let lo := n - i - 1
      if first = [] ∧ hi ≠ 1 then none else
      if last = [] ∧ lo ≠ 1 then none else
      let hi := if first = [] then 0 else hi
      let lo := if last = [] then 0 else lo
      if hi + lo ≥ 8 then none else
      match parseHextets (parts.take hi), parseHextets (parts.drop (n - lo)) with
      | some a, some b => some (a ++ List.replicate (8 - (hi + lo)) 0 ++ b)
      | _, _ => none
    | _ => none

/-- longest run of zero groups, first one on ties: (start, length) -/
def bestZeroRun (g : List Nat) : Nat × Nat :=
  let rec go (g : List Nat) (idx curStart curLen bestStart bestLen : Nat) : Nat × Nat :=
    match g with
    | [] => (bestStart, bestLen)
    | x :: r =>
      if x = 0 then
        let curStart := if curLen = 0 then idx else curStart
        let curLen := curLen + 1
        if curLen > bestLen then go r (idx + 1) curStart curLen curStart curLen
        else go r (idx + 1) curStart curLen bestStart bestLen
      else go r (idx + 1) 0 0 bestStart bestLen
  go g 0 0 0 0 0

/-- `_string_from_ip_int` -/
def ip6Format (g : List Nat) : Bytes :=
  let hex := g.map natToHexLower
  let (start, len) := bestZeroRun g
  let parts :=
    if len > 1 then
      let stop := start + len
      (if start = 0 then [[]] else []) ++ hex.take start ++ [[]] ++
        (if stop = hex.length then [[]] else []) ++ hex.drop stop
    else hex
  joinWith 58 parts

/-- `str(ipaddress.IPv6Address(text))` -/
def norm6Impl (text : Bytes) : Option Bytes :=
  if text.contains 47 then none else
  let addr := before 37 text
  let zone := after 37 text
  if text.contains 37 ∧ (zone = [] ∨ zone.contains 37) then none else
  match ip6Groups addr with
  | none => none
  | some g => some (ip6Format g ++ (if text.contains 37 then 37 :: zone else []))

def pyIp : IpOracle := { norm6 := norm6Impl }

end Aiocoap.Uri
