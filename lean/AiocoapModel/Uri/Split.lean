import AiocoapModel.Uri.HostPort
/-!
# Splitting a URI text into its five components (C16)

`urllib.parse.urlparse` is *not* verified.  `urlsplit` below restates what CPython 3.12's
`urllib.parse.urlsplit` does with the text (RFC 3986 appendix B plus CPython's sanitising:
leading C0 controls/space stripped, TAB/CR/LF removed, scheme recognised only when it is
`ALPHA *( ALPHA / DIGIT / "+" / "-" / "." )`, netloc up to the first of `/?#`, bracket sanity
checks), so that the model can start from the *text* that `set_request_uri` receives and that
`get_request_uri` produces.  The NFKC check of non-ASCII netlocs (`_checknetloc`) is restated
as the table `nfkcDelims` (the harness compares the table with `unicodedata` over all code points
on every run).  `urlparse` adds `params`, which are only split off for
schemes in `uses_params`; the CoAP schemes are not, so `params = ""` throughout.

Nothing in `urlsplit` itself applies a Unicode-wide `str` predicate to the text: the C0/space
strip and TAB/CR/LF removal name their characters, the scheme test is `isascii() and isalpha()`
plus membership in the ASCII `scheme_chars`, `.lower()` is applied to an all-ASCII scheme only.
(`SplitResult.hostname` does call `str.lower()` on the host: see `Uri/HostPort.lean`.)
-/
namespace Aiocoap.Uri

structure Parsed where
  scheme : Bytes
  netloc : Bytes
  path : Bytes
  query : Bytes
  fragment : Bytes
deriving DecidableEq, Repr

/-- `_WHATWG_C0_CONTROL_OR_SPACE` -/
def isC0Space (c : Nat) : Bool := c ≤ 32

/-- `_UNSAFE_URL_BYTES_TO_REMOVE` = TAB, CR, LF -/
def isUnsafeWs (c : Nat) : Bool := c == 9 || c == 10 || c == 13

/-- `scheme_chars` -/
def isSchemeChar (c : Nat) : Bool := isAlpha c || isDigit c || c == 43 || c == 45 || c == 46

def isNetlocDelim (c : Nat) : Bool := c == 47 || c == 63 || c == 35

/-- `url.lstrip(C0 ∪ space)` then removal of TAB/CR/LF -/
def sanitise (u : Bytes) : Bytes := (u.dropWhile isC0Space).filter (fun c => !isUnsafeWs c)

/-- scheme recognition: `i = url.find(':'); if i > 0 and url[0] is an ASCII letter and all of
url[:i] are scheme characters: scheme, url = url[:i].lower(), url[i+1:]` -/
def schemeOk (u : Bytes) : Bool :=
  u.contains 58 && (match before 58 u with | c :: _ => isAlpha c | [] => false) &&
    (before 58 u).all isSchemeChar

def splitScheme (u : Bytes) : Bytes × Bytes :=
  if schemeOk u then (asciiLower (before 58 u), after 58 u) else ([], u)

/-- `_check_bracketed_host`'s regular expression `\Av[a-fA-F0-9]+\..+\Z` (after the `v`) -/
def vFutureOk (afterV : Bytes) : Bool :=
  let hex := takeUntil (fun c => !isHex c) afterV
  let rest := dropUntil (fun c => !isHex c) afterV
  hex != [] && (match rest with | 46 :: _ :: _ => true | _ => false)

/-- `_check_bracketed_host(hostname)` does not raise -/
def bracketedOk (ip : IpOracle) (h : Bytes) : Bool :=
  match h with
  | 118 :: t => vFutureOk t
  | _ => (ip.norm6 h).isSome

/-- the bracket sanity checks of `urlsplit` do not raise -/
def bracketsOk (ip : IpOracle) (netloc : Bytes) : Bool :=
  if netloc.contains 91 != netloc.contains 93 then false
  else if netloc.contains 91 then bracketedOk ip (before 93 (after 91 netloc))
  else true

/-- `pat` occurs in `s` as a contiguous run -/
def hasInfix (pat : Bytes) : Bytes → Bool
  | [] => pat.isEmpty
  | x :: r => pat.isPrefixOf (x :: r) || hasInfix pat r

/-- UTF-8 encodings of the code points whose NFKC form contains one of `/ ? # @ :` (Unicode
15.0, the `unicodedata` of CPython 3.12): U+2047 U+2048 U+2049 (`??` `?!` `!?`), U+2100 U+2101
U+2105 U+2106 (`a/c` `a/s` `c/o` `c/u`), U+2A74 (`::=`), U+FE13 U+FE16 U+FE55 U+FE56 U+FE5F U+FE6B
(vertical / small forms of `: ? : ? # @`), U+FF03 U+FF0F U+FF1A U+FF1F U+FF20 (fullwidth
`# / : ? @`).  None of the five ASCII characters combines with a following mark under NFC, so
"`c in NFKC(n)`" is "some character of `n` is in this table". -/
def nfkcDelims : List Bytes :=
  [[226,129,135], [226,129,136], [226,129,137], [226,132,128], [226,132,129], [226,132,133],
   [226,132,134], [226,169,180], [239,184,147], [239,184,150], [239,185,149], [239,185,150],
   [239,185,159], [239,185,171], [239,188,131], [239,188,143], [239,188,154], [239,188,159],
   [239,188,160]]

/-- `_checknetloc(netloc)` raises: the netloc is not ASCII and, with its own `@ : # ?` set aside,
its NFKC form contains one of `/ ? # @ :` (UTF-8 is self-synchronising: a character occurs in the
text iff its encoding occurs in the bytes) -/
def nfkcBad (netloc : Bytes) : Bool :=
  netloc.any (fun c => 128 ≤ c) && nfkcDelims.any (fun d => hasInfix d netloc)

/-- scheme, netloc and the remaining text (`_splitnetloc(url, 2)` when it starts with `//`) -/
def splitAuthority (u : Bytes) : Bytes × Bytes × Bytes :=
  let sr := splitScheme (sanitise u)
  match sr.2 with
  | 47 :: 47 :: body => (sr.1, takeUntil isNetlocDelim body, dropUntil isNetlocDelim body)
  | rest => (sr.1, [], rest)

/-- `urllib.parse.urlsplit(u)`; `none` = `ValueError` -/
def urlsplit (ip : IpOracle) (u : Bytes) : Option Parsed :=
  let a := splitAuthority u
  if !bracketsOk ip a.2.1 then none else
  if nfkcBad a.2.1 then none else
  some { scheme := a.1, netloc := a.2.1,
         path := before 63 (before 35 a.2.2),
         query := after 63 (before 35 a.2.2),
         fragment := after 35 a.2.2 }

end Aiocoap.Uri
