import AiocoapModel.Uri.Split
/-!
# `Message.set_request_uri` — RFC 7252 §6.4 (C16)

Model of `aiocoap/message.py` `set_request_uri` (default `set_uri_host=True`) *after* the
`fix:` commits of this property (port checked before the remote is built and an invalid
IP literal wrapped into `MalformedUrlError`; the IPv4 test no longer calls `int("")` and wants
RFC 3986 dec-octets; empty user info; a bracketed literal must be the complete host and its
zone identifier unreserved; a `#` anywhere in the text is a fragment identifier, also an empty
one; the Uri-Host is taken from the netloc text and lower-cased in ASCII only, not from
`.hostname`; see findings/C16.json), and of `UndecidedRemote.__new__`
(`message.py`, "class UndecidedRemote").

What a successful call leaves behind is `Opts`: `remote.scheme`, `remote.hostinfo`,
`opt.uri_host`, `opt.uri_path`, `opt.uri_query` (`opt.uri_port` is never set by it: the port
stays with the destination).
-/
namespace Aiocoap.Uri

structure Opts where
  scheme : Bytes            -- remote.scheme
  hostinfo : Bytes          -- remote.hostinfo
  uriHost : Option Bytes    -- opt.uri_host
  uriPort : Option Nat      -- opt.uri_port (read by get_request_uri only)
  path : List Bytes         -- opt.uri_path
  query : List Bytes        -- opt.uri_query
deriving DecidableEq, Repr

inductive Outcome
  | ok (o : Opts)
  | proxy                   -- not a CoAP scheme: the text goes into Proxy-Uri
  | incomplete              -- IncompleteUrlError
  | malformed               -- MalformedUrlError
deriving DecidableEq, Repr

/-- `coap_schemes` (`message.py:37`) -/
def coapSchemes : List Bytes :=
  [[99,111,97,112], [99,111,97,112,115], [99,111,97,112,43,116,99,112],
   [99,111,97,112,115,43,116,99,112], [99,111,97,112,43,119,115], [99,111,97,112,115,43,119,115]]

/-- `parsed.path` → Uri-Path values -/
def decodePath (p : Bytes) : Option (List Bytes) :=
  if p = [] ∨ p = [47] then some [] else decodeSegs ((splitOn 47 p).drop 1)

/-- `parsed.query` → Uri-Query values -/
def decodeQuery (q : Bytes) : Option (List Bytes) :=
  if q = [] then some [] else decodeSegs (splitOn 38 q)

/-- `UndecidedRemote(scheme, netloc).hostinfo`; `none` = `ValueError` (wrapped into
`MalformedUrlError` by the fixed `set_request_uri`) -/
def undecidedHostinfo (ip : IpOracle) (netloc : Bytes) : Option Bytes :=
  if netloc.contains 91 then
    match hostportsplit netloc with
    | some (some host, port) =>
      match ipNormAny ip host with
      | some y => some (hostportjoin y port)
      | none => none
    | _ => none
  else some netloc

/-- the part of `set_request_uri` after `urlparse` and the fragment test -/
def fromParsed (ip : IpOracle) (p : Parsed) : Outcome :=
  if p.scheme = [] then .incomplete else
  if !coapSchemes.contains p.scheme then .proxy else
  match hostnameOf p.netloc with
  | none => .malformed
  | some hn =>
    if hasUserinfo p.netloc then .malformed else
    if !literalOk p.netloc then .malformed else
    match decodePath p.path, decodeQuery p.query with
    | some path, some query =>
      match portOf p.netloc with
      | none => .malformed
      | some _ =>
        match undecidedHostinfo ip p.netloc with
        | none => .malformed
        | some hostinfo =>
          if p.netloc.head? == some 91 || ip4Looking hn then
            .ok { scheme := p.scheme, hostinfo, uriHost := none, uriPort := none, path, query }
          else
            -- `host = parsed.netloc.partition(":")[0]` (not `parsed.hostname`, since the fix
            -- that lower-cases in ASCII only; no user info and no bracket at this point)
            match unquoteStrict (before 58 p.netloc) with
            | none => .malformed
            | some h =>
              .ok { scheme := p.scheme, hostinfo, uriHost := some (asciiLower h),
                    uriPort := none, path, query }
    | _, _ => .malformed

/-- `Message.set_request_uri(u)`: `urlparse` (`ValueError` → Malformed), then `if "#" in uri`
(since the fix that rejects the empty fragment of `coap://h/a#` too: `parsed.fragment` is empty
for it), then the rest -/
def setRequestUri (ip : IpOracle) (u : Bytes) : Outcome :=
  match urlsplit ip u with
  | none => .malformed
  | some p => if u.contains 35 then .malformed else fromParsed ip p

end Aiocoap.Uri
