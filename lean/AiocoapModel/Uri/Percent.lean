import AiocoapModel.Uri.Text
/-!
# Percent-encoding at byte level (C16)

* `quote safe s`   — `aiocoap/util/uri.py:16-27` `quote_factory(safe)(s)`: the UTF-8 bytes of
  the string, each byte either kept (when in the safe set) or written `%XX` (upper-case hex).
* `pathSafe`, `querySafe`, `regNameSafe` — the three safe sets of `aiocoap/message.py`
  (`_quote_for_path`, `_quote_for_query`, `_quote_for_reg_name`).
* `unquote s`      — `urllib.parse.unquote_to_bytes`: every `%` followed by two hex digits
  (either case) becomes that byte, any other `%` stays (incomplete escapes are tolerated,
  `message.py` "FIXME: This tolerates incomplete % sequences").
* `utf8Valid`      — what `bytes.decode("utf-8", "strict")` accepts (Unicode table 3-7).
* `unquoteStrict`  — `urllib.parse.unquote(s, errors="strict")`: Python decodes every
  maximal ASCII run separately; because the non-ASCII text between the runs consists of
  complete UTF-8 sequences and UTF-8 is self-synchronising, all runs decode iff the whole
  unquoted byte string is valid UTF-8.  (`urllib` itself is not modelled; this restatement is
  compared with it by the correspondence check on boundary and random byte strings.)
-/
namespace Aiocoap.Uri

/-- `"%X" % n` for one nibble -/
def hexU (n : Nat) : Nat := if n < 10 then 48 + n else 55 + n

/-- value of a hex digit given as ASCII code (both cases, as `urllib.parse._hextobyte`) -/
def hexValN (c : Nat) : Option Nat :=
  if 48 ≤ c ∧ c ≤ 57 then some (c - 48)
  else if 65 ≤ c ∧ c ≤ 70 then some (c - 55)
  else if 97 ≤ c ∧ c ≤ 102 then some (c - 87)
  else none

/-- `quote_factory(safe)(s)` on the UTF-8 bytes of `s` (`util/uri.py:23-25`) -/
def quote (safe : Nat → Bool) : Bytes → Bytes
  | [] => []
  | b :: r => (if safe b then [b] else [37, hexU (b / 16), hexU (b % 16)]) ++ quote safe r

/-- `_quote_for_path`: `unreserved + sub_delims + ":@"` (`message.py`, "_quote_for_path") -/
def pathSafe (c : Nat) : Bool := isUnreserved c || isSubDelim c || c == 58 || c == 64

/-- `_quote_for_query`: `unreserved + (sub_delims without "&") + ":@/?"` -/
def querySafe (c : Nat) : Bool :=
  isUnreserved c || (isSubDelim c && c != 38) || c == 58 || c == 64 || c == 47 || c == 63

/-- `_quote_for_reg_name`: `unreserved + sub_delims` (Uri-Host inside the authority) -/
def regNameSafe (c : Nat) : Bool := isUnreserved c || isSubDelim c

/-- `urllib.parse.unquote_to_bytes` -/
def unquote : Bytes → Bytes
  | [] => []
  | c :: r =>
    if c = 37 then
      match r with
      | a :: b :: r' =>
        match hexValN a, hexValN b with
        | some x, some y => (x * 16 + y) :: unquote r'
        | _, _ => 37 :: unquote (a :: b :: r')
      | [a] => [37, a]
      | [] => [37]
    else c :: unquote r
termination_by s => s.length
decreasing_by all_goals (simp only [List.length_cons]; omega)

def isCont (b : Nat) : Bool := 128 ≤ b && b ≤ 191

/-- well-formed UTF-8 (no overlong forms, no surrogates, nothing above U+10FFFF) -/
def utf8Valid : Bytes → Bool
  | [] => true
  | b :: r =>
    if b < 128 then utf8Valid r
    else if 194 ≤ b ∧ b ≤ 223 then
      match r with
      | c1 :: r' => isCont c1 && utf8Valid r'
      | _ => false
    else if 224 ≤ b ∧ b ≤ 239 then
      match r with
      | c1 :: c2 :: r' =>
        ((if b = 224 then 160 else 128) ≤ c1 && c1 ≤ (if b = 237 then 159 else 191))
          && isCont c2 && utf8Valid r'
      | _ => false
    else if 240 ≤ b ∧ b ≤ 244 then
      match r with
      | c1 :: c2 :: c3 :: r' =>
        ((if b = 240 then 144 else 128) ≤ c1 && c1 ≤ (if b = 244 then 143 else 191))
          && isCont c2 && isCont c3 && utf8Valid r'
      | _ => false
    else false

/-- `urllib.parse.unquote(s, errors="strict")`; `none` = `UnicodeDecodeError` -/
def unquoteStrict (s : Bytes) : Option Bytes :=
  if utf8Valid (unquote s) then some (unquote s) else none

/-- `[unquote(x, errors="strict") for x in segments]` (`message.py`, set_request_uri) -/
def decodeSegs : List Bytes → Option (List Bytes)
  | [] => some []
  | s :: t =>
    match unquoteStrict s, decodeSegs t with
    | some a, some b => some (a :: b)
    | _, _ => none

end Aiocoap.Uri
