import AiocoapModel.Uri.Percent
/-!
# Host/port strings (C16)

* `hostportjoin` — `aiocoap/util/__init__.py:98-128`.
* `hostportsplit` — `aiocoap/util/__init__.py:131-153`: it builds a
  `urllib.parse.SplitResult(None, hostport, …)` and reads `.hostname` / `.port`.  Those two
  accessors (`urllib.parse._NetlocResultMixinStr._hostinfo`, `_userinfo`, `.hostname`, `.port`)
  are restated here on the netloc text; `urllib` itself is not verified, the restatement is
  compared with it by the correspondence check.
* The abstract IP-address oracle `IpOracle` (Python's `ipaddress` module is not modelled in
  the theorems; the driver instantiates it with `Uri/Ip6.lean`).
-/
namespace Aiocoap.Uri

/-- `str(ipaddress.IPv6Address(text))`, `none` when the text is not an IPv6 address (with
optional `%zone`).  Theorems are parametric in it. -/
structure IpOracle where
  norm6 : Bytes → Option Bytes

/-- `hostportjoin(host, port)` (`util/__init__.py:120-127`) -/
def hostportjoin (host : Bytes) (port : Option Nat) : Bytes :=
  let host :=
    if host.contains 58 && !(host.head? == some 91 && host.getLast? == some 93)
    then [91] ++ host ++ [93] else host
  match port with
  | none => host
  | some p => host ++ 58 :: natToDec p

/-- `netloc.rpartition('@')[2]` — `_hostinfo`, first line -/
def hostinfoOf (netloc : Bytes) : Bytes := afterLast 64 netloc

/-- `_hostinfo[0]`: the host text, brackets removed, not yet lower-cased -/
def rawHostname (netloc : Bytes) : Bytes :=
  let hi := hostinfoOf netloc
  if hi.contains 91 then before 93 (after 91 hi) else before 58 hi

/-- `_hostinfo[1]` with `None` written as the empty text (`if not port: port = None`) -/
def rawPort (netloc : Bytes) : Bytes :=
  let hi := hostinfoOf netloc
  if hi.contains 91 then after 58 (after 93 (after 91 hi)) else after 58 hi

/-- `.hostname` lower-cases the text up to the first `%` (zone identifiers keep their case).
ASCII letters only: the real `str.lower()` also changes characters beyond ASCII (U+212A KELVIN
SIGN → `k`, U+0130 → two characters).  That is NOT restated.  It cannot be seen in
`set_request_uri` since the fix that takes the Uri-Host from the netloc text: what is left of
`.hostname` there is `not parsed.hostname` and the IPv4-literal test, and `str.lower()` never
turns a non-ASCII character into nothing, an ASCII digit or a dot (the harness checks that over
all code points on every run); `get_request_uri` reads the host of `hostportsplit(remote.hostinfo)`
only when there is no Uri-Host (with a Uri-Port option: outside the model's assumptions).
Direct calls `hostportsplit(text)` with non-ASCII text are `out-of-model` for the driver. -/
def lowerUntilPct : Bytes → Bytes
  | [] => []
  | x :: r => if x = 37 then x :: r else lowerChar x :: lowerUntilPct r

/-- `.hostname`; `none` = Python `None` (empty host) -/
def hostnameOf (netloc : Bytes) : Option Bytes :=
  let h := rawHostname netloc
  if h = [] then none else some (lowerUntilPct h)

/-- `.port`: outer `none` = `ValueError` (not ASCII digits, or > 65535), inner `none` = no port -/
def portOf (netloc : Bytes) : Option (Option Nat) :=
  let p := rawPort netloc
  if p = [] then some none
  else if allDigits p && decToNat p ≤ 65535 then some (some (decToNat p))
  else none

/-- `.username is not None or .password is not None` (`_userinfo`): there is an `@` in the
authority — an empty user info (`coap://@host/`) counts (message.py:718, since the fix that rejects
it; before, the test was for truthiness and `@host` stayed in the remote's hostinfo) -/
def hasUserinfo (netloc : Bytes) : Bool :=
  netloc.contains 64

/-- `hostportsplit(hostport)`; `none` = `ValueError` -/
def hostportsplit (hp : Bytes) : Option (Option Bytes × Option Nat) :=
  match portOf hp with
  | none => none
  | some p => some (hostnameOf hp, p)

/-- the IPv4-literal test of `set_request_uri` (`message.py`, `is_ip_literal`, after the fix that
makes dotted quads with leading zeros names): exactly three dots, only digits and dots, every
part an RFC 3986 `dec-octet` — `0 < len(x) <= 3 and (x == "0" or x[0] != "0") and int(x) <= 255` -/
def ip4Looking (h : Bytes) : Bool :=
  h.count 46 == 3 && h.all (fun c => isDigit c || c == 46) &&
    (splitOn 46 h).all (fun x => x != [] && x.length ≤ 3 && (x == [48] || x.head? != some 48) &&
      decToNat x ≤ 255)

/-- `ipaddress.IPv4Address(text)` accepts: four parts of 1–3 ASCII digits, no leading zero
unless the part is "0", value ≤ 255.  Its `str()` is the text itself. -/
def ip4Strict (h : Bytes) : Bool :=
  let parts := splitOn 46 h
  parts.length == 4 &&
    parts.all (fun x => x != [] && allDigits x && x.length ≤ 3 &&
      (x == [48] || x.head? != some 48) && decToNat x ≤ 255)

/-- `str(ipaddress.ip_address(text))` as used by `UndecidedRemote.__new__` -/
def ipNormAny (ip : IpOracle) (h : Bytes) : Option Bytes :=
  if ip4Strict h then some h else ip.norm6 h

/-- `host[1:-1] if host.startswith("[") and host.endswith("]") else host` (message.py `_quote_host`:
brackets only count in pairs) -/
def unbracket (h : Bytes) : Bytes :=
  if h.head? == some 91 && h.getLast? == some 93 then (h.drop 1).dropLast else h

/-- `_zone_is_unreserved(address)` (`message.py`): `all(c in unreserved for c in
address.partition("%")[2])` — the zone identifier, if there is one, consists of unreserved
characters only.  Used for a Uri-Host value (`_quote_host`) and for the bracketed literal of a
URI text (`set_request_uri`). -/
def zoneOk (address : Bytes) : Bool := (after 37 address).all isUnreserved

/-- the bracket test of `set_request_uri` (`message.py`, "An IP literal in brackets needs to be
the complete host"): when the authority contains a bracket at all, then with
`literal, _, port = netloc.partition("]")` the literal starts with the only `[`, the rest is empty
or starts with `:`, and the literal's zone identifier is unreserved -/
def literalOk (netloc : Bytes) : Bool :=
  if netloc.contains 91 || netloc.contains 93 then
    let literal := before 93 netloc
    let port := after 93 netloc
    literal.head? == some 91 && !(literal.drop 1).contains 91 &&
      (port.head? == none || port.head? == some 58) && zoneOk literal
  else true

end Aiocoap.Uri
