import AiocoapModel.Uri.Decompose
/-!
# `Message.get_request_uri` — RFC 7252 §6.5 (C16)

Model of `aiocoap/message.py` `get_request_uri` for a request on the client side without
Proxy-Uri / Proxy-Scheme / Uri-Path-Abbrev (those branches, responses and the multicast
override are not modelled), after the `fix:` commits that percent-encode the Uri-Host value
as a reg-name (`_quote_host`) unless it is an IPv6 address whose brackets pair up and whose
zone identifier is made of unreserved characters.  `urllib.parse.urlunparse` with empty params and fragment is
the plain concatenation written out in `render`.
-/
namespace Aiocoap.Uri

/-- the test of `_quote_host` (`message.py`) for "this Uri-Host value is an IPv6 address": it has
a colon or a bracket, `ipaddress.IPv6Address` takes it (brackets count in pairs only), and — since
`ipaddress` takes any text for a zone identifier — its zone identifier is unreserved -/
def passesAsAddress (ip : IpOracle) (h : Bytes) : Bool :=
  (h.contains 58 || h.contains 91) && (ip.norm6 (unbracket h)).isSome && zoneOk (unbracket h)

/-- `_quote_host` (`message.py`): an IPv6 literal is passed on verbatim (hostportjoin adds the
brackets), anything else is percent-encoded as a reg-name -/
def escHost (ip : IpOracle) (h : Bytes) : Bytes :=
  if passesAsAddress ip h then h else quote regNameSafe h

/-- Python `a or b` on optional strings (`None` and `""` are falsy) -/
def pyOr (a b : Option Bytes) : Option Bytes :=
  match a with
  | some x => if x ≠ [] then some x else b
  | none => b

/-- `"".join("/" + _quote_for_path(p) for p in path) or "/"` -/
def encodePath (path : List Bytes) : Bytes :=
  match path with
  | [] => [47]
  | _ => path.flatMap (fun seg => 47 :: quote pathSafe seg)

/-- `"&".join(_quote_for_query(q) for q in query)` -/
def encodeQuery (query : List Bytes) : Bytes := joinWith 38 (query.map (quote querySafe))

/-- `urllib.parse.urlunparse((scheme, netloc, path, "", query, None))` for a non-empty netloc
and a path starting with "/" -/
def render (scheme netloc path query : Bytes) : Bytes :=
  (if scheme = [] then [] else scheme ++ [58]) ++ [47, 47] ++ netloc ++ path ++
    (if query = [] then [] else 63 :: query)

/-- the netloc `get_request_uri` arrives at; `none` = it raises -/
def composeNetloc (ip : IpOracle) (o : Opts) : Option Bytes :=
  if o.uriHost.isSome || o.uriPort.isSome then
    match hostportsplit o.hostinfo with
    | none => none
    | some (h, p) =>
      let port := match o.uriPort with
        | some q => if q ≠ 0 then some q else p
        | none => p
      match pyOr o.uriHost h with
      | none => none
      | some host => some (hostportjoin (escHost ip host) port)
  else some o.hostinfo

/-- `Message.get_request_uri()`; `none` = it raises, or the remote carries an empty hostinfo
(outside the model) -/
def getRequestUri (ip : IpOracle) (o : Opts) : Option Bytes :=
  match composeNetloc ip o with
  | none => none
  | some netloc =>
    if netloc = [] then none
    else some (render o.scheme netloc (encodePath o.path) (encodeQuery o.query))

-- canonical option sets ("resources") ----------------------------------------------------

/-- where a request goes, as `set_request_uri` leaves it: a registered name travels in
Uri-Host (decoded, lower-case), an IP literal stays with the remote only -/
inductive Host
  | name (h : Bytes)        -- decoded UTF-8 host name
  | ip4 (text : Bytes)      -- dotted quad
  | ip6 (text : Bytes)      -- canonical IPv6 text incl. optional %zone, without brackets
deriving DecidableEq, Repr

structure Resource where
  scheme : Bytes
  host : Host
  port : Option Nat
  path : List Bytes
  query : List Bytes
deriving DecidableEq, Repr

/-- the message state that denotes a resource -/
def Resource.toOpts (ip : IpOracle) (r : Resource) : Opts :=
  match r.host with
  | .name h => { scheme := r.scheme, hostinfo := hostportjoin (escHost ip h) r.port,
                 uriHost := some h, uriPort := none, path := r.path, query := r.query }
  | .ip4 t => { scheme := r.scheme, hostinfo := hostportjoin t r.port,
                uriHost := none, uriPort := none, path := r.path, query := r.query }
  | .ip6 t => { scheme := r.scheme, hostinfo := hostportjoin t r.port,
                uriHost := none, uriPort := none, path := r.path, query := r.query }

end Aiocoap.Uri
