import AiocoapModel.Basic.Bytes
/-!
Model of `aiocoap/cli/fileserver.py` (`FileServer`), as far as it decides which file-system
objects a request touches and what a block-wise GET of a file returns.

* `Str`: a Python `str`, represented by its UTF-8 bytes.  Everything the code does with
  Uri-Path components (`"/" in p`, `p in (".", "..")`, `"" in path[:-1]`, `"/".join`,
  `str.split("/")`, comparison with `"."`) commutes with UTF-8 encoding because `/` and `.` are
  ASCII, so bytes are as good as code points here.
* `PPath`: a `pathlib.PurePosixPath` after parsing: `root` is the number of slashes of the
  anchor (`""`, `"/"`, `"//"`), `parts` the components behind it (`_tail`).
* `posixJoin`/`parsePath`/`PPath.str` restate `posixpath.join`, `PurePath._parse_path` and
  `PurePath.__str__` of CPython 3.12 (pathlib.py:388-419, posixpath.py `join`/`splitroot`); the
  harness compares exactly these against the real `pathlib` on boundary and random strings.
* `handle`: `Resource.render` dispatch + `render_get`/`render_put`/`render_delete`
  (fileserver.py:159-328; line numbers are those of the fixed tree) with the answers of the operating system (`World`) as inputs; the
  result is the response (code, Block2, payload) and the list of file-system operations in the
  order the code performs them.
-/
namespace Aiocoap.FileServer

abbrev Str := List Nat

def slash : Nat := 47
/-- `"."` -/
def dotS : Str := [46]
/-- `".."` -/
def dotdotS : Str := [46, 46]

-- ---------------------------------------------------------------- strings ---------

/-- `"/".join(parts)` -/
def joinSlash : List Str → Str
  | [] => []
  | [a] => a
  | a :: b :: t => a ++ slash :: joinSlash (b :: t)

/-- prepend a character to the first piece -/
def consHead (c : Nat) : List Str → List Str
  | [] => [[c]]                   -- unreachable below, `splitSlash` is never empty
  | h :: t => (c :: h) :: t

/-- `s.split("/")` (never empty: `"".split("/") == [""]`) -/
def splitSlash : Str → List Str
  | [] => [[]]
  | c :: cs => if c = slash then [] :: splitSlash cs else consHead c (splitSlash cs)

/-- `posixpath.join(a, b)`: an operand starting with `/` replaces the left side -/
def posixJoin (a b : Str) : Str :=
  if b.head? = some slash then b
  else if a = [] ∨ a.getLast? = some slash then a ++ b
  else a ++ slash :: b

-- ---------------------------------------------------------------- pathlib ---------

structure PPath where
  /-- number of slashes in the anchor: 0 relative, 1 `/`, 2 `//` -/
  root : Nat
  parts : List Str
deriving DecidableEq, Repr

/-- `posixpath.splitroot`: exactly two leading slashes are kept as `//`, one or more than two
collapse to `/` -/
def rootOf (s : Str) : Nat :=
  if s.head? ≠ some slash then 0
  else if (s.drop 1).head? ≠ some slash ∨ (s.drop 2).head? = some slash then 1
  else 2

/-- the filter of `_parse_path`: `if x and x != '.'` -/
def keep (x : Str) : Bool := x != [] && x != dotS

/-- `PurePosixPath._parse_path` (pathlib.py:388-405).  Python splits what is left after the
anchor; since empty pieces are dropped, splitting the whole string gives the same parts. -/
def parsePath (s : Str) : PPath :=
  { root := rootOf s, parts := (splitSlash s).filter keep }

def rootStr : Nat → Str
  | 0 => []
  | 1 => [slash]
  | _ => [slash, slash]

/-- `str(path)`: anchor + `"/".join(tail)`, or `"."` when that is empty -/
def PPath.str (p : PPath) : Str :=
  if p.root = 0 ∧ p.parts = [] then dotS else rootStr p.root ++ joinSlash p.parts

/-- `path / s` for a string operand: `_load_parts` joins the raw segments with
`posixpath.join` and parses the result. -/
def PPath.join (p : PPath) (s : Str) : PPath := parsePath (posixJoin p.str s)

/-- `path.parent` (pathlib.py:732-739) -/
def PPath.parent (p : PPath) : PPath := { p with parts := p.parts.dropLast }

/-- `path._make_child_relpath(name)` as used by `iterdir`, and the location of a temporary file
inside `dir` (pathlib.py:1065-1079) -/
def PPath.child (p : PPath) (name : Str) : PPath := { p with parts := p.parts ++ [name] }

-- ---------------------------------------------------------------- request_to_localpath --

inductive Err
  | invalidPath           -- InvalidPathError (4.00)
deriving DecidableEq, Repr

instance : DecidableEq (Except Err PPath)
  | .ok a, .ok b => if h : a = b then isTrue (by rw [h]) else isFalse (by intro e; cases e; exact h rfl)
  | .error a, .error b =>
    if h : a = b then isTrue (by rw [h]) else isFalse (by intro e; cases e; exact h rfl)
  | .ok _, .error _ => isFalse (by intro e; cases e)
  | .error _, .ok _ => isFalse (by intro e; cases e)

/-- `"/" in p or p in (".", "..")` (fileserver.py:125) -/
def badComp (p : Str) : Bool := p.contains slash || p == dotS || p == dotdotS

/-- `FileServer.request_to_localpath` (fileserver.py:123-133, with the fix: an empty component
is only accepted in the last position). -/
def requestToLocalPath (root : PPath) (comps : List Str) : Except Err PPath :=
  if comps.any badComp then .error .invalidPath
  else if comps.dropLast.contains [] then .error .invalidPath
  else .ok (root.join (joinSlash comps))

-- ---------------------------------------------------------------- requests --------

inductive Method
  | get | put | delete
  | other               -- POST/FETCH/PATCH/iPATCH: no `render_<method>` exists
deriving DecidableEq, Repr

structure Config where
  root : PPath
  write : Bool
  etags : Bool                       -- `etag_length != 0`
deriving Repr

structure Request where
  method : Method
  path : List Str                    -- `request.opt.uri_path`
  ifNoneMatch : Bool                 -- `request.opt.if_none_match`
  ifMatch : Bool                     -- `request.opt.if_match` non-empty
  ifMatchEmpty : Bool                -- `b"" in request.opt.if_match`
  block2 : Option (Nat × Nat)        -- Block2 (number, size exponent); the M bit is ignored
deriving Repr

/-- what `stat(path)` answers -/
inductive StatRes
  | absent        -- FileNotFoundError
  | softErr       -- ENOTDIR / ELOOP / ValueError (NUL): `exists()` is False, `stat()` raises
  | hardErr       -- any other OSError (e.g. ENAMETOOLONG): `exists()` raises as well
  | dir | file
  | special       -- neither S_ISDIR nor S_ISREG
deriving DecidableEq, Repr

/-- The operating system's answers for one request (single-threaded assumption of the module
docstring: they do not change while the request is rendered). -/
structure World where
  stat : StatRes
  etagMatches : Bool                 -- `hash_stat(st) in request.opt.etags`
  ifMatchHit : Bool                  -- `hash_stat(st) in request.opt.if_match`
  content : Bytes                    -- the file's bytes when `stat = file`
  children : List (Str × Bool)       -- `os.listdir` names with `is_dir()` of each
  obsPending : Bool                  -- `path in _observations and _observations[path][0] is None`
  parentIsDir : Bool                 -- `path.parent` is an existing directory (mkstemp works)
  tmpName : Str                      -- name `tempfile` picks inside `path.parent`
deriving Repr

inductive FsOp
  | stat (p : PPath)
  | openRead (p : PPath)
  | scandir (p : PPath)              -- `os.listdir` behind `iterdir`
  | mkstemp (dir : PPath)            -- O_CREAT|O_EXCL of a fresh name inside `dir`
  | rename (src dst : PPath)
  | unlink (p : PPath)
  | mkdir (p : PPath)                -- in the alphabet; never produced by this version
  | rmdir (p : PPath)                -- (module docstring: directory creation/deletion unsupported)
deriving DecidableEq, Repr

def FsOp.modifying : FsOp → Bool
  | .stat _ | .openRead _ | .scandir _ => false
  | _ => true

/-- every path an operation names -/
def FsOp.paths : FsOp → List PPath
  | .stat p | .openRead p | .scandir p | .mkstemp p | .unlink p | .mkdir p | .rmdir p => [p]
  | .rename a b => [a, b]

inductive Outcome
  | code (cls detail : Nat)          -- a CoAP response code
  | crash                            -- a non-CoAP exception leaves `render` (5.00 by the library)
deriving DecidableEq, Repr

structure Response where
  outcome : Outcome
  payload : Bytes := []
  block2 : Option (Nat × Bool × Nat) := none
deriving DecidableEq, Repr

structure Result where
  resp : Response
  ops : List FsOp := []
deriving Repr

def Response.more (r : Response) : Bool :=
  match r.block2 with
  | some (_, m, _) => m
  | none => false

def Response.isError (r : Response) : Bool :=
  match r.outcome with
  | .code cls _ => cls ≥ 4
  | .crash => true

-- ---------------------------------------------------------------- GET -------------

/-- `BlockwiseTuple.size`: `2 ** (min(size_exponent, 6) + 4)` -/
def blockSize (szx : Nat) : Nat := 2 ^ (min szx 6 + 4)

/-- The slicing of `render_get_file` (fileserver.py:288-328): `seek(num·size)`,
`read(size + 1)`, `more = len(data) > size`, payload `data[:size]`; Block2 is omitted for an
unfragmented body. -/
def sliceBlock (content : Bytes) (block2 : Option (Nat × Nat)) : Response :=
  let (num, szx) := block2.getD (0, 6)
  let size := blockSize szx
  let data := (content.drop (num * size)).take (size + 1)
  let more := decide (data.length > size)
  { outcome := .code 2 5
    payload := data.take size
    block2 := if num = 0 ∧ more = false then none else some (num, more, szx) }

/-- `(".well-known", "core")` -/
def wellKnownCore : List Str :=
  [[46, 119, 101, 108, 108, 45, 107, 110, 111, 119, 110], [99, 111, 114, 101]]

/-- `get_resources_as_linkheader()` -/
def rootLink : Str := "</>;ct=40;rt=\"tag:chrysn@fsfe.org,2022:fileserver\"".toUTF8.toList.map (·.toNat)

/-- `request.opt.uri_path and request.opt.uri_path[-1] == ""` -/
def trailingEmpty (path : List Str) : Bool := path.getLast? == some []

/-- one entry of the listing of `render_get_dir`: `</rel/>;ct=40` or `</rel>` with
`rel = f.relative_to(root)` -/
def listEntry (root p : PPath) (c : Str × Bool) : Str :=
  let rel := joinSlash ((p.child c.1).parts.drop root.parts.length)
  if c.2 then [60, 47] ++ rel ++ [47, 62, 59, 99, 116, 61, 52, 48] else [60, 47] ++ rel ++ [62]

/-- `",".join` -/
def joinComma : List Str → Str
  | [] => []
  | [a] => a
  | a :: b :: t => a ++ 44 :: joinComma (b :: t)

/-- `render_get` after the path is known (fileserver.py:166-186, 267-328): `stat`, ETag
revalidation, then `render_get_dir` or `render_get_file` -/
def renderGetAt (cfg : Config) (req : Request) (w : World) (p : PPath) : Result :=
  let valid : Result := { resp := { outcome := .code 2 3 }, ops := [.stat p] }
  let revalidated : Bool := cfg.etags && w.etagMatches      -- `etag and etag in request.opt.etags`
  match w.stat with
  | .absent => { resp := { outcome := .code 4 4 }, ops := [.stat p] }
  | .softErr => { resp := { outcome := .crash }, ops := [.stat p] }
  | .hardErr => { resp := { outcome := .crash }, ops := [.stat p] }
  | .dir =>
    if revalidated then valid
    -- render_get_dir: a directory needs the trailing empty component (or no path at all)
    else if req.path ≠ [] ∧ !trailingEmpty req.path then
      { resp := { outcome := .code 4 0 }, ops := [.stat p] }
    else
      { resp := { outcome := .code 2 5
                  payload := joinComma (w.children.map (listEntry cfg.root p)) }
        ops := [.stat p, .scandir p] ++ w.children.map fun c => .stat (p.child c.1) }
  | .file =>
    if revalidated then valid
    else if trailingEmpty req.path then { resp := { outcome := .code 4 0 }, ops := [.stat p] }
    else
      { resp := sliceBlock w.content req.block2
        ops := [.stat p, .openRead p] ++ (if w.obsPending then [.stat p] else []) }
  | .special =>
    if revalidated then valid
    -- neither directory nor regular file: `response` is never bound (UnboundLocalError)
    else { resp := { outcome := .crash }, ops := [.stat p] }

/-- `render_get` (fileserver.py:159-186) -/
def renderGet (cfg : Config) (req : Request) (w : World) : Result :=
  if req.path = wellKnownCore then { resp := { outcome := .code 2 5, payload := rootLink } }
  else match requestToLocalPath cfg.root req.path with
  | .error _ => { resp := { outcome := .code 4 0 } }
  | .ok p => renderGetAt cfg req w p

-- ---------------------------------------------------------------- PUT / DELETE ----

/-- `rename(tmp, path)` succeeds unless the target is a directory or cannot be named -/
def renameWorks : StatRes → Bool
  | .absent | .file | .special => true
  | _ => false

/-- `path.exists()` is true -/
def StatRes.found : StatRes → Bool
  | .dir | .file | .special => true
  | _ => false

/-- `path.stat()` raises something other than FileNotFoundError -/
def StatRes.raises : StatRes → Bool
  | .softErr | .hardErr => true
  | _ => false

/-- `render_put` after the path is known (fileserver.py:198-237) -/
def renderPutAt (req : Request) (w : World) (p : PPath) : Result :=
  -- If-None-Match: `path.exists()`
  let ops1 : List FsOp := if req.ifNoneMatch then [.stat p] else []
  if req.ifNoneMatch && w.stat == .hardErr then { resp := { outcome := .crash }, ops := ops1 }
  else if req.ifNoneMatch && w.stat.found then { resp := { outcome := .code 4 12 }, ops := ops1 }
  else
    -- If-Match without the empty ETag: `path.stat()` and the ETag comparison
    let chk := req.ifMatch && !req.ifMatchEmpty
    let ops2 := ops1 ++ (if chk then [FsOp.stat p] else [])
    if chk && w.stat == .absent then { resp := { outcome := .code 4 12 }, ops := ops2 }
    else if chk && w.stat.raises then { resp := { outcome := .crash }, ops := ops2 }
    else if chk && !w.ifMatchHit then { resp := { outcome := .code 4 12 }, ops := ops2 }
    else
      -- NamedTemporaryFile(dir=path.parent, delete=False); rename; on failure unlink + raise
      let dir := p.parent
      let tmp := dir.child w.tmpName
      -- `io.open(dir, mode, opener=…)` inside NamedTemporaryFile refuses a NUL in `dir` with
      -- ValueError before the opener (and with it `os.open`) runs
      if dir.parts.any (·.contains 0) then { resp := { outcome := .crash }, ops := ops2 }
      else if !w.parentIsDir then { resp := { outcome := .crash }, ops := ops2 ++ [.mkstemp dir] }
      else if !renameWorks w.stat then
        { resp := { outcome := .crash }, ops := ops2 ++ [.mkstemp dir, .rename tmp p, .unlink tmp] }
      else
        { resp := { outcome := .code 2 4 }, ops := ops2 ++ [.mkstemp dir, .rename tmp p, .stat p] }

/-- `render_put` (fileserver.py:188-237) -/
def renderPut (cfg : Config) (req : Request) (w : World) : Result :=
  if !cfg.write then { resp := { outcome := .code 4 3 } }
  else if req.path = [] ∨ trailingEmpty req.path then { resp := { outcome := .code 4 0 } }
  else match requestToLocalPath cfg.root req.path with
  | .error _ => { resp := { outcome := .code 4 0 } }
  | .ok p => renderPutAt req w p

/-- `render_delete` after the path is known (fileserver.py:249-265) -/
def renderDeleteAt (req : Request) (w : World) (p : PPath) : Result :=
  let chk := req.ifMatch && !req.ifMatchEmpty
  let ops1 : List FsOp := if chk then [.stat p] else []
  if chk && w.stat == .absent then { resp := { outcome := .code 4 4 }, ops := ops1 }
  else if chk && w.stat.raises then { resp := { outcome := .crash }, ops := ops1 }
  else if chk && !w.ifMatchHit then { resp := { outcome := .code 4 12 }, ops := ops1 }
  else match w.stat with
    | .absent => { resp := { outcome := .code 4 4 }, ops := ops1 ++ [.unlink p] }
    | .file => { resp := { outcome := .code 2 2 }, ops := ops1 ++ [.unlink p] }
    | .special => { resp := { outcome := .code 2 2 }, ops := ops1 ++ [.unlink p] }
    | _ => { resp := { outcome := .crash }, ops := ops1 ++ [.unlink p] }

/-- `render_delete` (fileserver.py:239-265) -/
def renderDelete (cfg : Config) (req : Request) (w : World) : Result :=
  if !cfg.write then { resp := { outcome := .code 4 3 } }
  else if req.path = [] ∨ trailingEmpty req.path then { resp := { outcome := .code 4 0 } }
  else match requestToLocalPath cfg.root req.path with
  | .error _ => { resp := { outcome := .code 4 0 } }
  | .ok p => renderDeleteAt req w p

/-- `Resource.render` (resource.py:114-144): dispatch on the method name; a method without
`render_<name>` is 4.05 -/
def handle (cfg : Config) (req : Request) (w : World) : Result :=
  match req.method with
  | .get => renderGet cfg req w
  | .put => renderPut cfg req w
  | .delete => renderDelete cfg req w
  | .other => { resp := { outcome := .code 4 5 } }

/-- `needs_blockwise_assembly` (fileserver.py:135-145): only GETs of non-directory paths do
their own Block2 handling -/
def needsBlockwiseAssembly (req : Request) : Bool :=
  if req.method ≠ .get then true
  else if req.path = [] ∨ trailingEmpty req.path ∨ req.path = wellKnownCore then true
  else false

-- ---------------------------------------------------------------- block-wise fetch --

/-- A client fetching block after block until `more` is false, given the server's answer to
block `k`; `none` when the fuel runs out. -/
def fetchLoop (get : Nat → Response) : Nat → Nat → Option Bytes
  | 0, _ => none
  | fuel + 1, k =>
    let r := get k
    if r.more then (fetchLoop get fuel (k + 1)).map (r.payload ++ ·) else some r.payload

end Aiocoap.FileServer
