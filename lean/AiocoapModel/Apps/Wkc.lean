import AiocoapModel.Apps.Site
/-
Model of `Site.get_resources_as_linkheader` (resource.py:484-508 of the fixed tree) and of
`WKCResource.render_get` (resource.py:267-329, with `_attribute_values`): the link list with
hrefs built from the percent-encoded path components (`_quote_for_href`, resource.py:337)
exactly as the code does, the optional impl-info link, and the evaluation of the RFC 6690
filters `k=v` / `k=v*` — one filter function per query argument, applied one after the other;
`Link.__str__` / `LinkFormat.__str__` (util/linkformat.py:25-54 of the fixed tree), which turn the
link list into the payload.
-/
namespace Aiocoap.Apps

/-- `link_header.Link`: the href string and the attribute pairs in order -/
structure Link where
  href : Str
  attrs : List (Str × Option Str)
deriving Repr, DecidableEq

-- percent-encoding of path components ------------------------------------------------------

/-- the characters `_quote_for_href` leaves alone: `unreserved + sub_delims + ":@"`
(aiocoap/util/uri.py:10-13, resource.py:337) -/
def hrefSafe (c : Nat) : Bool :=
  (65 ≤ c && c ≤ 90) || (97 ≤ c && c ≤ 122) || (48 ≤ c && c ≤ 57) ||          -- letters, digits
  c == 45 || c == 46 || c == 95 || c == 126 ||                                 -- - . _ ~
  c == 33 || c == 36 || c == 38 || c == 39 || c == 40 || c == 41 ||            -- ! $ & ' ( )
  c == 42 || c == 43 || c == 44 || c == 59 || c == 61 ||                       -- * + , ; =
  c == 58 || c == 64                                                           -- : @

/-- one digit of `"%02X"` -/
def pctHex (n : Nat) : Nat := if n < 10 then 48 + n else 55 + n

/-- `chr(x) if x in safe_set else "%%%02X" % x` (util/uri.py:26) -/
def escByte (c : Nat) : Str := if hrefSafe c then [c] else [37, pctHex (c / 16), pctHex (c % 16)]

/-- `quote(input_string)` over the UTF-8 bytes (util/uri.py:24-26) -/
def escStr (s : Str) : Str := s.flatMap escByte

/-- `"/".join(path)` -/
def joinSlash : Path → Str
  | [] => []
  | [c] => c
  | c :: d :: rest => c ++ 47 :: joinSlash (d :: rest)

/-- `"".join("/" + _quote_for_href(p) for p in path)` (resource.py:503) -/
def hrefSegs (p : Path) : Str := p.flatMap (fun c => 47 :: escStr c)

/-- `Link("/" + "/".join(_quote_for_href(p) for p in path), **details)` (resource.py:494);
hidden resources (`details is None`) are skipped (resource.py:492-493) -/
def resLinks : List (Path × Res) → List Link
  | [] => []
  | (p, r) :: rest =>
    if r.hidden then resLinks rest
    else ⟨47 :: joinSlash (p.map escStr), r.attrs⟩ :: resLinks rest

/-- `Link("".join("/" + _quote_for_href(p) for p in path) + link.href, link.attr_pairs)`
(resource.py:502-506) -/
def prefixLink (p : Path) (l : Link) : Link := ⟨hrefSegs p ++ l.href, l.attrs⟩

mutual
/-- `get_resources_as_linkheader().links`: own resources in dict order, then the links of every
sub-site that has the method (a non-Site `PathCapable` has none), prefixed with its path -/
def Site.links : Site → List Link
  | .leaf _ => []
  | .node rs ss => resLinks rs ++ linksSubs ss
def linksSubs : List (Path × Site) → List Link
  | [] => []
  | (p, s) :: rest => s.links.map (prefixLink p) ++ linksSubs rest
end

-- filter evaluation ------------------------------------------------------------------------

/-- Python `str.split(sep)` for a one-character separator -/
def splitOn (sep : Nat) : Str → List Str
  | [] => [[]]
  | c :: cs =>
    if c = sep then [] :: splitOn sep cs
    else match splitOn sep cs with
      | h :: t => (c :: h) :: t
      | [] => [[c]]

/-- `q.split("=", 1)`; `none` is the `ValueError` of the unpacking (no `=`) -/
def splitEq : Str → Option (Str × Str)
  | [] => none
  | c :: cs => if c = 61 then some ([], cs) else (splitEq cs).map (fun kv => (c :: kv.1, kv.2))

/-- `str.lower()` on ASCII -/
def lowerAscii (s : Str) : Str := s.map (fun c => if 65 ≤ c ∧ c ≤ 90 then c + 32 else c)

/-- `matchexp`: `x.startswith(v[:-1])` if `v.endswith("*")` else `x == v` (resource.py:283-290) -/
def matchExp (v x : Str) : Bool :=
  if v.getLast? = some 42 then v.dropLast.isPrefixOf x else x == v

/-- `_attribute_values(link, k)`: the values of all attributes named `k` (case-insensitively)
that have a value -/
def attributeValues (l : Link) (k : Str) : List Str :=
  l.attrs.filterMap (fun kv => if lowerAscii kv.1 = lowerAscii k then kv.2 else none)

def kRt : Str := [114, 116]
def kIf : Str := [105, 102]
def kCt : Str := [99, 116]
def kHref : Str := [104, 114, 101, 102]

/-- the three kinds of filter functions (resource.py:295-313); each is bound to its own `k`
and `matchexp` -/
def linkMatches (k v : Str) (l : Link) : Bool :=
  if k = kRt ∨ k = kIf ∨ k = kCt then
    (attributeValues l k).any (fun value => (splitOn 32 value).any (matchExp v))
  else if k = kHref then matchExp v l.href
  else (attributeValues l k).any (matchExp v)

/-- the impl-info link (resource.py:273-274): `Link(href=impl_info, rel="impl-info")` -/
def implInfoLink (uri : Str) : Link :=
  ⟨uri, [([114, 101, 108], some [105, 109, 112, 108, 45, 105, 110, 102, 111])]⟩

/-- `while filters: links.links = filter(filters.pop(), links.links)` (resource.py:314-316):
the filter of the last query argument is applied first, the one of the first argument last -/
def applyFilters (fs : List (Str × Str)) (ls : List Link) : List Link :=
  fs.foldr (fun kv acc => acc.filter (linkMatches kv.1 kv.2)) ls

/-- `WKCResource.render_get` on the list the generator returned.  Query items without `=` are
no filters; every other item contributes one filter. -/
def wkcRender (links : List Link) (implInfo : Option Str) (queries : List Str) : List Link :=
  let all := links ++ (match implInfo with | some u => [implInfoLink u] | none => [])
  applyFilters (queries.filterMap splitEq) all

-- serialisation ---------------------------------------------------------------------------

/-- `value.replace("\\", r"\\")` (util/linkformat.py:48): every backslash doubled.  `Str` holds UTF-8
bytes while Python replaces in a `str`; `\` and `"` are ASCII and never part of a multi-byte
sequence, so the byte-wise replacement is the same function. -/
def escBackslash (s : Str) : Str := s.flatMap (fun c => if c = 92 then [92, 92] else [c])

/-- `.replace('"', r"\"")` (util/linkformat.py:48): every double quote preceded by a backslash -/
def escQuote (s : Str) : Str := s.flatMap (fun c => if c = 34 then [92, 34] else [c])

/-- the inside of the quoted-string `Link.__str__` writes for a value: backslashes first, then
quotes (the other order would double the backslashes the quotes just got) -/
def quoteValue (v : Str) : Str := escQuote (escBackslash v)

/-- `str_pair(key, value)` (util/linkformat.py:36-49): `key` alone for a valueless attribute,
otherwise `key="…"` — always a quoted-string -/
def attrStr : Str × Option Str → Str
  | (k, none) => k
  | (k, some v) => k ++ 61 :: 34 :: (quoteValue v ++ [34])

/-- `Link.__str__` (util/linkformat.py:51-54): `";".join(["<%s>" % href] + pairs)` -/
def linkStr (l : Link) : Str := 60 :: (l.href ++ 62 :: l.attrs.flatMap (fun a => 59 :: attrStr a))

/-- `LinkFormat.__str__` (util/linkformat.py:25-26): `",".join(str(link) for link in links)`;
`link_format_to_message` sends its UTF-8 encoding as the payload (resource.py:209) -/
def linkFormatStr : List Link → Str
  | [] => []
  | [l] => linkStr l
  | l :: m :: rest => linkStr l ++ 44 :: linkFormatStr (m :: rest)

/-- the payload of the `/.well-known/core` answer -/
def wkcPayload (links : List Link) (implInfo : Option Str) (queries : List Str) : Str :=
  linkFormatStr (wkcRender links implInfo queries)

end Aiocoap.Apps
