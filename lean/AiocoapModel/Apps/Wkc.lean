import AiocoapModel.Apps.Site
/-
Model of `Site.get_resources_as_linkheader` (resource.py:442-462) and of
`WKCResource.render_get` (resource.py:248-304 of the fixed tree, with
`_attribute_values`): the link list with hrefs built by string concatenation exactly as the
code does, the optional impl-info link, and the evaluation of one RFC 6690 filter
`k=v` / `k=v*`.
-/
namespace Aiocoap.Apps

/-- `link_header.Link`: the href string and the attribute pairs in order -/
structure Link where
  href : Str
  attrs : List (Str × Option Str)
deriving Repr, DecidableEq

/-- `"/".join(path)` -/
def joinSlash : Path → Str
  | [] => []
  | [c] => c
  | c :: d :: rest => c ++ 47 :: joinSlash (d :: rest)

/-- `Link("/" + "/".join(path), **details)` (resource.py:452); hidden resources
(`details is None`) are skipped (resource.py:450-451) -/
def resLinks : List (Path × Res) → List Link
  | [] => []
  | (p, r) :: rest =>
    if r.hidden then resLinks rest else ⟨47 :: joinSlash p, r.attrs⟩ :: resLinks rest

/-- `Link("/" + "/".join(path) + link.href, link.attr_pairs)` (resource.py:459-461) -/
def prefixLink (p : Path) (l : Link) : Link := ⟨47 :: (joinSlash p ++ l.href), l.attrs⟩

mutual
/-- `get_resources_as_linkheader().links`: own resources in dict order, then the links of every
sub-site that has the method (a non-Site `PathCapable` has none), prefixed with its path -/
def Site.links : Site → List Link
  | .leaf _ => []
  | .node rs ss => resLinks rs ++ linksSubs ss
def linksSubs : List (Path × Site) → List Link
  | [] => []
  | (p, s) :: rest => s.links.map (prefixLink p) ++ linksSubs rest
end

-- filter evaluation ------------------------------------------------------------------------

/-- Python `str.split(sep)` for a one-character separator -/
def splitOn (sep : Nat) : Str → List Str
  | [] => [[]]
  | c :: cs =>
    if c = sep then [] :: splitOn sep cs
    else match splitOn sep cs with
      | h :: t => (c :: h) :: t
      | [] => [[c]]

/-- `q.split("=", 1)`; `none` is the `ValueError` of the unpacking (no `=`) -/
def splitEq : Str → Option (Str × Str)
  | [] => none
  | c :: cs => if c = 61 then some ([], cs) else (splitEq cs).map (fun kv => (c :: kv.1, kv.2))

/-- `str.lower()` on ASCII -/
def lowerAscii (s : Str) : Str := s.map (fun c => if 65 ≤ c ∧ c ≤ 90 then c + 32 else c)

/-- `matchexp`: `x.startswith(v[:-1])` if `v.endswith("*")` else `x == v` (resource.py:264-271) -/
def matchExp (v x : Str) : Bool :=
  if v.getLast? = some 42 then v.dropLast.isPrefixOf x else x == v

/-- `_attribute_values(link, k)`: the values of all attributes named `k` (case-insensitively)
that have a value -/
def attributeValues (l : Link) (k : Str) : List Str :=
  l.attrs.filterMap (fun kv => if lowerAscii kv.1 = lowerAscii k then kv.2 else none)

def kRt : Str := [114, 116]
def kIf : Str := [105, 102]
def kCt : Str := [99, 116]
def kHref : Str := [104, 114, 101, 102]

/-- the three kinds of filter functions (resource.py:273-288) -/
def linkMatches (k v : Str) (l : Link) : Bool :=
  if k = kRt ∨ k = kIf ∨ k = kCt then
    (attributeValues l k).any (fun value => (splitOn 32 value).any (matchExp v))
  else if k = kHref then matchExp v l.href
  else (attributeValues l k).any (matchExp v)

/-- the impl-info link (resource.py:254-255): `Link(href=impl_info, rel="impl-info")` -/
def implInfoLink (uri : Str) : Link :=
  ⟨uri, [([114, 101, 108], some [105, 109, 112, 108, 45, 105, 110, 102, 111])]⟩

/-- `WKCResource.render_get` on the list the generator returned.  Query items without `=` are
no filters; RFC 6690 defines one filter per query, several are outside the model (`none`). -/
def wkcRender (links : List Link) (implInfo : Option Str) (queries : List Str) :
    Option (List Link) :=
  let all := links ++ (match implInfo with | some u => [implInfoLink u] | none => [])
  match queries.filterMap splitEq with
  | [] => some all
  | [(k, v)] => some (all.filter (linkMatches k v))
  | _ => none

end Aiocoap.Apps
