/-
Model of the resource directory `aiocoap.cli.rd` (RFC 9176), as far as property C20 talks
about it: the two indexes of `CommonRD` (`_by_key`, `_by_path`, rd.py:106-107), registration and
re-registration (`DirectoryResource.render_post` rd.py:457-474, `CommonRD.initialize_endpoint`
rd.py:314-418, `_new_pathtail` rd.py:304-312), parameter validation and lifetime
(`Registration.update_params` rd.py:154-239, `_set_timeout`/`refresh_timeout` rd.py:246-261,
`delete` rd.py:241-244), the registration resource (`RegistrationDispatchSite.render`,
`RegistrationResource.render_get/post/put/delete` rd.py:488-527) and the two lookup interfaces
(rd.py:550-680) with equality filters.  Line numbers refer to the file before round 4.

The model follows the code *after* the five `fix:` commits of the C20 round (the new
registration is created before the old one is deleted; an update with a body is refused before its
parameters are applied; a given base always becomes explicit; a valueless base is refused; every
lookup criterion is applied) and after the round-4 fix (a `base` that `urlsplit` refuses, and links
that can not be resolved against the base, are refused with 4.00 before anything is changed).

Conventions
* strings are UTF-8 byte lists (`Str`); a query is the list of Uri-Query options in order, each
  `key=value` (`some value`) or a bare `key` without `=` (`none`, Python's `None`, rd.py:74-77);
  `vals k q` is `query_split(msg)[k]` (all values of `k`, in order).  Registration parameters and
  link attributes carry such optional values too (`</x>;obs`, `?flag`);
* a registration location `("reg", str(n), "")` is the number `n`;
* time is a `Nat` number of ticks, `Cfg.tps` ticks per second; `lt` and the grace period are in
  seconds as in the code; a registration's timer fires at `refreshedAt + (lt + grace)·tps`;
* Python dicts are association lists.  Iteration order of `_by_key` is *not* modelled (a write
  moves the entry to the end); lookup results are compared as sorted lists;
* the mutable `Registration` object that both dicts reference is modelled by storing the value
  under its key in `byKey` and under its path in `byPath`; an in-place update rewrites both
  entries (that the two stay one map is theorem `C20_indexes_one_map`, not an assumption);
* inputs the model does not cover (proxy mode, simple registration, `page` / `count` with a value,
  wildcard filters, explicit `anchor` attributes, bases that are not `scheme://authority`, exotic
  `lt` spellings) are refused by the driver (`out-of-model`), never guessed.
-/
namespace Aiocoap.Rd

abbrev Str := List Nat
abbrev Key := Str × Option Str
/-- the value of a Uri-Query option or link attribute; `none`: there was no `=` -/
abbrev Val := Option Str
abbrev Query := List (Str × Val)

-- the literal strings of rd.py ------------------------------------------------------------
def sEp : Str := [101, 112]                          -- "ep"
def sD : Str := [100]                                -- "d"
def sLt : Str := [108, 116]                          -- "lt"
def sBase : Str := [98, 97, 115, 101]                -- "base"
def sPage : Str := [112, 97, 103, 101]               -- "page"
def sCount : Str := [99, 111, 117, 110, 116]         -- "count"
def sRt : Str := [114, 116]                          -- "rt"
def sIf : Str := [105, 102]                          -- "if"
def sHref : Str := [104, 114, 101, 102]              -- "href"
def sAnchor : Str := [97, 110, 99, 104, 111, 114]    -- "anchor"
def sRegPrefix : Str := [47, 114, 101, 103, 47]      -- "/reg/"
def sSlash : Str := [47]                             -- "/"

-- association lists (Python dicts up to iteration order) ------------------------------------
section Assoc
variable {κ β : Type} [DecidableEq κ]

/-- `d.get(k)` -/
def aget (k : κ) : List (κ × β) → Option β
  | [] => none
  | e :: l => if e.1 = k then some e.2 else aget k l

/-- `del d[k]` (no-op when absent) -/
def adel (k : κ) (l : List (κ × β)) : List (κ × β) := l.filter (fun e => decide (e.1 ≠ k))

/-- `d[k] = v` -/
def aset (k : κ) (v : β) (l : List (κ × β)) : List (κ × β) := adel k l ++ [(k, v)]

end Assoc

/-- all values of `k` in a query, in order: `query_split(msg).get(k, [])` (rd.py:61-81) -/
def vals (k : Str) (q : Query) : List Val := (q.filter (fun e => decide (e.1 = k))).map (·.2)

/-- keys of a query in order of first appearance -/
def firstKeys : Query → List Str
  | [] => []
  | e :: q => e.1 :: (firstKeys q).filter (fun k => decide (k ≠ e.1))

/-- `query_split`: key ↦ list of its values, keys in order of first appearance -/
def group (q : Query) : List (Str × List Val) := (firstKeys q).map (fun k => (k, vals k q))

structure Link where
  href : Str
  attrs : List (Str × Val)
deriving Repr, DecidableEq

/-- A `CommonRD.Registration` (rd.py:114-152). -/
structure Reg where
  ep : Str
  d : Option Str
  path : Nat                        -- `self.path == ("reg", str(path), "")`
  lt : Int                          -- `self.lt`
  base : Str                        -- `self.base`
  baseExplicit : Bool               -- `self.base_is_explicit`
  params : List (Str × List Val)    -- `self.registration_parameters` (ep, d, and what an update added)
  links : List Link                 -- `self.links`
  refreshedAt : Nat                 -- tick at which the running timer was started
deriving Repr, DecidableEq

def Reg.key (r : Reg) : Key := (r.ep, r.d)

structure Cfg where
  grace : Int       -- `Registration.grace_period` (seconds), read from the implementation
  tps : Nat         -- ticks per second of the harness clock
deriving Repr, DecidableEq

/-- `_set_timeout`: the timer started at `refreshedAt` sleeps `self.lt + self.grace_period` s. -/
def Reg.deadline (c : Cfg) (r : Reg) : Int := (r.refreshedAt : Int) + (r.lt + c.grace) * (c.tps : Int)

/-- the timer has not fired at tick `now` (asyncio runs a timer as soon as `when ≤ now`) -/
def Reg.live (c : Cfg) (now : Nat) (r : Reg) : Bool := decide ((now : Int) < r.deadline c)

/-- `_by_key`, `_by_path` and the clock. -/
structure State where
  byKey : List (Key × Reg)
  byPath : List (Nat × Reg)
  now : Nat
deriving Repr, DecidableEq

def State.init : State := { byKey := [], byPath := [], now := 0 }

/-- what lookups iterate over: `CommonRD.get_endpoints()` = `_by_key.values()` (rd.py:420) -/
def State.regs (s : State) : List Reg := s.byKey.map (·.2)

-- request bodies ----------------------------------------------------------------------------

inductive CF
  | absent | linkFormat | other
deriving Repr, DecidableEq

inductive Payload
  | links (ls : List Link)    -- a well-formed link-format text (`[]`: the empty payload)
  | garbage                   -- a non-empty payload that `linkformat.parse` rejects
deriving Repr, DecidableEq

structure Body where
  cf : CF
  payload : Payload
deriving Repr, DecidableEq

/-- `link_format_from_message` (rd.py:424-438) on a request: 4.15 unless Content-Format is 40,
4.00 when the payload does not parse. -/
def linksOf (b : Body) : Except Nat (List Link) :=
  match b.cf with
  | .linkFormat =>
    match b.payload with
    | .links ls => .ok ls
    | .garbage => .error 400
  | _ => .error 415

/-- `request.opt.content_format is not None or request.payload` (rd.py:496) -/
def Body.present (b : Body) : Bool := decide (b.cf ≠ .absent) || decide (b.payload ≠ .links [])

-- parameter validation ----------------------------------------------------------------------

def parseDigits (acc : Nat) : List Nat → Option Nat
  | [] => some acc
  | ch :: cs => if 48 ≤ ch ∧ ch ≤ 57 then parseDigits (acc * 10 + (ch - 48)) cs else none

/-- `int(s)` for `[+-]?[0-9]+`; `none` is the `ValueError` (other spellings Python accepts —
blanks, underscores, non-ASCII digits — are kept out by the driver) -/
def parseInt (s : Str) : Option Int :=
  match s with
  | [] => none
  | 43 :: ds => if ds = [] then none else (parseDigits 0 ds).map Int.ofNat
  | 45 :: ds => if ds = [] then none else (parseDigits 0 ds).map (fun n => - Int.ofNat n)
  | ds => (parseDigits 0 ds).map Int.ofNat

/-- `pop_single_arg` (rd.py:84-93) on the values of one key: `ok none` the key is absent,
`ok (some v)` its only value (`v = none`: the option had no `=`; Python returns `None` for it as
for an absent key, the callers tell the two apart by `key in query`), `error 400` (`BadRequest`)
for repeated values -/
def popSingle (vs : List Val) : Except Nat (Option Val) :=
  match vs with
  | [] => .ok none
  | [v] => .ok (some v)
  | _ => .error 400

/-- `ep = pop_single_arg(…, "ep"); if ep is None: raise BadRequest` (rd.py:324-326): absent and
valueless alike are refused -/
def epOf (vs : List Val) : Except Nat Str :=
  match popSingle vs with
  | .error e => .error e
  | .ok (some (some ep)) => .ok ep
  | .ok _ => .error 400

/-- `d = pop_single_arg(…, "d")` (rd.py:327): a valueless `d` is `None`, i.e. no sector (the
option itself stays among the registration parameters and is listed) -/
def dOf (vs : List Val) : Except Nat (Option Str) :=
  match popSingle vs with
  | .error e => .error e
  | .ok (some v) => .ok v
  | .ok none => .ok none

/-- `int(pop_single_arg(…, "lt"))` under `if "lt" in …` with `except ValueError: BadRequest`
(rd.py:198-202): a valueless `lt` is `int(None)`, a `TypeError` nothing catches — the request is
answered 5.00 (`error 500`); no effect has happened at that point -/
def ltOf (vs : List Val) : Except Nat (Option Int) :=
  match popSingle vs with
  | .error e => .error e
  | .ok none => .ok none
  | .ok (some none) => .error 500
  | .ok (some (some v)) =>
    match parseInt v with
    | some n => .ok (some n)
    | none => .error 400

/-- What `urlsplit` refuses among the bases the driver lets through (`scheme://authority`): an
authority with a `[` but no `]` or the reverse ("Invalid IPv6 URL").  (Bracketed hosts that are
not address literals are refused as well; the driver keeps those out of the model.) -/
def urlsplitOk (s : Str) : Bool := s.contains 91 == s.contains 93

/-- `base` (rd.py:204-207, the round-4 check and the audit-F fix): must have a value, be acceptable
to `urlsplit` and hold no `>` (62; it is written between `<` and `>` by the resource lookup), else
`BadRequest` -/
def baseOf (vs : List Val) : Except Nat (Option Str) :=
  match popSingle vs with
  | .error e => .error e
  | .ok none => .ok none
  | .ok (some none) => .error 400
  | .ok (some (some b)) => if urlsplitOk b && !b.contains 62 then .ok (some b) else .error 400

/-- RFC 5987 attr-char: letters, digits and ``!#$&+-.^_`|~`` -/
def attrChar (b : Nat) : Bool :=
  (48 ≤ b && b ≤ 57) || (65 ≤ b && b ≤ 90) || (97 ≤ b && b ≤ 122) ||
  b == 33 || b == 35 || b == 36 || b == 38 || b == 43 || b == 45 || b == 46 || b == 94 ||
  b == 95 || b == 96 || b == 124 || b == 126

/-- `is_parmname` (audit-F fix): a non-empty sequence of attr-char, what RFC 6690 allows as the
name of a link parameter — the endpoint lookup writes the names of the registration parameters
out as such, unescaped -/
def parmnameOk (s : Str) : Bool := !s.isEmpty && s.all attrChar

/-- keys `update_params` refuses: rd.py:163-172 -/
def forbiddenInUpdate : List Str := [sEp, sD, sPage, sCount, sRt, sHref, sAnchor]

/-- the remaining parameters written into `registration_parameters` (rd.py:223-228) -/
def mergeParams (ps : List (Str × List Val)) (q : Query) : List (Str × List Val) :=
  (group q).foldl (fun acc e => aset e.1 e.2 acc) ps

/-- `Registration.update_params` (rd.py:154-239).  `remote` is `network_remote.uri`
(`none`: `AnonymousHost`).  All checks precede all effects; `error 400` is `BadRequest`, `error 500`
an exception nothing catches.  On success the lifetime timer is restarted (`_set_timeout` /
`refresh_timeout`).  The resolution of the links against the prospective base (round-4 check)
always succeeds for the hrefs and bases the driver lets through once `urlsplitOk` holds. -/
def updateParams (now : Nat) (reg : Reg) (remote : Option Str) (q : Query) (isInitial : Bool) :
    Except Nat Reg :=
  -- rd.py:163-172
  -- … and (audit-F fix) every parameter name must be usable as a link parameter name
  if forbiddenInUpdate.any (fun k => decide (vals k q ≠ [])) || q.any (fun e => !parmnameOk e.1) then
    .error 400 else
  -- rd.py:174-186: the network base is needed, and looked up before anything is changed
  if (isInitial || !reg.baseExplicit) && decide (vals sBase q = []) && decide (remote = none) then
    .error 400 else
  -- rd.py:198-207
  match ltOf (vals sLt q) with
  | .error e => .error e
  | .ok setLt =>
    match baseOf (vals sBase q) with
    | .error e => .error e
    | .ok setBase =>
      -- rd.py:209-221 (after the fix a given base is always explicit)
      let lt := setLt.getD reg.lt
      let explicit := setBase.isSome || reg.baseExplicit
      let base := match setBase with
        | some b => b
        | none => if reg.baseExplicit then reg.base else remote.getD reg.base
      let rest := q.filter (fun e => decide (e.1 ≠ sLt ∧ e.1 ≠ sBase))
      .ok { reg with lt := lt, base := base, baseExplicit := explicit,
                     params := mergeParams reg.params rest, refreshedAt := now }

-- path allocation ---------------------------------------------------------------------------

/-- `_new_pathtail` (rd.py:304-312): the first `i ≥ start` that is not in use.  Each number
found in use is struck from the list, so `fuel = used.length` always suffices. -/
def firstFree (used : List Nat) : Nat → Nat → Nat
  | 0, i => i
  | fuel + 1, i => if i ∈ used then firstFree (used.erase i) fuel (i + 1) else i

def newPath (used : List Nat) : Nat := firstFree used used.length 1

-- lookups -------------------------------------------------------------------------------------

/-- `str.split()` on blanks -/
def wordsAux (cur : Str) : Str → List Str
  | [] => if cur = [] then [] else [cur.reverse]
  | ch :: cs =>
    if ch = 32 then (if cur = [] then wordsAux [] cs else cur.reverse :: wordsAux [] cs)
    else wordsAux (ch :: cur) cs

def words (s : Str) : List Str := wordsAux [] s

/-- the `matches` closure of the lookups for a search value that is no wildcard (rd.py:562-581):
equality, `None == None` included (a bare `?flag` finds parameters and attributes without value);
for `if` / `rt` any of the blank-separated words of a value (a valueless `rt` has none) -/
def valMatches (k : Str) (v x : Val) : Bool :=
  if k = sIf ∨ k = sRt then
    match x with
    | none => false
    | some xs => (words xs).any (fun w => decide (some w = v))
  else decide (x = v)

def natStr (n : Nat) : Str := (Nat.toDigits 10 n).map Char.toNat

/-- `Registration.href` (rd.py:122-124) -/
def Reg.href (r : Reg) : Str := sRegPrefix ++ natStr r.path ++ sSlash

/-- `get_based_links` (rd.py:272-287) for links with an absolute-path reference, no `anchor`
attribute, and a base of the form `scheme://authority`: `urljoin(base, href) = base ++ href`,
and the implied anchor is `base ++ "/"`. -/
def Reg.basedLinks (r : Reg) : List Link :=
  r.links.map (fun l => { href := r.base ++ l.href, attrs := l.attrs ++ [(sAnchor, some (r.base ++ sSlash))] })

/-- `_link_matches` (rd.py:546-547) -/
def linkMatches (l : Link) (k : Str) (v : Val) : Bool :=
  l.attrs.any (fun a => decide (a.1 = k) && valMatches k v a.2)

/-- `search_key in c.registration_parameters and any(matches(x) for x in …[search_key])` -/
def paramMatches (r : Reg) (k : Str) (v : Val) : Bool :=
  match aget k r.params with
  | some vs => vs.any (valMatches k v)
  | none => false

/-- one `search_key=search_value` condition of the endpoint lookup (rd.py:578-606) -/
def epCond (r : Reg) (k : Str) (v : Val) : Bool :=
  if k = sHref then decide (some r.href = v) || r.basedLinks.any (fun l => decide (some l.href = v))
  else paramMatches r k v || r.basedLinks.any (fun l => linkMatches l k v)

/-- one condition of the resource lookup (rd.py:641-665) -/
def resCond (r : Reg) (l : Link) (k : Str) (v : Val) : Bool :=
  if k = sHref then decide (some l.href = v) || decide (some r.href = v)
  else linkMatches l k v || paramMatches r k v

/-- the search criteria of a lookup: every option but `page` and `count` ("filtered last",
rd.py:560-561) -/
def criteria (q : Query) : Query := q.filter (fun e => decide (e.1 ≠ sPage ∧ e.1 ≠ sCount))

/-- `_paginate` (rd.py:530-543) as far as modelled: `page` and `count` without a value are `None`
like absent ones and select everything; a repeated one is refused (`pop_single_arg`).  (`page` /
`count` *with* a value cut a slice out of the dict order, which is not modelled: the driver refuses
them.) -/
def paginateCheck (q : Query) : Except Nat Unit :=
  match popSingle (vals sPage q) with
  | .error e => .error e
  | .ok _ =>
    match popSingle (vals sCount q) with
    | .error e => .error e
    | .ok _ => .ok ()

/-- `EndpointLookupInterface.render_get` without pagination: the registrations listed -/
def lookupEp (s : State) (q : Query) : List Reg :=
  s.regs.filter (fun r => (criteria q).all (fun kv => epCond r kv.1 kv.2))

/-- the implied anchor always equals `urljoin(link.href, "/")` here, so it is elided
(rd.py:670-677) -/
def stripAnchor (l : Link) : Link := { l with attrs := l.attrs.filter (fun a => decide (a.1 ≠ sAnchor)) }

/-- `ResourceLookupInterface.render_get` without pagination -/
def lookupRes (s : State) (q : Query) : List Link :=
  s.regs.flatMap (fun r =>
    ((r.basedLinks.filter (fun l => (criteria q).all (fun kv => resCond r l kv.1 kv.2))).map stripAnchor))

-- requests, responses -----------------------------------------------------------------------

inductive Op
  | register (remote : Option Str) (q : Query) (body : Body)           -- POST to the directory resource
  | update (path : Nat) (remote : Option Str) (q : Query) (body : Body)  -- POST to a registration
  | put (path : Nat) (remote : Option Str) (q : Query) (body : Body)     -- PUT to a registration
  | delete (path : Nat)
  | read (path : Nat)                                                  -- GET a registration
  | advance (dt : Nat)                                                 -- time passes
  | lookupEp (q : Query)
  | lookupRes (q : Query)
deriving Repr, DecidableEq

inductive Resp
  | created (path : Nat)          -- 2.01 with Location-Path ("reg", str(path), "")
  | changed                       -- 2.04
  | deleted                       -- 2.02
  | regLinks (ls : List Link)     -- 2.05, payload of a registration resource
  | endpoints (rs : List Reg)     -- 2.05, one host link per listed registration
  | resources (ls : List Link)    -- 2.05, resolved links
  | err (code : Nat)              -- 400 / 404 / 415
  | ticked
deriving Repr, DecidableEq

def Resp.is4xx : Resp → Bool
  | .err code => decide (400 ≤ code ∧ code < 500)
  | _ => false

/-- any error answer: 4.xx, or the 5.00 the stack gives for an exception nothing catches -/
def Resp.isError : Resp → Bool
  | .err _ => true
  | _ => false

/-- What a request amounts to once it is validated against the current state. -/
inductive Action
  | fail (code : Nat)
  | write (r : Reg) (resp : Resp)   -- `r` becomes the registration under `r.key` / `r.path`
  | remove (r : Reg)                -- `r.delete()`
  | reply (resp : Resp)
  | tick (dt : Nat)
deriving Repr, DecidableEq

/-- `DirectoryResource.render_post` + `initialize_endpoint`, up to the point where side effects
start: the registration that would be stored, or the error code. -/
def registerReg (s : State) (remote : Option Str) (q : Query) (body : Body) : Except Nat Reg :=
  match linksOf body with                                            -- rd.py:472
  | .error e => .error e
  | .ok links =>
    match epOf (vals sEp q) with                                      -- rd.py:324-326
    | .error e => .error e
    | .ok ep =>
      match dOf (vals sD q) with                                      -- rd.py:327
      | .error e => .error e
      | .ok d =>
        let key : Key := (ep, d)
        let path := match aget key s.byKey with                       -- rd.py:372-378
          | some old => old.path
          | none => newPath (s.byPath.map (·.1))
        let static := group (q.filter (fun e => decide (e.1 = sEp ∨ e.1 = sD)))   -- rd.py:318-322
        let fresh : Reg := { ep := ep, d := d, path := path, lt := 90000, base := [],
                             baseExplicit := false, params := static, links := [],
                             refreshedAt := s.now }                   -- rd.py:139-150
        match updateParams s.now fresh remote
            (q.filter (fun e => decide (e.1 ≠ sEp ∧ e.1 ≠ sD))) true with   -- rd.py:152
        | .error e => .error e
        | .ok r => .ok { r with links := links }                      -- rd.py:472

/-- the validation half of every request -/
def decideOp (s : State) (op : Op) : Action :=
  match op with
  | .register remote q body =>
    match registerReg s remote q body with
    | .error e => .fail e
    | .ok r => .write r (.created r.path)
  | .update path remote q body =>
    match aget path s.byPath with                                     -- rd.py:520-523
    | none => .fail 404
    | some reg =>
      if body.present then .fail 400 else                             -- rd.py:495-499 (fixed order)
      match updateParams s.now reg remote q false with
      | .error e => .fail e
      | .ok r => .write r .changed
  | .put path remote q body =>
    match aget path s.byPath with
    | none => .fail 404
    | some reg =>
      match linksOf body with                                         -- rd.py:505
      | .error e => .fail e
      | .ok links =>
        match updateParams s.now reg remote q false with
        | .error e => .fail e
        | .ok r => .write { r with links := links } .changed
  | .delete path =>
    match aget path s.byPath with
    | none => .fail 404
    | some reg => .remove reg
  | .read path =>
    match aget path s.byPath with
    | none => .fail 404
    | some reg => .reply (.regLinks reg.links)
  | .advance dt => .tick dt
  | .lookupEp q =>
    match paginateCheck q with                                        -- rd.py:610
    | .error e => .fail e
    | .ok _ => .reply (.endpoints (lookupEp s q))
  | .lookupRes q =>
    match paginateCheck q with                                        -- rd.py:678
    | .error e => .fail e
    | .ok _ => .reply (.resources (lookupRes s q))

-- expiry --------------------------------------------------------------------------------------

/-- Every registration whose timer is due runs its `delete()` (rd.py:241-244 with the closure
rd.py:386-389): its path leaves `_by_path`, its key leaves `_by_key`. -/
def purge (c : Cfg) (s : State) : State :=
  let dead := s.regs.filter (fun r => !r.live c s.now)
  { s with byKey := s.byKey.filter (fun e => decide (e.1 ∉ dead.map Reg.key)),
           byPath := s.byPath.filter (fun e => decide (e.1 ∉ dead.map Reg.path)) }

-- the step function -----------------------------------------------------------------------------

/-- the effect half of a request -/
def applyAction (c : Cfg) (s : State) : Action → State × Resp
  | .fail code => (s, .err code)
  | .write r resp =>
    -- register: `oldreg.delete()` if there was one, `_by_key[key] = reg`, `_by_path[path] = reg`
    -- (rd.py:405-416); update: the object under `r.key` / `r.path` now has the new field values.
    -- Then timers that are already due (lt + grace ≤ 0) fire.
    (purge c { s with byKey := aset r.key r s.byKey, byPath := aset r.path r s.byPath }, resp)
  | .remove r =>
    ({ s with byPath := adel r.path s.byPath, byKey := adel r.key s.byKey }, .deleted)
  | .reply resp => (s, resp)
  | .tick dt => (purge c { s with now := s.now + dt }, .ticked)

def step (c : Cfg) (s : State) (op : Op) : State × Resp := applyAction c s (decideOp s op)

/-- a whole history, with the responses -/
def run (c : Cfg) (s : State) : List Op → State × List Resp
  | [] => (s, [])
  | op :: ops =>
    let r := step c s op
    let rs := run c r.1 ops
    (rs.1, r.2 :: rs.2)

end Aiocoap.Rd
