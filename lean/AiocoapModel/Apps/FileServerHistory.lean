import AiocoapModel.Apps.FileServer
/-!
The file server over time, and the way the command line builds it (round 4).

* `ObsTable`, `Server`, `Event`, `Server.step`: `FileServer._observations` (fileserver.py:89), what
  `add_observation` (fileserver.py:330-342), `render_get_file` (fileserver.py:296-302) and one round
  of `check_files_for_refreshes` (fileserver.py:101-121) do with it, and a request rendered in the
  state the earlier events left.  The answer to a request never depends on the table -- only one
  extra `stat` does -- which is what `C19_response_history_independent` states.
* `parseArgv`, `CliOpts.config`: `FileServerProgram.build_parser` + `parse_args` +
  `start_with_options` (fileserver.py:356-426) for command lines made of the tokens listed at
  `parseArgv`; anything else is `outOfModel`.
-/
namespace Aiocoap.FileServer

-- ---------------------------------------------------------------- observations ------

/-- one entry of `FileServer._observations`: the key, and whether `last_stat is None` (no file
response has been rendered since the entry was made).  Entries are never removed: the
cancellation callback handed to `serverobservation.accept` only drops the callback. -/
structure ObsEntry where
  path : PPath
  pending : Bool
deriving DecidableEq, Repr

/-- the dict in insertion order -/
abbrev ObsTable := List ObsEntry

def ObsTable.has (t : ObsTable) (p : PPath) : Bool := t.any (·.path == p)

/-- `path in self._observations and self._observations[path][0] is None` -/
def ObsTable.pendingAt (t : ObsTable) (p : PPath) : Bool := t.any fun e => e.path == p && e.pending

/-- `self._observations.setdefault(path, [None, []])` -/
def ObsTable.register (t : ObsTable) (p : PPath) : ObsTable :=
  if t.has p then t else t ++ [{ path := p, pending := true }]

/-- `self._observations[path][0] = path.stat()` -/
def ObsTable.refreshed (t : ObsTable) (p : PPath) : ObsTable :=
  t.map fun e => if e.path == p then { e with pending := false } else e

/-- the paths one round of `check_files_for_refreshes` looks at: entries whose `last_stat` is set -/
def ObsTable.watched (t : ObsTable) : List PPath := (t.filter (!·.pending)).map (·.path)

structure Server where
  cfg : Config
  obs : ObsTable := []
  /-- the task running `check_files_for_refreshes` has not ended with an exception -/
  refreshAlive : Bool := true
deriving Repr

inductive Event
  /-- a request handed to `render`; `w.obsPending` is ignored, the table decides -/
  | request (req : Request) (w : World)
  /-- `add_observation` for a request with these Uri-Path components -/
  | observe (path : List Str)
  /-- ten seconds pass: one round of the refresh loop; `gone` lists the paths whose `stat()` fails now -/
  | tick (gone : List PPath)
deriving Repr

/-- what a step shows: the response (requests only) and the file-system operations -/
structure StepOut where
  resp : Option Response := none
  /-- `add_observation` raised InvalidPathError (rendered as 4.00 by the library) -/
  refused : Bool := false
  ops : List FsOp := []
deriving Repr

/-- One round of the loop body (fileserver.py:105-121) over the watched paths: `stat` each; a path
whose `stat()` fails makes `new_stat = False`, and `relevant(False)` raises AttributeError, which
ends the task: nothing further is looked at, now or ever. -/
def tickRound (gone : List PPath) : List PPath → List FsOp × Bool
  | [] => ([], true)
  | p :: ps =>
    if gone.contains p then ([.stat p], false)
    else ((FsOp.stat p) :: (tickRound gone ps).1, (tickRound gone ps).2)

def Server.step (s : Server) : Event → Server × StepOut
  | .request req w =>
    match requestToLocalPath s.cfg.root req.path with
    | .error _ => (s, { resp := some (handle s.cfg req w).resp, ops := (handle s.cfg req w).ops })
    | .ok p =>
      let r := handle s.cfg req { w with obsPending := s.obs.pendingAt p }
      -- render_get_file got as far as reading the file: a pending entry gets its stat
      let obs := if r.ops.contains (.openRead p) then s.obs.refreshed p else s.obs
      ({ s with obs := obs }, { resp := some r.resp, ops := r.ops })
  | .observe path =>
    match requestToLocalPath s.cfg.root path with
    | .error _ => (s, { refused := true })
    | .ok p => ({ s with obs := s.obs.register p }, {})
  | .tick gone =>
    if s.refreshAlive then
      let r := tickRound gone s.obs.watched
      ({ s with refreshAlive := r.2 }, { ops := r.1 })
    else (s, {})

/-- a history from a given state: final state and what every step showed -/
def Server.run (s : Server) : List Event → Server × List StepOut
  | [] => (s, [])
  | ev :: evs =>
    let r := s.step ev
    let rest := r.1.run evs
    (rest.1, r.2 :: rest.2)

/-- a freshly started server -/
def Server.fresh (cfg : Config) : Server := { cfg := cfg }

/-- A client fetching block after block from a server whose state moves on with every request. -/
def Server.fetch (req : Request) (w : World) (szx : Nat) : Nat → Nat → Server → Option Bytes
  | 0, _, _ => none
  | fuel + 1, k, s =>
    let r := s.step (.request { req with block2 := some (k, szx) } w)
    match r.2.resp with
    | none => none
    | some resp =>
      if resp.more then (Server.fetch req w szx fuel (k + 1) r.1).map (resp.payload ++ ·)
      else some resp.payload

-- ---------------------------------------------------------------- command line ------

/-- `--write` -/
def tokWrite : Str := [45, 45, 119, 114, 105, 116, 101]
/-- `--etag-length` -/
def tokEtagLength : Str := [45, 45, 101, 116, 97, 103, 45, 108, 101, 110, 103, 116, 104]
/-- `-v`, `-vv`, `-vvv`, `--verbose` (`action="count"`) -/
def verboseToks : List Str :=
  [[45, 118], [45, 118, 118], [45, 118, 118, 118], [45, 45, 118, 101, 114, 98, 111, 115, 101]]
/-- options of `add_server_arguments` (cli/common.py:58-112) that take one value: `--bind`,
`--credentials`, `--tls-server-certificate`, `--tls-server-key`, `--server-config` -/
def valueToks : List Str :=
  [[45, 45, 98, 105, 110, 100],
   [45, 45, 99, 114, 101, 100, 101, 110, 116, 105, 97, 108, 115],
   [45, 45, 116, 108, 115, 45, 115, 101, 114, 118, 101, 114, 45, 99, 101, 114, 116, 105, 102, 105, 99, 97, 116, 101],
   [45, 45, 116, 108, 115, 45, 115, 101, 114, 118, 101, 114, 45, 107, 101, 121],
   [45, 45, 115, 101, 114, 118, 101, 114, 45, 99, 111, 110, 102, 105, 103]]

/-- the namespace `parse_args` builds, as far as `start_with_options` hands it to `FileServer` -/
structure CliOpts where
  write : Bool := false              -- `--write`, `action="store_true"`
  etagLength : Nat := 8              -- `--etag-length`, default 8
  path : Option Str := none          -- the positional, `nargs="?"`, default `.`
deriving DecidableEq, Repr

inductive CliResult
  | ok (o : CliOpts)
  | usage                            -- the parser exits with status 2
  | outOfModel
deriving DecidableEq, Repr

/-- `-` -/
def dash : Nat := 45

/-- `argparse` over the tokens this model knows: `--write`, the verbosity switches, `--etag-length N`
with N one ASCII digit (`type=int`, `choices=range(0, 8)`), the value options of
`add_server_arguments` followed by a value that does not start with `-`, and one positional.
Abbreviated options, `--opt=value`, `--register`, `--version`, `--help`, `--` and anything else
starting with `-` are out of model. -/
def parseArgv (o : CliOpts) : List Str → CliResult
  | [] => .ok o
  | t :: rest =>
    if t = tokWrite then parseArgv { o with write := true } rest
    else if verboseToks.contains t then parseArgv o rest
    else if t = tokEtagLength then
      match rest with
      | [d] :: rest' =>
        if 48 ≤ d ∧ d ≤ 55 then parseArgv { o with etagLength := d - 48 } rest'
        else if d = 56 ∨ d = 57 then .usage
        else .outOfModel
      | _ => .outOfModel
    else if valueToks.contains t then
      match rest with
      | v :: rest' => if v = [] ∨ v.head? = some dash then .outOfModel else parseArgv o rest'
      | [] => .usage
    else if t = [] ∨ t.head? = some dash then .outOfModel
    else match o.path with
      | none => parseArgv { o with path := some t } rest
      | some _ => .usage

/-- `FileServer(path, log, write=write, etag_length=etag_length)` with `path = Path(arg)` -/
def CliOpts.config (o : CliOpts) : Config :=
  { root := parsePath (o.path.getD dotS), write := o.write, etags := o.etagLength != 0 }

end Aiocoap.FileServer
