/-
Model of `aiocoap.resource.Site` (resource.py:346-547 of the fixed tree): the two
registration dicts `_resources` / `_subsites`, `add_resource` / `remove_resource`,
`_find_child_and_pathstripped_message` (exact match first; a nested site whose root was
addressed falls back from `[]` to a resource at `[""]`; then the sub-site at the longest proper
prefix — the empty prefix included, tried last —, remainder `[""] ↦ []`,
`_original_request_path` carried along), applied recursively through nested sites as
`Site.render_to_pipe` / `Site.render` do, and the Uri-Path-Abbrev expansion `_expand_upa` in
front of it.

Strings are UTF-8 byte lists (`Str`), a Uri-Path is a list of components (`Path`); only
equality of components matters for routing.  Python dicts are association lists with unique
keys in insertion order (`insert` keeps the position of an existing key, like `d[k] = v`).
-/
namespace Aiocoap.Apps

abbrev Str := List Nat
abbrev Path := List Str

/-- A plain (non-`PathCapable`) resource as far as the site is concerned: which instance it is,
whether `get_link_description()` returns `None` (hidden), and otherwise the description in dict
order (`none` value: attribute without a value, like `obs`). -/
structure Res where
  id : Nat
  hidden : Bool
  attrs : List (Str × Option Str)
deriving Repr, DecidableEq

/-- A `PathCapable` thing: a `Site` with its two dicts, or some other `PathCapable` resource
(`leaf`) that receives the remaining path and interprets it itself. -/
inductive Site where
  | node (resources : List (Path × Res)) (subsites : List (Path × Site))
  | leaf (id : Nat)
deriving Repr

-- dicts ------------------------------------------------------------------------------------

/-- `d[k]` / `k in d` -/
def lookup {α : Type} (k : Path) : List (Path × α) → Option α
  | [] => none
  | (q, v) :: rest => if q = k then some v else lookup k rest

/-- `d[k] = v`: an existing key keeps its place, a new one goes to the end -/
def insert {α : Type} (k : Path) (v : α) : List (Path × α) → List (Path × α)
  | [] => [(k, v)]
  | (q, w) :: rest => if q = k then (q, v) :: rest else (q, w) :: insert k v rest

/-- `del d[k]` (the caller checks presence) -/
def erase {α : Type} (k : Path) (d : List (Path × α)) : List (Path × α) :=
  d.filter (fun e => !decide (e.1 = k))

def keys {α : Type} (d : List (Path × α)) : List Path := d.map (·.1)

-- routing ----------------------------------------------------------------------------------

/-- What the handler that finally runs can observe: which instance it is, the `uri_path` of the
request it is given, and `_original_request_path` (what `get_request_uri` is built from). -/
structure Hit where
  id : Nat
  seen : Path
  orig : Path
deriving Repr, DecidableEq

/-- resource.py:439-441 `if remainder == [""]: remainder = []` -/
def normRem (r : Path) : Path := if r = [[]] then [] else r

/-- The `while True:` loop of resource.py:434-449: candidate split points from `len-1` down to
`0` (the empty prefix is tried last); the first (longest) prefix that is a key of `_subsites`
wins.  Returns the length of it. -/
def bestSplit (ks : List Path) (p : Path) : Nat → Option Nat
  | 0 => if ([] : Path) ∈ ks then some 0 else none
  | k + 1 => if p.take (k + 1) ∈ ks then some (k + 1) else bestSplit ks p k

mutual
/-- `_find_child_and_pathstripped_message` followed by `child.render…(subrequest)`, through all
nesting levels.  `orig` is `_original_request_path`. `none` is the `KeyError` → 4.04. -/
def Site.routeFrom : Site → Path → Path → Option Hit
  | .leaf id, orig, p => some ⟨id, p, orig⟩
  | .node rs ss, orig, p =>
    match lookup p rs with
    | some r => some ⟨r.id, [], orig⟩                      -- resource.py:419-422
    | none =>
      if p = [] then
        -- resource.py:424-432: an empty path with a non-empty original one is a nested site
        -- whose root was addressed (the parent took the trailing "" off): the resource
        -- registered at `[""]` carries that address too; otherwise `KeyError`
        if orig = [] then none
        else match lookup [[]] rs with
          | some r => some ⟨r.id, [], orig⟩
          | none => none
      else
        match bestSplit (keys ss) p (p.length - 1) with
        | none => none
        | some k => routeIn ss (p.take k) orig (normRem (p.drop k))
/-- `self._subsites[path]` and descent into it -/
def routeIn : List (Path × Site) → Path → Path → Path → Option Hit
  | [], _, _, _ => none
  | (q, s) :: rest, key, orig, rem =>
    if q = key then s.routeFrom orig rem else routeIn rest key orig rem
end

/-- A fresh request: `_original_request_path` defaults to its own `uri_path` (resource.py:413-417). -/
def Site.route (s : Site) (p : Path) : Option Hit := s.routeFrom p p

-- Uri-Path-Abbrev --------------------------------------------------------------------------

/-- `aiocoap/numbers/uri_path_abbrev.py:_map` -/
def upaTable : List (Nat × Path) :=
  let wk : Str := [46, 119, 101, 108, 108, 45, 107, 110, 111, 119, 110]   -- ".well-known"
  let est : Str := [101, 115, 116]
  let brski : Str := [98, 114, 115, 107, 105]
  [ (0, [wk, [99, 111, 114, 101]]),            -- core
    (1, [wk, [114, 100]]),                     -- rd
    (2, [wk, [101, 100, 104, 111, 99]]),       -- edhoc
    (301, [wk, est, [99, 114, 116, 115]]),     -- crts
    (302, [wk, est, [115, 101, 110]]),         -- sen
    (303, [wk, est, [115, 114, 101, 110]]),    -- sren
    (304, [wk, est, [115, 107, 103]]),         -- skg
    (305, [wk, est, [115, 107, 99]]),          -- skc
    (306, [wk, est, [97, 116, 116]]),          -- att
    (401, [wk, brski, [101, 115]]),            -- es
    (402, [wk, brski, [114, 118]]),            -- rv
    (403, [wk, brski, [118, 115]]) ]           -- vs

inductive Outcome where
  | notFound                -- error.NotFound → 4.04
  | badOption               -- error.BadOption → 4.02
  | hit (h : Hit)
deriving Repr, DecidableEq

/-- `_expand_upa` (resource.py:536-547): the effective Uri-Path, or `none` for BadOption -/
def expandUpa (upa : Option Nat) (p : Path) : Option Path :=
  match upa with
  | none => some p
  | some n => if p ≠ [] then none else upaTable.lookup n

/-- `Site.render_to_pipe` of the root site (resource.py:510-533) -/
def Site.serve (s : Site) (upa : Option Nat) (p : Path) : Outcome :=
  match expandUpa upa p with
  | none => .badOption
  | some q => match s.route q with
    | none => .notFound
    | some h => .hit h

-- registration -----------------------------------------------------------------------------

/-- `add_resource(path, resource)` with a non-`PathCapable` resource (resource.py:475-476) -/
def Site.addResource (path : Path) (r : Res) : Site → Option Site
  | .node rs ss => some (.node (insert path r rs) ss)
  | .leaf _ => none

/-- `add_resource(path, site)` with a `PathCapable` one (resource.py:473-474) -/
def Site.addSite (path : Path) (t : Site) : Site → Option Site
  | .node rs ss => some (.node rs (insert path t ss))
  | .leaf _ => none

/-- `remove_resource` (resource.py:478-482): the sub-site of that path if there is one, else the
resource, else `KeyError` (`none`) -/
def Site.remove (path : Path) : Site → Option Site
  | .node rs ss =>
    if path ∈ keys ss then some (.node rs (erase path ss))
    else if path ∈ keys rs then some (.node (erase path rs) ss)
    else none
  | .leaf _ => none

mutual
/-- Apply `f` to the nested site object reached from the root by the sub-site keys `addr` (the
Python code calls the method on that very object; the parent's dict entry keeps its place). -/
def Site.modifyAt (f : Site → Option Site) : Site → List Path → Option Site
  | s, [] => f s
  | .leaf _, _ :: _ => none
  | .node rs ss, k :: ks => (modifySubs f ss k ks).map (.node rs)
def modifySubs (f : Site → Option Site) : List (Path × Site) → Path → List Path →
    Option (List (Path × Site))
  | [], _, _ => none
  | (q, s) :: rest, k, ks =>
    if q = k then (s.modifyAt f ks).map (fun s' => (q, s') :: rest)
    else (modifySubs f rest k ks).map (fun rest' => (q, s) :: rest')
end

/-- one registration call on the nested site object found at `addr` below the root -/
inductive Reg where
  | addRes (addr : List Path) (path : Path) (r : Res)
  | addSite (addr : List Path) (path : Path) (t : Site)
  | remove (addr : List Path) (path : Path)

/-- `none`: the call raises (`KeyError` of `remove_resource`) or `addr` names no Site -/
def Site.reg (s : Site) : Reg → Option Site
  | .addRes a p r => s.modifyAt (Site.addResource p r) a
  | .addSite a p t => s.modifyAt (Site.addSite p t) a
  | .remove a p => s.modifyAt (Site.remove p) a

/-- a whole registration history; a raising call leaves the tree as it was -/
def Site.regs (s : Site) : List Reg → Site
  | [] => s
  | r :: rest => ((s.reg r).getD s).regs rest

end Aiocoap.Apps
