/-
Model of `aiocoap.oscore.ReplayWindow` (oscore.py:1680-1787) and of the control
flow of `CanUnprotect.unprotect` around it (oscore.py:1277-1425): the window is
consulted before decryption, struck only after successful decryption, and an
uninitialised window is only initialised from a request echoing
`echo_recovery`.
-/
namespace Aiocoap.Oscore

/-- `ReplayWindow` once initialised: `_size`, `_index`, `_bitfield`. -/
structure RW where
  size : Nat
  index : Nat
  bitfield : Nat
deriving Repr, DecidableEq

/-- `initialize_empty` -/
def RW.empty (size : Nat) : RW := { size, index := 0, bitfield := 0 }

/-- `initialize_from_freshlyseen` -/
def RW.freshlySeen (size seen : Nat) : RW := { size, index := seen, bitfield := 1 }

/-- `int.bit_length` -/
def bitLength (b : Nat) : Nat := if b = 0 then 0 else b.log2 + 1

/-- `initialize_from_persisted` (oscore.py:1753-1765) of a window of `size` slots on the persisted
`{"index": index, "bitfield": bitfield}`.  The state may have been written by a window of another
size: a bitfield wider than `size` moves the window up (`excess = bit_length - size`; index and
shift, as `strike_out` does) so that no recorded number ends up beyond the window, where `is_valid`
does not look at the bitfield. -/
def RW.fromPersisted (size index bitfield : Nat) : RW :=
  let excess := bitLength bitfield - size
  if excess > 0 then { size, index := index + excess, bitfield := bitfield >>> excess }
  else { size, index, bitfield }

/-- `is_valid`: `(self._bitfield >> (number - self._index)) & 1 == 0` -/
def RW.isValid (w : RW) (n : Nat) : Bool :=
  if n < w.index then false
  else if n ≥ w.index + w.size then true
  else (w.bitfield >>> (n - w.index)) % 2 == 0

/-- `strike_out`; `none` is the `ValueError` for a number that is not valid.
`overshoot = number - (index + size - 1)` is only used when positive, where it
equals the truncated `n + 1 - (index + size)`. -/
def RW.strikeOut (w : RW) (n : Nat) : Option RW :=
  if !w.isValid n then none else
    let overshoot := n + 1 - (w.index + w.size)
    let w1 : RW := if overshoot > 0
      then { w with index := w.index + overshoot, bitfield := w.bitfield >>> overshoot }
      else w
    some { w1 with bitfield := w1.bitfield ||| (1 <<< (n - w1.index)) }

/-- What `unprotect` needs of the recipient side of a context. -/
structure Ctx where
  size : Nat
  win : Option RW               -- `none`: `is_initialized()` is false
  echoRecovery : Option Nat     -- the value issued by this process (abstracted to a number)
deriving Repr, DecidableEq

/-- An arriving protected request, reduced to what the control flow looks at. -/
structure Arrival where
  seq : Nat
  authentic : Bool              -- AEAD decryption under this context succeeds
  echo : Option Nat             -- inner Echo option
deriving Repr, DecidableEq

inductive Outcome
  | accepted            -- unprotect returns the message
  | replayError         -- ReplayError
  | replayEcho          -- ReplayErrorWithEcho (4.01 + Echo)
  | protectionInvalid   -- decryption failed
deriving Repr, DecidableEq

/-- `unprotect` for a request carrying a partial IV.

Python order of events: the replay check sets `replay_error`; with a replay error and no
`echo_recovery` it is raised before decryption; then decryption (failure: protection error, state
untouched); strike-out only without replay error; an uninitialised window is initialised from a
request whose inner Echo equals `echo_recovery`, otherwise `ReplayErrorWithEcho`; finally a
pending replay error is raised. -/
def unprotect (c : Ctx) (a : Arrival) : Ctx × Outcome :=
  match c.win with
  | some w =>
    if w.isValid a.seq then
      if a.authentic then
        match w.strikeOut a.seq with
        | some w' => ({ c with win := some w' }, .accepted)
        | none => (c, .replayError)     -- unreachable: strikeOut succeeds on valid numbers
      else (c, .protectionInvalid)
    else if c.echoRecovery.isNone then (c, .replayError)
    else if a.authentic then (c, .replayError)
    else (c, .protectionInvalid)
  | none =>
    if c.echoRecovery.isNone then (c, .replayError)
    else if !a.authentic then (c, .protectionInvalid)
    else if a.echo == c.echoRecovery then
      ({ c with win := some (RW.freshlySeen c.size a.seq) }, .accepted)
    else (c, .replayEcho)

/-- run a whole arrival sequence, collecting outcomes -/
def run (c : Ctx) : List Arrival → Ctx × List Outcome
  | [] => (c, [])
  | a :: as =>
    let (c1, o) := unprotect c a
    let (c2, os) := run c1 as
    (c2, o :: os)

end Aiocoap.Oscore
