import AiocoapModel.Basic.Bytes
/-!
What OSCORE needs of the CoAP message format: the option list encoding used for the inner
(encrypted) message — `Options.encode` / `Options.decode` (aiocoap/options.py:165-207) with
`_read/_write_extended_field_value` (options.py:12-41) — the plaintext layout of
`_split_message` (oscore.py:1177-1182) / `unprotect` (oscore.py:1376-1377), and
`Message.encode` (message.py:358-380) for the outer datagram.

Options are `(number, value bytes)` in the order `Options.option_list()` yields them (sorted by
number).  Option *values* are opaque here: the typed views (`uint`, `string`) of
`aiocoap.optiontypes` re-encode canonically encoded values to themselves.
-/
namespace Aiocoap.Oscore.Prot

abbrev Opt := Nat × Bytes

structure Msg where
  code : Nat
  opts : List Opt
  payload : Bytes
deriving Repr, DecidableEq

/-- `Code.is_request` (numbers/codes.py:78-80) -/
def isRequest (code : Nat) : Bool := 1 ≤ code && code < 32
/-- `Code.is_response` (numbers/codes.py:82-84) -/
def isResponse (code : Nat) : Bool := 64 ≤ code && code < 192

/-- value of the first option with this number (`_single_value_view` getter) -/
def findOpt (num : Nat) : List Opt → Option Bytes
  | [] => none
  | (n, v) :: rest => if n = num then some v else findOpt num rest

/-- `_write_extended_field_value`; `none` is its `ValueError` -/
def writeExt (v : Nat) : Option (Nat × Bytes) :=
  if v < 13 then some (v, [])
  else if v < 269 then some (13, [v - 13])
  else if v < 65804 then some (14, [(v - 269) / 256, (v - 269) % 256])
  else none

/-- `_read_extended_field_value`; `none` is `UnparsableMessage` -/
def readExt (nib : Nat) (d : Bytes) : Option (Nat × Bytes) :=
  if nib < 13 then some (nib, d)
  else if nib = 13 then
    match d with
    | x :: r => some (x + 13, r)
    | [] => none
  else if nib = 14 then
    match d with
    | x :: y :: r => some (x * 256 + y + 269, r)
    | _ => none
  else none

theorem readExt_length {nib : Nat} {d : Bytes} {v : Nat} {r : Bytes}
    (h : readExt nib d = some (v, r)) : r.length ≤ d.length := by
  unfold readExt at h
  split at h
  · cases h; exact Nat.le_refl _
  · split at h
    · split at h
      · cases h; simp
      · cases h
    · split at h
      · split at h
        · cases h; simp; omega
        · cases h
      · cases h

/-- `Options.encode` starting after option number `prev`; `none`: a delta or length the
format cannot express (or an unsorted list, which `option_list()` never yields) -/
def encodeOpts (prev : Nat) : List Opt → Option Bytes
  | [] => some []
  | (n, v) :: rest =>
    if n < prev then none else
    match writeExt (n - prev), writeExt v.length, encodeOpts n rest with
    | some (d, de), some (l, le), some r => some ((d * 16 + l) :: (de ++ le ++ v ++ r))
    | _, _, _ => none

set_option linter.unusedVariables false in
/-- `Options.decode`: the options up to the payload marker / end of data and what follows the
marker; `none` is `UnparsableMessage` -/
def decodeOpts (prev : Nat) (d : Bytes) : Option (List Opt × Bytes) :=
  match d with
  | [] => some ([], [])
  | b :: rest =>
    if b = 255 then some ([], rest) else
    match h1 : readExt (b / 16 % 16) rest with
    | none => none
    | some (delta, r1) =>
      match h2 : readExt (b % 16) r1 with
      | none => none
      | some (len, r2) =>
        if r2.length < len then none else
        match decodeOpts (prev + delta) (r2.drop len) with
        | none => none
        | some (os, pl) => some ((prev + delta, r2.take len) :: os, pl)
termination_by d.length
decreasing_by
  have := readExt_length h1
  have := readExt_length h2
  simp only [List.length_drop, List.length_cons]
  omega

/-- body of a CoAP message after the options: payload marker only before a non-empty payload -/
def payloadTail (p : Bytes) : Bytes := if p.isEmpty then [] else 255 :: p

/-- the OSCORE plaintext: inner code, inner options, payload (oscore.py:1177-1180) -/
def buildPlaintext (code : Nat) (opts : List Opt) (payload : Bytes) : Option Bytes :=
  match encodeOpts 0 opts with
  | some e => some (code :: (e ++ payloadTail payload))
  | none => none

/-- the reverse (oscore.py:1376-1377); `none`: empty plaintext or unparsable options -/
def parsePlaintext (pt : Bytes) : Option Msg :=
  match pt with
  | [] => none
  | code :: rest =>
    match decodeOpts 0 rest with
    | some (opts, payload) => some { code, opts, payload }
    | none => none

/-- `Message.encode` of a version-1 message with the given type, message id and token -/
def serialize (mtype mid : Nat) (token : Bytes) (m : Msg) : Option Bytes :=
  match encodeOpts 0 m.opts with
  | some e =>
    some ((64 + (mtype % 4) * 16 + token.length % 16) :: m.code :: (mid / 256 % 256) ::
      (mid % 256) :: (token ++ e ++ payloadTail m.payload))
  | none => none

end Aiocoap.Oscore.Prot
