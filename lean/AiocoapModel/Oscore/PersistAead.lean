import AiocoapModel.Oscore.Persist
/-!
Ghost layer over the persistence model: **which (key, nonce) pairs are handed to the AEAD under the
context's sender key**, over whole histories including restarts and crashes.

`Persist.lean` follows the sender sequence numbers (`new_sequence_number`).  A nonce is not only
built from an own number: a response re-uses the nonce of the request it answers when the
request's `RequestIdentifiers.can_reuse_nonce` is true (`get_reusable_kid_and_piv`,
oscore.py:186-195, used in `protect`, oscore.py:1017-1035).  That flag is set by `unprotect`
(oscore.py:1300-1305) to `replay_error is None`:

* request accepted from the initialised window (struck out)          → may be re-used, once;
* request accepted through Echo recovery (window was uninitialised)  → not re-usable;
* request refused with `ReplayErrorWithEcho` (the 4.01 + Echo challenge is protected with the
  request's identifiers, `ReplayErrorWithEcho.to_message`, oscore.py:153-159) → not re-usable:
  the request may be a replay of one answered before the state was lost.

`RequestIdentifiers` objects live in the process; they die with it.

Events added to those of `Persist.Ev`: `respond n crash` — `protect(response, request_id)` with the
newest request identifiers of the request with partial IV `n` (a response, a later notification, or
the Echo challenge).  If they can still re-use the nonce, the nonce `(recipient id, n)` is used and
no sequence number is taken; otherwise the operation is exactly `protect` (a new own number,
`post_seqnoincrease`, possibly a store with its crash points).  `respond` for a number that has no
request identifiers is an own request (`protect`).

The ghost state records every nonce handed to `encrypt` under the sender key (`log`, newest
first) and every request number ever accepted (`acc`).
-/
namespace Aiocoap.Oscore.Persist
open Aiocoap.Oscore

/-- an AEAD nonce used with the context's sender key, by what `_construct_nonce` builds it from -/
inductive Nonce
  | own (n : Nat)      -- (sender id, own sequence number `n`): `_build_new_nonce`
  | peer (n : Nat)     -- (recipient id, partial IV `n` of the request answered): nonce re-use
deriving Repr, DecidableEq

structure G where
  s : State
  reusable : List Nat      -- partial IVs of the live request identifiers with `can_reuse_nonce`
  log : List Nonce         -- ghost: nonces handed to `encrypt` under the sender key, newest first
  acc : List Nat           -- ghost: request numbers accepted so far (all lifetimes), newest first
deriving Repr, DecidableEq

/-- a context directory with no process, nothing encrypted or accepted yet -/
def G.init (d : Dir) : G := { s := { dir := d, mem := none }, reusable := [], log := [], acc := [] }

inductive GEv
  | base (ev : Ev)
  | respond (n : Nat) (crash : Option Nat)
deriving Repr, DecidableEq

inductive GOut
  | base (o : Out)
  | reused (n : Nat)       -- protected with the nonce of request `n`; no sequence number taken
deriving Repr, DecidableEq

/-- Own sequence numbers whose nonce reached `encrypt` in this step.  A number that was handed
out (`issued`) was encrypted with.  A `protect` marked to die after `j` file-system effects still
runs to its end — encryption included — when it performs fewer than `j` effects (no store at all,
or `j ≥ 5` with the four effects of a store); the process is killed afterwards, so the model
reports `died`, but the nonce was used. -/
def usedOwn (s : State) (ev : Ev) (o : Out) : List Nat :=
  match o with
  | .issued n => [n]
  | .died =>
    match s.mem, ev with
    | some m, .protect (some j) =>
      if m.ssn ≥ MAX_SEQNO then []
      else if m.ssn + 1 > m.persisted then
        (if 5 ≤ j ∧ ¬ m.ssn + 1 > m.persisted + m.chunk then [m.ssn] else [])
      else [m.ssn]
    | _, _ => []
  | _ => []

/-- the request numbers a step accepted -/
def accOf : Out → List Nat
  | .accepted n _ => [n]
  | _ => []

/-- the live re-usable request identifiers after a base step: they die with the process; a request
accepted by striking it from the window (`replay_error is None`) adds one -/
def reusableAfter (r : State × Out) (old : List Nat) : List Nat :=
  if r.1.mem.isNone then [] else
  match r.2 with
  | .accepted n false => n :: old
  | _ => old

def gbase (cfg : Cfg) (g : G) (ev : Ev) : G × GOut × List Nonce :=
  let r := step cfg g.s ev
  let used := (usedOwn g.s ev r.2).map Nonce.own
  ({ s := r.1, reusable := reusableAfter r g.reusable, log := used ++ g.log, acc := accOf r.2 ++ g.acc },
   .base r.2, used)

/-- one event; returns the new state, what the caller observes and the nonces handed to the AEAD -/
def gstep (cfg : Cfg) (g : G) : GEv → G × GOut × List Nonce
  | .base ev => gbase cfg g ev
  | .respond n crash =>
    match g.s.mem with
    | none => (g, .base .dead, [])
    | some _ =>
      if n ∈ g.reusable then
        -- `get_reusable_kid_and_piv`: the flag is cleared, the request's nonce is used; no
        -- sequence number, no file-system effect: a crash mark kills the process afterwards
        let g1 : G := { g with reusable := g.reusable.filter (· != n), log := .peer n :: g.log }
        match crash with
        | none => (g1, .reused n, [.peer n])
        | some _ => ({ g1 with s := (step cfg g.s .kill).1, reusable := [] }, .base .died, [.peer n])
      else gbase cfg g (.protect crash)

/-- a whole history -/
def grun (cfg : Cfg) (g : G) : List GEv → G × List GOut
  | [] => (g, [])
  | ev :: evs =>
    let r := gstep cfg g ev
    let r2 := grun cfg r.1 evs
    (r2.1, r.2.1 :: r2.2)

/-- **Assumption about the peer and the Echo value** (not about aiocoap): a request that is
accepted through Echo recovery carries a partial IV above every request number accepted before.
The Echo value was issued by the running process, so the request carrying it was generated
after every request the context had accepted in earlier lifetimes, and an honest peer's sender
sequence numbers increase. -/
def EchoFresh (cfg : Cfg) : G → List GEv → Prop
  | _, [] => True
  | g, ev :: evs =>
    (∀ m, (gstep cfg g ev).2.1 = .base (.accepted m true) → ∀ n ∈ g.acc, n < m) ∧
    EchoFresh cfg (gstep cfg g ev).1 evs

/-- the own sequence numbers among the logged nonces, newest first -/
def ownOf : List Nonce → List Nat
  | [] => []
  | .own n :: l => n :: ownOf l
  | .peer _ :: l => ownOf l

end Aiocoap.Oscore.Persist
