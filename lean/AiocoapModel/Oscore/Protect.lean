import AiocoapModel.Oscore.Compress
import AiocoapModel.Oscore.Nonce
import AiocoapModel.Oscore.Aad
import AiocoapModel.Oscore.Aead
import AiocoapModel.Oscore.Inner
/-!
`CanProtect.protect` with `_split_message` / `_build_new_nonce` / `new_sequence_number`
(oscore.py:981-1221) and `CanUnprotect.unprotect` with `_extract_encrypted0`
(oscore.py:1239-1450, 1518-1526) for a plain (non-group) security context, and
`RequestIdentifiers` (oscore.py:168-195).

Not modelled (answered `outOfModel`): Group OSCORE (signatures, pairwise mode), deterministic
requests, appendix B.2 contexts, splitting a Proxy-Uri option (needs the URI parser), the
`kid_context=` override of `protect`, `request_hash`.  The replay window and Echo recovery
around `unprotect` are the subject of C12 and are not part of this model: the recipient is
taken to have an initialised window that accepts the sequence number.
-/
namespace Aiocoap.Oscore.Prot

/-- a security context as far as `protect`/`unprotect` read it -/
structure Ctx where
  algValue : Nat            -- `alg_aead.value` (COSE algorithm number, goes into the AAD)
  ivBytes : Nat             -- `alg_aead.iv_bytes`
  senderId : Bytes
  recipientId : Bytes
  idContext : Option Bytes
  senderKey : Bytes
  recipientKey : Bytes
  commonIv : Bytes
  responsesSendKid : Bool
deriving Repr, DecidableEq

/-- `RequestIdentifiers`: `kid`, `partial_iv`, `can_reuse_nonce` (`None` counts as false) and
the request's outer code (`code_style`: POST → 2.04, FETCH → 2.05) -/
structure ReqId where
  kid : Bytes
  piv : Bytes
  canReuse : Bool
  style : Nat
deriving Repr, DecidableEq

inductive Err
  | protectionInvalid     -- `ProtectionInvalid`
  | decodeError           -- `DecodeError` (a `ProtectionInvalid`)
  | notProtected          -- `NotAProtectedMessage`: no OSCORE option at all
  | valueError            -- `ValueError` (`_compress`: oversized field; since fix 51b9257 no longer reachable from `unprotect`)
  | contextUnavailable    -- `ContextUnavailable`: sender sequence numbers exhausted
  | unparsable            -- authentic plaintext that is not a CoAP message
  | assertion             -- a Python `assert` fails (ill-formed context)
  | outOfModel
deriving Repr, DecidableEq

/-- the errors that are protection errors (`ProtectionInvalid` and its subclass) -/
def Err.isProtection : Err → Bool
  | .protectionInvalid => true
  | .decodeError => true
  | _ => false

/-- `MAX_SEQNO = 2**40 - 1` -/
def maxSeqno : Nat := 1099511627775

/-- `partial_iv.lstrip(b"\0") or b"\0"` of the 5-byte big-endian sequence number -/
def shortPiv (seq : Nat) : Bytes := if seq = 0 then [0] else natToMinBE seq

/-- options `_split_message` strips from the inner message of a request: Uri-Host, Uri-Port,
Proxy-Uri, Proxy-Scheme (`message.copy(uri_host=None, uri_port=None, proxy_uri=None,
proxy_scheme=None)`).  Everything else — all class-E options, and Observe — stays inside. -/
def isOuterOnly (num : Nat) : Bool := num = 3 || num = 7 || num = 35 || num = 39

def innerOpts (m : Msg) : List Opt :=
  if isRequest m.code then m.opts.filter (fun o => !isOuterOnly o.1) else m.opts

/-- code style → outer response code: `CodeStyle.from_request(...).response` -/
def responseCode (style : Nat) : Nat := if style = 5 then 69 else 68

/-- outer code: POST, or FETCH for requests carrying Observe; 2.04 / 2.05 for responses
according to the request's code style -/
def outerCode (m : Msg) (rid : Option ReqId) : Nat :=
  if isRequest m.code then
    if (findOpt 6 m.opts).isSome then 5 else 2
  else
    match rid with
    | some r => responseCode r.style
    | none => 68

def optOf (num : Nat) : Option Bytes → List Opt
  | some v => [(num, v)]
  | none => []

/-- options of the outer message: Uri-Host and Observe of a request, and the OSCORE option.
(`Message(code=outer_code, uri_host=outer_host, observe=...)`, then `opt.oscore = …`) -/
def outerOpts (m : Msg) (oscore : Bytes) : List Opt :=
  if isRequest m.code then
    optOf 3 (findOpt 3 m.opts) ++ optOf 6 (findOpt 6 m.opts) ++ [(9, oscore)]
  else [(9, oscore)]

/-- result of `protect`: the outer message, the request identifiers to keep, and the sender
sequence number afterwards -/
structure Protected where
  outer : Msg
  rid : ReqId
  seq : Nat
deriving Repr, DecidableEq

/-- key, nonce and AAD the sender hands to the AEAD, and what goes into the option -/
structure SendParams where
  nonce : Bytes
  unprot : Unprot
  rid : ReqId
  seq : Nat
deriving Repr, DecidableEq

/-- the part of `protect` between `_split_message` and `_compress`: which nonce is used, which
header fields are sent, which request identifiers result -/
def sendParams (A : Ctx) (seq : Nat) (m : Msg) (rid : Option ReqId) : Except Err SendParams :=
  let reuse : Option ReqId := match rid with
    | some r => if r.canReuse then some r else none
    | none => none
  match reuse with
  | some r =>
    -- response reusing the request's nonce: no Partial IV is sent
    match constructNonce A.ivBytes A.commonIv r.piv r.kid with
    | none => .error .assertion
    | some nonce =>
      .ok { nonce, seq,
            unprot := { piv := none, kid := if A.responsesSendKid then some A.senderId else none,
                        kidContext := none, group := false },
            rid := { r with canReuse := false } }
  | none =>
    if seq ≥ maxSeqno then .error .contextUnavailable else
    match constructNonce A.ivBytes A.commonIv (natToBE 5 seq) A.senderId with
    | none => .error .assertion
    | some nonce =>
      let piv := shortPiv seq
      match rid with
      | none =>
        .ok { nonce, seq := seq + 1,
              unprot := { piv := some piv, kid := some A.senderId, kidContext := A.idContext,
                          group := false },
              rid := { kid := A.senderId, piv, canReuse := false, style := outerCode m none } }
      | some r =>
        .ok { nonce, seq := seq + 1,
              unprot := { piv := some piv,
                          kid := if A.responsesSendKid then some A.senderId else none,
                          kidContext := none, group := false },
              rid := r }

/-- `CanProtect.protect(message, request_id)` with sender sequence number `seq` -/
def protect (E : AEAD) (A : Ctx) (seq : Nat) (m : Msg) (rid : Option ReqId) :
    Except Err Protected :=
  -- `assert (request_id is None) == message.code.is_request()`; other code classes are not modelled
  if isRequest m.code != rid.isNone then .error .outOfModel else
  if !isRequest m.code && !isResponse m.code then .error .outOfModel else
  if isRequest m.code && (findOpt 35 m.opts).isSome then .error .outOfModel else
  match buildPlaintext m.code (innerOpts m) m.payload with
  | none => .error .outOfModel
  | some plaintext =>
    match sendParams A seq m rid with
    | .error e => .error e
    | .ok sp =>
      match compress sp.unprot with
      | none => .error .valueError
      | some option =>
        let a := aad A.algValue sp.rid.kid sp.rid.piv
        let ciphertext := E.enc A.senderKey sp.nonce a plaintext
        .ok { outer := { code := outerCode m rid, opts := outerOpts m option, payload := ciphertext },
              rid := sp.rid, seq := sp.seq }

/-- what `unprotect` has established before it calls the AEAD -/
structure RecvParams where
  nonce : Bytes
  aad : Bytes
  rid : ReqId
  seqno : Option Nat
deriving Repr, DecidableEq

/-- the KID-context and KID checks of `unprotect` (oscore.py:1272-1286): a field that is present
must equal the recipient's own value; an absent KID context is not checked; an absent KID is not
checked in a response, and makes a request unverifiable (RFC 8613 section 5: 'kid' SHALL be
present in requests — "No key ID provided in request", the audit-F `fix:`) -/
def idsAcceptable (B : Ctx) (isResp : Bool) (u : Unprot) : Bool :=
  (match u.kidContext with
   | some c => some c == B.idContext      -- else "Sender ID context does not match"
   | none => true) &&
  (match u.kid with
   | some k => k == B.recipientId         -- else "Sender ID does not match"
   | none => isResp)                      -- else "No key ID provided in request"

/-- which Partial IV and generator id make the nonce, and which request identifiers go into
the AAD -/
structure Selected where
  piv : Bytes
  gen : Bytes
  seqno : Option Nat
  rid : ReqId
deriving Repr, DecidableEq

/-- oscore.py:1278-1306.  (`rid` is present exactly for responses — asserted before — so the
branches on `is_response` are written as branches on `rid`.) -/
def selectPiv (B : Ctx) (rid : Option ReqId) (code : Nat) (u : Unprot) : Except Err Selected :=
  match u.piv, rid with
  | none, some r => .ok { piv := r.piv, gen := r.kid, seqno := none, rid := r }
  | none, none => .error .protectionInvalid           -- "No sequence number provided in request"
  | some piv, some r =>
    .ok { piv, gen := B.recipientId, seqno := some (beToNat piv), rid := r }
  | some piv, none =>
    if code = 2 ∨ code = 5 then
      .ok { piv, gen := B.recipientId, seqno := some (beToNat piv),
            rid := { kid := B.recipientId, piv, canReuse := true, style := code } }
    else .error .valueError                           -- `CodeStyle.from_request` (not reachable through `recvParams`: code checked first)

/-- `unprotect` up to the decryption call: option decompression, KID-context and KID checks,
Partial IV / request identifier selection, AAD and nonce.  (`tagBytes` is `alg_aead.tag_bytes`
for the "Ciphertext too short" check.) -/
def recvParams (tagBytes : Nat) (B : Ctx) (rid : Option ReqId) (o : Msg) : Except Err RecvParams :=
  -- the outer code is unprotected: a code that does not fit the presence of request identifiers,
  -- or a request code other than POST / FETCH, is a `ProtectionInvalid` before anything else is
  -- looked at (oscore.py:1247-1255, after the round-4 `fix:`; formerly an `assert` and a bare
  -- `ValueError` from `CodeStyle.from_request`)
  if rid.isSome != isResponse o.code then .error .protectionInvalid else
  if !isResponse o.code && !(o.code == 2 || o.code == 5) then .error .protectionInvalid else
  match findOpt 9 o.opts with
  | none => .error .notProtected
  | some option =>
    match uncompress option with
    | none => .error .decodeError
    | some u =>
      if !idsAcceptable B (isResponse o.code) u then .error .protectionInvalid else
      match selectPiv B rid o.code u with
      | .error e => .error e
      | .ok s =>
        if u.group then .error .decodeError else       -- group message, non-group context
        if o.payload.length < tagBytes + 1 then .error .protectionInvalid else
        match constructNonce B.ivBytes B.commonIv s.piv s.gen with
        | none => .error .assertion
        | some nonce =>
          .ok { nonce, aad := aad B.algValue s.rid.kid s.rid.piv, rid := s.rid, seqno := s.seqno }

/-- the unprotected message as the caller sees it: `opt.observe` is reported separately (it can
be −1, which has no encoding), `opts` are all other options -/
structure Unprotected where
  code : Nat
  opts : List Opt
  observe : Option Int
  payload : Bytes
deriving Repr, DecidableEq

/-- Observe handling at the end of `unprotect` (oscore.py:1421-1431) -/
def observeResult (inner : Msg) (outerObserve : Option Bytes) (seqno : Option Nat) : Option Int :=
  if isRequest inner.code then
    match outerObserve with
    | some v => if beToNat v = 0 then (findOpt 6 inner.opts).map (fun b => (beToNat b : Int)) else none
    | none => none
  else
    match outerObserve with
    | some _ => some (match seqno with | some s => (s : Int) | none => -1)
    | none => (findOpt 6 inner.opts).map (fun b => (beToNat b : Int))

def finishUnprotect (inner : Msg) (o : Msg) (rp : RecvParams) : Unprotected :=
  { code := inner.code, opts := inner.opts.filter (fun x => x.1 != 6),
    observe := observeResult inner (findOpt 6 o.opts) rp.seqno, payload := inner.payload }

/-- `CanUnprotect.unprotect(protected_message, request_id)` -/
def unprotect (E : AEAD) (B : Ctx) (rid : Option ReqId) (o : Msg) :
    Except Err (Unprotected × ReqId) :=
  match recvParams E.tagBytes B rid o with
  | .error e => .error e
  | .ok rp =>
    match E.dec B.recipientKey rp.nonce rp.aad o.payload with
    | none => .error .protectionInvalid                  -- the algorithm's "Tag invalid"
    | some plaintext =>
      match parsePlaintext plaintext with
      | none => .error .unparsable
      | some inner => .ok (finishUnprotect inner o rp, rp.rid)

end Aiocoap.Oscore.Prot
