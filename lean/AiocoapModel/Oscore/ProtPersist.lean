import AiocoapModel.Oscore.Protect
/-!
The sender sequence number of a **persisted** security context over the lives of a process
(C11, "inner data hidden" over crash histories: one (key, nonce) pair must never protect two
messages).  `protect` takes its Partial IV from `CanProtect.new_sequence_number`
(oscore.py:1203-1213): hand out `sender_sequence_number`, advance it, then call the persistence hook.
For `FilesystemSecurityContext` the hook is `post_seqnoincrease` (oscore.py:2026-2041): once the
advanced number exceeds `sequence_number_persisted`, a whole chunk ahead is written to
`sequence.json` (`next-to-send`) and the chunk size doubles up to a limit.  An orderly stop
(`_destroy`, 2043-2065) writes the exact number; a killed process writes nothing; the next process
starts at what the file says (`_load`, 1950-1956; chunk size back to its start value,
`sequence_number_persisted = sender_sequence_number`, 1897-1901).

Only the sender side is modelled here (the crash points of this model lie *between* operations;
a process dying inside `_store`, the replay window and the Echo exchange after a restart are
C13's model, `Oscore/Persist*.lean`).  A store triggered by the replay window writes the same
`sequence_number_persisted` and therefore does not change `next-to-send`.
-/
namespace Aiocoap.Oscore.Prot

/-- chunk configuration (`sequence_number_chunksize_start` / `_limit`; defaults 10 / 10000) -/
structure Chunks where
  start : Nat
  limit : Nat
deriving Repr, DecidableEq

/-- the live process: `sender_sequence_number`, `sequence_number_persisted`,
`sequence_number_chunksize` -/
structure SendMem where
  ssn : Nat
  persisted : Nat
  chunk : Nat
deriving Repr, DecidableEq

/-- live process and `next-to-send` of `sequence.json` -/
structure SendState where
  mem : SendMem
  disk : Nat
deriving Repr, DecidableEq

/-- `_load` of a new process -/
def loadSend (c : Chunks) (disk : Nat) : SendState :=
  { mem := { ssn := disk, persisted := disk, chunk := c.start }, disk }

/-- `new_sequence_number` with `post_seqnoincrease`: the number handed out (`none`:
`ContextUnavailable`, nothing changes) and the state afterwards -/
def takeNumber (c : Chunks) (s : SendState) : Option Nat × SendState :=
  if s.mem.ssn ≥ maxSeqno then (none, s) else
  let ssn' := s.mem.ssn + 1
  if ssn' > s.mem.persisted then
    let persisted' := s.mem.persisted + s.mem.chunk
    (some s.mem.ssn,
     { mem := { ssn := ssn', persisted := persisted', chunk := min (s.mem.chunk * 2) c.limit },
       disk := persisted' })
  else
    (some s.mem.ssn, { s with mem := { s.mem with ssn := ssn' } })

inductive SendEv
  | take      -- a `protect` that takes a number of its own (request, notification, Echo challenge)
  | kill      -- the process dies (no `_destroy`), a new one loads the context
  | stop      -- `_destroy`, then a new process loads the context
deriving Repr, DecidableEq

/-- one event: what was handed out (if the event is a `take`), the state afterwards -/
def sendStep (c : Chunks) (s : SendState) : SendEv → Option Nat × SendState
  | .take => takeNumber c s
  | .kill => (none, loadSend c s.disk)
  | .stop => (none, loadSend c s.mem.ssn)

/-- a whole history: the numbers handed out, in order, and the final state -/
def sendRun (c : Chunks) (s : SendState) : List SendEv → List Nat × SendState
  | [] => ([], s)
  | e :: es =>
    let r := sendStep c s e
    let rest := sendRun c r.2 es
    (match r.1 with
     | some n => n :: rest.1
     | none => rest.1, rest.2)

/-- the AEAD nonce of a `protect` that took number `n` (`_build_new_nonce`, oscore.py:1188-1198) -/
def ownNonce (A : Ctx) (n : Nat) : Option Bytes :=
  constructNonce A.ivBytes A.commonIv (natToBE 5 n) A.senderId

end Aiocoap.Oscore.Prot
