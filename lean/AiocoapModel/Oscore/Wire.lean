import AiocoapModel.Oscore.ReplayWindow
import AiocoapModel.Oscore.Responses
/-
`CanUnprotect.unprotect` (oscore.py:1239-1443) as ONE function of the arriving message, including
the classification by the OUTER CoAP code that `ReplayWindow.lean` (requests) and `Responses.lean`
(responses) take as given.

The outer code is not integrity protected (it is in neither the AAD nor the nonce), so whoever
delivers a recorded message picks it freely.  `unprotect` looks at it in four places:

* `is_response = protected_message.code.is_response()` (1250) — replay check (1290), construction of
  request identifiers (1300) and strike-out (1384) happen for `not is_response`;
* `RequestIdentifiers(... request_code=protected_message.code)` (1300-1305) runs
  `CodeStyle.from_request` (oscore.py:94-101), which raises `ValueError` unless the code is FETCH or
  POST — before decryption;
* the B.1.2 recovery block (1393-1422) asks `protected_message.code.is_request()` and treats
  everything else as a response "guaranteed fresh as it was AEAD-decoded to match a request sent
  by this process": it initialises the window from the message's own partial IV without any Echo.

Codes of class 0.00, 1.xx, 6.xx and 7.xx are `not is_response` and not `is_request()` either.
The model below follows the Python statement by statement, so that branch is in it.
-/
namespace Aiocoap.Oscore

/-- `Code.is_request` (numbers/codes.py:78-80) -/
def codeIsRequest (c : Nat) : Bool := decide (1 ≤ c) && decide (c < 32)

/-- `Code.is_response` (numbers/codes.py:82-84) -/
def codeIsResponse (c : Nat) : Bool := decide (64 ≤ c) && decide (c < 192)

def codePOST : Nat := 2
def codeFETCH : Nat := 5

/-- `CodeStyle.from_request` (oscore.py:94-101) does not raise: the code is FETCH or POST -/
def codeStyleOk (c : Nat) : Bool := c == codeFETCH || c == codePOST

/-- A protected message as it arrives at `unprotect`, reduced to what the control flow looks at.
What the AEAD says depends on the request identifiers used for the AAD, and those depend on the
path taken: a message the peer made as a *request* verifies with identifiers made of its own
partial IV (`asRequest`); a message the peer made as the *response* to a request of this process
verifies with the identifiers the caller hands in (`asResponse`).  Nothing is assumed about the
two flags (under a sound AEAD at most one holds). -/
structure WireMsg where
  code : Nat                    -- outer code, 0..255; unauthenticated
  kid : Bool                    -- the OSCORE option carries a key ID (requests of the peer do, its responses do not)
  piv : Option Nat              -- Partial IV in the OSCORE option, if any
  asRequest : Bool
  asResponse : Bool
  echo : Option Nat             -- inner Echo option (of the plaintext)
deriving Repr, DecidableEq

/-- outcome of `unprotect`: one of the outcomes of the request/response models, or the refusal of a request-side
outer code other than FETCH / POST (`ProtectionInvalid` since fix 51b9257, the `ValueError` of
`CodeStyle.from_request` before) -/
inductive WOut
  | plain (o : Outcome)
  | codeRefused
deriving Repr, DecidableEq

/-- `unprotect`, in the order of the Python statements. -/
def unprotectWire (c : Ctx) (m : WireMsg) : Ctx × WOut :=
  let isResp := codeIsResponse m.code
  -- 1247-1255 (fix 51b9257): the outer code of a request is neither POST nor FETCH: `ProtectionInvalid`, before
  -- anything else is looked at.  (The other new test there, "request identifiers given iff response code", is
  -- about the caller's argument; callers hand identifiers in exactly for response codes.)
  if !isResp && !codeStyleOk m.code then (c, .codeRefused) else
  -- 1276-1281 (fix 603f085): a message under a request code without a key ID (a recorded response of the peer
  -- delivered as a request): `ProtectionInvalid`, before the sequence number and the window are looked at
  if !isResp && !m.kid then (c, .plain .protectionInvalid) else
  match m.piv with
  | none =>
    -- 1277-1283: no partial IV
    if !isResp then (c, .plain .protectionInvalid)        -- "No sequence number provided in request"
    else if !m.asResponse then (c, .plain .protectionInvalid)
    else (c, .plain .accepted)                            -- 1421: `seqno is None`, nothing to initialise from
  | some n =>
    -- 1290-1294: replay check, requests (= everything that is not a response) only
    let replayErr : Bool := !isResp && (match c.win with
      | none => true
      | some w => !w.isValid n)
    -- 1296-1298
    if replayErr && c.echoRecovery.isNone then (c, .plain .replayError) else
    -- 1300-1305: RequestIdentifiers → CodeStyle.from_request (cannot raise any more: the code was tested above)
    -- 1375: decryption
    if !(if isResp then m.asResponse else m.asRequest) then (c, .plain .protectionInvalid) else
    -- 1384-1385: strike out
    let c1 : Option Ctx :=
      if !isResp && !replayErr then
        match c.win with
        | some w => (w.strikeOut n).map fun w' => { c with win := some w' }
        | none => some c
      else some c
    match c1 with
    | none => (c, .plain .replayError)      -- unreachable: strike_out succeeds on valid numbers
    | some c1 =>
      -- 1393-1422
      if c1.win.isNone && c1.echoRecovery.isSome then
        if codeIsRequest m.code then
          if m.echo == c1.echoRecovery then
            ({ c1 with win := some (RW.freshlySeen c1.size n) }, .plain .accepted)
          else (c1, .plain .replayEcho)
        else
          -- "We can initialize the replay window from a response as well."
          let c2 := { c1 with win := some (RW.freshlySeen c1.size n) }
          if replayErr then (c2, .plain .replayError) else (c2, .plain .accepted)
      -- 1424-1425
      else if replayErr then (c1, .plain .replayError)
      else (c1, .plain .accepted)

/-- run a whole sequence of arriving messages, collecting outcomes -/
def runWire (c : Ctx) : List WireMsg → Ctx × List WOut
  | [] => (c, [])
  | m :: ms =>
    let (c1, o) := unprotectWire c m
    let (c2, os) := runWire c1 ms
    (c2, o :: os)

/-- a request of the peer (sequence number, authentic?, inner Echo) under an outer code -/
def WireMsg.ofArrival (a : Arrival) (code : Nat) : WireMsg :=
  { code, kid := true, piv := some a.seq, asRequest := a.authentic, asResponse := false, echo := a.echo }

/-- a response of the peer to a request of this process under an outer code -/
def WireMsg.ofResp (r : RespArrival) (code : Nat) : WireMsg :=
  { code, kid := false, piv := r.seq, asRequest := false, asResponse := r.authentic, echo := none }

end Aiocoap.Oscore
