import AiocoapModel.Oscore.Protect
import AiocoapModel.Oscore.ReplayWindow
/-!
`CanUnprotect.unprotect` for protected **requests** together with the recipient state it reads and
writes (oscore.py:1239-1443): the replay window and `echo_recovery`.  `Protect.lean` models the
message processing for a recipient whose window accepts the number; this file puts the window
around it, in the order the code performs its steps:

0. outer code: a response code, or a request code other than POST / FETCH → `ProtectionInvalid`
   (1247-1255, round-4 `fix:`);
1. option decoding, KID-context / KID checks, "No sequence number provided" (1258-1288);
2. replay check (1290-1298): window uninitialised or number not valid → `replay_error`; raised at
   once when the context has no `echo_recovery`;
3. `RequestIdentifiers(…, can_reuse_nonce = replay_error is None, …)` (1300-1305), AAD, group flag, ciphertext length, nonce, **decryption**
   (1307-1378) — any failure leaves the context as it was;
4. `strike_out(seqno)` if there was no replay error (1384-1385) — only now, after verification;
5. the plaintext is parsed (1389-1391);
6. Echo recovery (1393-1407): an uninitialised window is initialised from a request that carries
   the `echo_recovery` value in its Echo option, otherwise `ReplayErrorWithEcho` (whose 4.01 is
   protected with the request identifiers of step 3: `can_reuse_nonce = False`);
7. a pending replay error is raised (1424-1425).

Several messages in a row on ONE context: `sessionRun`.
-/
namespace Aiocoap.Oscore.Prot
open Aiocoap.Oscore (RW)

/-- the recipient state `unprotect` reads and writes -/
structure RState where
  size : Nat                 -- window size
  win : Option RW            -- `none`: `is_initialized()` is false
  echo : Option Bytes        -- `echo_recovery`
deriving Repr, DecidableEq

inductive SErr
  | base (e : Err)
  | replay                     -- `ReplayError`
  | replayEcho (rid : ReqId)   -- `ReplayErrorWithEcho`, carrying the request identifiers
deriving Repr, DecidableEq

/-- step 1: the sequence number of a request whose option decodes, whose KID context and KID are
acceptable (the KID present: this is a request) and which carries a Partial IV — the point at which the replay window is consulted -/
def requestSeqno (B : Ctx) (o : Msg) : Option Nat :=
  match findOpt 9 o.opts with
  | none => none
  | some option =>
    match uncompress option with
    | none => none
    | some u => if !idsAcceptable B false u then none else u.piv.map beToNat

/-- `strike_out` on the live window -/
def RState.strike (st : RState) (n : Nat) : RState :=
  match st.win with
  | some w =>
    match w.strikeOut n with
    | some w' => { st with win := some w' }
    | none => st
  | none => st

/-- step 2: does the replay check set `replay_error`? -/
def replayFlag (st : RState) (n : Nat) : Bool :=
  match st.win with
  | none => true
  | some w => !w.isValid n

/-- step 6 for a request that decrypted and parsed although `replay_error` is set (only reached
when the context has an `echo_recovery` value) -/
def echoRecovery (st : RState) (n : Nat) (u : Unprotected) (rid : ReqId) :
    RState × Except SErr (Unprotected × ReqId) :=
  match st.win with
  | some _ => (st, .error .replay)
  | none =>
    if findOpt 252 u.opts == st.echo then
      ({ st with win := some (RW.freshlySeen st.size n) }, .ok (u, rid))
    else (st, .error (.replayEcho rid))

/-- steps 4-7, given what the message processing of steps 3 and 5 (`Prot.unprotect`) yields -/
def afterDecrypt (st : RState) (n : Nat) (replay : Bool) :
    Except Err (Unprotected × ReqId) → RState × Except SErr (Unprotected × ReqId)
  | .error e =>
    -- `unparsable`: decrypted (authentic), struck out, then the plaintext did not parse
    (if e = .unparsable ∧ replay = false then st.strike n else st, .error (.base e))
  | .ok (u, rid) =>
    if replay then echoRecovery st n u { rid with canReuse := false }
    else (st.strike n, .ok (u, { rid with canReuse := true }))

/-- `unprotect(protected_message)` of a request on a context in state `st` -/
def sessionStep (E : AEAD) (B : Ctx) (st : RState) (o : Msg) :
    RState × Except SErr (Unprotected × ReqId) :=
  -- the outer-code checks come first (oscore.py:1247-1255): without request identifiers a
  -- response code, and any request code other than POST / FETCH, is a `ProtectionInvalid`
  if isResponse o.code then (st, .error (.base .protectionInvalid)) else
  if !(o.code == 2 || o.code == 5) then (st, .error (.base .protectionInvalid)) else
  match requestSeqno B o with
  | none =>
    -- fails in step 1 (or has no OSCORE option at all): the window is not even looked at
    match unprotect E B none o with
    | .error e => (st, .error (.base e))
    | .ok _ => (st, .error (.base .outOfModel))           -- not reachable
  | some n =>
    if replayFlag st n && st.echo.isNone then (st, .error .replay)
    else afterDecrypt st n (replayFlag st n) (unprotect E B none o)

/-- several messages in a row on one context -/
def sessionRun (E : AEAD) (B : Ctx) (st : RState) :
    List Msg → RState × List (Except SErr (Unprotected × ReqId))
  | [] => (st, [])
  | o :: os =>
    let r := sessionStep E B st o
    let r2 := sessionRun E B r.1 os
    (r2.1, r.2 :: r2.2)

end Aiocoap.Oscore.Prot
