import AiocoapModel.Oscore.ReplayWindow
/-!
Model of the persistence of `aiocoap.oscore.FilesystemSecurityContext`
(oscore.py:1790-2047) together with `CanProtect.new_sequence_number`
(oscore.py:1203-1213).

* the directory: `sequence.json` (absent, or `next-to-send` + `received`) and the stray
  `.sequence-*.json` temp files a killed process leaves behind;
* the process memory: `sender_sequence_number`, `sequence_number_persisted`,
  `sequence_number_chunksize`, `replay_window_persisted`, the replay window, `echo_recovery`;
* every operation that writes goes through `store`, which is `_store` (oscore.py:1976-1999)
  cut into its four file-system effects `mkstemp`, `write`(+flush), `fsync`, `replace`; a crash
  parameter says after how many of them the process dies.  Under process-crash semantics only a
  completed `os.replace` changes what a later `_load` sees.

The arrival of a protected request is the `unprotect` of `ReplayWindow.lean` (C12) run on the
in-memory window; the `strike_out_callback` is `_replay_window_changed`.
-/
namespace Aiocoap.Oscore.Persist
open Aiocoap.Oscore

/-- `MAX_SEQNO = 2**40 - 1` (oscore.py:54) -/
def MAX_SEQNO : Nat := 2 ^ 40 - 1

/-- constructor parameters and the `window` setting (oscore.py:1842-1846, 1914) -/
structure Cfg where
  start : Nat      -- sequence_number_chunksize_start (default 10)
  limit : Nat      -- sequence_number_chunksize_limit (default 10000)
  size : Nat       -- replay window size (settings "window", default 32)
deriving Repr, DecidableEq

/-- the `received` member of `sequence.json`: the string `"unknown"` or the dict of
`ReplayWindow.persist()`; `window none` is `{"index": null, "bitfield": null}`, which is what
`persist()` returns for a window that was never initialised. -/
inductive Received
  | unknown
  | window (w : Option (Nat × Nat))
deriving Repr, DecidableEq

/-- contents of `sequence.json` (or of a fully written temp file) -/
structure SeqFile where
  nextToSend : Nat
  received : Received
deriving Repr, DecidableEq

/-- the context directory as far as `_load`/`_store` are concerned.  `temps`: the temp files
left behind by killed processes, newest first; `none` = created but still empty. -/
structure Dir where
  seq : Option SeqFile
  temps : List (Option SeqFile)
deriving Repr, DecidableEq

/-- the live Python object -/
structure Mem where
  ssn : Nat                    -- sender_sequence_number (next number to hand out)
  persisted : Nat              -- sequence_number_persisted
  chunk : Nat                  -- sequence_number_chunksize
  windowPersisted : Bool       -- replay_window_persisted
  window : Option RW           -- recipient_replay_window (`none`: not initialised)
  echo : Nat                   -- echo_recovery (fresh per process; a number here)
deriving Repr, DecidableEq

/-- `mem = none`: no process holds the context (never loaded, shut down, or killed). -/
structure State where
  dir : Dir
  mem : Option Mem
deriving Repr, DecidableEq

/-- an empty directory with only the settings in it, no process -/
def State.fresh : State := { dir := { seq := none, temps := [] }, mem := none }

/-- `ReplayWindow.persist()` -/
def persistWindow (w : Option RW) : Option (Nat × Nat) := w.map fun w => (w.index, w.bitfield)

/-- the `received` value `_store` writes (oscore.py:1981-1985) -/
def received (m : Mem) : Received :=
  if m.windowPersisted then .window (persistWindow m.window) else .unknown

/-- Does an operation whose process dies after `crash` effects still reach the end of its
`_store` (all four effects done)?  `none` = no crash. -/
def completes : Option Nat → Bool
  | none => true
  | some j => 4 ≤ j

/-- `_store` (oscore.py:1976-1999) writing `data`, the process dying after `crash` of its
effects: 0 nothing happened; 1 `mkstemp` done (empty temp file); 2 written and flushed;
3 `fsync` done (no visible difference under process-crash semantics); ≥ 4 or no crash:
`os.replace` done — the temp file has become `sequence.json`. -/
def store (d : Dir) (data : SeqFile) (crash : Option Nat) : Dir :=
  if completes crash then { d with seq := some data }
  else match crash with
    | some 0 => d
    | some 1 => { d with temps := none :: d.temps }
    | _ => { d with temps := some data :: d.temps }

/-- what an operation reports -/
inductive Out
  | issued (n : Nat)                     -- `new_sequence_number` returned `n`
  | exhausted                            -- ContextUnavailable
  | assertion                            -- the `assert` in post_seqnoincrease fired
  | accepted (n : Nat) (viaEcho : Bool)  -- `unprotect` returned the request with number `n`
  | refused (o : Outcome)                -- `unprotect` raised
  | loaded
  | locked                               -- a second process cannot take the lock
  | shutdown
  | killed
  | died                                 -- the process died inside the operation
  | dead                                 -- there is no process to run the operation
deriving Repr, DecidableEq

/-- `FilesystemSecurityContext.__init__` + `_load` on the directory (oscore.py:1848-1881,
1927-1957): no file → 0 and an empty window; `"unknown"` → window stays uninitialised (Echo
recovery), otherwise `initialize_from_persisted` (`RW.fromPersisted`: a state written by a larger
window is moved up until it fits). -/
def load (cfg : Cfg) (d : Dir) (echo : Nat) : Mem :=
  match d.seq with
  | none =>
    { ssn := 0, persisted := 0, chunk := cfg.start, windowPersisted := true,
      window := some (RW.empty cfg.size), echo }
  | some f =>
    match f.received with
    | .unknown =>
      { ssn := f.nextToSend, persisted := f.nextToSend, chunk := cfg.start,
        windowPersisted := false, window := none, echo }
    | .window w =>
      { ssn := f.nextToSend, persisted := f.nextToSend, chunk := cfg.start,
        windowPersisted := true,
        window := w.map fun p => RW.fromPersisted cfg.size p.1 p.2, echo }

/-- `new_sequence_number` (oscore.py:1203-1213) with `post_seqnoincrease`
(oscore.py:2007-2021) inlined. -/
def protect (cfg : Cfg) (d : Dir) (m : Mem) (crash : Option Nat) : State × Out :=
  if m.ssn ≥ MAX_SEQNO then
    match crash with
    | none => ({ dir := d, mem := some m }, .exhausted)
    | some _ => ({ dir := d, mem := none }, .died)
  else
    let m1 := { m with ssn := m.ssn + 1 }
    if m1.ssn > m1.persisted then
      let m2 := { m1 with persisted := m1.persisted + m1.chunk,
                          chunk := min (m1.chunk * 2) cfg.limit }
      let d' := store d { nextToSend := m2.persisted, received := received m2 } crash
      match crash with
      | some _ => ({ dir := d', mem := none }, .died)
      | none =>
        if m2.ssn > m2.persisted then ({ dir := d', mem := some m2 }, .assertion)
        else ({ dir := d', mem := some m2 }, .issued m.ssn)
    else
      match crash with
      | some _ => ({ dir := d, mem := none }, .died)
      | none => ({ dir := d, mem := some m1 }, .issued m.ssn)

/-- a protected request arrives: `unprotect` on the in-memory window; `strike_out` calls
`_replay_window_changed` (oscore.py:2001-2005), which on the first change of a lifetime stores
`"unknown"`.  `initialize_from_freshlyseen` (Echo recovery) does not call it. -/
def recv (cfg : Cfg) (d : Dir) (m : Mem) (a : Arrival) (crash : Option Nat) : State × Out :=
  let r := unprotect { size := cfg.size, win := m.window, echoRecovery := some m.echo } a
  let m1 := { m with window := r.1.win }
  let out : Out := if r.2 = .accepted then .accepted a.seq m.window.isNone else .refused r.2
  if r.2 = .accepted ∧ m.window.isSome ∧ m.windowPersisted then
    let m2 := { m1 with windowPersisted := false }
    let d' := store d { nextToSend := m2.persisted, received := .unknown } crash
    match crash with
    | some _ => ({ dir := d', mem := none }, .died)
    | none => ({ dir := d', mem := some m2 }, out)
  else
    match crash with
    | some _ => ({ dir := d, mem := none }, .died)
    | none => ({ dir := d, mem := some m1 }, out)

/-- `_destroy` (oscore.py:2023-2043): the exact next number and the window are written, then
the lock is released and the object is unusable. -/
def cleanShutdown (d : Dir) (m : Mem) (crash : Option Nat) : State × Out :=
  let m1 := { m with windowPersisted := true, persisted := m.ssn }
  let d' := store d { nextToSend := m1.persisted, received := received m1 } crash
  ({ dir := d', mem := none }, match crash with | none => .shutdown | some _ => .died)

/-- the events of a history.  `crash = some j`: the process dies inside this operation after
`j` file-system effects of the operation's `_store` (if it performs one). -/
inductive Ev
  | load (echo : Nat)                         -- a process opens the context
  | protect (crash : Option Nat)
  | recv (a : Arrival) (crash : Option Nat)
  | cleanShutdown (crash : Option Nat)
  | kill                                      -- the process dies between two operations
deriving Repr, DecidableEq

def step (cfg : Cfg) (s : State) (ev : Ev) : State × Out :=
  match s.mem, ev with
  | none, .load echo => ({ s with mem := some (load cfg s.dir echo) }, .loaded)
  | some _, .load _ => (s, .locked)
  | none, _ => (s, .dead)
  | some m, .protect crash => protect cfg s.dir m crash
  | some m, .recv a crash => recv cfg s.dir m a crash
  | some m, .cleanShutdown crash => cleanShutdown s.dir m crash
  | some _, .kill => ({ s with mem := none }, .killed)

/-- a whole history -/
def run (cfg : Cfg) (s : State) : List Ev → State × List Out
  | [] => (s, [])
  | ev :: evs =>
    let r := step cfg s ev
    let r2 := run cfg r.1 evs
    (r2.1, r.2 :: r2.2)

/-- the sequence numbers handed out over a history, in order -/
def issuedOf : List Out → List Nat
  | [] => []
  | .issued n :: os => n :: issuedOf os
  | _ :: os => issuedOf os

/-- the request numbers accepted over a history, in order -/
def acceptedOf : List Out → List Nat
  | [] => []
  | .accepted n _ :: os => n :: acceptedOf os
  | _ :: os => acceptedOf os

end Aiocoap.Oscore.Persist
