import AiocoapModel.Oscore.Cbor
/-!
`_extract_external_aad` for a non-group context (oscore.py:823-881) and the
`Encrypt0` structure (oscore.py:229-235 and 1354-1355).
-/
namespace Aiocoap.Oscore.Prot

/-- `cbor.dumps([1, [alg], request_kid, request_piv, b""])` — OSCORE version 1, the AEAD
algorithm, the identifiers of the *request*, no class-I options. -/
def externalAad (alg : Nat) (reqKid reqPiv : Bytes) : Bytes :=
  cborArr [cborUint 1, cborArr [cborUint alg], cborBstr reqKid, cborBstr reqPiv, cborBstr []]

/-- ASCII "Encrypt0" -/
def encrypt0Label : Bytes := [69, 110, 99, 114, 121, 112, 116, 48]

/-- `cbor.dumps(["Encrypt0", b"", external_aad])` -/
def encrypt0Aad (externalAad : Bytes) : Bytes :=
  cborArr [cborTstr encrypt0Label, cborBstr [], cborBstr externalAad]

/-- the AAD handed to the AEAD algorithm -/
def aad (alg : Nat) (reqKid reqPiv : Bytes) : Bytes := encrypt0Aad (externalAad alg reqKid reqPiv)

end Aiocoap.Oscore.Prot
