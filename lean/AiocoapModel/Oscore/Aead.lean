import AiocoapModel.Basic.Bytes
/-!
The AEAD algorithm is a **parameter** of the OSCORE model: `aiocoap.oscore.AeadAlgorithm`
(oscore.py:203-241) with `encrypt(plaintext, aad, key, iv)` / `decrypt(ciphertext_and_tag, aad,
key, iv)` and the `tag_bytes` attribute `unprotect` looks at.  Its cryptographic strength is
not proved; it enters the theorems as the law fields of this structure (hypotheses, not
axioms).  `transparentAead` is a concrete instance — the one the correspondence harness plugs
into the real `protect()`/`unprotect()` — so nothing stated about `AEAD` is vacuous.
-/
namespace Aiocoap.Oscore.Prot

structure AEAD where
  /-- `encrypt`: key, nonce, AAD, plaintext ↦ ciphertext ‖ tag -/
  enc : Bytes → Bytes → Bytes → Bytes → Bytes
  /-- `decrypt`: `none` is the `ProtectionInvalid` the algorithm raises -/
  dec : Bytes → Bytes → Bytes → Bytes → Option Bytes
  /-- `tag_bytes` -/
  tagBytes : Nat
  /-- decryption inverts encryption -/
  correct : ∀ k n a p, dec k n a (enc k n a p) = some p
  /-- ideal ciphertext integrity: whatever decrypts under `(k, n, a)` *is* the encryption of
  the returned plaintext under `(k, n, a)` … -/
  integrity : ∀ k n a c p, dec k n a c = some p → c = enc k n a p
  /-- … and a ciphertext commits to the key, nonce and AAD it was made with (ideal; real
  AES-CCM satisfies this only up to tag collisions) -/
  binding : ∀ k n a p k' n' a' p', enc k n a p = enc k' n' a' p' → k = k' ∧ n = n' ∧ a = a'
  /-- the tag occupies at least `tag_bytes` bytes -/
  tagLen : ∀ k n a p, p.length + tagBytes ≤ (enc k n a p).length

/-- If a ciphertext made under `(k, n, a)` is decrypted under different `(k', n', a')`, the
algorithm refuses. -/
theorem AEAD.dec_other (E : AEAD) {k n a k' n' a' : Bytes} (p : Bytes)
    (h : ¬ (k = k' ∧ n = n' ∧ a = a')) : E.dec k' n' a' (E.enc k n a p) = none := by
  cases hd : E.dec k' n' a' (E.enc k n a p) with
  | none => rfl
  | some p' => exact absurd (E.binding _ _ _ _ _ _ _ _ (E.integrity _ _ _ _ _ hd)) h

-- The transparent instance ---------------------------------------------------------------

/-- self-delimiting encoding of a byte string in front of `rest`: every byte `b` becomes
`1, b`, the end is `0` -/
def encL : Bytes → Bytes → Bytes
  | [], rest => 0 :: rest
  | b :: x, rest => 1 :: b :: encL x rest

theorem encL_inj : ∀ (x x' r r' : Bytes), encL x r = encL x' r' → x = x' ∧ r = r'
  | [], [], _, _, h => by simp [encL] at h; exact ⟨rfl, h⟩
  | [], _ :: _, _, _, h => by simp [encL] at h
  | _ :: _, [], _, _, h => by simp [encL] at h
  | b :: x, b' :: x', r, r', h => by
    simp only [encL, List.cons.injEq, true_and] at h
    obtain ⟨hb, ht⟩ := h
    obtain ⟨hx, hr⟩ := encL_inj x x' r r' ht
    exact ⟨by rw [hb, hx], hr⟩

theorem encL_length (x r : Bytes) : (encL x r).length = 2 * x.length + 1 + r.length := by
  induction x with
  | nil => simp [encL]; omega
  | cons b x ih => simp [encL, ih]; omega

theorem encL_append (x r s : Bytes) : encL x r ++ s = encL x (r ++ s) := by
  induction x with
  | nil => simp [encL]
  | cons b x ih => simp [encL, ih]

/-- transparent "encryption": `E(key) E(nonce) E(aad) E(plaintext) ‖ plaintext` with the
self-delimiting `E` above.  Nothing is hidden (the harness can read what the implementation
handed to the algorithm) and every input is bound: the plaintext occurs twice, so no
single-position change, truncation or extension of a ciphertext is again a ciphertext. -/
def tEnc (k n a p : Bytes) : Bytes := encL k (encL n (encL a (encL p p)))

/-- bytes in front of the trailing plaintext copy, given the plaintext length -/
def tHeaderLen (k n a : Bytes) (plen : Nat) : Nat :=
  (2 * k.length + 1) + (2 * n.length + 1) + (2 * a.length + 1) + (2 * plen + 1)

theorem tEnc_length (k n a p : Bytes) : (tEnc k n a p).length = tHeaderLen k n a p.length + p.length := by
  simp [tEnc, tHeaderLen, encL_length]; omega

/-- transparent "decryption": recompute.  The only candidate plaintext is the trailing third of
what follows the fixed-size part. -/
def tDec (k n a c : Bytes) : Option Bytes :=
  let plen := (c.length - tHeaderLen k n a 0) / 3
  let p := c.drop (c.length - plen)
  if tEnc k n a p = c then some p else none

theorem tEnc_eq_append (k n a p : Bytes) :
    tEnc k n a p = encL k (encL n (encL a (encL p []))) ++ p := by
  simp [tEnc, encL_append]

theorem tDec_tEnc (k n a p : Bytes) : tDec k n a (tEnc k n a p) = some p := by
  have hl := tEnc_length k n a p
  have hdrop : (tEnc k n a p).drop ((tEnc k n a p).length -
      ((tEnc k n a p).length - tHeaderLen k n a 0) / 3) = p := by
    have h3 : ((tEnc k n a p).length - tHeaderLen k n a 0) / 3 = p.length := by
      rw [hl]; simp only [tHeaderLen]; omega
    rw [h3, tEnc_eq_append]
    have : (encL k (encL n (encL a (encL p []))) ++ p).length - p.length =
        (encL k (encL n (encL a (encL p [])))).length := by simp
    rw [this, List.drop_left]
  simp only [tDec, hdrop, if_true]

/-- the concrete AEAD the harness uses (`harness/c11_util.py: TransparentAead`) -/
def transparentAead : AEAD where
  enc := tEnc
  dec := tDec
  tagBytes := 4
  correct := tDec_tEnc
  integrity := by
    intro k n a c p h
    simp only [tDec] at h
    split at h
    · rename_i he; cases h; exact he.symm
    · cases h
  binding := by
    intro k n a p k' n' a' p' h
    simp only [tEnc] at h
    obtain ⟨hk, h⟩ := encL_inj _ _ _ _ h
    obtain ⟨hn, h⟩ := encL_inj _ _ _ _ h
    obtain ⟨ha, _⟩ := encL_inj _ _ _ _ h
    exact ⟨hk, hn, ha⟩
  tagLen := by
    intro k n a p
    rw [tEnc_length]; simp only [tHeaderLen]; omega

end Aiocoap.Oscore.Prot
