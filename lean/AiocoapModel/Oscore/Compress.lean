import AiocoapModel.Basic.Bytes
/-!
The compressed COSE object carried in the OSCORE option (RFC 8613 §6.1):
`CanProtect._compress` (oscore.py:929-979) and `CanUnprotect._uncompress`
(oscore.py:1462-1525, after the `fix:` commits: a context-hint flag without its length byte,
the reserved Partial-IV lengths 6/7, bytes behind the announced fields, a non-empty option
without flags and a Partial IV with leading zero bytes are `DecodeError`s).

First byte: bits 0-2 `n` (Partial IV length), bit 3 `k` (KID present), bit 4 `h` (KID context
present), bit 5 group flag, bits 6-7 reserved.
-/
namespace Aiocoap.Oscore.Prot

/-- the unprotected COSE header map as far as OSCORE uses it -/
structure Unprot where
  piv : Option Bytes          -- COSE_PIV (6)
  kid : Option Bytes          -- COSE_KID (4)
  kidContext : Option Bytes   -- COSE_KID_CONTEXT (10)
  group : Bool                -- COSE_COUNTERSIGNATURE0 (12) present
deriving Repr, DecidableEq

def Unprot.empty : Unprot := { piv := none, kid := none, kidContext := none, group := false }

/-- `_compress`: the option value; `none` is the `ValueError` for an over-long Partial IV
(> 7 bytes) or KID context (> 255 bytes).  A missing Partial IV is the empty one
(`unprotected.pop(COSE_PIV, b"")`). -/
def compress (u : Unprot) : Option Bytes :=
  let piv := u.piv.getD []
  if piv.length > 7 then none else
  let kbit := if u.kid.isSome then 8 else 0
  let kid := u.kid.getD []
  match u.kidContext with
  | some c =>
    if c.length > 255 then none else
    some ((piv.length + kbit + 16 + (if u.group then 32 else 0)) :: piv ++ (c.length :: c) ++ kid)
  | none =>
    let fb := piv.length + kbit + (if u.group then 32 else 0)
    if fb = 0 then some [] else some (fb :: piv ++ kid)

/-- a Partial IV in its shortest form: no leading zero byte, except for the single byte `00`
(RFC 8613 §5; `pivsz > 1 and tail[0] == 0` is refused by `_uncompress`) -/
def pivMinimal : Bytes → Bool
  | 0 :: _ :: _ => false
  | _ => true

/-- `_uncompress`: `none` is a `DecodeError`.  After the `fix:` commits of round 4 nothing may
follow the announced fields (without the k flag the rest of the option is not a KID), an option
whose flag bits are all zero must be empty, and a Partial IV must be in its shortest form. -/
def uncompress (opt : Bytes) : Option Unprot :=
  match opt with
  | [] => some Unprot.empty
  | fb :: tail =>
    if fb = 0 then none else                   -- "Protected data without any flags is not empty"
    if fb / 64 % 4 ≠ 0 then none else          -- reserved bits
    let pivsz := fb % 8
    if pivsz > 5 then none else                -- reserved lengths 6, 7
    if tail.length < pivsz then none else      -- "Partial IV announced but not present"
    if !pivMinimal (tail.take pivsz) then none else   -- "Partial IV is not in its shortest form"
    let piv := if pivsz = 0 then none else some (tail.take pivsz)
    let tail := tail.drop pivsz
    let k := fb / 8 % 2 = 1
    let g := fb / 32 % 2 = 1
    if fb / 16 % 2 = 1 then
      match tail with
      | [] => none                             -- length byte missing
      | s :: t =>
        if t.length < s then none else         -- "Context hint announced but not present"
        if k then some { piv, kidContext := some (t.take s), kid := some (t.drop s), group := g }
        else if t.length ≠ s then none         -- "Protected data extends beyond the announced fields"
        else some { piv, kidContext := some (t.take s), kid := none, group := g }
    else
      if k then some { piv, kidContext := none, kid := some tail, group := g }
      else if tail.length ≠ 0 then none        -- "Protected data extends beyond the announced fields"
      else some { piv, kidContext := none, kid := none, group := g }

end Aiocoap.Oscore.Prot
