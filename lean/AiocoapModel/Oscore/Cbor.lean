import AiocoapModel.Basic.Bytes
/-!
CBOR (RFC 8949) encoding of the few data items `aiocoap.oscore` serialises with
`cbor2.dumps`: unsigned integers, byte strings, text strings, arrays and `null`
(`_extract_external_aad`, oscore.py:823-881; `_build_encrypt0_structure`, oscore.py:229-235;
`unprotect`, oscore.py:1354-1355).  Shortest-form heads, as cbor2 emits them.
-/
namespace Aiocoap.Oscore.Prot

/-- CBOR head: major type (0..7) and argument, shortest form.  Arguments ≥ 2^64 cannot be
encoded (cbor2 raises); the last branch is only meaningful below that bound. -/
def cborHead (major n : Nat) : Bytes :=
  if n < 24 then [major * 32 + n]
  else if n < 256 then [major * 32 + 24, n]
  else if n < 65536 then (major * 32 + 25) :: natToBE 2 n
  else if n < 4294967296 then (major * 32 + 26) :: natToBE 4 n
  else (major * 32 + 27) :: natToBE 8 n

/-- unsigned integer (major type 0) -/
def cborUint (n : Nat) : Bytes := cborHead 0 n
/-- byte string (major type 2) -/
def cborBstr (b : Bytes) : Bytes := cborHead 2 b.length ++ b
/-- text string (major type 3), given as its UTF-8 bytes -/
def cborTstr (utf8 : Bytes) : Bytes := cborHead 3 utf8.length ++ utf8
/-- array (major type 4) of already encoded items -/
def cborArr (items : List Bytes) : Bytes := cborHead 4 items.length ++ items.flatten
/-- `null` (Python `None`) -/
def cborNil : Bytes := [0xf6]

end Aiocoap.Oscore.Prot
