import AiocoapModel.Oscore.ReplayWindow
/-
`CanUnprotect.unprotect` for protected *responses* (oscore.py:1277-1425, the branches taken when
`is_response`), next to the request flow of `ReplayWindow.lean`, and mixed arrival sequences — one
security context is regularly used in both roles towards one peer (a server that also sends
requests, a client receiving notifications).

For a response the replay window is neither consulted (oscore.py:1290) nor struck (1385); after
successful decryption the only effect on the recipient side is (oscore.py:1394-1422): when the
window is *uninitialised*, the context has an `echo_recovery` value and the response carries a
partial IV of its own (a notification), the window is initialised from that number — the response
is fresh because it decrypted against a request this process sent.  An initialised window is never
touched by a response.
-/
namespace Aiocoap.Oscore

/-- An arriving protected response, reduced to what the control flow looks at. -/
structure RespArrival where
  seq : Option Nat              -- its own partial IV, if it has one
  authentic : Bool              -- AEAD decryption against the matching request succeeds
deriving Repr, DecidableEq

/-- `unprotect` for a response -/
def unprotectResponse (c : Ctx) (r : RespArrival) : Ctx × Outcome :=
  if !r.authentic then (c, .protectionInvalid) else
  match c.win, c.echoRecovery, r.seq with
  | none, some _, some n => ({ c with win := some (RW.freshlySeen c.size n) }, .accepted)
  | _, _, _ => (c, .accepted)

inductive Msg
  | req (a : Arrival)
  | resp (r : RespArrival)
deriving Repr, DecidableEq

def stepMsg (c : Ctx) : Msg → Ctx × Outcome
  | .req a => unprotect c a
  | .resp r => unprotectResponse c r

/-- run a mixed sequence of requests and responses, collecting outcomes -/
def runMsgs (c : Ctx) : List Msg → Ctx × List Outcome
  | [] => (c, [])
  | m :: ms =>
    let (c1, o) := stepMsg c m
    let (c2, os) := runMsgs c1 ms
    (c2, o :: os)

end Aiocoap.Oscore
