import AiocoapModel.Basic.Bytes
/-!
`BaseSecurityContext._construct_nonce` (oscore.py:802-821) and `_xor_bytes`
(oscore.py:197-201): the AEAD nonce is the common IV XOR
`len(id) ‖ 0-padding ‖ id ‖ 0-padding ‖ partial IV`.
-/
namespace Aiocoap.Oscore.Prot

/-- `_xor_bytes`; `none` is the failing length assertion. -/
def xorBytes (a b : Bytes) : Option Bytes :=
  if a.length = b.length then some (List.zipWith (· ^^^ ·) a b) else none

/-- left-pad a partial IV to 5 bytes (`b"\0" * (5 - len(piv)) + piv`; a negative count gives
the empty string in Python, which is what truncated subtraction does here) -/
def padPiv (piv : Bytes) : Bytes := List.replicate (5 - piv.length) 0 ++ piv

/-- the plain-text components of the nonce -/
def nonceComponents (ivBytes : Nat) (piv id : Bytes) : Bytes :=
  id.length :: (List.replicate (ivBytes - 6 - id.length) 0 ++ id ++ padPiv piv)

/-- `_construct_nonce(partial_iv_short, piv_generator_id, alg)`; `none`: assertion failure
(identifier or partial IV too long for the algorithm, or common IV too short) -/
def constructNonce (ivBytes : Nat) (commonIv piv id : Bytes) : Option Bytes :=
  let c := nonceComponents ivBytes piv id
  xorBytes (commonIv.take c.length) c

end Aiocoap.Oscore.Prot
