import AiocoapModel.Codec.Options
/-!
Model of `Message.decode` / `Message.encode` (`aiocoap/message.py:337-380`):
4-byte header, TKL nibble, token slice, options, payload.
-/
namespace Aiocoap.Codec

/-- the fields of a `Message` that travel on the wire.  `opts` is the sequence in which the
options were added to `Message.opt` (for a parsed message: wire order). -/
structure Msg where
  mtype : Nat
  code : Nat
  mid : Nat
  token : Bytes
  opts : List Opt
  payload : Bytes
deriving Repr, DecidableEq

/-- `Message.decode(rawdata)` (message.py:337-356).  As in the code there is no `TKL ≤ 8`
check and the token is whatever the slice `rawdata[4:4+tkl]` yields (possibly shorter). -/
def decode (raw : Bytes) : Except DecErr Msg :=
  match raw with
  | vttkl :: code :: m1 :: m0 :: rest =>           -- struct.unpack("!BBH", rawdata[:4])
    if vttkl / 64 % 4 ≠ 1 then .error .unparsable  -- version `(vttkl & 0xC0) >> 6` must be 1
    else
      let tkl := vttkl % 16                         -- `vttkl & 0x0F`
      match decodeOpts 0 (rest.drop tkl) with
      | .error e => .error e
      | .ok (opts, payload) =>
        .ok { mtype := vttkl / 16 % 4               -- `(vttkl & 0x30) >> 4`
              code, mid := m1 * 256 + m0
              token := rest.take tkl
              opts, payload }
  | _ => .error .unparsable                         -- struct.error → "too short for CoAP"

/-- exceptions of `Message.encode` on a message whose fields are set -/
inductive EncErr
  | structError    -- `struct.pack("!BH", code, mid)` out of range
  | valueError     -- `_write_extended_field_value`: "Value out of range."
deriving Repr, DecidableEq

/-- `Message.encode()` (message.py:358-380); `self.opt.encode()` iterates `option_list()`. -/
def encode (m : Msg) : Except EncErr Bytes :=
  let b0 := 64 + (m.mtype % 4) * 16 + m.token.length % 16   -- (1 << 6) + ((mtype & 3) << 4) + (len(token) & 0x0F)
  if m.code ≥ 256 ∨ m.mid ≥ 65536 then .error .structError
  else
    match encodeOpts 0 (sortOpts m.opts) with
    | none => .error .valueError
    | some ob =>
      .ok (b0 :: m.code :: m.mid / 256 :: m.mid % 256 ::
            (m.token ++ ob ++ (if m.payload.length > 0 then 0xFF :: m.payload else [])))

end Aiocoap.Codec
