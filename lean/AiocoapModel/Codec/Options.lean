import AiocoapModel.Codec.ExtField
import AiocoapModel.Codec.OptionValue
/-!
Model of `Options.decode` / `Options.encode` / `Options.option_list`
(`aiocoap/options.py:165-230`): option delta coding, extended fields, payload
marker — after the fix that turns a value decoder's `ValueError`
(`UnicodeDecodeError`) into `UnparsableMessage`.
-/
namespace Aiocoap.Codec

/-- one option: number and decoded value -/
structure Opt where
  num : Nat
  val : OptVal
deriving Repr, DecidableEq

/-- what can leave `Message.decode` -/
inductive DecErr
  | unparsable            -- `error.UnparsableMessage`, the only exception the transports handle
  | escaped (e : ValErr)  -- any other exception type propagating out of the parser
deriving Repr, DecidableEq

theorem readExt_length_le {nib : Nat} {raw : Bytes} {v : Nat} {rest : Bytes}
    (h : readExt nib raw = some (v, rest)) : rest.length ≤ raw.length := by
  unfold readExt at h
  split at h
  · cases h; exact Nat.le_refl _
  · split at h
    · split at h
      · cases h; simp
      · cases h
    · split at h
      · split at h
        · cases h; simp; omega
        · cases h
      · cases h

set_option linter.unusedVariables false in   -- h1/h2 are used by `decreasing_by`
/-- `Options.decode(rawdata)` (options.py:165-187) started with `option_number = cur`:
returns the options in wire order and the payload (the bytes after the `0xFF` marker, or
empty when the data runs out). -/
def decodeOpts (cur : Nat) (raw : Bytes) : Except DecErr (List Opt × Bytes) :=
  match raw with
  | [] => .ok ([], [])                                   -- `while rawdata:` falls through, `return b""`
  | b :: rest =>
    if b = 0xFF then .ok ([], rest)                      -- payload marker: `return rawdata[1:]`
    else
      match h1 : readExt (b / 16 % 16) rest with         -- delta nibble `(dllen & 0xF0) >> 4`
      | none => .error .unparsable
      | some (delta, r1) =>
        match h2 : readExt (b % 16) r1 with              -- length nibble `dllen & 0x0F`
        | none => .error .unparsable
        | some (len, r2) =>
          let num := cur + delta                         -- `option_number += delta`
          if r2.length < len then .error .unparsable     -- "Option announced but absent"
          else
            match valDecode (formatOf num) (r2.take len) with
            | .error _ => .error .unparsable             -- fix: `except ValueError: raise UnparsableMessage`
            | .ok v =>
              match decodeOpts num (r2.drop len) with
              | .error e => .error e
              | .ok (os, payload) => .ok ({ num, val := v } :: os, payload)
termination_by raw.length
decreasing_by
  have := readExt_length_le h1
  have := readExt_length_le h2
  simp only [List.length_drop, List.length_cons]
  omega

/-- `Options.encode` loop body over an already ordered option list (options.py:189-207),
`current_opt_num = cur`.  `none` is the `ValueError` of `_write_extended_field_value`
(a negative delta cannot occur after `option_list()`'s sort but would raise the same). -/
def encodeOpts (cur : Nat) : List Opt → Option Bytes
  | [] => some []
  | o :: os =>
    let data := valEncode o.val
    if o.num < cur then none
    else
      match writeExt (o.num - cur), writeExt data.length, encodeOpts o.num os with
      | some (d, ed), some (l, el), some rest =>
        some ((d % 16 * 16 + l % 16) :: (ed ++ el ++ data ++ rest))
      | _, _, _ => none

/-- insert before the first option with a number ≥ `o.num` -/
def insertOpt (o : Opt) : List Opt → List Opt
  | [] => [o]
  | p :: ps => if o.num ≤ p.num then o :: p :: ps else p :: insertOpt o ps

/-- `Options.option_list()` (options.py:225-228) applied to the options in the order they were
added: groups per number in insertion order, groups sorted by number — i.e. the stable sort by
option number. -/
def sortOpts : List Opt → List Opt
  | [] => []
  | o :: os => insertOpt o (sortOpts os)

end Aiocoap.Codec
