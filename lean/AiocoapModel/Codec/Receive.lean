import AiocoapModel.Codec.Message
/-!
Model of the udp6 receive path from the socket to the dispatch of a message:
`RecvmsgSelectorDatagramTransport._read_ready` (`aiocoap/util/asyncio/recvmsg.py:127-139`, buffer
`max_size`, line 39-42) and `MessageInterfaceUDP6.datagram_msg_received`
(`aiocoap/transports/udp6.py:607-643`).

The kernel is modelled as recvmsg(2) specifies it for datagram sockets: one call consumes one
datagram, hands out at most `bufsize` bytes of it and sets `MSG_TRUNC` iff bytes were discarded.
-/
namespace Aiocoap.Codec

/-- `RecvmsgSelectorDatagramTransport.max_size` (recvmsg.py:42) -/
def recvBufSize : Nat := 65536

/-- the largest payload a UDP datagram can have: the 16-bit UDP length counts the 8-byte header
(RFC 768); over IPv4 the IP header takes another 20 (65507). -/
def maxUdpPayload : Nat := 65527

/-- `sock.recvmsg(bufsize, ...)` on a datagram socket: `(data, flags & MSG_TRUNC)` -/
def kernelRecvmsg (bufsize : Nat) (datagram : Bytes) : Bytes × Bool :=
  (datagram.take bufsize, decide (bufsize < datagram.length))

/-- what reaches (or does not reach) `self._ctx.dispatch_message` for one datagram -/
inductive Received
  | dropped                  -- logged and ignored
  | dispatched (m : Msg)
  | escaped (e : ValErr)     -- an exception other than `UnparsableMessage` propagating into the event loop
deriving Repr, DecidableEq

/-- `_read_ready` followed by `datagram_msg_received` (udp6.py:609-616 MSG_TRUNC guard, 634-641 decode,
only `error.UnparsableMessage` is caught) with a receive buffer of `bufsize` bytes -/
def udp6ReceiveWith (bufsize : Nat) (datagram : Bytes) : Received :=
  let r := kernelRecvmsg bufsize datagram
  if r.2 then .dropped
  else
    match decode r.1 with
    | .ok m => .dispatched m
    | .error .unparsable => .dropped
    | .error (.escaped e) => .escaped e

def udp6Receive (datagram : Bytes) : Received := udp6ReceiveWith recvBufSize datagram

end Aiocoap.Codec
