import AiocoapModel.Basic.Bytes
/-!
Per-format option value codecs (`aiocoap/optiontypes.py:47-263`) and the
option number → format table (`aiocoap/numbers/optionnumbers.py:160-218`).

A decoded option value is modelled as a typed value (`OptVal`), like the Python
objects: `StringOption.value : str` (represented by its UTF-8 bytes — `str`
without lone surrogates and valid UTF-8 byte strings are in bijection),
`OpaqueOption.value : bytes`, `UintOption.value : int`,
`BlockOption.value : BlockwiseTuple(block_number, more, size_exponent)`,
`ContentFormatOption.value : ContentFormat` (an `ExtensibleIntEnum`: every integer is
a member).
-/
namespace Aiocoap.Codec

/-- UTF-8 continuation byte `0x80..0xBF` -/
def isCont (b : Nat) : Bool := 0x80 ≤ b && b ≤ 0xBF

/-- Does `bytes.decode("utf-8")` (strict) succeed?  Restatement of CPython's decoder, which
accepts exactly the well-formed sequences of RFC 3629 §4 (no overlong forms, no
surrogates `ED A0..BF`, nothing above U+10FFFF).  Compared with `bytes.decode` by the
correspondence check. -/
def utf8Valid : Bytes → Bool
  | [] => true
  | b0 :: r =>
    if b0 < 0x80 then utf8Valid r
    else if b0 < 0xC2 then false
    else if b0 < 0xE0 then
      match r with
      | b1 :: r1 => isCont b1 && utf8Valid r1
      | _ => false
    else if b0 < 0xF0 then
      match r with
      | b1 :: b2 :: r2 =>
        ((if b0 = 0xE0 then 0xA0 else 0x80) ≤ b1 && b1 ≤ (if b0 = 0xED then 0x9F else 0xBF))
          && isCont b2 && utf8Valid r2
      | _ => false
    else if b0 < 0xF5 then
      match r with
      | b1 :: b2 :: b3 :: r3 =>
        ((if b0 = 0xF0 then 0x90 else 0x80) ≤ b1 && b1 ≤ (if b0 = 0xF4 then 0x8F else 0xBF))
          && isCont b2 && isCont b3 && utf8Valid r3
      | _ => false
    else false

/-- serialisation formats, the classes of `optiontypes.py` -/
inductive Fmt
  | string | opaque | uint | block | contentFormat
deriving Repr, DecidableEq

/-- `OptionNumber(n).format`: the 25 `set_format` calls of optionnumbers.py:160-218;
everything else (named or not) falls back to `OpaqueOption` (`_get_format`).
The harness diffs this table against `OptionNumber(n).format` on every run. -/
def formatOf (n : Nat) : Fmt :=
  if n = 3 ∨ n = 8 ∨ n = 11 ∨ n = 15 ∨ n = 20 ∨ n = 35 ∨ n = 39 then .string
  else if n = 6 ∨ n = 7 ∨ n = 13 ∨ n = 14 ∨ n = 16 ∨ n = 28 ∨ n = 60 ∨ n = 258 then .uint
  else if n = 12 ∨ n = 17 then .contentFormat
  else if n = 23 ∨ n = 27 then .block
  else .opaque   -- incl. explicit 1, 4, 9, 252, 292, 548

/-- a decoded option value -/
inductive OptVal
  | str (utf8 : Bytes)
  | opaque (b : Bytes)
  | uint (n : Nat)
  | block (num : Nat) (more : Bool) (szx : Nat)
  | cf (n : Nat)
deriving Repr, DecidableEq

/-- exceptions a value decoder can raise -/
inductive ValErr
  | unicodeDecode     -- `UnicodeDecodeError` from `rawdata.decode("utf-8")`
deriving Repr, DecidableEq

/-- `<format>(number).decode(rawdata)` -/
def valDecode : Fmt → Bytes → Except ValErr OptVal
  | .string, b => if utf8Valid b then .ok (.str b) else .error .unicodeDecode
  | .opaque, b => .ok (.opaque b)
  | .uint, b => .ok (.uint (beToNat b))
  | .block, b =>
    let n := beToNat b
    -- block_number = n >> 4, more = bool(n & 0x08), size_exponent = n & 0x07
    .ok (.block (n / 16) (n / 8 % 2 == 1) (n % 8))
  | .contentFormat, b => .ok (.cf (beToNat b))

/-- `option.encode()`; decided by the option object's own class, as in the code.
Uint/Block/ContentFormat use `_to_minimum_bytes`. -/
def valEncode : OptVal → Bytes
  | .str b => b
  | .opaque b => b
  | .uint n => natToMinBE n
  | .block num more szx => natToMinBE (num * 16 + (if more then 8 else 0) + szx)
  | .cf n => natToMinBE n

/-- the value is one the format's class can hold and serialise faithfully -/
def OptVal.legal : Fmt → OptVal → Prop
  | .string, .str b => utf8Valid b = true ∧ b.wf
  | .opaque, .opaque b => b.wf
  | .uint, .uint _ => True
  | .block, .block _ _ szx => szx < 8
  | .contentFormat, .cf _ => True
  | _, _ => False

end Aiocoap.Codec
