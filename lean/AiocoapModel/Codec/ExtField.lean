import AiocoapModel.Basic.Bytes
/-!
Model of the option delta / option length "extended field" helpers of
`aiocoap/options.py:12-41` (`_read_extended_field_value`,
`_write_extended_field_value`), after the fix `< 65805` in the writer.
-/
namespace Aiocoap.Codec

/-- `_read_extended_field_value(value, rawdata)` (options.py:12-26).
`none` is `UnparsableMessage` ("Option ended prematurely" / "partial payload marker"). -/
def readExt (nib : Nat) (raw : Bytes) : Option (Nat × Bytes) :=
  if nib < 13 then some (nib, raw)
  else if nib = 13 then
    match raw with
    | b :: rest => some (b + 13, rest)
    | [] => none
  else if nib = 14 then
    match raw with
    | b0 :: b1 :: rest => some (b0 * 256 + b1 + 269, rest)   -- int.from_bytes(rawdata[:2], "big") + 269
    | _ => none
  else none

/-- `_write_extended_field_value(value)` (options.py:29-41); `none` is the `ValueError`
("Value out of range.").  The upper limit is the fixed one (`value < 65805`). -/
def writeExt (v : Nat) : Option (Nat × Bytes) :=
  if v < 13 then some (v, [])
  else if v < 269 then some (13, [v - 13])
  else if v < 65805 then some (14, [(v - 269) / 256, (v - 269) % 256])
  else none

end Aiocoap.Codec
