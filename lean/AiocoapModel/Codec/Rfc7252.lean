import AiocoapModel.Codec.Message
/-!
Declarative specification of the CoAP message format, written from the text and figures
of RFC 7252 §3 (message format), §3.1 (option format), §3.2 (option value formats),
RFC 3629 §4 (UTF-8 syntax) and RFC 7959 §2.2 (Block option value).  Nothing here is
executable and nothing here refers to the parser or serialiser of the model; the only thing
shared with the model is the IANA table `formatOf` (which option number has which format)
and the shape of the result (`Msg`, `Opt`, `OptVal`).
-/
namespace Aiocoap.Codec.Rfc7252

open Aiocoap Aiocoap.Codec

/-- `UTF8-tail = %x80-BF` -/
def Tail (b : Nat) : Prop := 0x80 ≤ b ∧ b ≤ 0xBF

/-- RFC 3629 §4: `UTF8-octets = *( UTF8-char )`, one constructor per alternative of
`UTF8-1 … UTF8-4`. -/
inductive Utf8 : Bytes → Prop
  | nil : Utf8 []
  /-- `UTF8-1 = %x00-7F` -/
  | u1 {b : Nat} {r : Bytes} : b ≤ 0x7F → Utf8 r → Utf8 (b :: r)
  /-- `UTF8-2 = %xC2-DF UTF8-tail` -/
  | u2 {b0 b1 : Nat} {r : Bytes} : 0xC2 ≤ b0 → b0 ≤ 0xDF → Tail b1 → Utf8 r → Utf8 (b0 :: b1 :: r)
  /-- `%xE0 %xA0-BF UTF8-tail` -/
  | u3a {b1 b2 : Nat} {r : Bytes} : 0xA0 ≤ b1 → b1 ≤ 0xBF → Tail b2 → Utf8 r →
      Utf8 (0xE0 :: b1 :: b2 :: r)
  /-- `%xE1-EC 2( UTF8-tail )` -/
  | u3b {b0 b1 b2 : Nat} {r : Bytes} : 0xE1 ≤ b0 → b0 ≤ 0xEC → Tail b1 → Tail b2 → Utf8 r →
      Utf8 (b0 :: b1 :: b2 :: r)
  /-- `%xED %x80-9F UTF8-tail` -/
  | u3c {b1 b2 : Nat} {r : Bytes} : 0x80 ≤ b1 → b1 ≤ 0x9F → Tail b2 → Utf8 r →
      Utf8 (0xED :: b1 :: b2 :: r)
  /-- `%xEE-EF 2( UTF8-tail )` -/
  | u3d {b0 b1 b2 : Nat} {r : Bytes} : 0xEE ≤ b0 → b0 ≤ 0xEF → Tail b1 → Tail b2 → Utf8 r →
      Utf8 (b0 :: b1 :: b2 :: r)
  /-- `%xF0 %x90-BF 2( UTF8-tail )` -/
  | u4a {b1 b2 b3 : Nat} {r : Bytes} : 0x90 ≤ b1 → b1 ≤ 0xBF → Tail b2 → Tail b3 → Utf8 r →
      Utf8 (0xF0 :: b1 :: b2 :: b3 :: r)
  /-- `%xF1-F3 3( UTF8-tail )` -/
  | u4b {b0 b1 b2 b3 : Nat} {r : Bytes} : 0xF1 ≤ b0 → b0 ≤ 0xF3 → Tail b1 → Tail b2 → Tail b3 →
      Utf8 r → Utf8 (b0 :: b1 :: b2 :: b3 :: r)
  /-- `%xF4 %x80-8F 2( UTF8-tail )` -/
  | u4c {b1 b2 b3 : Nat} {r : Bytes} : 0x80 ≤ b1 → b1 ≤ 0x8F → Tail b2 → Tail b3 → Utf8 r →
      Utf8 (0xF4 :: b1 :: b2 :: b3 :: r)

/-- §3.2 `uint`: "a non-negative integer that is represented in network byte order using the
number of bytes given by the Option Length field" (leading zero bytes must be accepted) -/
def beValue : Bytes → Nat
  | [] => 0
  | b :: r => b * 256 ^ r.length + beValue r

/-- §3.2 / RFC 7959 §2.2: the value an option of the given format carries -/
inductive ValSpec : Fmt → Bytes → OptVal → Prop
  /-- `string`: a Unicode string encoded in UTF-8 -/
  | string {b : Bytes} : Utf8 b → ValSpec .string b (.str b)
  /-- `opaque`: an opaque sequence of bytes -/
  | opaque {b : Bytes} : ValSpec .opaque b (.opaque b)
  | uint {b : Bytes} : ValSpec .uint b (.uint (beValue b))
  /-- Content-Format / Accept: a uint that is a Content-Format identifier -/
  | contentFormat {b : Bytes} : ValSpec .contentFormat b (.cf (beValue b))
  /-- Block1/Block2: a uint whose 3 least significant bits are SZX, bit 3 is M and the rest NUM -/
  | block {b : Bytes} {num szx : Nat} {more : Bool} : szx < 8 →
      beValue b = num * 16 + (if more then 8 else 0) + szx → ValSpec .block b (.block num more szx)

/-- §3.1: how an Option Delta / Option Length `v` is written as a 4-bit field plus extension
bytes.  `ExtField v nibble ext`. -/
inductive ExtField : Nat → Nat → Bytes → Prop
  /-- 0..12: the value itself -/
  | direct {v : Nat} : v ≤ 12 → ExtField v v []
  /-- 13: "An 8-bit unsigned integer follows the initial byte and indicates the value minus 13" -/
  | ext8 {b : Nat} : b < 256 → ExtField (b + 13) 13 [b]
  /-- 14: "A 16-bit unsigned integer in network byte order follows … the value minus 269" -/
  | ext16 {b0 b1 : Nat} : b0 < 256 → b1 < 256 → ExtField (b0 * 256 + b1 + 269) 14 [b0, b1]
  -- 15 is reserved (payload marker / message format error): no constructor

/-- §3.1: a sequence of options, each with its number given as delta to the previous one
(`prev`; 0 before the first option).  `OptList prev bytes options`. -/
inductive OptList : Nat → Bytes → List Opt → Prop
  | nil {prev : Nat} : OptList prev [] []
  | cons {prev delta dn len ln : Nat} {dx lx value rest : Bytes} {v : OptVal} {os : List Opt} :
      ExtField delta dn dx → ExtField len ln lx →
      value.length = len → value.wf →
      ValSpec (formatOf (prev + delta)) value v →
      OptList (prev + delta) rest os →
      OptList prev ((dn * 16 + ln) :: (dx ++ lx ++ value ++ rest))
        ({ num := prev + delta, val := v } :: os)

/-- §3: what may follow the options: nothing, or the payload marker `0xFF` and a payload of
non-zero length ("The presence of a marker followed by a zero-length payload MUST be processed
as a message format error"). -/
inductive PayloadPart : Bytes → Bytes → Prop
  | absent : PayloadPart [] []
  | present {p : Bytes} : p ≠ [] → p.wf → PayloadPart (0xFF :: p) p

/-- §3, Figure 7: Ver = 1, T, TKL (0..8; 9..15 are a message format error), Code, Message ID,
Token of TKL bytes, options, optional payload. -/
inductive Datagram : Bytes → Msg → Prop
  | mk {t tkl code mid : Nat} {token ob tail payload : Bytes} {os : List Opt} :
      t < 4 → tkl ≤ 8 → code < 256 → mid < 65536 →
      token.length = tkl → token.wf →
      OptList 0 ob os → PayloadPart tail payload →
      Datagram
        ((1 * 64 + t * 16 + tkl) :: code :: mid / 256 :: mid % 256 :: (token ++ ob ++ tail))
        { mtype := t, code, mid, token, opts := os, payload }

end Aiocoap.Codec.Rfc7252
