import AiocoapModel.Basic.Bytes
/-! Line protocol for C10 (not built yet). -/
namespace Aiocoap
def handleC10 (_args : List String) : String := "out-of-model"
end Aiocoap
