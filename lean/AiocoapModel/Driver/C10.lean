import AiocoapModel.Driver.MsgLayer
/-! C10 is decided on the shared message-layer model. -/
namespace Aiocoap
def handleC10 (args : List String) : String := MsgLayer.handleMsgLayer args
end Aiocoap
