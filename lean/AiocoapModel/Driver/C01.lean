import AiocoapModel.Basic.Bytes
/-! Line protocol for C01 (not built yet). -/
namespace Aiocoap
def handleC01 (_args : List String) : String := "out-of-model"
end Aiocoap
