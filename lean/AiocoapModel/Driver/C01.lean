import AiocoapModel.Basic.Bytes
import AiocoapModel.Codec.Message
import AiocoapModel.Codec.Receive
/-! Line protocol for the datagram codec model (C01).

`C01 ext r <nibble> <hex>`   → `<value> <rest-hex>` | `err`        (`readExt`)
`C01 ext w <value>`          → `<nibble> <ext-hex>` | `err`        (`writeExt`)
`C01 fmt <number>`           → `string|opaque|uint|block|contentFormat`   (`formatOf`)
`C01 utf8 <hex>`             → `1` | `0`                           (`utf8Valid`)
`C01 dec <hex>`              → `ok <msg>` | `err:unparsable` | `err:escaped:<PyExceptionName>`
`C01 enc <msg>`              → `ok <hex>` | `err:struct.error` | `err:ValueError`
`C01 sock <hex>`             → `dispatched <msg>` | `dropped` | `escaped:<PyExceptionName>`   (`udp6Receive`: one
                               datagram arriving on the udp6 socket)

`<msg>` = `<mtype> <code> <mid> <token-hex> <payload-hex> <opt>*`, all numbers decimal;
`<opt>` = `<num>:s:<utf8-hex>` | `<num>:o:<hex>` | `<num>:u:<hexnum>` | `<num>:c:<hexnum>` |
`<num>:b:<block_number>/<0|1>/<szx>`; `<hexnum>` = hexadecimal digits of the integer.
For `enc` the options are given in the order they were added to `Message.opt`.
An option `<num>:x:<hex>` stands for an option of a format class the model has no counterpart for (the harness
met a class name outside the five transcribed ones); such a message is answered `out-of-model`.
-/
namespace Aiocoap.Codec

def natToHexDigits (n : Nat) : List Char := (Nat.toDigits 16 n)

def natToHex (n : Nat) : String := String.ofList (natToHexDigits n)

def hexNumToNat (s : String) : Option Nat :=
  if s.isEmpty then none else
  s.toList.foldl (fun acc c => do
    let a ← acc
    let d ← hexVal c
    pure (a * 16 + d)) (some 0)

def showVal : OptVal → String
  | .str b => "s:" ++ bytesToHex b
  | .opaque b => "o:" ++ bytesToHex b
  | .uint n => "u:" ++ natToHex n
  | .cf n => "c:" ++ natToHex n
  | .block num more szx => s!"b:{num}/{if more then 1 else 0}/{szx}"

def showOpt (o : Opt) : String := s!"{o.num}:" ++ showVal o.val

def showMsg (m : Msg) : String :=
  " ".intercalate
    ([toString m.mtype, toString m.code, toString m.mid, bytesToHex m.token, bytesToHex m.payload]
      ++ m.opts.map showOpt)

def parseOpt (s : String) : Option Opt :=
  match s.splitOn ":" with
  | [n, k, v] => do
    let num ← n.toNat?
    let val ← (match k with
      | "s" => (hexToBytes v).map OptVal.str
      | "o" => (hexToBytes v).map OptVal.opaque
      | "u" => (hexNumToNat v).map OptVal.uint
      | "c" => (hexNumToNat v).map OptVal.cf
      | "b" =>
        match v.splitOn "/" with
        | [bn, m, z] => do
          let bn ← bn.toNat?
          let m ← (if m = "1" then some true else if m = "0" then some false else none)
          let z ← z.toNat?
          pure (OptVal.block bn m z)
        | _ => none
      | _ => none)
    pure { num, val }
  | _ => none

def parseMsg (args : List String) : Option Msg :=
  match args with
  | mtype :: code :: mid :: token :: payload :: opts => do
    let mtype ← mtype.toNat?
    let code ← code.toNat?
    let mid ← mid.toNat?
    let token ← hexToBytes token
    let payload ← hexToBytes payload
    let opts ← opts.mapM parseOpt
    pure { mtype, code, mid, token, opts, payload }
  | _ => none

/-- an option of a value format the model does not have (`<num>:x:<hex>`) -/
def isForeignOpt (s : String) : Bool :=
  match s.splitOn ":" with
  | [_, "x", _] => true
  | _ => false

def showFmt : Fmt → String
  | .string => "string" | .opaque => "opaque" | .uint => "uint" | .block => "block"
  | .contentFormat => "contentFormat"

def handleC01 (args : List String) : String :=
  match args with
  | ["ext", "r", nib, hex] =>
    match nib.toNat?, hexToBytes hex with
    | some nib, some raw =>
      -- the code only ever passes a 4-bit field
      if nib ≥ 16 then "out-of-model" else
      match readExt nib raw with
      | some (v, rest) => s!"{v} {bytesToHex rest}"
      | none => "err"
    | _, _ => "bad-op"
  | ["ext", "w", v] =>
    match v.toNat? with
    | some v =>
      match writeExt v with
      | some (nib, ext) => s!"{nib} {bytesToHex ext}"
      | none => "err"
    | none => "bad-op"
  | ["fmt", n] =>
    match n.toNat? with
    | some n => showFmt (formatOf n)
    | none => "bad-op"
  | ["utf8", hex] =>
    match hexToBytes hex with
    | some b => if utf8Valid b then "1" else "0"
    | none => "bad-op"
  | ["dec", hex] =>
    match hexToBytes hex with
    | some raw =>
      match decode raw with
      | .ok m => "ok " ++ showMsg m
      | .error .unparsable => "err:unparsable"
      | .error (.escaped .unicodeDecode) => "err:escaped:UnicodeDecodeError"
    | none => "bad-op"
  | ["sock", hex] =>
    match hexToBytes hex with
    | some raw =>
      match udp6Receive raw with
      | .dispatched m => "dispatched " ++ showMsg m
      | .dropped => "dropped"
      | .escaped .unicodeDecode => "escaped:UnicodeDecodeError"
    | none => "bad-op"
  | "enc" :: rest =>
    if (rest.drop 5).any isForeignOpt then "out-of-model" else
    match parseMsg rest with
    | some m =>
      -- `mtype` is a `Type` enum member in the code; other numbers cannot be set
      if m.mtype ≥ 4 then "out-of-model" else
      match encode m with
      | .ok b => "ok " ++ bytesToHex b
      | .error .structError => "err:struct.error"
      | .error .valueError => "err:ValueError"
    | none => "bad-op"
  | _ => "bad-op"

end Aiocoap.Codec

namespace Aiocoap
def handleC01 (args : List String) : String := Codec.handleC01 args
end Aiocoap
