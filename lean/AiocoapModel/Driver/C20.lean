import AiocoapModel.Basic.Bytes
/-! Line protocol for C20 (not built yet). -/
namespace Aiocoap
def handleC20 (_args : List String) : String := "out-of-model"
end Aiocoap
