import AiocoapModel.Basic.Bytes
import AiocoapModel.Apps.Rd
/-! Line protocol for the resource-directory model (C20).

`C20 <grace> <tps> <op>*` — one whole history per line; every op is one token:

    R:<remote>:<query>:<body>          register (POST to the directory resource)
    U:<path>:<remote>:<query>:<body>   POST to the registration /reg/<path>/
    P:<path>:<remote>:<query>:<body>   PUT
    X:<path>   G:<path>                DELETE / GET of a registration
    T:<ticks>                          time passes
    E:<query>  S:<query>               endpoint / resource lookup

`<remote>`: hex of `request.remote.uri`, `!` = anonymous.  `<query>`: `~` (empty) or
`hexkey=hexvalue` items joined by `&` (`-` = empty string; an item without `=` is an option
without value, `?flag`).  `<body>`: Content-Format `n`one / `l`ink-format / `o`ther, then payload
`e`mpty / `g`arbage (text the directory refuses with 4.00: unparsable, or a link target that can
not be resolved) / `k<link>;<link>…` with `<link>` = `hexhref,hexkey=hexvalue,…` (an attribute
without `=` has no value).

Out-of-model (answer `out-of-model`): a `proxy` option, `lt` values Python's `int` reads differently
from `parseInt`, bases / remotes other than `coap[s|+tcp]://authority` with a well-formed authority
(a `base` value whose authority has an unpaired bracket, or with a `>` anywhere, IS in the model:
refused; so is a query option with any printable-ASCII name: refused on writes unless it is an
RFC 6690 parmname; names of link ATTRIBUTES stay `[A-Za-z0-9._-]+`), `page` / `count`
with a value, search values ending in `*`, `anchor` attributes, hrefs that are not plain absolute
paths, bytes outside printable ASCII.

Output: one token per op (`C<path>` 2.01, `H` 2.04, `D` 2.02, `E<code>`, `T`, `G[…]` registration
payload in order, `L[…]` lookup entries sorted), then ` | K[…] P[…]`: the two indexes, sorted.
-/
namespace Aiocoap.Rd

/-- parse errors: `bad` (unparsable line) or `oom` (deliberately not modelled) -/
inductive PErr | bad | oom

abbrev P := Except PErr

def hexP (s : String) : P Str :=
  match hexToBytes s with
  | some b => .ok b
  | none => .error .bad

def natP (s : String) : P Nat :=
  match s.toNat? with
  | some n => .ok n
  | none => .error .bad

def guard' (ok : Bool) : P Unit := if ok then .ok () else .error .oom

/-- printable ASCII (`"` and `\` included: they travel escaped in link-format) -/
def charsetOk (s : Str) : Bool := s.all (fun b => 32 ≤ b && b ≤ 126)

def isAlnum (b : Nat) : Bool := (48 ≤ b && b ≤ 57) || (65 ≤ b && b ≤ 90) || (97 ≤ b && b ≤ 122)

/-- parameter / attribute names: non-empty, `[A-Za-z0-9._-]` -/
def keyOk (s : Str) : Bool := !s.isEmpty && s.all (fun b => isAlnum b || b == 45 || b == 46 || b == 95)

def sProxy : Str := [112, 114, 111, 120, 121]

def isHex (b : Nat) : Bool := (48 ≤ b && b ≤ 57) || (65 ≤ b && b ≤ 70) || (97 ≤ b && b ≤ 102)

def isDigit (b : Nat) : Bool := 48 ≤ b && b ≤ 57

/-- split at every `sep` -/
def splitAt (sep : Nat) : Str → List Str
  | [] => [[]]
  | b :: rest =>
    match splitAt sep rest with
    | [] => [[b]]
    | cur :: more => if b == sep then [] :: cur :: more else (b :: cur) :: more

/-- an IPv6 literal of the one shape the model vouches for: 2 to 7 groups of 1-4 hex digits with
exactly one `::` between two groups (`2001:db8::7`) — always accepted by `ipaddress` -/
def ip6Ok (s : Str) : Bool :=
  let parts := splitAt 58 s
  3 ≤ parts.length && parts.length ≤ 8 &&
  (parts.filter (·.isEmpty)).length == 1 &&
  parts.head? != some [] && parts.getLast? != some [] &&
  parts.all (fun p => p.length ≤ 4 && p.all isHex)

/-- `:port` or nothing -/
def portOk (s : Str) : Bool :=
  match s with
  | [] => true
  | 58 :: ds => !ds.isEmpty && ds.length ≤ 5 && ds.all isDigit
  | _ => false

/-- a well-formed authority: `name[:port]` of `[A-Za-z0-9.-]+`, or `[ip6][:port]` -/
def authorityOk (a : Str) : Bool :=
  match a with
  | 91 :: rest =>
    let lit := rest.takeWhile (· != 93)
    let after := rest.dropWhile (· != 93)
    ip6Ok lit && (match after with | 93 :: port => portOk port | _ => false)
  | _ =>
    let name := a.takeWhile (· != 58)
    !name.isEmpty && name.all (fun b => isAlnum b || b == 46 || b == 45) && portOk (a.dropWhile (· != 58))

def schemes : List Str := [[99, 111, 97, 112, 58, 47, 47], [99, 111, 97, 112, 115, 58, 47, 47],
    [99, 111, 97, 112, 43, 116, 99, 112, 58, 47, 47]]

/-- `coap://`, `coaps://`, `coap+tcp://` followed by a well-formed authority and nothing else:
`urlsplit` accepts these and `urljoin(base, "/path") = base ++ "/path"` -/
def baseOk (s : Str) : Bool :=
  schemes.any (fun p => p.isPrefixOf s && authorityOk (s.drop p.length))

/-- … or an authority of `[A-Za-z0-9.:[]-]+` in which one kind of bracket lacks its partner: what
`urlsplit` refuses ("Invalid IPv6 URL"), whatever else the authority holds -/
def baseUnpaired (s : Str) : Bool :=
  schemes.any (fun p => p.isPrefixOf s &&
    (let rest := s.drop p.length
     rest.all (fun b => isAlnum b || b == 46 || b == 58 || b == 91 || b == 93 || b == 45) &&
     rest.contains 91 != rest.contains 93))

def hasDoubleSlash : Str → Bool
  | 47 :: 47 :: _ => true
  | _ :: rest => hasDoubleSlash rest
  | [] => false

/-- absolute-path references without dot segments, queries or empty segments -/
def hrefOk (s : Str) : Bool :=
  s.head? == some 47 && s.all (fun b => isAlnum b || b == 47 || b == 45 || b == 95) && !hasDoubleSlash s

def ltOk (v : Str) : Bool :=
  !(v.any (fun b => b == 32 || b == 95)) &&
  (match parseInt v with
   | some n => decide (n.natAbs < 2 ^ 40)
   | none => true)

def parseItem (s : String) : P (Str × Val) :=
  match s.splitOn "=" with
  | [k, v] => do
    let k ← hexP k
    let v ← hexP v
    guard' (charsetOk k && charsetOk v)      -- any printable-ASCII name, the empty one included
    pure (k, some v)
  | [k] => do
    let k ← hexP k
    guard' (charsetOk k)
    pure (k, none)              -- an option without `=`
  | _ => .error .bad

def parseQuery (s : String) : P Query :=
  if s = "~" then .ok [] else (s.splitOn "&").mapM parseItem

/-- a query of a registration / update: extra guards -/
def writeQueryOk (q : Query) : Bool :=
  q.all (fun e => e.1 != sProxy &&
    (match e.2 with
     | none => true
     | some v => (e.1 != sLt || ltOk v) && (e.1 != sBase || baseOk v || baseUnpaired v || v.contains 62)))

def lookupQueryOk (q : Query) : Bool :=
  q.all (fun e =>
    match e.2 with
    | none => true
    | some v => e.1 != sPage && e.1 != sCount && v.getLast? != some 42)

def parseRemote (s : String) : P (Option Str) :=
  if s = "!" then .ok none else do
    let b ← hexP s
    guard' (baseOk b)
    pure (some b)

def parseAttr (s : String) : P (Str × Val) :=
  match s.splitOn "=" with
  | [k, v] => do
    let k ← hexP k
    let v ← hexP v
    guard' (keyOk k && charsetOk v && k != sAnchor)
    pure (k, some v)
  | [k] => do
    let k ← hexP k
    guard' (keyOk k && k != sAnchor)
    pure (k, none)
  | _ => .error .bad

def parseLink (s : String) : P Link :=
  match s.splitOn "," with
  | [] => .error .bad
  | h :: attrs => do
    let h ← hexP h
    guard' (hrefOk h)
    let attrs ← attrs.mapM parseAttr
    pure { href := h, attrs := attrs }

def parseBody (s : String) : P Body :=
  match s.toList with
  | cf :: pl :: rest => do
    let cf ← (match cf with
      | 'n' => .ok CF.absent | 'l' => .ok CF.linkFormat | 'o' => .ok CF.other | _ => .error .bad)
    let payload ← (match pl with
      | 'e' => if rest.isEmpty then .ok (Payload.links []) else .error .bad
      | 'g' => if rest.isEmpty then .ok Payload.garbage else .error .bad
      | 'k' => do
        let ls ← ((String.ofList rest).splitOn ";").mapM parseLink
        pure (Payload.links ls)
      | _ => .error .bad)
    pure { cf := cf, payload := payload }
  | _ => .error .bad

def parseOp (s : String) : P Op :=
  match s.splitOn ":" with
  | ["R", remote, q, body] => do
    let remote ← parseRemote remote
    let q ← parseQuery q
    guard' (writeQueryOk q)
    let body ← parseBody body
    pure (.register remote q body)
  | ["U", path, remote, q, body] => do
    let path ← natP path
    let remote ← parseRemote remote
    let q ← parseQuery q
    guard' (writeQueryOk q)
    let body ← parseBody body
    pure (.update path remote q body)
  | ["P", path, remote, q, body] => do
    let path ← natP path
    let remote ← parseRemote remote
    let q ← parseQuery q
    guard' (writeQueryOk q)
    let body ← parseBody body
    pure (.put path remote q body)
  | ["X", path] => do pure (.delete (← natP path))
  | ["G", path] => do pure (.read (← natP path))
  | ["T", dt] => do
    let dt ← natP dt
    guard' (decide (dt < 2 ^ 40))
    pure (.advance dt)
  | ["E", q] => do
    let q ← parseQuery q
    guard' (lookupQueryOk q)
    pure (.lookupEp q)
  | ["S", q] => do
    let q ← parseQuery q
    guard' (lookupQueryOk q)
    pure (.lookupRes q)
  | _ => .error .bad

/-- all ops; a `bad` token anywhere wins over `oom` -/
def parseOps (toks : List String) : P (List Op) :=
  let rs := toks.map parseOp
  if rs.any (fun r => match r with | .error .bad => true | _ => false) then .error .bad
  else rs.mapM id

-- printing ----------------------------------------------------------------------------------

def sortStrings (l : List String) : List String := l.mergeSort (fun a b => compare a b != .gt)

def showAttr (a : Str × Val) : String :=
  match a.2 with
  | some v => bytesToHex a.1 ++ "=" ++ bytesToHex v
  | none => bytesToHex a.1

def showLink (l : Link) : String := ",".intercalate (bytesToHex l.href :: l.attrs.map showAttr)

/-- `get_host_link` (rd.py:263-270); attributes sorted because `registration_parameters` is a dict -/
def showHostLink (r : Reg) : String :=
  let pairs := r.params.flatMap (fun e => e.2.map (fun v => (e.1, v)))
  let attrs := pairs ++ [(sBase, some r.base), (sRt, some [99, 111, 114, 101, 46, 114, 100, 45, 101, 112])]
  ",".intercalate (bytesToHex r.href :: sortStrings (attrs.map showAttr))

def showOptStr : Option Str → String
  | none => "~"
  | some s => bytesToHex s

def showResp : Resp → String
  | .created p => s!"C{p}"
  | .changed => "H"
  | .deleted => "D"
  | .regLinks ls => "G[" ++ ";".intercalate (ls.map showLink) ++ "]"
  | .endpoints rs => "L[" ++ ";".intercalate (sortStrings (rs.map showHostLink)) ++ "]"
  | .resources ls => "L[" ++ ";".intercalate (sortStrings (ls.map showLink)) ++ "]"
  | .err code => s!"E{code}"
  | .ticked => "T"

def showKeyEntry (e : Key × Reg) : String :=
  s!"{bytesToHex e.1.1}/{showOptStr e.1.2}/{e.2.path}/{e.2.lt}/{bytesToHex e.2.base}/{if e.2.baseExplicit then 1 else 0}"

def showPathEntry (e : Nat × Reg) : String :=
  s!"{e.1}/{bytesToHex e.2.ep}/{showOptStr e.2.d}"

def showState (s : State) : String :=
  "K[" ++ ";".intercalate (sortStrings (s.byKey.map showKeyEntry)) ++ "] P[" ++
    ";".intercalate (sortStrings (s.byPath.map showPathEntry)) ++ "]"

end Aiocoap.Rd

namespace Aiocoap
open Aiocoap.Rd

def handleC20 (args : List String) : String :=
  match args with
  | grace :: tps :: ops =>
    match grace.toInt?, tps.toNat? with
    | some grace, some tps =>
      if tps = 0 then "bad-op" else
      match parseOps ops with
      | .error .bad => "bad-op"
      | .error .oom => "out-of-model"
      | .ok ops =>
        let r := run { grace := grace, tps := tps } State.init ops
        " ".intercalate (r.2.map showResp) ++ " | " ++ showState r.1
    | _, _ => "bad-op"
  | _ => "bad-op"

end Aiocoap
