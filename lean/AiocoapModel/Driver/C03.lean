import AiocoapModel.Driver.MsgLayer
/-! C03 is decided on the shared message-layer model. -/
namespace Aiocoap
def handleC03 (args : List String) : String := MsgLayer.handleMsgLayer args
end Aiocoap
