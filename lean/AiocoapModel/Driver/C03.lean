import AiocoapModel.Basic.Bytes
/-! Line protocol for C03 (not built yet). -/
namespace Aiocoap
def handleC03 (_args : List String) : String := "out-of-model"
end Aiocoap
