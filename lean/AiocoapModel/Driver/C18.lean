import AiocoapModel.Driver.MsgLayer
/-! C18 is decided on the shared message-layer model. -/
namespace Aiocoap
def handleC18 (args : List String) : String := MsgLayer.handleMsgLayer args
end Aiocoap
