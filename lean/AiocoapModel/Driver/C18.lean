import AiocoapModel.Basic.Bytes
/-! Line protocol for C18 (not built yet). -/
namespace Aiocoap
def handleC18 (_args : List String) : String := "out-of-model"
end Aiocoap
