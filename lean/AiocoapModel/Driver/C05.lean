import AiocoapModel.Basic.Bytes
import AiocoapModel.Blockwise.RefServer
/-! Line protocol for the block-wise client model.

`C05 R <payload> <szx0> <maxPayload> <hint1> <hint2> <resp>*`
    the client machine against a given response sequence (`runClient`);
    hint1 / hint2 = `-` | `<szx>`: the size exponent of an application-preset Block1 / Block2 option
    `(0, False, szx)` in the request handed to the API;
    szx0 = 7 is a remote that does BERT (`maximum_block_size_exp` 7);
    resp = `<code>:<block1>:<block2>:<etag>:<payload>`, block = `-` | `<num>.<0|1>.<szx>`,
    etag = `n` (absent) | `e<hex>`; payloads are hex (`-` = empty)
    → `<req>* | <outcome>`, req = `<block1>:<block2>:<size1|->:<payload>`,
      outcome = `ok:<code>:<etag>:<payload>` | `err:<PythonClass>` | `pending`
`C05 I <payload> <szx0> <maxPayload> <hint1> <hint2> <rep> <etag> <code> <choice>*`
    client and reference server in closed loop (`transfer`); choice = `<szx>.<0|1>`
    → `<req>* | <resp>* | <outcome> | <recorded: n | r<hex>>`
`C05 B <num> <more> <szx> <maxExp> <payloadSize>`
    `BlockOpt`: → `<size> <start> <validFor> <reduced_to as num.m.szx>`

A size exponent above 7 anywhere is `out-of-model` (it does not fit the option's 3 bits), and so is
a choice of 7 on an `I` line (the reference server's own exponents are 0..6).
-/
namespace Aiocoap.BwClient

def showBlock : Option BlockOpt → String
  | none => "-"
  | some b => s!"{b.num}.{if b.more then 1 else 0}.{b.szx}"

def parseBlock (s : String) : Option (Option BlockOpt) :=
  if s = "-" then some none else
  match s.splitOn "." with
  | [n, m, x] => do
    let n ← n.toNat?
    let m ← (if m = "1" then some true else if m = "0" then some false else none)
    let x ← x.toNat?
    pure (some { num := n, more := m, szx := x })
  | _ => none

def showEtag : Option Bytes → String
  | none => "n"
  | some e => "e" ++ (if e.isEmpty then "" else bytesToHex e)

def parseEtag (s : String) : Option (Option Bytes) :=
  match s.toList with
  | ['n'] => some none
  | 'e' :: rest => if rest.isEmpty then some (some []) else (hexCharsToBytes rest).map some
  | _ => none

def parseHint (s : String) : Option (Option Nat) :=
  if s = "-" then some none else s.toNat?.map some

def hintBad : Option Nat → Bool
  | none => false
  | some h => h ≥ 8

def parseResp (s : String) : Option Resp :=
  match s.splitOn ":" with
  | [c, b1, b2, e, p] => do
    let c ← c.toNat?
    let b1 ← parseBlock b1
    let b2 ← parseBlock b2
    let e ← parseEtag e
    let p ← hexToBytes p
    pure { code := c, block1 := b1, block2 := b2, etag := e, payload := p }
  | _ => none

def parseChoice (s : String) : Option Choice :=
  match s.splitOn "." with
  | [x, e] => do
    let x ← x.toNat?
    let e ← (if e = "1" then some true else if e = "0" then some false else none)
    pure { szx := x, explicitB2 := e }
  | _ => none

def showReq (r : Req) : String :=
  let s1 := match r.size1 with | none => "-" | some n => toString n
  s!"{showBlock r.block1}:{showBlock r.block2}:{s1}:{bytesToHex r.payload}"

def showResp (r : Resp) : String :=
  s!"{r.code}:{showBlock r.block1}:{showBlock r.block2}:{showEtag r.etag}:{bytesToHex r.payload}"

def errName : Err → String
  | .unexpectedBlock1 => "UnexpectedBlock1Option"
  | .unexpectedBlock2 => "UnexpectedBlock2"
  | .notImplemented => "NotImplemented"
  | .resourceChanged => "ResourceChanged"
  | .badRequest => "BadRequest"
  | .assertion => "AssertionError"

def showOutcome : Outcome → String
  | .ok b => s!"ok:{b.code}:{showEtag b.etag}:{bytesToHex b.payload}"
  | .error e => "err:" ++ errName e
  | .pending => "pending"

def optSzxBad : Option BlockOpt → Bool
  | none => false
  | some b => b.szx ≥ 8

def respBad (r : Resp) : Bool := optSzxBad r.block1 || optSzxBad r.block2

def handle (args : List String) : String :=
  match args with
  | "R" :: payload :: szx0 :: maxPayload :: hint1 :: hint2 :: resps =>
    match hexToBytes payload, szx0.toNat?, maxPayload.toNat?, parseHint hint1, parseHint hint2,
          resps.mapM parseResp with
    | some payload, some szx0, some maxPayload, some hint1, some hint2, some resps =>
      if szx0 ≥ 8 || hintBad hint1 || hintBad hint2 || resps.any respBad then "out-of-model" else
      let res := runClient { payload, szx0, maxPayload, hint2, hint1 } resps
      " ".intercalate (res.1.map showReq) ++ " | " ++ showOutcome res.2
    | _, _, _, _, _, _ => "bad-op"
  | "I" :: payload :: szx0 :: maxPayload :: hint1 :: hint2 :: rep :: etag :: code :: choices =>
    match hexToBytes payload, szx0.toNat?, maxPayload.toNat?, parseHint hint1, parseHint hint2 with
    | some payload, some szx0, some maxPayload, some hint1, some hint2 =>
    (match hexToBytes rep, parseEtag etag, code.toNat?, choices.mapM parseChoice with
    | some rep, some etag, some code, some choices =>
      if szx0 ≥ 8 || hintBad hint1 || hintBad hint2 || choices.any (fun c => c.szx ≥ 7)
      then "out-of-model" else
      let run := transfer { payload, szx0, maxPayload, hint2, hint1 } (Srv.init rep etag code) choices
      " ".intercalate (run.reqs.map showReq) ++ " | " ++
      " ".intercalate (run.resps.map showResp) ++ " | " ++ showOutcome run.outcome ++ " | " ++
      (match run.srv.recorded with | none => "n" | some b => "r" ++ (if b.isEmpty then "" else bytesToHex b))
    | _, _, _, _ => "bad-op")
    | _, _, _, _, _ => "bad-op"
  | ["B", num, more, szx, maxExp, psize] =>
    match num.toNat?, more.toNat?, szx.toNat?, maxExp.toNat?, psize.toNat? with
    | some num, some more, some szx, some maxExp, some psize =>
      if szx ≥ 8 || maxExp ≥ 8 || more ≥ 2 then "out-of-model" else
      let b : BlockOpt := { num, more := more == 1, szx }
      s!"{b.size} {b.start} {if b.validFor psize then 1 else 0} {showBlock (some (b.reducedTo maxExp))}"
    | _, _, _, _, _ => "bad-op"
  | _ => "bad-op"

end Aiocoap.BwClient

namespace Aiocoap
/-- entry point used by `Driver/Main.lean` -/
def handleC05 (args : List String) : String := BwClient.handle args
end Aiocoap
