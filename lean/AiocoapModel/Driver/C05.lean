import AiocoapModel.Basic.Bytes
/-! Line protocol for C05 (not built yet). -/
namespace Aiocoap
def handleC05 (_args : List String) : String := "out-of-model"
end Aiocoap
