import AiocoapModel.Driver.MsgLayer
/-! C02 is decided on the shared message-layer model. -/
namespace Aiocoap
def handleC02 (args : List String) : String := MsgLayer.handleMsgLayer args
end Aiocoap
