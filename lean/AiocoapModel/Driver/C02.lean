import AiocoapModel.Basic.Bytes
/-! Line protocol for C02 (not built yet). -/
namespace Aiocoap
def handleC02 (_args : List String) : String := "out-of-model"
end Aiocoap
