import AiocoapModel.Basic.Bytes
/-! Line protocol for C09 (not built yet). -/
namespace Aiocoap
def handleC09 (_args : List String) : String := "out-of-model"
end Aiocoap
