import AiocoapModel.Basic.Bytes
import AiocoapModel.Render.Render
import AiocoapModel.Render.Tcp
import AiocoapModel.MsgLayer.Model
/-! Line protocol for C09.

`C09 [tcp.<maxpayload>] nosite|site <res>* -- <event>*`

With `tcp.<n>` the responses leave through the TCP token interface (`Render/Tcp.lean`) of a peer
whose CSM lets a response carry `n` bytes in one message; without it through the UDP message layer.

resource  `res:<path>:<method>=<outcome>,<method>=<outcome>…`   path = segments joined by `/`
payload   hex, `-` for empty, or `<xx>*<n>` for n bytes 0xxx
outcome   `r.<code|->.<payload>.<nr|->`   returns a message
          `e.<code>.<diaghex|->`               raises a renderable error
          `x.<texthex|->`                      raises another exception
          `n.<texthex|->`                      returns something that is not a message
          `q.<texthex|->` / `z`                renderable error whose to_message raises / returns None
          `c`                                  raises CancelledError        `h`  never returns
event     `D@<tick>:<id>:<code>:<path>:<tokenhex>:<nr|->`   request `id` delivered
          `C@<tick>:<id>`   its handler coroutine runs to the end      `S@<tick>:<id>`   stop()

Output: one group per distinct consecutive tick, separated by `|`; a group is the sorted list
(`;`) of `S<id>:<token>:<code>:<payload>:<nr>:<last>` (send_message calls), `U<id>` (entry removed),
`K<id>` (a still running handler is cancelled), `L:<kind>` (log records at WARNING and above);
then ` # ` and the sorted list of response datagrams that reach the wire (`<token>:<code>:<payload>`,
i.e. the sends the message layer's No-Response rule does not suppress).  In `tcp` mode the payloads of
the `S` items and the wire entries — there the complete RFC 8323 frames `transport.write` is called
with — are written by `rle`: two hex digits per byte, a maximal run of 8 or more equal bytes as
`[xx*n]`.
-/
namespace Aiocoap.Render

def parseOptNat (s : String) : Option (Option Nat) :=
  if s = "-" then some none else s.toNat?.map some

def parsePath (s : String) : List String :=
  if s = "" then [] else s.splitOn "/"

/-- hex, or `<xx>*<n>`: n bytes xx -/
def parsePayload (s : String) : Option Payload :=
  match s.splitOn "*" with
  | [b, n] => do
    match ← hexToBytes b with
    | [x] => pure (List.replicate (← n.toNat?) x)
    | _ => none
  | [h] => hexToBytes h
  | _ => none

def parseOutcome (s : String) : Option Outcome :=
  match s.splitOn "." with
  | ["r", c, p, nr] => do
    pure (.returns (← parseOptNat c) (← parsePayload p) (← parseOptNat nr))
  | ["e", c, d] => do pure (.raisesRenderable (← c.toNat?) (← parsePayload d))
  | ["x", t] => do pure (.raisesOther (← hexToBytes t))
  | ["n", t] => do pure (.returnsNonMessage (← hexToBytes t))
  | ["q", t] => do pure (.rendererFails false (← hexToBytes t))
  | ["z"] => some (.rendererFails true [])
  | ["c"] => some .raisesCancelled
  | ["h"] => some .neverReturns
  | _ => none

def parseHandler (s : String) : Option (Nat × Outcome) :=
  match s.splitOn "=" with
  | [m, o] => do pure (← m.toNat?, ← parseOutcome o)
  | _ => none

def parseResource (s : String) : Option (List String × Resource) :=
  match s.splitOn ":" with
  | ["res", path, hs] => do
    let hs ← (if hs = "" then some [] else (hs.splitOn ",").mapM parseHandler)
    pure (parsePath path, hs)
  | _ => none

def parseIn (s : String) : Option (Nat × In) :=
  match s.splitOn "@" with
  | [kind, rest] =>
    match kind, rest.splitOn ":" with
    | "D", [t, id, code, path, tok, nr] => do
      pure (← t.toNat?, .deliver (← id.toNat?)
        { code := ← code.toNat?, path := parsePath path, token := ← hexToBytes tok,
          noResponse := ← parseOptNat nr })
    | "C", [t, id] => do pure (← t.toNat?, .complete (← id.toNat?))
    | "S", [t, id] => do pure (← t.toNat?, .stop (← id.toNat?))
    | _, _ => none
  | _ => none

def optNatStr : Option Nat → String
  | none => "-"
  | some n => toString n

def logStr : LogKind → String
  | .unhandled => "unhandled" | .rendererFailed => "rendererFailed" | .tmGotError => "tmGotError"
  | .discarded => "discarded" | .lateResponse => "lateResponse"

/-- is this response outside what the model covers (beyond `limit` bytes the block-wise layer
takes over, C06)? -/
def outcomeOutOfModel (limit : Nat) : Outcome → Bool
  | .returns _ p _ => p.length > limit
  | .raisesRenderable _ d => d.length > limit
  | _ => false

def hex2 (x : Nat) : String := String.ofList [hexDigit (x / 16 % 16), hexDigit (x % 16)]

def flushRun (b n : Nat) : String :=
  if n ≥ 8 then s!"[{hex2 b}*{n}]" else String.join (List.replicate n (hex2 b))

/-- the pieces in reverse order; `b` is the byte of the current run, `n` its length so far -/
def rleAux : List Nat → Nat → Nat → List String → List String
  | [], b, n, acc => flushRun b n :: acc
  | x :: xs, b, n, acc =>
    if x = b then rleAux xs b (n + 1) acc else rleAux xs x 1 (flushRun b n :: acc)

/-- two hex digits per byte, a maximal run of 8 or more equal bytes as `[xx*n]`; `-` = empty -/
def rle : Bytes → String
  | [] => "-"
  | x :: xs => String.join (rleAux xs x 1 []).reverse

def effStr (tcp : Bool) (running : Bool) (o : Out) : List String :=
  match o.eff with
  | .send m l =>
    let p := if tcp then rle m.payload else bytesToHex m.payload
    [s!"S{o.id}:{bytesToHex o.token}:{m.code}:{p}:{optNatStr m.noResponse}:{if l then 1 else 0}"]
  | .unregister => [s!"U{o.id}"]
  | .cancelTask => if running then [s!"K{o.id}"] else []
  | .log k => [s!"L:{logStr k}"]
  | .strayTombstone => ["BUG:strayTombstone"]

/-- the response as the message layer's `send_message` judges it for No-Response -/
def asOutMsg (m : Resp) : MsgLayer.OutMsg :=
  { mtype := none, reliability := none, code := m.code, obs := none, body := 0,
    noResponse := m.noResponse.getD 0, maxRetr := 4 }

def wireStr (tcp : Bool) (o : Out) : List String :=
  match o.eff with
  | .send m _ =>
    if tcp then
      (tcpSend o.token m).map fun
        | .write b => rle b
        | .sendError => "SENDERROR"
        | _ => "BUG:tcpOut"
    else if MsgLayer.suppressed (asOutMsg m) then []
    else [s!"{bytesToHex o.token}:{m.code}:{bytesToHex m.payload}"]
  | _ => []

def sortStrs (l : List String) : List String := l.mergeSort (fun a b => decide (a ≤ b))

/-- was the handler coroutine of the request named by a `stop` still running? -/
def stillRunning (s : Sys) : In → Bool
  | .stop id => match s.entries id with
    | some e => !e.finished
    | none => false
  | _ => false

/-- run the timed inputs; returns (groups in order with their tick, wire entries) -/
def runTimed (tcp : Bool) (s : Sys) (groups : List (Nat × List String)) (wire : List String) :
    List (Nat × In) → List (Nat × List String) × List String
  | [] => (groups.reverse, wire)
  | (t, a) :: rest =>
    let r := step s a
    let items := r.2.flatMap (effStr tcp (stillRunning s a))
    let w := r.2.flatMap (wireStr tcp)
    let groups' := match groups with
      | (t', g) :: gs => if t' = t then (t, g ++ items) :: gs else (t, items) :: (t', g) :: gs
      | [] => [(t, items)]
    runTimed tcp r.1 groups' (wire ++ w) rest

/-- `tcp.<n>` as first argument: TCP mode with the given payload limit -/
def parseMode (args : List String) : Option (Bool × Nat × List String) :=
  match args with
  | first :: rest =>
    match first.splitOn "." with
    | ["tcp", n] => n.toNat?.map fun n => (true, n, rest)
    | _ => some (false, 1024, args)
  | [] => none

def handleC09 (args0 : List String) : String :=
  match parseMode args0 with
  | none => "bad-op"
  | some (tcp, limit, args) =>
  match args with
  | siteTag :: rest =>
    let resArgs := rest.takeWhile (· ≠ "--")
    let evArgs := (rest.dropWhile (· ≠ "--")).drop 1
    if !(rest.contains "--") then "bad-op" else
    match resArgs.mapM parseResource, evArgs.mapM parseIn with
    | some res, some evs =>
      let site : Option (Option Site) :=
        if siteTag = "nosite" then (if res.isEmpty then some none else none)
        else if siteTag = "site" then some (some { resources := res })
        else none
      match site with
      | none => "bad-op"
      | some site =>
        if res.any (fun r => r.2.any (fun h => outcomeOutOfModel limit h.2)) then "out-of-model" else
        let (groups, wire) := runTimed tcp (Sys.init site) [] [] evs
        "|".intercalate (groups.map fun g => ";".intercalate (sortStrs g.2)) ++ " # " ++
          ";".intercalate (sortStrs wire)
    | _, _ => "bad-op"
  | _ => "bad-op"

end Aiocoap.Render

namespace Aiocoap
def handleC09 (args : List String) : String := Render.handleC09 args
end Aiocoap
