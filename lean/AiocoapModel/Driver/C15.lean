import AiocoapModel.Basic.Bytes
import AiocoapModel.Tcp.Frame
import AiocoapModel.Tcp.Conn
/-! Line protocol for the CoAP-over-TCP model.

Bytes on input: pieces joined by `+`, a piece is lower-case hex or `<bb>*<n>` (n copies of the
byte bb); `-` is the empty string.  Bytes on output: hex up to 40 bytes, otherwise
`#<length>:<adler32>`; `-` is the empty string.

`C15 X <bytes>`                         → `none` | `<tokenoffset> <tkl> <length>`
`C15 L <n>`                             → `<nibble> <ext>` | `err`
`C15 D <bytes>`   (a complete frame)    → `unparsable` | `<msg>`
`C15 S <code> <token> <payload> <num>:<val>*` → `<bytes>` | `err`
`C15 P <code> <token> <payload> <num>:<val>*` → events of `_TCPPooling.send_message` (`-` = none)
`C15 F <maxsize> <chunk>*`              → events of a whole session, then
                                          ` |spool=<bytes> csm=<-|mms/bw> closed=<0|1>`
`<msg>` = code, token, options (`<num>:<val>` joined by commas, or a dash) and payload,
joined by slashes;
events `Q<msg>` `R<msg>` `W<bytes>` `C` `E:<released|aborted|lost>` `X`.
-/
namespace Aiocoap
open Aiocoap.Tcp

namespace C15Driver

/-- tail-recursive hex parser (frames of a megabyte are fed through the driver) -/
def hexPairs : List Char → Bytes → Option Bytes
  | [], acc => some acc.reverse
  | [_], _ => none
  | a :: b :: rest, acc =>
    match hexVal a, hexVal b with
    | some x, some y => hexPairs rest ((x * 16 + y) :: acc)
    | _, _ => none

def parsePiece (s : String) : Option Bytes :=
  match s.splitOn "*" with
  | [h] => hexPairs h.toList []
  | [h, n] =>
    match hexPairs h.toList [], n.toNat? with
    | some [b], some n => some (List.replicate n b)
    | _, _ => none
  | _ => none

def parseBytes (s : String) : Option Bytes :=
  if s = "-" then some [] else
  ((s.splitOn "+").mapM parsePiece).map List.flatten

def adler32 (b : Bytes) : Nat :=
  let r := b.foldl (fun (acc : Nat × Nat) x =>
    let a := (acc.1 + x) % 65521
    (a, (acc.2 + a) % 65521)) (1, 0)
  r.2 * 65536 + r.1

def hexTR (b : Bytes) : String :=
  String.ofList (b.foldr (fun x acc => hexDigit (x / 16 % 16) :: hexDigit (x % 16) :: acc) [])

def render (b : Bytes) : String :=
  if b.isEmpty then "-"
  else if b.length ≤ 40 then hexTR b
  else s!"#{b.length}:{adler32 b}"

def renderOpts (os : List Opt) : String :=
  if os.isEmpty then "-" else ",".intercalate (os.map fun o => s!"{o.num}:{render o.val}")

def renderMsg (m : Msg) : String :=
  s!"{m.code}/{render m.token}/{renderOpts m.opts}/{render m.payload}"

def renderOut : Out → String
  | .request m => "Q" ++ renderMsg m
  | .response m => "R" ++ renderMsg m
  | .write b => "W" ++ render b
  | .close => "C"
  | .failPending .released => "E:released"
  | .failPending .aborted => "E:aborted"
  | .failPending .lost => "E:lost"
  | .sendError => "X"

def renderConn (c : Conn) : String :=
  let csm := match c.csm with
    | none => "-"
    | some s =>
      (match s.maxMessageSize with | none => "n" | some v => toString v) ++ "/" ++
      (if s.blockwise then "1" else "0")
  s!"spool={render c.spool} csm={csm} closed={if c.closed then 1 else 0}"

def parseOpt (s : String) : Option Opt :=
  match s.splitOn ":" with
  | [n, v] =>
    match n.toNat?, parseBytes v with
    | some n, some v => some ⟨n, v⟩
    | _, _ => none
  | _ => none

/-- option deltas of the list as `Options.encode` computes them -/
def deltas (cur : Nat) : List Opt → List Nat
  | [] => []
  | o :: os => (o.num - cur) :: deltas o.num os

end C15Driver

open C15Driver in
def handleC15 (args : List String) : String :=
  match args with
  | ["X", b] =>
    match parseBytes b with
    | some b =>
      match extractSize b with
      | none => "none"
      | some (to, tkl, len) => s!"{to} {tkl} {len}"
    | none => "bad-op"
  | ["L", n] =>
    match n.toNat? with
    | some n =>
      match encodeLength n with
      | some (nib, ext) => s!"{nib} {render ext}"
      | none => "err"
    | none => "bad-op"
  | ["D", b] =>
    match parseBytes b with
    | some b =>
      -- `_decode_message` is only claimed for what `data_received` passes: a complete frame
      if frameSize b ≠ some b.length then "out-of-model" else
      match decodeMessage b with
      | some m => renderMsg m
      | none => "unparsable"
    | none => "bad-op"
  | "S" :: code :: token :: payload :: opts =>
    match code.toNat?, parseBytes token, parseBytes payload, opts.mapM parseOpt with
    | some code, some token, some payload, some opts =>
      -- 65804 is the value on which `_write_extended_field_value` is off by one (a C01 matter)
      if (deltas 0 opts).contains 65804 ∨ (opts.map fun o => o.val.length).contains 65804 then
        "out-of-model"
      else if code ≥ 256 then "out-of-model"
      else
        match serialize { code, token, opts, payload } with
        | some b => render b
        | none => "err"
    | _, _, _, _ => "bad-op"
  | "P" :: code :: token :: payload :: opts =>
    match code.toNat?, parseBytes token, parseBytes payload, opts.mapM parseOpt with
    | some code, some token, some payload, some opts =>
      if (deltas 0 opts).contains 65804 ∨ (opts.map fun o => o.val.length).contains 65804 then
        "out-of-model"
      else if code ≥ 256 then "out-of-model"
      else
        let r := poolSend { code, token, opts, payload }
        if r.isEmpty then "-" else " ".intercalate (r.map renderOut)
    | _, _, _, _ => "bad-op"
  | "F" :: maxSize :: chunks =>
    match maxSize.toNat?, chunks.mapM parseBytes with
    | some maxSize, some chunks =>
      let r := session maxSize chunks
      " ".intercalate (r.2.map renderOut) ++ " |" ++ renderConn r.1
    | _, _ => "bad-op"
  | _ => "bad-op"

end Aiocoap
