import AiocoapModel.Basic.Bytes
/-! Line protocol for C15 (not built yet). -/
namespace Aiocoap
def handleC15 (_args : List String) : String := "out-of-model"
end Aiocoap
