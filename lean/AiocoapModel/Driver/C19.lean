import AiocoapModel.Basic.Bytes
import AiocoapModel.Apps.FileServer
/-! Line protocol for the file-server model.

Strings are hex of their UTF-8 bytes (`-` = empty).  A component list is `~` (empty list) or
comma-separated strings; a path is `<anchor 0|1|2>:<parts, comma-separated, may be empty>`.

`C19 J <a> <b>`            → `<path of PurePosixPath(a, b)> <str(path)>`
`C19 P <root> <comps>`     → `ok <path>` | `err`
`C19 R <write><etags> <root> <G|P|D|X> <comps> <inm><im><imEmpty> <block2: -|num:szx>
       <stat a|s|h|d|f|x> <etagMatches><ifMatchHit><obsPending><parentIsDir> <tmpName>
       <children: ~ | name:0|1,…> <content>`
     → `<code|crash> <block2 -|num:m:szx> <payload> nba=<0|1> |<op>*`
       ops: `S<path>` stat, `O<path>` open-read, `L<path>` listdir, `T<dir>` mkstemp,
       `R<src>><dst>` rename, `U<path>` unlink, `M<path>` mkdir, `D<path>` rmdir
-/
namespace Aiocoap
open Aiocoap.FileServer

namespace FileServer

def parseStrList (s : String) : Option (List Str) :=
  if s = "~" then some [] else (s.splitOn ",").mapM hexToBytes

def parsePPath (s : String) : Option PPath :=
  match s.splitOn ":" with
  | [r, parts] => do
    let r ← r.toNat?
    if r > 2 then none else
    let ps ← (if parts = "" then some [] else (parts.splitOn ",").mapM hexToBytes)
    pure { root := r, parts := ps }
  | _ => none

def showPPath (p : PPath) : String :=
  s!"{p.root}:" ++ ",".intercalate (p.parts.map bytesToHex)

def parseBit (c : Char) : Option Bool :=
  if c = '1' then some true else if c = '0' then some false else none

def parseBits (s : String) (n : Nat) : Option (List Bool) :=
  if s.length = n then s.toList.mapM parseBit else none

def parseMethod (s : String) : Option Method :=
  match s with
  | "G" => some .get | "P" => some .put | "D" => some .delete | "X" => some .other
  | _ => none

def parseStat (s : String) : Option StatRes :=
  match s with
  | "a" => some .absent | "s" => some .softErr | "h" => some .hardErr
  | "d" => some .dir | "f" => some .file | "x" => some .special
  | _ => none

def parseBlock2 (s : String) : Option (Option (Nat × Nat)) :=
  if s = "-" then some none else
  match s.splitOn ":" with
  | [n, z] => do
    let n ← n.toNat?
    let z ← z.toNat?
    pure (some (n, z))
  | _ => none

def parseChild (s : String) : Option (Str × Bool) :=
  match s.splitOn ":" with
  | [n, d] => do
    let n ← hexToBytes n
    let d ← (if d = "1" then some true else if d = "0" then some false else none)
    pure (n, d)
  | _ => none

def parseChildren (s : String) : Option (List (Str × Bool)) :=
  if s = "~" then some [] else (s.splitOn ",").mapM parseChild

def showOutcome : Outcome → String
  | .crash => "crash"
  | .code c d => s!"{c}." ++ (if d < 10 then s!"0{d}" else s!"{d}")

def showBlock2 : Option (Nat × Bool × Nat) → String
  | none => "-"
  | some (n, m, z) => s!"{n}:{if m then 1 else 0}:{z}"

def showOp : FsOp → String
  | .stat p => "S" ++ showPPath p
  | .openRead p => "O" ++ showPPath p
  | .scandir p => "L" ++ showPPath p
  | .mkstemp p => "T" ++ showPPath p
  | .rename a b => "R" ++ showPPath a ++ ">" ++ showPPath b
  | .unlink p => "U" ++ showPPath p
  | .mkdir p => "M" ++ showPPath p
  | .rmdir p => "D" ++ showPPath p

def showResult (req : Request) (r : Result) : String :=
  " ".intercalate
    ([showOutcome r.resp.outcome, showBlock2 r.resp.block2, bytesToHex r.resp.payload,
      s!"nba={if needsBlockwiseAssembly req then 1 else 0}", "|"] ++ r.ops.map showOp)

end FileServer

def handleC19 (args : List String) : String :=
  match args with
  | ["J", a, b] =>
    match hexToBytes a, hexToBytes b with
    | some a, some b =>
      let p := parsePath (posixJoin a b)
      showPPath p ++ " " ++ bytesToHex p.str
    | _, _ => "bad-op"
  | ["P", root, comps] =>
    match parsePPath root, parseStrList comps with
    | some root, some comps =>
      match requestToLocalPath root comps with
      | .ok p => "ok " ++ showPPath p
      | .error _ => "err"
    | _, _ => "bad-op"
  | ["R", cf, root, meth, comps, rf, b2, st, wf, tmp, children, content] =>
    match parseBits cf 2, parsePPath root, parseMethod meth, parseStrList comps, parseBits rf 3,
        parseBlock2 b2, parseStat st, parseBits wf 4, hexToBytes tmp, parseChildren children,
        hexToBytes content with
    | some [write, etags], some root, some meth, some comps, some [inm, im, ime], some b2,
        some st, some [em, hit, obs, pdir], some tmp, some children, some content =>
      let cfg : Config := { root, write, etags }
      let req : Request := { method := meth, path := comps, ifNoneMatch := inm, ifMatch := im,
                             ifMatchEmpty := ime, block2 := b2 }
      let w : World := { stat := st, etagMatches := em, ifMatchHit := hit, content,
                         children, obsPending := obs, parentIsDir := pdir, tmpName := tmp }
      showResult req (handle cfg req w)
    | _, _, _, _, _, _, _, _, _, _, _ => "bad-op"
  | _ => "bad-op"

end Aiocoap
