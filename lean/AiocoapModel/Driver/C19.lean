import AiocoapModel.Basic.Bytes
/-! Line protocol for C19 (not built yet). -/
namespace Aiocoap
def handleC19 (_args : List String) : String := "out-of-model"
end Aiocoap
