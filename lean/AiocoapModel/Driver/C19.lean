import AiocoapModel.Basic.Bytes
import AiocoapModel.Apps.FileServer
import AiocoapModel.Apps.FileServerHistory
/-! Line protocol for the file-server model.

Strings are hex of their UTF-8 bytes (`-` = empty).  A component list is `~` (empty list) or
comma-separated strings; a path is `<anchor 0|1|2>:<parts, comma-separated, may be empty>`.

`C19 J <a> <b>`            → `<path of PurePosixPath(a, b)> <str(path)>`
`C19 P <root> <comps>`     → `ok <path>` | `err`
`C19 R <write><etags> <root> <G|P|D|X> <comps> <inm><im><imEmpty> <block2: -|num:szx>
       <stat a|s|h|d|f|x> <etagMatches><ifMatchHit><obsPending><parentIsDir> <tmpName>
       <children: ~ | name:0|1,…> <content>`
     → `<code|crash> <block2 -|num:m:szx> <payload> nba=<0|1> |<op>*`
       ops: `S<path>` stat, `O<path>` open-read, `L<path>` listdir, `T<dir>` mkstemp,
       `R<src>><dst>` rename, `U<path>` unlink, `M<path>` mkdir, `D<path>` rmdir
`C19 A <token>*`           → `ok write=<0|1> etag=<n> root=<path>` | `usage` | `out-of-model`
       (the command line of aiocoap-fileserver after the program name, one hex string per token)
`C19 H <write><etags> <root> <event>*` → the outputs of the events, joined by ` ;; `; events (one token each):
       `R;<G|P|D|X>;<comps>;<inm><im><imEmpty>;<block2>;<stat>;<etagMatches><ifMatchHit><parentIsDir>;<tmpName>;<children>;<content>`
            → as for `C19 R` (obsPending comes from the model's table; content `=`: as in the previous R event)
       `O;<comps>`          → `obs` | `4.00`                  (add_observation)
       `K;<gone: ~ | path|path…>` → `tick |<op>*`              (one round of check_files_for_refreshes)
-/
namespace Aiocoap
open Aiocoap.FileServer

namespace FileServer

def parseStrList (s : String) : Option (List Str) :=
  if s = "~" then some [] else (s.splitOn ",").mapM hexToBytes

def parsePPath (s : String) : Option PPath :=
  match s.splitOn ":" with
  | [r, parts] => do
    let r ← r.toNat?
    if r > 2 then none else
    let ps ← (if parts = "" then some [] else (parts.splitOn ",").mapM hexToBytes)
    pure { root := r, parts := ps }
  | _ => none

def showPPath (p : PPath) : String :=
  s!"{p.root}:" ++ ",".intercalate (p.parts.map bytesToHex)

def parseBit (c : Char) : Option Bool :=
  if c = '1' then some true else if c = '0' then some false else none

def parseBits (s : String) (n : Nat) : Option (List Bool) :=
  if s.length = n then s.toList.mapM parseBit else none

def parseMethod (s : String) : Option Method :=
  match s with
  | "G" => some .get | "P" => some .put | "D" => some .delete | "X" => some .other
  | _ => none

def parseStat (s : String) : Option StatRes :=
  match s with
  | "a" => some .absent | "s" => some .softErr | "h" => some .hardErr
  | "d" => some .dir | "f" => some .file | "x" => some .special
  | _ => none

def parseBlock2 (s : String) : Option (Option (Nat × Nat)) :=
  if s = "-" then some none else
  match s.splitOn ":" with
  | [n, z] => do
    let n ← n.toNat?
    let z ← z.toNat?
    pure (some (n, z))
  | _ => none

def parseChild (s : String) : Option (Str × Bool) :=
  match s.splitOn ":" with
  | [n, d] => do
    let n ← hexToBytes n
    let d ← (if d = "1" then some true else if d = "0" then some false else none)
    pure (n, d)
  | _ => none

def parseChildren (s : String) : Option (List (Str × Bool)) :=
  if s = "~" then some [] else (s.splitOn ",").mapM parseChild

def showOutcome : Outcome → String
  | .crash => "crash"
  | .code c d => s!"{c}." ++ (if d < 10 then s!"0{d}" else s!"{d}")

def showBlock2 : Option (Nat × Bool × Nat) → String
  | none => "-"
  | some (n, m, z) => s!"{n}:{if m then 1 else 0}:{z}"

def showOp : FsOp → String
  | .stat p => "S" ++ showPPath p
  | .openRead p => "O" ++ showPPath p
  | .scandir p => "L" ++ showPPath p
  | .mkstemp p => "T" ++ showPPath p
  | .rename a b => "R" ++ showPPath a ++ ">" ++ showPPath b
  | .unlink p => "U" ++ showPPath p
  | .mkdir p => "M" ++ showPPath p
  | .rmdir p => "D" ++ showPPath p

def showResult (req : Request) (r : Result) : String :=
  " ".intercalate
    ([showOutcome r.resp.outcome, showBlock2 r.resp.block2, bytesToHex r.resp.payload,
      s!"nba={if needsBlockwiseAssembly req then 1 else 0}", "|"] ++ r.ops.map showOp)

def parsePathSet (s : String) : Option (List PPath) :=
  if s = "~" then some [] else (s.splitOn "|").mapM parsePPath

/-- one event token; `last` is the content of the previous request event, which a content field
`=` stands for (the file did not change between two block requests: the line stays short) -/
def parseEvent (s : String) (last : Bytes) : Option (Event × Bytes) :=
  match s.splitOn ";" with
  | ["R", meth, comps, rf, b2, st, wf, tmp, children, content] =>
    match parseMethod meth, parseStrList comps, parseBits rf 3, parseBlock2 b2, parseStat st,
        parseBits wf 3, hexToBytes tmp, parseChildren children,
        (if content = "=" then some last else hexToBytes content) with
    | some meth, some comps, some [inm, im, ime], some b2, some st, some [em, hit, pdir], some tmp,
        some children, some content =>
      some (.request { method := meth, path := comps, ifNoneMatch := inm, ifMatch := im,
                       ifMatchEmpty := ime, block2 := b2 }
                     { stat := st, etagMatches := em, ifMatchHit := hit, content, children,
                       obsPending := false, parentIsDir := pdir, tmpName := tmp }, content)
    | _, _, _, _, _, _, _, _, _ => none
  | ["O", comps] => (parseStrList comps).map fun c => (.observe c, last)
  | ["K", gone] => (parsePathSet gone).map fun g => (.tick g, last)
  | _ => none

def parseEvents : List String → Bytes → Option (List Event)
  | [], _ => some []
  | s :: rest, last =>
    match parseEvent s last with
    | some (ev, last') => (parseEvents rest last').map (ev :: ·)
    | none => none

def requestOf : Event → Option Request
  | .request req _ => some req
  | _ => none

def showStep (ev : Event) (out : StepOut) : String :=
  match ev, out.resp with
  | .request req _, some resp => showResult req { resp := resp, ops := out.ops }
  | .request _ _, none => "?"
  | .observe _, _ => if out.refused then "4.00" else "obs"
  | .tick _, _ => " ".intercalate (["tick", "|"] ++ out.ops.map showOp)

def showCli : CliResult → String
  | .ok o =>
    s!"ok write={if o.config.write then 1 else 0} etag={o.etagLength} root={showPPath o.config.root}"
  | .usage => "usage"
  | .outOfModel => "out-of-model"

end FileServer

def handleC19 (args : List String) : String :=
  match args with
  | ["J", a, b] =>
    match hexToBytes a, hexToBytes b with
    | some a, some b =>
      let p := parsePath (posixJoin a b)
      showPPath p ++ " " ++ bytesToHex p.str
    | _, _ => "bad-op"
  | ["P", root, comps] =>
    match parsePPath root, parseStrList comps with
    | some root, some comps =>
      match requestToLocalPath root comps with
      | .ok p => "ok " ++ showPPath p
      | .error _ => "err"
    | _, _ => "bad-op"
  | ["R", cf, root, meth, comps, rf, b2, st, wf, tmp, children, content] =>
    match parseBits cf 2, parsePPath root, parseMethod meth, parseStrList comps, parseBits rf 3,
        parseBlock2 b2, parseStat st, parseBits wf 4, hexToBytes tmp, parseChildren children,
        hexToBytes content with
    | some [write, etags], some root, some meth, some comps, some [inm, im, ime], some b2,
        some st, some [em, hit, obs, pdir], some tmp, some children, some content =>
      let cfg : Config := { root, write, etags }
      let req : Request := { method := meth, path := comps, ifNoneMatch := inm, ifMatch := im,
                             ifMatchEmpty := ime, block2 := b2 }
      let w : World := { stat := st, etagMatches := em, ifMatchHit := hit, content,
                         children, obsPending := obs, parentIsDir := pdir, tmpName := tmp }
      showResult req (handle cfg req w)
    | _, _, _, _, _, _, _, _, _, _, _ => "bad-op"
  | "A" :: toks =>
    match toks.mapM hexToBytes with
    | some toks => showCli (parseArgv {} toks)
    | none => "bad-op"
  | "H" :: cf :: root :: evs =>
    match parseBits cf 2, parsePPath root, parseEvents evs [] with
    | some [write, etags], some root, some evs =>
      let outs := ((Server.fresh { root, write, etags }).run evs).2
      " ;; ".intercalate ((evs.zip outs).map fun (ev, out) => showStep ev out)
    | _, _, _ => "bad-op"
  | _ => "bad-op"

end Aiocoap
