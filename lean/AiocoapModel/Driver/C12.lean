import AiocoapModel.Basic.Bytes
import AiocoapModel.Oscore.ReplayWindow
import AiocoapModel.Oscore.Responses
import AiocoapModel.Oscore.Wire
/-! Line protocol for the replay-window model.

`C12 W <size> <index> <bitfield> <op>*`   start state = `initialize_from_persisted` of (index, bitfield), which may
   have been persisted by a window of another size; ops `v<n>` (is_valid) / `s<n>` (strike_out)
   → one result per op (`1`/`0` for v, `ok`/`err` for s) then `|<index>:<bitfield>`
`C12 U <size> <win> <echo> <arrival>*`    win `u` | `i:<index>:<bitfield>`; echo `-` | n;
   arrival `<seq>:<0|1>:<echo|->[:<code>]` → outcome letters then `|<win>`
`C12 M <size> <win> <echo> <msg>*`        mixed traffic: msg `q:<seq>:<0|1>:<echo|->[:<code>]` (a request of the
   peer) | `p:<seq|->:<0|1>[:<code>]` (a response of the peer) → outcome letters then `|<win>`
`<code>` is the OUTER code the message arrives under (0..255; default POST for q, 2.05 for p): the peer made
the message as a request / a response, whoever delivers it chooses the code.  Both kinds of line are run
through `runWire` (Oscore/Wire.lean), which classifies by that code as `unprotect` does; letter `V` is the
`ValueError` of `CodeStyle.from_request`.
-/
namespace Aiocoap.Oscore

def showWin : Option RW → String
  | none => "u"
  | some w => s!"i:{w.index}:{w.bitfield}"

def parseOptNat (s : String) : Option (Option Nat) :=
  if s = "-" then some none else s.toNat?.map some

def parseWin (size : Nat) (s : String) : Option (Option RW) :=
  match s.splitOn ":" with
  | ["u"] => some none
  | ["i", i, b] => do
    let i ← i.toNat?
    let b ← b.toNat?
    pure (some (RW.fromPersisted size i b))
  | _ => none

def parseArrival (s : String) : Option Arrival :=
  match s.splitOn ":" with
  | [q, a, e] => do
    let q ← q.toNat?
    let a ← (if a = "1" then some true else if a = "0" then some false else none)
    let e ← parseOptNat e
    pure { seq := q, authentic := a, echo := e }
  | _ => none

def parseCode (s : String) : Option Nat :=
  match s.toNat? with
  | some c => if c < 256 then some c else none
  | none => none

/-- `<seq>:<0|1>:<echo|->[:<code>]`: a request of the peer under an outer code (default POST) -/
def parseWireReq (s : String) : Option WireMsg :=
  match s.splitOn ":" with
  | [q, a, e] => (parseArrival s!"{q}:{a}:{e}").map fun x => WireMsg.ofArrival x codePOST
  | [q, a, e, c] => do
    let x ← parseArrival s!"{q}:{a}:{e}"
    let c ← parseCode c
    pure (WireMsg.ofArrival x c)
  | _ => none

def parseResp (q a : String) : Option RespArrival := do
  let q ← parseOptNat q
  let a ← (if a = "1" then some true else if a = "0" then some false else none)
  pure { seq := q, authentic := a }

/-- `q:<request>` | `p:<seq|->:<0|1>[:<code>]` (default outer code 2.05 Content) -/
def parseWireMsg (s : String) : Option WireMsg :=
  match s.splitOn ":" with
  | "q" :: rest => parseWireReq (":".intercalate rest)
  | ["p", q, a] => (parseResp q a).map fun r => WireMsg.ofResp r 69
  | ["p", q, a, c] => do
    let r ← parseResp q a
    let c ← parseCode c
    pure (WireMsg.ofResp r c)
  | _ => none

def outcomeLetter : Outcome → String
  | .accepted => "A" | .replayError => "R" | .replayEcho => "E" | .protectionInvalid => "P"

def wireLetter : WOut → String
  | .plain o => outcomeLetter o
  | .codeRefused => "P"

def windowOps (w : RW) : List String → Option (RW × List String)
  | [] => some (w, [])
  | op :: ops =>
    match op.toList with
    | 'v' :: rest => do
      let n ← (String.ofList rest).toNat?
      let (w', out) ← windowOps w ops
      pure (w', (if w.isValid n then "1" else "0") :: out)
    | 's' :: rest => do
      let n ← (String.ofList rest).toNat?
      match w.strikeOut n with
      | some w1 => do
        let (w', out) ← windowOps w1 ops
        pure (w', "ok" :: out)
      | none => do
        let (w', out) ← windowOps w ops
        pure (w', "err" :: out)
    | _ => none

def handleC12 (args : List String) : String :=
  match args with
  | "W" :: size :: index :: bitfield :: ops =>
    match size.toNat?, index.toNat?, bitfield.toNat? with
    | some size, some index, some bitfield =>
      -- size 0 trips an assertion in the implementation; the start state goes through
      -- `initialize_from_persisted` (any bitfield, also one wider than the window)
      if size = 0 then "out-of-model" else
      match windowOps (RW.fromPersisted size index bitfield) ops with
      | some (w, out) => " ".intercalate out ++ s!" |{w.index}:{w.bitfield}"
      | none => "bad-op"
    | _, _, _ => "bad-op"
  | "U" :: size :: win :: echo :: arrivals =>
    match size.toNat?, parseOptNat echo with
    | some size, some echo =>
      if size = 0 then "out-of-model" else
      match parseWin size win, arrivals.mapM parseWireReq with
      | some win, some as =>
        let (c, outs) := runWire { size, win, echoRecovery := echo } as
        String.join (outs.map wireLetter) ++ " |" ++ showWin c.win
      | _, _ => "bad-op"
    | _, _ => "bad-op"
  | "M" :: size :: win :: echo :: msgs =>
    match size.toNat?, parseOptNat echo with
    | some size, some echo =>
      if size = 0 then "out-of-model" else
      match parseWin size win, msgs.mapM parseWireMsg with
      | some win, some ms =>
        let (c, outs) := runWire { size, win, echoRecovery := echo } ms
        String.join (outs.map wireLetter) ++ " |" ++ showWin c.win
      | _, _ => "bad-op"
    | _, _ => "bad-op"
  | _ => "bad-op"

end Aiocoap.Oscore
