import AiocoapModel.Basic.Bytes
/-! Line protocol for C13 (not built yet). -/
namespace Aiocoap
def handleC13 (_args : List String) : String := "out-of-model"
end Aiocoap
