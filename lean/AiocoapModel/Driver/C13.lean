import AiocoapModel.Basic.Bytes
import AiocoapModel.Oscore.Persist
import AiocoapModel.Oscore.PersistAead
/-! Line protocol for the persistence model (C13).

`C13 <start> <limit> <size> <disk> <event>*`
  disk    initial `sequence.json`: `-` (absent) | `<next>:u` | `<next>:n` | `<next>:<index>:<bitfield>`
  event   `L<echo>` load · `P` protect · `R<seq>:<0|1>:<echo|->` request arrives ·
          `S` clean shutdown · `K` kill · `M` print the memory ·
          `A<n>` protect a response / notification / Echo challenge with the newest request identifiers of
          the request with partial IV `n` (an own request if there are none);
          `P`, `R…`, `S`, `A…` take a suffix `!<j>`: the process dies inside the operation after `j`
          file-system effects of its `_store`
→ one token per event: `i<n>` issued · `x` exhausted · `a` assertion · `As`/`Ae` accepted (by
  strike / by Echo recovery) · `R` `E` `P` refused · `l` loaded · `k` locked · `s` shut down ·
  `z` killed · `d` died · `-` no process · `r<n>` protected with the re-used nonce of request `n`;
  followed by `~o<n>` / `~p<n>` for every nonce handed to the AEAD under the sender key in this event
  (built from the own number `n` / from the partial IV `n` of the request answered), then by `@<dir>`
  when the directory changed;
  `M` → `m:<ssn>:<persisted>:<chunk>:<0|1>:<window>` or `m:-`.
  dir = `<sequence.json>;<temp>,<temp>…` (newest first, `e` = empty temp file)
-/
namespace Aiocoap
open Aiocoap.Oscore Aiocoap.Oscore.Persist

namespace C13

def showReceived : Received → String
  | .unknown => "u"
  | .window none => "n"
  | .window (some (i, b)) => s!"{i}:{b}"

def showSeqFile (f : SeqFile) : String := s!"{f.nextToSend}:{showReceived f.received}"

def showDir (d : Dir) : String :=
  (match d.seq with | none => "-" | some f => showSeqFile f) ++ ";" ++
  ",".intercalate (d.temps.map fun t => match t with | none => "e" | some f => showSeqFile f)

def showMem : Option Mem → String
  | none => "m:-"
  | some m =>
    s!"m:{m.ssn}:{m.persisted}:{m.chunk}:{if m.windowPersisted then 1 else 0}:" ++
      (match m.window with | none => "u" | some w => s!"{w.index}:{w.bitfield}")

def showOut : Out → String
  | .issued n => s!"i{n}"
  | .exhausted => "x"
  | .assertion => "a"
  | .accepted _ true => "Ae"
  | .accepted _ false => "As"
  | .refused .accepted => "?"          -- not produced by the model
  | .refused .replayError => "R"
  | .refused .replayEcho => "E"
  | .refused .protectionInvalid => "P"
  | .loaded => "l"
  | .locked => "k"
  | .shutdown => "s"
  | .killed => "z"
  | .died => "d"
  | .dead => "-"

def parseDisk (s : String) : Option (Option SeqFile) :=
  match s.splitOn ":" with
  | ["-"] => some none
  | [n, "u"] => n.toNat?.map fun n => some { nextToSend := n, received := .unknown }
  | [n, "n"] => n.toNat?.map fun n => some { nextToSend := n, received := .window none }
  | [n, i, b] => do
    let n ← n.toNat?
    let i ← i.toNat?
    let b ← b.toNat?
    pure (some { nextToSend := n, received := .window (some (i, b)) })
  | _ => none

/-- `X` or `X!j` → (X, crash) -/
def splitCrash (s : String) : Option (String × Option Nat) :=
  match s.splitOn "!" with
  | [x] => some (x, none)
  | [x, j] => j.toNat?.map fun j => (x, some j)
  | _ => none

def parseArrival (s : String) : Option Arrival :=
  match s.splitOn ":" with
  | [q, a, e] => do
    let q ← q.toNat?
    let a ← (if a = "1" then some true else if a = "0" then some false else none)
    let e ← (if e = "-" then some none else e.toNat?.map some)
    pure { seq := q, authentic := a, echo := e }
  | _ => none

/-- `none`: the memory query `M`; `some ev` an event of the model -/
def parseEv (tok : String) : Option (Option GEv) := do
  let (x, crash) ← splitCrash tok
  match x.toList with
  | ['M'] => if crash.isNone then some none else none
  | ['K'] => if crash.isNone then some (some (.base .kill)) else none
  | ['P'] => some (some (.base (.protect crash)))
  | ['S'] => some (some (.base (.cleanShutdown crash)))
  | 'L' :: rest =>
    if crash.isSome then none else (String.ofList rest).toNat?.map fun e => some (.base (.load e))
  | 'R' :: rest => (parseArrival (String.ofList rest)).map fun a => some (.base (.recv a crash))
  | 'A' :: rest => (String.ofList rest).toNat?.map fun n => some (.respond n crash)
  | _ => none

def showGOut : GOut → String
  | .base o => showOut o
  | .reused n => s!"r{n}"

def showNonce : Nonce → String
  | .own n => s!"~o{n}"
  | .peer n => s!"~p{n}"

def runTokens (cfg : Cfg) (g : G) : List String → Option (List String)
  | [] => some []
  | tok :: toks => do
    match ← parseEv tok with
    | none =>
      let rest ← runTokens cfg g toks
      pure (showMem g.s.mem :: rest)
    | some ev =>
      let r := gstep cfg g ev
      let rest ← runTokens cfg r.1 toks
      let o := showGOut r.2.1 ++ String.join (r.2.2.map showNonce)
      pure ((if r.1.s.dir = g.s.dir then o else o ++ "@" ++ showDir r.1.s.dir) :: rest)

end C13

def handleC13 (args : List String) : String :=
  match args with
  | start :: limit :: size :: disk :: evs =>
    match start.toNat?, limit.toNat?, size.toNat?, C13.parseDisk disk with
    | some start, some limit, some size, some seq =>
      -- a window of size 0 trips an assertion in strike_out (as for C12)
      if size = 0 then "out-of-model" else
      match C13.runTokens { start, limit, size } (G.init { seq, temps := [] }) evs with
      | some out => " ".intercalate out
      | none => "bad-op"
    | _, _, _, _ => "bad-op"
  | _ => "bad-op"

end Aiocoap
