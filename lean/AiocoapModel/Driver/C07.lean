import AiocoapModel.Basic.Bytes
import AiocoapModel.Observe.Client
/-!
Line protocol for C07.

`C07 F <reset> <v1> <t1> <v2> <t2>`                      → `1`/`0` (`fresher`)
`C07 R <reset> <observe 0|1> <event>*`                    the runner of `Request._run`
   events: `M@t:code:obs|-:body:last`  message      `X@t:k`  exception
           `OC@t`  observation.cancel()             `RC@t`  response.cancel()
   → one group per event, separated by blanks: `<deliveries,comma|.>/<E|->` where `E` says the
     runner has ended (the pipe has no interest left).  Deliveries:
     `resp:code:obs:body` `rexc:k` `cb:code:obs:body` `eb:<NotObservable|ObservationCancelled|Tk>` `stop`
-/
namespace Aiocoap
open Aiocoap.Observe

namespace Observe

def optStr : Option Nat → String
  | none => "-" | some n => toString n

def msgStr (m : Msg) : String := s!"{m.code}:{optStr m.obs}:{m.body}"

def errStr : ErrKind → String
  | .notObservable => "NotObservable"
  | .observationCancelled => "ObservationCancelled"
  | .transport k => s!"T{k}"

def deliveryStr : Delivery → String
  | .response m => "resp:" ++ msgStr m
  | .responseExc k => s!"rexc:{k}"
  | .callback m => "cb:" ++ msgStr m
  | .errback k => "eb:" ++ errStr k
  | .stopInterest => "stop"

def parseBool (s : String) : Option Bool :=
  if s = "1" then some true else if s = "0" then some false else none

def parseOptNat (s : String) : Option (Option Nat) :=
  if s = "-" then some none else s.toNat?.map some

def parseEvent (s : String) : Option TEvent :=
  match s.splitOn "@" with
  | [kind, rest] =>
    match kind, rest.splitOn ":" with
    | "M", [t, code, obs, body, last] => do
      let m : Msg := { code := ← code.toNat?, obs := ← parseOptNat obs, body := ← body.toNat? }
      pure { time := ← t.toNat?, ev := .message m (← parseBool last) }
    | "X", [t, k] => do pure { time := ← t.toNat?, ev := .exception (← k.toNat?) }
    | "OC", [t] => do pure { time := ← t.toNat?, ev := .obsCancel }
    | "RC", [t] => do pure { time := ← t.toNat?, ev := .respCancel }
    | _, _ => none
  | _ => none

def groupStr (ds : List Delivery) (s : ObsState) : String :=
  (if ds.isEmpty then "." else ",".intercalate (ds.map deliveryStr)) ++ "/" ++
  (if s = .ended then "E" else "-")

/-- groups of a history, `none` as soon as the model is left -/
def runGroups (cfg : Cfg) (s : ObsState) : List TEvent → Option (List String)
  | [] => some []
  | e :: es =>
    let r := step cfg s e
    if r.1 = .unmodelled then none else
    (runGroups cfg r.1 es).map (groupStr r.2 r.1 :: ·)

end Observe

def handleC07 (args : List String) : String :=
  match args with
  | ["F", reset, v1, t1, v2, t2] =>
    match reset.toNat?, v1.toNat?, t1.toNat?, v2.toNat?, t2.toNat? with
    | some reset, some v1, some t1, some v2, some t2 =>
      if fresher reset v1 t1 v2 t2 then "1" else "0"
    | _, _, _, _, _ => "bad-op"
  | "R" :: reset :: observe :: evs =>
    match reset.toNat?, parseBool observe, evs.mapM parseEvent with
    | some reset, some observe, some evs =>
      match runGroups { reset, observe } .awaitingFirst evs with
      | some gs => if gs.isEmpty then "-" else " ".intercalate gs
      | none => "out-of-model"
    | _, _, _ => "bad-op"
  | _ => "bad-op"

end Aiocoap
