import AiocoapModel.Basic.Bytes
/-! Line protocol for C07 (not built yet). -/
namespace Aiocoap
def handleC07 (_args : List String) : String := "out-of-model"
end Aiocoap
