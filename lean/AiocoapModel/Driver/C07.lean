import AiocoapModel.Basic.Bytes
import AiocoapModel.Observe.Client
import AiocoapModel.Observe.Joint
import AiocoapModel.Observe.Iterator
import AiocoapModel.Observe.Upper
import AiocoapModel.Driver.MsgLayer
/-!
Line protocol for C07.

`C07 F <reset> <v1> <t1> <v2> <t2>`                      → `1`/`0` (`fresher`)
`C07 R <reset> <observe 0|1> <event>*`                    the runner of `Request._run`
   events: `M@t:code:obs|-:body:last[:cancels]`  message (`cancels` = 1: the application calls
           `observation.cancel()` from inside the callback that hands it this message)
           `X@t:k`  exception
           `OC@t`  observation.cancel()             `RC@t`  response.cancel()
   → one group per event, separated by blanks: `<deliveries,comma|.>/<E|->` where `E` says the
     runner has ended (the pipe has no interest left).  Deliveries:
     `resp:code:obs:body` `rexc:k` `cb:code:obs:body` `eb:<NotObservable|ObservationCancelled|Tk>` `stop`
`C07 J <reset> <observe 0|1> <message-layer line>`          message layer + runner of request 0
   the message-layer line is that of `Driver/MsgLayer.lean`; additional events `OC@t`
   (`requests[0].observation.cancel()`); `C@t:0` is `requests[0].response.cancel()`.
   → the groups of the message-layer protocol; the deliveries of request 0 are added to their
     group as `D<nn>:<delivery>` (`nn` = position among the deliveries of the group)
`C07 I <op>*`                                              `ClientObservation._Iterator`
   ops: `P<n>` push item n    `EN` | `EC` | `ET<k>` push_err(NotObservable | ObservationCancelled |
        exception k)          `N` the consumer calls `__anext__`    `W` the loop resumes the consumer
        `X` the consumer task is cancelled
   → one group per op: `<outputs,comma|.>/<slot><deferred><consumer>` with outputs `i<n>` `stop`
     `raise:<k>` `cancelled`; slot `p` | `r<n>` | `e<N|C|Tk>` | `c`; deferred `-` | `N` | `C` | `Tk`;
     consumer `i` idle, `s` suspended on the future in the slot, `o` suspended on an older future.
     `N` while the consumer is suspended → `out-of-model`.
`C07 A <delivery>* | <op>*`                                `__aiter__` on an observation that has
   been through the deliveries (`cb:<n>` / `eb:<N|C|Tk>`) already, then ops as for `I`
   → the groups of the ops after the `|` (the replay is visible in the first group's state)
`C07 U [^c|^g] <event>* [?L]`                                         the loop of `BlockwiseRequest._run_observation`
   events: `I<n>:<ok|skip|net>[:c]` the lower iteration yields notification n, and its body is fetched /
           the fetch fails with an error that is no network error / with a network error (`:c`: the
           application cancels from inside the callback); `F<code>:<ok|skip|net>[:c]` the same for the final
           response; `stop` / `raise` the lower iteration ends
   → one group per event: `.` | `cb:<n>` | `cb:x<code>` | `eb:ObservationCancelled` | `eb:T`
-/
namespace Aiocoap
open Aiocoap.Observe

namespace Observe

def optStr : Option Nat → String
  | none => "-" | some n => toString n

def msgStr (m : Msg) : String := s!"{m.code}:{optStr m.obs}:{m.body}"

def errStr : ErrKind → String
  | .notObservable => "NotObservable"
  | .observationCancelled => "ObservationCancelled"
  | .transport k => s!"T{k}"

def deliveryStr : Delivery → String
  | .response m => "resp:" ++ msgStr m
  | .responseExc k => s!"rexc:{k}"
  | .callback m => "cb:" ++ msgStr m
  | .errback k => "eb:" ++ errStr k
  | .stopInterest => "stop"

def parseBool (s : String) : Option Bool :=
  if s = "1" then some true else if s = "0" then some false else none

def parseOptNat (s : String) : Option (Option Nat) :=
  if s = "-" then some none else s.toNat?.map some

def parseEvent (s : String) : Option TEvent :=
  match s.splitOn "@" with
  | [kind, rest] =>
    match kind, rest.splitOn ":" with
    | "M", [t, code, obs, body, last] => do
      let m : Msg := { code := ← code.toNat?, obs := ← parseOptNat obs, body := ← body.toNat? }
      pure { time := ← t.toNat?, ev := .message m (← parseBool last) }
    | "M", [t, code, obs, body, last, c] => do
      let m : Msg := { code := ← code.toNat?, obs := ← parseOptNat obs, body := ← body.toNat?,
                       cancels := ← parseBool c }
      pure { time := ← t.toNat?, ev := .message m (← parseBool last) }
    | "X", [t, k] => do pure { time := ← t.toNat?, ev := .exception (← k.toNat?) }
    | "OC", [t] => do pure { time := ← t.toNat?, ev := .obsCancel }
    | "RC", [t] => do pure { time := ← t.toNat?, ev := .respCancel }
    | _, _ => none
  | _ => none

def groupStr (ds : List Delivery) (s : ObsState) : String :=
  (if ds.isEmpty then "." else ",".intercalate (ds.map deliveryStr)) ++ "/" ++
  (if s = .ended then "E" else "-")

/-- groups of a history, `none` as soon as the model is left -/
def runGroups (cfg : Cfg) (s : ObsState) : List TEvent → Option (List String)
  | [] => some []
  | e :: es =>
    let r := step cfg s e
    if r.1 = .unmodelled then none else
    (runGroups cfg r.1 es).map (groupStr r.2 r.1 :: ·)

-- joint ---------------------------------------------------------------------------------------

inductive ScriptEv
  | ev (e : JEv)
  | advance

def parseJoint (s : String) : Option (Nat × ScriptEv) :=
  match s.splitOn "@" with
  | ["OC", t] => do pure (← t.toNat?, .ev (.app (← t.toNat?) .obsCancel))
  | ["C", rest] =>
    match rest.splitOn ":" with
    | [t, "0"] => do pure (← t.toNat?, .ev (.app (← t.toNat?) .respCancel))
    | _ => none                 -- cancelling other requests is not part of these scripts
  | _ =>
    match MsgLayer.parseEvent s with
    | some (t, some e) => some (t, .ev (.net { time := t, ev := e }))
    | some (t, none) => some (t, .advance)
    | none => none

/-- fire the timers due before `bound`, earliest first, through the joint step -/
def jointAdvance (cfg : Cfg) (fuel : Nat) (j : JState) (bound : Nat) :
    JState × List MsgLayer.Out × List Delivery :=
  match fuel with
  | 0 => (j, [], [])
  | fuel + 1 =>
    match MsgLayer.earliestBefore j.ms bound with
    | none => (j, [], [])
    | some (t, tm) =>
      let a := jointStep cfg 0 j (.net { time := t, ev := tm.toEv })
      let b := jointAdvance cfg fuel a.1 bound
      (b.1, a.2.1 ++ b.2.1, a.2.2 ++ b.2.2)

def pad2 (n : Nat) : String := (if n < 10 then "0" else "") ++ toString n

def jointGroupStr (os : List MsgLayer.Out) (ds : List Delivery) : String :=
  let dl := ds.zipIdx.map (fun (d, i) => "D" ++ pad2 i ++ ":" ++ deliveryStr d)
  ";".intercalate (os.map MsgLayer.outStr ++ dl)

/-- as `MsgLayer.runScript`; `unm` reports that the runner left the model -/
def jointScript (cfg : Cfg) (j : JState) (curO : List MsgLayer.Out) (curD : List Delivery) :
    List (Nat × ScriptEv) → List String × Bool × Bool × JState
  | [] => ([jointGroupStr curO curD], false, j.st = .unmodelled, j)
  | (t, ev) :: rest =>
    let (j1, o1, d1) := jointAdvance cfg 100000 j t
    let tie := MsgLayer.tiesAt j1.ms t > 0
    let (j2, o2, d2) := match ev with
      | .ev e => jointStep cfg 0 j1 e
      | .advance => ({ j1 with ms := { j1.ms with now := t } }, [], [])
    let (gs, tie', unm, j3) := jointScript cfg j2 o2 d2 rest
    (jointGroupStr (curO ++ o1) (curD ++ d1) :: gs, tie || tie', unm || j2.st = .unmodelled, j3)

def handleJoint (reset observe : String) (args : List String) : String :=
  match reset.toNat?, parseBool observe, args with
  | some reset, some observe, el :: ead :: mid :: tok :: draws :: evs =>
    match el.toNat?, ead.toNat?, mid.toNat?, tok.toNat?, MsgLayer.parseDraws draws, evs.mapM parseJoint with
    | some el, some ead, some mid, some tok, some draws, some evs =>
      let ms0 := MsgLayer.init { exchangeLifetime := el, emptyAckDelay := ead } mid tok
        (fun i => draws.getD i 0)
      let (gs, tie, unm, jf) := jointScript { reset, observe } { ms := ms0, st := .awaitingFirst } [] [] evs
      if unm then "out-of-model" else
      (if jf.ms.drawIdx > draws.length then "STARVED " else "") ++ (if tie then "TIE " else "") ++
        "|".intercalate gs
    | _, _, _, _, _, _ => "bad-op"
  | _, _, _ => "bad-op"

-- the async iterator ----------------------------------------------------------------------------

def parseErrKind (s : String) : Option ErrKind :=
  if s = "N" then some .notObservable
  else if s = "C" then some .observationCancelled
  else if s.startsWith "T" then (s.drop 1).toNat?.map .transport
  else none

def errShort : ErrKind → String
  | .notObservable => "N"
  | .observationCancelled => "C"
  | .transport k => s!"T{k}"

def parseIterOp (s : String) : Option (Iter.Op Nat) :=
  if s = "N" then some .next
  else if s = "W" then some .wake
  else if s = "X" then some .cancel
  else if s.startsWith "P" then (s.drop 1).toNat?.map .push
  else if s.startsWith "E" then (parseErrKind (s.drop 1).toString).map .pushErr
  else none

def iterOutStr : Iter.Out Nat → String
  | .item n => s!"i{n}"
  | .stop => "stop"
  | .raise k => s!"raise:{k}"
  | .cancelled => "cancelled"

def futStr : Iter.Fut Nat → String
  | .pending => "p"
  | .result n => s!"r{n}"
  | .exc e => "e" ++ errShort e
  | .cancelled => "c"

def iterStateStr (s : Iter.St Nat) : String :=
  futStr (s.get s.slot) ++ (match s.deferred with | none => "-" | some e => errShort e) ++
  (match s.cons with
   | .idle => "i"
   | .waiting f => if f = s.slot then "s" else "o")

def iterGroups (s : Iter.St Nat) : List (Iter.Op Nat) → Option (List String)
  | [] => some []
  | o :: os =>
    if o = .next ∧ s.cons ≠ .idle then none else
    let r := Iter.step s o
    let g := (if r.2.isEmpty then "." else ",".intercalate (r.2.map iterOutStr)) ++ "/" ++ iterStateStr r.1
    (iterGroups r.1 os).map (g :: ·)

def parseReplay (s : String) : Option (Iter.Op Nat) :=
  if s.startsWith "cb:" then (s.drop 3).toNat?.map .push
  else if s.startsWith "eb:" then (parseErrKind (s.drop 3).toString).map .pushErr
  else none

/-- `__aiter__` after the deliveries `ds` (given as the pushes they would have been): the replay of
`Iter.openOps`, over item numbers -/
def replayOps (ds : List (Iter.Op Nat)) : List (Iter.Op Nat) :=
  let lastPush := ds.foldl (fun acc o => match o with | .push n => some n | _ => acc) none
  let firstErr := ds.findSome? (fun o => match o with | .pushErr e => some e | _ => none)
  lastPush.toList.map .push ++ firstErr.toList.map .pushErr

def iterAnswer (s : Iter.St Nat) (ops : List (Iter.Op Nat)) : String :=
  match iterGroups s ops with
  | some gs => if gs.isEmpty then "-" else " ".intercalate gs
  | none => "out-of-model"

-- the loop of BlockwiseRequest._run_observation ------------------------------------------------------

def parseFetch (s : String) : Option Upper.Fetch :=
  if s = "ok" then some .ok else if s = "skip" then some .failed else if s = "net" then some (.network 0)
  else none

/-- items are identified by the label the harness gave them (`<n>` / `x<code>`) -/
def parseLowerEv (s : String) : Option (Upper.LowerEv String) :=
  if s = "stop" then some .stop
  else if s = "raise" then some (.raise 0)
  else if s = "cancel" then some .cancel
  else
    let label (id : String) : Option String :=
      if id.startsWith "I" then some (id.drop 1).toString
      else if id.startsWith "F" then some ("x" ++ (id.drop 1).toString)
      else none
    match s.splitOn ":" with
    | [id, f] => do pure (.item (← label id) (← parseFetch f) false)
    | [id, f, "c"] => do pure (.item (← label id) (← parseFetch f) true)
    | _ => none

def upperOutStr : Upper.Out String → String
  | .callback m => "cb:" ++ m
  | .errback .observationCancelled => "eb:ObservationCancelled"
  | .errback .notObservable => "eb:NotObservable"
  | .errback (.transport _) => "eb:T"

def upperGroups (s : Upper.St) : List (Upper.LowerEv String) → List String
  | [] => []
  | e :: es =>
    let r := Upper.step s e
    (if r.2.isEmpty then "." else ",".intercalate (r.2.map upperOutStr)) :: upperGroups r.1 es

/-- `C07 U [^c|^g] <event>* [?L]`: `^c` / `^g` = the application's observation was cancelled before the loop's
task took its first step / was dropped; `?L` asks for a last group `L+` / `L-`: has
`lower_observation.cancel()` been reached at the end -/
def handleUpper (toks : List String) : String :=
  let (b, toks) : Upper.Start × List String := match toks with
    | "^c" :: r => (.cancelledEarly, r)
    | "^g" :: r => (.collected, r)
    | r => (.alive, r)
  let askL := toks.getLast? == some "?L"
  let toks := if askL then toks.dropLast else toks
  match toks.mapM parseLowerEv with
  | none => "bad-op"
  | some evs =>
    let gs := upperGroups (Upper.start b) evs
    let l := if askL then [if Upper.lowerGivenUp (Upper.runFrom b evs).1 then "L+" else "L-"] else []
    if (gs ++ l).isEmpty then "-" else " ".intercalate (gs ++ l)

end Observe

def handleC07 (args : List String) : String :=
  match args with
  | ["F", reset, v1, t1, v2, t2] =>
    match reset.toNat?, v1.toNat?, t1.toNat?, v2.toNat?, t2.toNat? with
    | some reset, some v1, some t1, some v2, some t2 =>
      if fresher reset v1 t1 v2 t2 then "1" else "0"
    | _, _, _, _, _ => "bad-op"
  | "R" :: reset :: observe :: evs =>
    match reset.toNat?, parseBool observe, evs.mapM parseEvent with
    | some reset, some observe, some evs =>
      match runGroups { reset, observe } .awaitingFirst evs with
      | some gs => if gs.isEmpty then "-" else " ".intercalate gs
      | none => "out-of-model"
    | _, _, _ => "bad-op"
  | "J" :: reset :: observe :: rest => handleJoint reset observe rest
  | "U" :: toks => handleUpper toks
  | "I" :: ops =>
    match ops.mapM parseIterOp with
    | some ops => iterAnswer Iter.init ops
    | none => "bad-op"
  | "A" :: rest =>
    match (rest.takeWhile (· ≠ "|")).mapM parseReplay, ((rest.dropWhile (· ≠ "|")).drop 1).mapM parseIterOp with
    | some ds, some ops =>
      if rest.contains "|" then iterAnswer (Iter.final Iter.init (replayOps ds)) ops else "bad-op"
    | _, _ => "bad-op"
  | _ => "bad-op"

end Aiocoap
