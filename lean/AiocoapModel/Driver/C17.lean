import AiocoapModel.Basic.Bytes
import AiocoapModel.Apps.Wkc
/-! Line protocol for the site-routing / discovery model.

`C17 <wkc-id|-> <impl-info hex|-> <op>*` — one registration/request history on a root `Site()`.
Encodings: a string is lower-case hex of its UTF-8 bytes (`-` empty); a path is `.` (empty) or
components joined by `/`; an address (which nested site object) is `^` (root) or the sub-site
keys joined by `|`.  Ops (one token each):

* `S:<addr>:<path>`                      `add_resource(path, Site())`
* `F:<addr>:<path>:<id>`                 `add_resource(path, <PathCapable leaf id>)`
* `R:<addr>:<path>:<id>:<h|v>:<attrs>`   `add_resource(path, <resource id>)`; hidden / visible with
                                         attrs `.` or `k=v,k,…` (no `=`: valueless)
* `D:<addr>:<path>`                      `remove_resource(path)`        → `ok` | `KeyError`
* `G:<upa|->:<path>:<queries>`           a GET (queries `.` or hex joined by `,`)
      → `404` | `402` | `H:<id>:<seen>:<orig as URI segments>` | `L:<payload hex>` when the resource
        that ran is the WKCResource `wkc-id` (the application/link-format payload byte for byte)
-/
namespace Aiocoap

open Aiocoap.Apps

namespace C17

def parseStr (s : String) : Option Str := hexToBytes s

def parsePath (s : String) : Option Path :=
  if s = "." then some [] else (s.splitOn "/").mapM parseStr

def parseAddr (s : String) : Option (List Path) :=
  if s = "^" then some [] else (s.splitOn "|").mapM parsePath

def parseAttr (s : String) : Option (Str × Option Str) :=
  match s.splitOn "=" with
  | [k] => (parseStr k).map (fun k => (k, none))
  | [k, v] => do
    let k ← parseStr k
    let v ← parseStr v
    pure (k, some v)
  | _ => none

def parseList {α : Type} (f : String → Option α) (s : String) : Option (List α) :=
  if s = "." then some [] else (s.splitOn ",").mapM f

def showStr (b : Str) : String := bytesToHex b

def showPath (p : Path) : String :=
  if p.isEmpty then "." else "/".intercalate (p.map showStr)

/-- the segments of the path part of the URI `get_request_uri` builds from
`_original_request_path` (`"".join("/" + c) or "/"`, message.py:665) -/
def uriSegs (p : Path) : Path := if p = [] then [[]] else p

inductive Step where
  | state (s : Site)
  | out (s : Site) (o : String)
  | oom
  | bad

def asciiKey (k : Str) : Bool := k.all (· < 128)

def stepOp (wkc : Option Nat) (impl : Option Str) (root : Site) (op : String) : Step :=
  let upd (r : Option (Option Site)) : Step :=
    match r with
    | some (some s) => .state s
    | _ => .bad
  match op.splitOn ":" with
  | ["S", a, p] => upd do
    let a ← parseAddr a
    let p ← parsePath p
    pure (root.reg (.addSite a p (.node [] [])))
  | ["F", a, p, i] => upd do
    let a ← parseAddr a
    let p ← parsePath p
    let i ← i.toNat?
    pure (root.reg (.addSite a p (.leaf i)))
  | ["R", a, p, i, h, attrs] => upd do
    let a ← parseAddr a
    let p ← parsePath p
    let i ← i.toNat?
    let h ← (if h = "h" then some true else if h = "v" then some false else none)
    let attrs ← parseList parseAttr attrs
    pure (root.reg (.addRes a p ⟨i, h, attrs⟩))
  | ["D", a, p] =>
    match parseAddr a, parsePath p with
    | some a, some p =>
      -- an address that does not lead to a Site is a harness error, a missing key is a KeyError
      match root.modifyAt some a with
      | none => .bad
      | some _ =>
        match root.reg (.remove a p) with
        | some s => .out s "ok"
        | none => .out root "KeyError"
    | _, _ => .bad
  | ["G", u, p, qs] =>
    match (if u = "-" then some none else u.toNat?.map some), parsePath p,
        parseList parseStr qs with
    | some u, some p, some qs =>
      match root.serve u p with
      | .notFound => .out root "404"
      | .badOption => .out root "402"
      | .hit h =>
        if some h.id = wkc then
          if !(root.links.all (fun l => l.attrs.all (fun kv => asciiKey kv.1))) ||
              !(qs.all (fun q => match splitEq q with | some kv => asciiKey kv.1 | none => true))
          then .oom
          else .out root ("L:" ++ bytesToHex (wkcPayload root.links impl qs))
        else .out root s!"H:{h.id}:{showPath h.seen}:{showPath (uriSegs h.orig)}"
    | _, _, _ => .bad
  | _ => .bad

def runOps (wkc : Option Nat) (impl : Option Str) : Site → List String → List String →
    Option (Option (List String))
  | _, [], acc => some (some acc.reverse)
  | s, op :: ops, acc =>
    match stepOp wkc impl s op with
    | .state s' => runOps wkc impl s' ops acc
    | .out s' o => runOps wkc impl s' ops (o :: acc)
    | .oom => some none
    | .bad => none

end C17

def handleC17 (args : List String) : String :=
  match args with
  | wkc :: impl :: ops =>
    match (if wkc = "-" then some none else wkc.toNat?.map some),
        (if impl = "-" then some none else (C17.parseStr impl).map some) with
    | some wkc, some impl =>
      match C17.runOps wkc impl (.node [] []) ops [] with
      | some (some outs) => if outs.isEmpty then "-" else " ".intercalate outs
      | some none => "out-of-model"
      | none => "bad-op"
    | _, _ => "bad-op"
  | _ => "bad-op"

end Aiocoap
