import AiocoapModel.Basic.Bytes
/-! Line protocol for C17 (not built yet). -/
namespace Aiocoap
def handleC17 (_args : List String) : String := "out-of-model"
end Aiocoap
