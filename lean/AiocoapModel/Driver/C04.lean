import AiocoapModel.Basic.Bytes
/-! Line protocol for C04 (not built yet). -/
namespace Aiocoap
def handleC04 (_args : List String) : String := "out-of-model"
end Aiocoap
