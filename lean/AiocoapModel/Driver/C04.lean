import AiocoapModel.Driver.MsgLayer
/-! C04 is decided on the shared message-layer model. -/
namespace Aiocoap
def handleC04 (args : List String) : String := MsgLayer.handleMsgLayer args
end Aiocoap
