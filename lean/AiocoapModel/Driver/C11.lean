import AiocoapModel.Basic.Bytes
/-! Line protocol for C11 (not built yet). -/
namespace Aiocoap
def handleC11 (_args : List String) : String := "out-of-model"
end Aiocoap
