import AiocoapModel.Basic.Bytes
import AiocoapModel.Oscore.Protect
import AiocoapModel.Oscore.Session
import AiocoapModel.Oscore.ProtPersist
/-! Line protocol for the OSCORE protect/unprotect model (AEAD = `transparentAead`).

Tokens: bytes as hex (`-` empty); `~` = absent (`None`).
  ctx  `<alg>:<ivBytes>:<senderId>:<recipientId>:<idContext|~>:<senderKey>:<recipientKey>:<commonIv>:<0|1 responses_send_kid>`
  rid  `~` | `<kid>:<piv>:<0|1 can_reuse_nonce>:<style code>`
  msg  `<code> <opts> <payload>` with opts `-` | `<num>=<hex>,<num>=<hex>,…`

`C11 P <ctx> <seq> <rid> <mtype> <mid> <token> <msg>` → `ok <outer datagram> <rid> <seq'>` | `err:<Class>`
`C11 U <ctx> <rid> <msg>`  → `ok <code> <opts encoded without Observe> <observe|~> <payload> <rid>` | `err:<Class>`
`C11 S <ctx> <size> <win> <echo|~> <msg>+` → several requests in a row through `unprotect` on ONE recipient context
   with its replay window (`win` = `u` uninitialised | `i:<index>:<bitfield>` loaded through
   `initialize_from_persisted`) and `echo_recovery`: one result per message, joined by ` ; `, each as for `U` or
   `err:ReplayError` | `err:ReplayErrorWithEcho <rid>`; then ` | <win>` (the window afterwards)
`C11 Z <option>`           → `<piv|~> <kid|~> <kidctx|~> <group 0|1> <recompressed|~>` | `err:DecodeError`
`C11 N <ivBytes> <commonIv> <piv> <id>` → nonce | `err:AssertionError`
`C11 A <alg> <kid> <piv>`  → Encrypt0 AAD
`C11 H <chunk start> <chunk limit> <next-to-send on disk> <ev>+` → the sender sequence numbers of a persisted context
   over the lives of a process: `q` a protect that takes a number → the number | `x` (exhausted); `K` the process is
   killed and the context loaded again, `S` it is stopped (`_destroy`) and loaded again → `d<next-to-send on disk>`
-/
namespace Aiocoap.Oscore.Prot

def parseOptBytes (s : String) : Option (Option Bytes) :=
  if s = "~" then some none else (hexToBytes s).map some

def showOptBytes : Option Bytes → String
  | none => "~"
  | some b => bytesToHex b

def parseBit (s : String) : Option Bool :=
  if s = "1" then some true else if s = "0" then some false else none

def parseCtx (s : String) : Option Ctx :=
  match s.splitOn ":" with
  | [alg, iv, sid, rid, idc, sk, rk, civ, rsk] => do
    let algValue ← alg.toNat?
    let ivBytes ← iv.toNat?
    let senderId ← hexToBytes sid
    let recipientId ← hexToBytes rid
    let idContext ← parseOptBytes idc
    let senderKey ← hexToBytes sk
    let recipientKey ← hexToBytes rk
    let commonIv ← hexToBytes civ
    let responsesSendKid ← parseBit rsk
    pure { algValue, ivBytes, senderId, recipientId, idContext, senderKey, recipientKey,
           commonIv, responsesSendKid }
  | _ => none

def parseRid (s : String) : Option (Option ReqId) :=
  if s = "~" then some none else
  match s.splitOn ":" with
  | [kid, piv, reuse, style] => do
    let kid ← hexToBytes kid
    let piv ← hexToBytes piv
    let canReuse ← parseBit reuse
    let style ← style.toNat?
    pure (some { kid, piv, canReuse, style })
  | _ => none

def showRid (r : ReqId) : String :=
  s!"{bytesToHex r.kid}:{bytesToHex r.piv}:{if r.canReuse then 1 else 0}:{r.style}"

def parseOpt (s : String) : Option Opt :=
  match s.splitOn "=" with
  | [n, v] => do
    let n ← n.toNat?
    let v ← hexToBytes v
    pure (n, v)
  | _ => none

def parseOpts (s : String) : Option (List Opt) :=
  if s = "-" then some [] else (s.splitOn ",").mapM parseOpt

def parseMsg (code opts payload : String) : Option Msg := do
  let code ← code.toNat?
  let opts ← parseOpts opts
  let payload ← hexToBytes payload
  pure { code, opts, payload }

def errName : Err → String
  | .protectionInvalid => "err:ProtectionInvalid"
  | .decodeError => "err:DecodeError"
  | .notProtected => "err:NotAProtectedMessage"
  | .valueError => "err:ValueError"
  | .contextUnavailable => "err:ContextUnavailable"
  | .unparsable => "err:UnparsableMessage"
  | .assertion => "err:AssertionError"
  | .outOfModel => "out-of-model"

def bytesOk (b : Bytes) : Bool := b.all (· < 256)

def msgOk (m : Msg) : Bool := m.code < 256 && bytesOk m.payload && m.opts.all (fun o => bytesOk o.2)

def showInt (i : Int) : String := if i < 0 then s!"-{i.natAbs}" else s!"{i.natAbs}"

def parseMsgs : List String → Option (List Msg)
  | [] => some []
  | code :: opts :: payload :: rest => do
    let m ← parseMsg code opts payload
    let ms ← parseMsgs rest
    pure (m :: ms)
  | _ => none

def showUnprotected (u : Unprotected) (r : ReqId) : String :=
  match encodeOpts 0 u.opts with
  | some e =>
    let obs := match u.observe with | some i => showInt i | none => "~"
    s!"ok {u.code} {bytesToHex e} {obs} {bytesToHex u.payload} {showRid r}"
  | none => "out-of-model"

def showSession : Except SErr (Unprotected × ReqId) → String
  | .ok (u, r) => showUnprotected u r
  | .error (.base e) => errName e
  | .error .replay => "err:ReplayError"
  | .error (.replayEcho r) => s!"err:ReplayErrorWithEcho {showRid r}"

def parseWindow (size : Nat) (s : String) : Option (Option Aiocoap.Oscore.RW) :=
  match s.splitOn ":" with
  | ["u"] => some none
  | ["i", i, b] => do
    let i ← i.toNat?
    let b ← b.toNat?
    pure (some (Aiocoap.Oscore.RW.fromPersisted size i b))
  | _ => none

def showWindow : Option Aiocoap.Oscore.RW → String
  | none => "u"
  | some w => s!"i:{w.index}:{w.bitfield}"

def parseSendEv (s : String) : Option SendEv :=
  if s = "q" then some .take else if s = "K" then some .kill else if s = "S" then some .stop else none

/-- one output token per event, as the line protocol prints them -/
def showSendRun (c : Chunks) (s : SendState) : List SendEv → List String
  | [] => []
  | e :: es =>
    let r := sendStep c s e
    let tok := match e with
      | .take => (match r.1 with | some n => toString n | none => "x")
      | _ => s!"d{r.2.disk}"
    tok :: showSendRun c r.2 es

def handle (args : List String) : String :=
  match args with
  | "H" :: start :: limit :: disk :: evs =>
    match start.toNat?, limit.toNat?, disk.toNat?, evs.mapM parseSendEv with
    | some start, some limit, some disk, some evs =>
      if start = 0 || limit = 0 || evs.isEmpty then "out-of-model" else
      " ".intercalate (showSendRun { start, limit } (loadSend { start, limit } disk) evs)
    | _, _, _, _ => "bad-op"
  | "S" :: ctx :: size :: win :: echo :: msgs =>
    match parseCtx ctx, size.toNat?, parseOptBytes echo, parseMsgs msgs with
    | some B, some size, some echo, some ms =>
      match parseWindow size win with
      | none => "bad-op"
      | some win =>
        if size = 0 || ms.isEmpty || !(ms.all msgOk) then "out-of-model" else
        let r := sessionRun transparentAead B { size, win, echo } ms
        let outs := r.2.map showSession
        if outs.any (· == "out-of-model") then "out-of-model" else
        " ; ".intercalate outs ++ " | " ++ showWindow r.1.win
    | _, _, _, _ => "bad-op"
  | ["P", ctx, seq, rid, mtype, mid, token, code, opts, payload] =>
    match parseCtx ctx, seq.toNat?, parseRid rid, mtype.toNat?, mid.toNat?, hexToBytes token,
          parseMsg code opts payload with
    | some A, some seq, some rid, some mtype, some mid, some token, some m =>
      if !msgOk m || mtype ≥ 4 || mid ≥ 65536 || token.length > 8 then "out-of-model" else
      match protect transparentAead A seq m rid with
      | .error e => errName e
      | .ok r =>
        match serialize mtype mid token r.outer with
        | some d => s!"ok {bytesToHex d} {showRid r.rid} {r.seq}"
        | none => "out-of-model"
    | _, _, _, _, _, _, _ => "bad-op"
  | ["U", ctx, rid, code, opts, payload] =>
    match parseCtx ctx, parseRid rid, parseMsg code opts payload with
    | some B, some rid, some o =>
      if !msgOk o then "out-of-model" else
      match unprotect transparentAead B rid o with
      | .error e => errName e
      | .ok (u, r) =>
        match encodeOpts 0 u.opts with
        | some e =>
          let obs := match u.observe with | some i => showInt i | none => "~"
          s!"ok {u.code} {bytesToHex e} {obs} {bytesToHex u.payload} {showRid r}"
        | none => "out-of-model"
    | _, _, _ => "bad-op"
  | ["Z", option] =>
    match hexToBytes option with
    | some o =>
      match uncompress o with
      | none => "err:DecodeError"
      | some u =>
        s!"{showOptBytes u.piv} {showOptBytes u.kid} {showOptBytes u.kidContext} {if u.group then 1 else 0} {showOptBytes (compress u)}"
    | none => "bad-op"
  | ["N", iv, civ, piv, id] =>
    match iv.toNat?, hexToBytes civ, hexToBytes piv, hexToBytes id with
    | some iv, some civ, some piv, some id =>
      if id.length ≥ 256 then "out-of-model" else
      match constructNonce iv civ piv id with
      | some n => bytesToHex n
      | none => "err:AssertionError"
    | _, _, _, _ => "bad-op"
  | ["A", alg, kid, piv] =>
    match alg.toNat?, hexToBytes kid, hexToBytes piv with
    | some alg, some kid, some piv => bytesToHex (aad alg kid piv)
    | _, _, _ => "bad-op"
  | _ => "bad-op"

end Aiocoap.Oscore.Prot

namespace Aiocoap.Oscore
/-- entry point used by `Driver/Main.lean` (model names live in `Aiocoap.Oscore.Prot` so that they
cannot collide with the other OSCORE models) -/
def handleC11 (args : List String) : String := Prot.handle args
end Aiocoap.Oscore

