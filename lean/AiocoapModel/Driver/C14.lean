import AiocoapModel.Basic.Bytes
/-! Line protocol for C14 (not built yet). -/
namespace Aiocoap
def handleC14 (_args : List String) : String := "out-of-model"
end Aiocoap
