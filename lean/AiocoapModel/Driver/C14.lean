import AiocoapModel.Driver.MsgLayer
/-! C14 is decided on the shared message-layer model. -/
namespace Aiocoap
def handleC14 (args : List String) : String := MsgLayer.handleMsgLayer args
end Aiocoap
