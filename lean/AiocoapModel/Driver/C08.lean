import AiocoapModel.Basic.Bytes
/-! Line protocol for C08 (not built yet). -/
namespace Aiocoap
def handleC08 (_args : List String) : String := "out-of-model"
end Aiocoap
