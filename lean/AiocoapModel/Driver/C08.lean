import AiocoapModel.Driver.MsgLayer
import AiocoapModel.Observe.Server
/-!
Line protocol of the observe-server model (C08).

`C08 <exchangeLifetime> <emptyAckDelay> <firstMid> <maxRetransmit> <draws,comma|-> <event>*`

events (`t` = tick; booleans 0/1; `-` = none):
  `R@t:remote:mcLocal:mtype:code:mid:tokenhex:obs:body`   datagram received (as in the MsgLayer driver)
  `E@t:remote`  transport error      `X@t`  shutdown      `A@t`  just advance
  `U@t:code`             state change + `updated_state(None | Message(code))`
  `T@t:sv:code:last`     state change + `servobs.trigger(None | Message(code), is_last=last)`
  `D@t:sv`               `servobs.deregister()`
  `L@t:sv:code:exc`      the suspended render of task `sv` returns `code` / raises
  `W@t:sv:acc:plan…`     task `sv` runs one step; `acc` = add_observation accepts;
                         plan = `-` (no render starts) | `s` (render suspends) | `i:code:exc`
  `WF@t:sv:acc:plan…`    the same, and `sendmsg()` raises for the first datagram the step hands to the
                         transport (a transport error reported synchronously, from inside the send)

Before an event at `t` the message-layer timers due before `t` fire earliest-first (for `W`, whose
cause may be such a timer: due up to and including `t`); a timer due exactly at the `t` of any other
event makes the output start with `TIE`.  Output: every output record prefixed with the tick of the
event that produced it, separated by `;`, in order.
-/
namespace Aiocoap.Observe.Server

open Aiocoap.MsgLayer (parseBool parseOpt optNatStr outStr)

def outStr' : Out → String
  | .net o => outStr o
  | .sendFailed t r w => s!"f@{t}:{r}:{MsgLayer.wireStr w}"
  | .count n => s!"c:{n}"
  | .cancelled sv => s!"k:{sv}"
  | .render sv ver => s!"g:{sv}:{ver}"
  | .notify sv code obs body il => s!"n:{sv}:{code}:{optNatStr obs}:{body}:{if il then 1 else 0}"

def parsePlan : List String → Option Plan
  | ["-"] => some .susp
  | ["s"] => some .susp
  | ["i", code, exc] => do pure (.imm (← code.toNat?) (← parseBool exc))
  | _ => none

/-- `none` inside = just advance; the outer `none` = unparsable; `Except.error` = out of model -/
def parseEv (s : String) : Option (Nat × Option Ev) :=
  match s.splitOn "@" with
  | [kind, rest] =>
    match kind, rest.splitOn ":" with
    | "U", [t, code] => do pure (← t.toNat?, some (.update (← parseOpt String.toNat? code)))
    | "T", [t, sv, code, il] => do
      pure (← t.toNat?, some (.trigger (← sv.toNat?) (← parseOpt String.toNat? code) (← parseBool il)))
    | "D", [t, sv] => do pure (← t.toNat?, some (.deregister (← sv.toNat?)))
    | "L", [t, sv, code, exc] => do
      pure (← t.toNat?, some (.release (← sv.toNat?) (← code.toNat?) (← parseBool exc)))
    | "W", t :: sv :: acc :: plan => do
      pure (← t.toNat?, some (.step (← sv.toNat?) (← parsePlan plan) (← parseBool acc)))
    | "WF", t :: sv :: acc :: plan => do
      pure (← t.toNat?, some (.stepFail (← sv.toNat?) (← parsePlan plan) (← parseBool acc)))
    | _, _ =>
      match MsgLayer.parseEvent s with
      | some (t, some (.recv r mcl w)) => some (t, some (.recv r mcl w))
      | some (t, some (.error r)) => some (t, some (.error r))
      | some (t, some .shutdown) => some (t, some .shutdown)
      | some (t, none) => some (t, none)
      | _ => none
  | _ => none

/-- inputs the model does not cover: requests other than GET, anything on a multicast address -/
def outOfModel : Option Ev → Bool
  | some (.recv _ mcl w) => mcl || (MsgLayer.isRequest w.code && w.code != 1) || w.body != 0 && MsgLayer.isRequest w.code
  | _ => false

def timerEv : MsgLayer.Timer → Ev
  | .retransmit r m => .fireRetransmit r m
  | .emptyAck r t => .fireEmptyAck r t
  | .expire r m => .fireExpire r m

def tag (t : Nat) (os : List Out) : List String := os.map fun o => s!"{t}/{outStr' o}"

/-- fire the message-layer timers due before `bound`, earliest first -/
def advance (fuel : Nat) (c : State) (bound : Nat) : State × List String :=
  match fuel with
  | 0 => (c, [])
  | fuel + 1 =>
    match MsgLayer.earliestBefore c.ml bound with
    | none => (c, [])
    | some (t, tm) =>
      let x := step c { time := t, ev := timerEv tm }
      let y := advance fuel x.1 bound
      (y.1, tag t x.2 ++ y.2)

def isStep : Option Ev → Bool
  | some (.step _ _ _) => true
  | some (.stepFail _ _ _) => true
  | _ => false

def runScript (c : State) : List (Nat × Option Ev) → List String × Bool × State
  | [] => ([], false, c)
  | (t, ev) :: rest =>
    let a := advance 100000 c (if isStep ev then t + 1 else t)
    let tie := !isStep ev && MsgLayer.tiesAt a.1.ml t > 0
    let x : State × List Out := match ev with
      | some e => step a.1 { time := t, ev := e }
      | none => ({ a.1 with ml := MsgLayer.setNow a.1.ml t }, [])
    let y := runScript x.1 rest
    (a.2 ++ tag t x.2 ++ y.1, tie || y.2.1, y.2.2)

end Aiocoap.Observe.Server

namespace Aiocoap
open Observe.Server in
def handleC08 (args : List String) : String :=
  match args with
  | el :: ead :: mid :: mr :: draws :: evs =>
    match el.toNat?, ead.toNat?, mid.toNat?, mr.toNat?, MsgLayer.parseDraws draws, evs.mapM parseEv with
    | some el, some ead, some mid, some mr, some draws, some evs =>
      if evs.any (fun e => outOfModel e.2) then "out-of-model" else
      let ml := MsgLayer.init { exchangeLifetime := el, emptyAckDelay := ead } mid 0 (fun i => draws.getD i 0)
      let r := runScript (init ml mr) evs
      (if r.2.2.ml.drawIdx > draws.length then "STARVED " else "") ++ (if r.2.1 then "TIE " else "") ++
        ";".intercalate r.1
    | _, _, _, _, _, _ => "bad-op"
  | _ => "bad-op"
end Aiocoap
