import AiocoapModel.Basic.Bytes
/-! Line protocol for C16 (not built yet). -/
namespace Aiocoap
def handleC16 (_args : List String) : String := "out-of-model"
end Aiocoap
