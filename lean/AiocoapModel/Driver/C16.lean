import AiocoapModel.Basic.Bytes
import AiocoapModel.Uri.Compose
import AiocoapModel.Uri.Ip6
/-! Line protocol for the URI model (C16).  Bytes are lower-case hex (`-` = empty), an absent
optional value is `~`, a list of byte strings is `.` (empty) or its items joined by `,`.

`C16 Q <p|q|h> <hex>`      → quote with the path / query / reg-name safe set
`C16 U <hex>`              → `<unquote hex> <1|0>` (1 = strict UTF-8 decoding succeeds)
`C16 J <host> <port|~>`    → hostportjoin
`C16 H <hostport>`         → `<host|~> <port|~>` or `err` (ValueError); `out-of-model` for non-ASCII
                             text (`.hostname` lower-cases with `str.lower()`, not restated)
`C16 N <text>`             → str(IPv6Address(text)) or `!`
`C16 P <text>`             → urlsplit: `<scheme> <netloc> <path> <query> <fragment>` or `err`
`C16 S <text>`             → set_request_uri then get_request_uri:
                             `ok <scheme> <hostinfo> <urihost|~> <path> <query> | <uri|!>`,
                             `proxy`, `err:incomplete`, `err:malformed`
`C16 G <scheme> <hostinfo> <urihost|~> <uriport|~> <path> <query>` → get_request_uri text or `!`
                             (`out-of-model` for a non-ASCII hostinfo, as for `H`)
`P` and `S` take any UTF-8 text: raw non-ASCII characters in every component, the authority included.
-/
namespace Aiocoap.Uri

def showList (l : List Bytes) : String :=
  if l.isEmpty then "." else ",".intercalate (l.map bytesToHex)

def parseList (s : String) : Option (List Bytes) :=
  if s = "." then some [] else (s.splitOn ",").mapM hexToBytes

def parseOptBytes (s : String) : Option (Option Bytes) :=
  if s = "~" then some none else (hexToBytes s).map some

def parseOptNat (s : String) : Option (Option Nat) :=
  if s = "~" then some none else s.toNat?.map some

def showOptBytes : Option Bytes → String
  | none => "~"
  | some b => bytesToHex b

def showOptNat : Option Nat → String
  | none => "~"
  | some n => toString n

def showOutcome : Outcome → String
  | .proxy => "proxy"
  | .incomplete => "err:incomplete"
  | .malformed => "err:malformed"
  | .ok o =>
    s!"ok {bytesToHex o.scheme} {bytesToHex o.hostinfo} {showOptBytes o.uriHost} " ++
    s!"{showList o.path} {showList o.query} | " ++
    (match getRequestUri pyIp o with
     | some u => bytesToHex u
     | none => "!")

end Aiocoap.Uri

namespace Aiocoap
open Aiocoap.Uri

def handleC16 (args : List String) : String :=
  match args with
  | ["Q", k, h] =>
    match hexToBytes h with
    | some b =>
      if k = "p" then bytesToHex (quote pathSafe b)
      else if k = "q" then bytesToHex (quote querySafe b)
      else if k = "h" then bytesToHex (quote regNameSafe b)
      else "bad-op"
    | none => "bad-op"
  | ["U", h] =>
    match hexToBytes h with
    | some b => bytesToHex (unquote b) ++ (if utf8Valid (unquote b) then " 1" else " 0")
    | none => "bad-op"
  | ["J", h, p] =>
    match hexToBytes h, parseOptNat p with
    | some h, some p => bytesToHex (hostportjoin h p)
    | _, _ => "bad-op"
  | ["H", h] =>
    match hexToBytes h with
    | some hp =>
      if !hp.all (· < 128) then "out-of-model" else
      match hostportsplit hp with
      | some (h, p) => showOptBytes h ++ " " ++ showOptNat p
      | none => "err"
    | none => "bad-op"
  | ["N", h] =>
    match hexToBytes h with
    | some t => (match norm6Impl t with | some y => bytesToHex y | none => "!")
    | none => "bad-op"
  | ["P", h] =>
    match hexToBytes h with
    | some u =>
      match urlsplit pyIp u with
      | some p => s!"{bytesToHex p.scheme} {bytesToHex p.netloc} {bytesToHex p.path} " ++
                  s!"{bytesToHex p.query} {bytesToHex p.fragment}"
      | none => "err"
    | none => "bad-op"
  | ["S", h] =>
    match hexToBytes h with
    | some u => showOutcome (setRequestUri pyIp u)
    | none => "bad-op"
  | ["G", sc, hi, uh, up, pa, qu] =>
    match hexToBytes sc, hexToBytes hi, parseOptBytes uh, parseOptNat up, parseList pa,
          parseList qu with
    | some scheme, some hostinfo, some uriHost, some uriPort, some path, some query =>
      if !hostinfo.all (· < 128) then "out-of-model" else
      match getRequestUri pyIp { scheme, hostinfo, uriHost, uriPort, path, query } with
      | some u => bytesToHex u
      | none => "!"
    | _, _, _, _, _, _ => "bad-op"
  | _ => "bad-op"

end Aiocoap
