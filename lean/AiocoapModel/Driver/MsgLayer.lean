import AiocoapModel.MsgLayer.Model
/-!
Line protocol of the message-layer model (shared by C02 C03 C04 C10 C14 C18).

`<Cxx> <exchangeLifetime> <emptyAckDelay> <firstMid> <tokenCtr> <draws,comma|-> <event>*`

events (`t` = tick; booleans 0/1; `-` = none):
  `S@t:r:remote:mc:observing:mtype:rel:code:obs:body:nr:maxretr`   submit
  `R@t:remote:mcLocal:mtype:code:mid:tokenhex:obs:body`            recv
  `P@t:srv:mtype:rel:code:obs:body:nr:maxretr:isLast`              respond
  `C@t:r`  appCancel      `E@t:remote`  transport error      `X@t`  shutdown      `A@t`  just advance

Before each event the timers due *before* t are fired earliest-first (as asyncio does); a timer
due exactly at t makes the output start with `TIE` (the harness does not compare such runs).
Output: one group per event, groups separated by ` | `, each group = outputs separated by `;`.
-/
namespace Aiocoap.MsgLayer

def mtypeStr : MType → String
  | .con => "CON" | .non => "NON" | .ack => "ACK" | .rst => "RST"

def parseMType (s : String) : Option MType :=
  match s with
  | "CON" => some .con | "NON" => some .non | "ACK" => some .ack | "RST" => some .rst
  | _ => none

def parseBool (s : String) : Option Bool :=
  if s = "1" then some true else if s = "0" then some false else none

def parseOpt (f : String → Option α) (s : String) : Option (Option α) :=
  if s = "-" then some none else (f s).map some

def optNatStr : Option Nat → String
  | none => "-" | some n => toString n

def wireStr (w : Wire) : String :=
  s!"{mtypeStr w.mtype}:{w.code}:{w.mid}:{bytesToHex w.token}:{optNatStr w.obs}:{w.body}"

def kindStr : ErrKind → String
  | .messageError => "MessageError" | .conRetransmitsExceeded => "ConRetransmitsExceeded"
  | .networkError => "NetworkError" | .libraryShutdown => "LibraryShutdown"
  | .conToMulticast => "ConToMulticast"

def outStr : Out → String
  | .send t r w => s!"s@{t}:{r}:{wireStr w}"
  | .deliver sv r w => s!"d:{sv}:{r}:{wireStr w}"
  | .stop sv => s!"x:{sv}"
  | .response r w f => s!"r:{r}:{if f then 1 else 0}:{wireStr w}"
  | .fail r k => s!"f:{r}:{kindStr k}"

def parseOutMsg (mt rel code obs body nr mr : String) : Option OutMsg := do
  let mt ← parseOpt parseMType mt
  let rel ← parseOpt parseBool rel
  let code ← code.toNat?
  let obs ← parseOpt String.toNat? obs
  let body ← body.toNat?
  let nr ← nr.toNat?
  let mr ← mr.toNat?
  pure { mtype := mt, reliability := rel, code, obs, body, noResponse := nr, maxRetr := mr }

def parseEvent (s : String) : Option (Nat × Option Ev) :=
  match s.splitOn "@" with
  | [kind, rest] =>
    match kind, rest.splitOn ":" with
    | "S", [t, r, remote, mc, ob, mt, rel, code, obs, body, nr, mr] => do
      let m ← parseOutMsg mt rel code obs body nr mr
      pure (← t.toNat?, some (.submit (← r.toNat?) (← remote.toNat?) (← parseBool mc) (← parseBool ob) m))
    | "R", [t, remote, mcl, mt, code, mid, tok, obs, body] => do
      let w : Wire := { mtype := ← parseMType mt, code := ← code.toNat?, mid := ← mid.toNat?,
                        token := ← hexToBytes tok, obs := ← parseOpt String.toNat? obs,
                        body := ← body.toNat? }
      pure (← t.toNat?, some (.recv (← remote.toNat?) (← parseBool mcl) w))
    | "P", [t, sv, mt, rel, code, obs, body, nr, mr, il] => do
      let m ← parseOutMsg mt rel code obs body nr mr
      pure (← t.toNat?, some (.respond (← sv.toNat?) m (← parseBool il)))
    | "C", [t, r] => do pure (← t.toNat?, some (.appCancel (← r.toNat?)))
    | "E", [t, remote] => do pure (← t.toNat?, some (.error (← remote.toNat?)))
    | "X", [t] => do pure (← t.toNat?, some .shutdown)
    | "A", [t] => do pure (← t.toNat?, none)
    | _, _ => none
  | _ => none

def parseDraws (s : String) : Option (List Nat) :=
  if s = "-" then some [] else (s.splitOn ",").mapM String.toNat?

def groupStr (os : List Out) : String := ";".intercalate (os.map outStr)

def insertSorted (x : String) : List String → List String
  | [] => [x]
  | y :: ys => if x ≤ y then x :: y :: ys else y :: insertSorted x ys

def sortStrings (l : List String) : List String := l.foldr insertSorted []

/-- the tables of both managers at the end of the script, in a canonical order -/
def stateStr (s : State) : String :=
  let j (l : List String) := ",".intercalate (sortStrings l)
  let ex := if s.shutMsg then [] else s.exchanges.map fun e => s!"{e.remote}:{e.msg.mid}:{e.counter}"
  let bl := if s.shutMsg then [] else s.backlogs.map fun b => s!"{b.1}:{b.2.length}"
  let pg := s.piggy.map fun p => s!"{p.remote}:{bytesToHex p.token}:{p.mid}"
  let rc := s.recent.map fun r => s!"{r.remote}:{r.mid}:{if r.reply.isSome then 1 else 0}"
  let og := s.outgoing.map fun o => s!"{bytesToHex o.token}:{match o.remote with | some r => toString r | none => "m"}"
  let ic := s.incoming.map fun i => s!"{bytesToHex i.token}:{i.remote}"
  s!"ex={j ex} bl={j bl} pg={j pg} rc={j rc} og={j og} ic={j ic}"

/-- process the script; `cur` is the open group (outputs since the last input event).  Group 0
holds what happens before the first input, group i the outputs of input i and of the timers
that fire after it and before the next input.  Each group is closed with the state of both
managers' tables at that moment (just before the next input event): `outs~state`. -/
def runScript (st : State → String) (s : State) (cur : List Out) :
    List (Nat × Option Ev) → List String × Bool × State
  | [] => ([groupStr cur ++ "~" ++ st s], false, s)
  | (t, ev) :: rest =>
    let (s1, o1, _) := advance 100000 s t
    let tie := tiesAt s1 t > 0
    let (s2, o2) := match ev with
      | some e => step s1 { time := t, ev := e }
      | none => ({ s1 with now := t }, [])
    let (gs, tie', s3) := runScript st s2 o2 rest
    ((groupStr (cur ++ o1) ++ "~" ++ st s1) :: gs, tie || tie', s3)

def handleMsgLayer (args : List String) : String :=
  match args with
  | el :: ead :: mid :: tok :: draws :: evs =>
    match el.toNat?, ead.toNat?, mid.toNat?, tok.toNat?, parseDraws draws, evs.mapM parseEvent with
    | some el, some ead, some mid, some tok, some draws, some evs =>
      -- an error reported for a multicast destination address itself (only a failing sendmsg() produces one) ends
      -- the requests sent there (tokenmanager.py:97-102 compares the request's own remote); the model keys
      -- multicast requests without a remote and does not cover this
      let mcDests := evs.filterMap fun e => match e.2 with
        | some (.submit _ remote true _ _) => some remote
        | _ => none
      if evs.any (fun e => match e.2 with | some (.error remote) => mcDests.contains remote | _ => false) then
        "out-of-model" else
      let s0 := init { exchangeLifetime := el, emptyAckDelay := ead } mid tok (fun i => draws.getD i 0)
      let (gs, tie, sf) := runScript stateStr s0 [] evs
      (if sf.drawIdx > draws.length then "STARVED " else "") ++ (if tie then "TIE " else "") ++ "|".intercalate gs
    | _, _, _, _, _, _ => "bad-op"
  | _ => "bad-op"

end Aiocoap.MsgLayer
