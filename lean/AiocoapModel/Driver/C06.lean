import AiocoapModel.Basic.Bytes
/-! Line protocol for C06 (not built yet). -/
namespace Aiocoap
def handleC06 (_args : List String) : String := "out-of-model"
end Aiocoap
