import AiocoapModel.Basic.Bytes
import AiocoapModel.Blockwise.Server
import AiocoapModel.Blockwise.Overlap
/-! Line protocol for the block-wise server model (C06).

`C06 R <T> <step>*`  request sequence against up to 4 resources (own state each, one clock)
   step = `res,dt,asm,rkey,mps,mszx,code,b1,b2,opts,payload,hcode,hopts,hpayload,obs,opath,hold`
        | `F,res,dt,idx`
     res     resource index 0..3          dt   ticks since the previous step
     asm     `needs_blockwise_assembly` 0/1
     obs     0: a plain `Resource`; 1: an `ObservableResource` (its `_render_to_pipe`)
     rkey    id of `remote.blockwise_key`, mps/mszx `maximum_payload_size`/`maximum_block_size_exp`
     b1,b2   value of the Block1/Block2 option as the integer on the wire, `-` if absent
     opts    `_` or `num=hex;num=hex…` (all other options in option_list order)
     payload hex, `-` (empty) or `r<len>.<a>.<b>` (byte i = (a + b·i) mod 256)
     h*      what the handler answers if it is invoked at this step; hcode `!<code>` = the
             handler raises an exception that is rendered with that code (hopts/hpayload unused);
             hcode `?` = the handler returns something that is not a message (`None`, a str, an int)
     opath   `message._original_request_path` of the request as the resource gets it: `-` if it has
             none, else `p` + the path components in hex joined by `.` (`-` = empty component, `p`
             alone = the empty path)
     hold    0: the handler, if it is invoked, ends at once; 1: it suspends and ends at the `F` step
             that names this step
     `F,res,dt,idx`: the handler invoked for step number `idx` (counted from 0) on resource `res`
             returns / raises what that step's `h*` fields say
   The steps are run on `carrive` / `cfinish` (`Blockwise/Overlap.lean`); a step with hold 0 is an
   arrival immediately followed by its completion (= `step`, `C06_atomic_is_step`).
   → per step `code|b1|b2|opts|payload|seen|entry`; block options as `num/m/szx`;
     a held request whose handler was invoked: `~|-|-|_|-|seen|entry`; an `F` step: the response with
     seen and entry `-`, or `n` if that step has no pending handler;
     seen = `-` or `H~code~b1~b2~opts~payload` (the request the handler was invoked with);
     entry = `-` (plain resource), `p` / `o`: on an observable resource the request takes the way of
     `Resource._render_to_pipe` / enters the observation branch (`add_observation` is called); the
     response is the one `_render_blockwise` produces in both cases (the Observe option an accepted
     observation adds to it is not part of the model)
`C06 T <T> <op>*`    TimeoutDict; ops `g:<dt>:<k>` `s:<dt>:<k>:<v>` `d:<dt>:<k>` `m:<dt>:<k>:<v>` `w:<dt>`
   → per op the value / `K` (KeyError) / `ok`, then `|k=v,…` (sorted by key) and `|t` / `|n`
     (timer pending or not)
`C06 K <rkey,code,opts,opath> <rkey,code,opts,opath>`   → `1` iff the two block keys are equal
-/
namespace Aiocoap.BwServer

def parseBlk (s : String) : Option (Option Blk) :=
  if s = "-" then some none else s.toNat?.map (fun v => some (Blk.ofNat v))

def patternBytes (len a b : Nat) : Bytes := (List.range len).map (fun i => (a + b * i) % 256)

def parsePayload (s : String) : Option Bytes :=
  match s.toList with
  | 'r' :: rest =>
    match (String.ofList rest).splitOn "." with
    | [l, a, b] => do
      let l ← l.toNat?
      let a ← a.toNat?
      let b ← b.toNat?
      pure (patternBytes l a b)
    | _ => none
  | _ => hexToBytes s

def parseOpt (s : String) : Option Opt :=
  match s.splitOn "=" with
  | [n, v] => do
    let n ← n.toNat?
    let v ← hexToBytes v
    pure (n, v)
  | _ => none

def parseOpts (s : String) : Option (List Opt) :=
  if s = "_" then some [] else (s.splitOn ";").mapM parseOpt

def showBlk : Option Blk → String
  | none => "-"
  | some b => s!"{b.num}/{if b.more then 1 else 0}/{b.szx}"

def showOpts (o : List Opt) : String :=
  if o.isEmpty then "_" else ";".intercalate (o.map fun p => s!"{p.1}={bytesToHex p.2}")

def showSeen : Option Msg → String
  | none => "-"
  | some m => s!"H~{m.code}~{showBlk m.block1}~{showBlk m.block2}~{showOpts m.opts}~{bytesToHex m.payload}"

structure DStep where
  res : Nat
  dt : Nat
  obs : Bool         -- the resource is an `ObservableResource`
  hold : Bool        -- the handler suspends
  inp : Nat → In     -- given the absolute time

/-- a token of the line: a request, or the completion of the handler of an earlier request -/
inductive DTok
  | req (d : DStep)
  | fin (res dt idx : Nat)

/-- the way the request takes on its resource -/
def showEntry (d : DStep) : String :=
  if !d.obs then "-" else
  match obsEntry (d.inp 0).req with
  | .plain => "p"
  | .observe => "o"

def parseBool (s : String) : Option Bool :=
  if s = "1" then some true else if s = "0" then some false else none

/-- `<code>` (the handler returns a message), `!<code>` (it raises) or `?` (it returns something that
is not a message: inner `none`) -/
def parseHCode (s : String) : Option (Option (Bool × Nat)) :=
  match s.toList with
  | ['?'] => some none
  | '!' :: rest => (String.ofList rest).toNat?.map (fun c => some (true, c))
  | _ => s.toNat?.map (fun c => some (false, c))

/-- the plain options of what the handler returns (none when it raises) -/
def outcomeOpts : Outcome → List Opt
  | .ok r => r.opts
  | .error _ => []
  | .junk => []

/-- `-` (no `_original_request_path`), or `p<hex>.<hex>…` -/
def parseOPath (s : String) : Option (Option (List Bytes)) :=
  if s = "-" then some none else
  match s.toList with
  | 'p' :: rest =>
    if rest.isEmpty then some (some [])
    else ((String.ofList rest).splitOn ".").mapM hexToBytes |>.map some
  | _ => none

def parseStep (s : String) : Option DTok :=
  match s.splitOn "," with
  | ["F", res, dt, idx] => do
    let res ← res.toNat?
    let dt ← dt.toNat?
    let idx ← idx.toNat?
    pure (.fin res dt idx)
  | [res, dt, asm, rkey, mps, mszx, code, b1, b2, opts, payload, hcode, hopts, hpayload, obs, opath, hold] => do
    let res ← res.toNat?
    let obs ← parseBool obs
    let hold ← parseBool hold
    let dt ← dt.toNat?
    let asm ← parseBool asm
    let rkey ← rkey.toNat?
    let mps ← mps.toNat?
    let mszx ← mszx.toNat?
    let code ← code.toNat?
    let b1 ← parseBlk b1
    let b2 ← parseBlk b2
    let opts ← parseOpts opts
    let payload ← parsePayload payload
    let hcode ← parseHCode hcode
    let hopts ← parseOpts hopts
    let hpayload ← parsePayload hpayload
    let opath ← parseOPath opath
    let req : Msg := { remote := { key := rkey, maxPayload := mps, maxSzx := mszx }, code := code,
                       opts := opts, block1 := b1, block2 := b2, payload := payload, origPath := opath }
    let resp : Outcome :=
      match hcode with
      | none => .junk
      | some (true, c) => .error c
      | some (false, c) => .ok { code := c, opts := hopts, block1 := none, block2 := none, payload := hpayload }
    pure (.req { res := res, dt := dt, obs := obs, hold := hold,
                 inp := fun now => { now := now, assemble := asm, req := req, render := fun _ => resp } })
  | _ => none

/-- inputs the model does not claim: resource index ≥ 4, exponent of the remote > 7, a request
code that is not a request, a handler answering with a request code or with a block option
number among its plain options, plain options 23/27 in the request, a non-message returned by a
resource without block-wise assembly -/
def stepInModel : DTok → Bool
  | .fin res _ _ => res < 4
  | .req d =>
    let i := d.inp 0
    d.res < 4 && i.req.remote.maxSzx ≤ 7 && isRequestCode i.req.code &&
    -- a resource that does its own block handling puts what `render` returns on the pipe as it is
    !(i.render i.req == .junk && !i.assemble) &&
    !isRequestCode (i.render i.req).code &&
    i.req.opts.all (fun o => o.1 != 23 && o.1 != 27) &&
    (outcomeOpts (i.render i.req)).all (fun o => o.1 != 23 && o.1 != 27)

def showResp (r : Resp) : String :=
  s!"{r.code}|{showBlk r.block1}|{showBlk r.block2}|{showOpts r.opts}|{bytesToHex r.payload}"

/-- a handler that is under way: the step it belongs to, its resource, token and what it will
answer -/
structure Held where
  idx : Nat
  res : Nat
  ticket : Nat
  out : Outcome

def runSteps (T : Nat) : List CState → List Held → Nat → Nat → List DTok → List String
  | _, _, _, _, [] => []
  | sts, held, now, idx, .req d :: rest =>
    let now' := now + d.dt
    match sts[d.res]? with
    | none => ["bad-res"]
    | some st =>
      let i := d.inp now'
      let r := carrive T st { now := i.now, assemble := i.assemble, req := i.req }
      match r.2.ticket, r.2.seen with
      | some id, some m =>
        if d.hold then
          (s!"~|-|-|_|-|{showSeen (some m)}|{showEntry d}") ::
            runSteps T (sts.set d.res r.1) ({ idx := idx, res := d.res, ticket := id, out := i.render m } :: held)
              now' (idx + 1) rest
        else
          let r' := cfinish T r.1 now' id (i.render m)
          match r'.2.resp with
          | some resp =>
            (s!"{showResp resp}|{showSeen (some m)}|{showEntry d}") ::
              runSteps T (sts.set d.res r'.1) held now' (idx + 1) rest
          | none => ["bad-state"]
      | _, _ =>
        match r.2.resp with
        | some resp =>
          (s!"{showResp resp}|-|{showEntry d}") :: runSteps T (sts.set d.res r.1) held now' (idx + 1) rest
        | none => ["bad-state"]
  | sts, held, now, idx, .fin res dt target :: rest =>
    let now' := now + dt
    match held.find? (fun h => h.idx == target && h.res == res), sts[res]? with
    | some h, some st =>
      let r := cfinish T st now' h.ticket h.out
      let held' := held.filter (fun x => x.idx != target)
      match r.2.resp with
      | some resp => (s!"{showResp resp}|-|-") :: runSteps T (sts.set res r.1) held' now' (idx + 1) rest
      | none => "n" :: runSteps T (sts.set res r.1) held' now' (idx + 1) rest
    | _, _ => "n" :: runSteps T sts held now' (idx + 1) rest

-- TimeoutDict -------------------------------------------------------------------------------

def showItems (l : List (Nat × Nat)) : String :=
  ",".intercalate ((l.mergeSort (fun a b => a.1 ≤ b.1)).map fun p => s!"{p.1}={p.2}")

def tdOps (T : Nat) : TD Nat Nat → Nat → List String → Option (TD Nat Nat × List String)
  | td, _, [] => some (td, [])
  | td, now, op :: ops =>
    match op.splitOn ":" with
    | ["g", dt, k] => do
      let dt ← dt.toNat?
      let k ← k.toNat?
      let now := now + dt
      let td := td.advance T now
      match td.get T now k with
      | some (v, td') => do
        let (f, out) ← tdOps T td' now ops
        pure (f, toString v :: out)
      | none => do
        let (f, out) ← tdOps T td now ops
        pure (f, "K" :: out)
    | ["s", dt, k, v] => do
      let dt ← dt.toNat?
      let k ← k.toNat?
      let v ← v.toNat?
      let now := now + dt
      let (f, out) ← tdOps T ((td.advance T now).set T now k v) now ops
      pure (f, "ok" :: out)
    | ["d", dt, k] => do
      let dt ← dt.toNat?
      let k ← k.toNat?
      let now := now + dt
      let td := td.advance T now
      match td.del k with
      | some td' => do
        let (f, out) ← tdOps T td' now ops
        pure (f, "ok" :: out)
      | none => do
        let (f, out) ← tdOps T td now ops
        pure (f, "K" :: out)
    | ["m", dt, k, v] => do
      let dt ← dt.toNat?
      let k ← k.toNat?
      let v ← v.toNat?
      let now := now + dt
      let (f, out) ← tdOps T ((td.advance T now).mutate k v) now ops
      pure (f, "ok" :: out)
    | ["w", dt] => do
      let dt ← dt.toNat?
      let now := now + dt
      let (f, out) ← tdOps T (td.advance T now) now ops
      pure (f, "ok" :: out)
    | _ => none

def parseKeyMsg (s : String) : Option Msg :=
  match s.splitOn "," with
  | [rkey, code, opts, opath] => do
    let rkey ← rkey.toNat?
    let code ← code.toNat?
    let opts ← parseOpts opts
    let opath ← parseOPath opath
    pure { remote := { key := rkey, maxPayload := 0, maxSzx := 0 }, code := code, opts := opts,
           block1 := none, block2 := none, payload := [], origPath := opath }
  | _ => none

end Aiocoap.BwServer

namespace Aiocoap
open BwServer

def handleC06 (args : List String) : String :=
  match args with
  | "R" :: t :: steps =>
    match t.toNat?, steps.mapM parseStep with
    | some T, some ds =>
      if !ds.all stepInModel then "out-of-model" else
      " ".intercalate (runSteps T (List.replicate 4 CState.init) [] 0 0 ds)
    | _, _ => "bad-op"
  | "T" :: t :: ops =>
    match t.toNat? with
    | some T =>
      match tdOps T TD.empty 0 ops with
      | some (td, out) =>
        " ".intercalate out ++ " |" ++ showItems td.items ++
          (if td.deadline.isSome then " |t" else " |n")
      | none => "bad-op"
    | none => "bad-op"
  | ["K", a, b] =>
    match parseKeyMsg a, parseKeyMsg b with
    | some a, some b =>
      if a.opts.any (fun o => o.1 == 23 || o.1 == 27) || b.opts.any (fun o => o.1 == 23 || o.1 == 27)
      then "out-of-model"
      else if blockKey a = blockKey b then "1" else "0"
    | _, _ => "bad-op"
  | _ => "bad-op"

end Aiocoap
