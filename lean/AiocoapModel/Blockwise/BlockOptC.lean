import AiocoapModel.Basic.Bytes
/-!
Block option value as the block-wise *client* sees it: model of
`aiocoap.optiontypes.BlockOption.BlockwiseTuple` (optiontypes.py:168-222) and of
`Message._extract_block` (message.py:421-444), for the size exponents 0..6 and for BERT
(szx 7, RFC 8323 section 6: what a remote with `maximum_block_size_exp` 7 uses -- block numbers
count 1024-byte units and a message carries a whole number of them).

Everything of the C05 model lives in namespace `Aiocoap.BwClient`.
-/
namespace Aiocoap.BwClient

/-- `BlockwiseTuple(block_number, more, size_exponent)` -/
structure BlockOpt where
  num : Nat
  more : Bool
  szx : Nat
deriving Repr, DecidableEq

/-- `size`: `2 ** (min(self.size_exponent, 6) + 4)` (optiontypes.py:173-175) -/
def BlockOpt.size (b : BlockOpt) : Nat := 2 ^ (min b.szx 6 + 4)

/-- `start`: `self.block_number * self.size` (optiontypes.py:177-188) -/
def BlockOpt.start (b : BlockOpt) : Nat := b.num * b.size

/-- `is_valid_for_payload_size` (optiontypes.py:194-203). Not BERT: a block with the more flag
carries exactly `size` bytes, the last one at most `size`. BERT (`is_bert`: exponent 7): a block
with the more flag carries a whole, non-zero number of KiB (fix f14c0e7: "not none"), the last one
anything. -/
def BlockOpt.validFor (b : BlockOpt) (payloadSize : Nat) : Bool :=
  if b.szx = 7 then
    if b.more then decide (0 < payloadSize) && payloadSize % 1024 == 0 else true
  else if b.more then payloadSize == b.size else decide (payloadSize ≤ b.size)

/-- what the CLIENT's assembly of a block-wise response accepts (message.py:491-498
`_append_response_block`, protocol.py:1213-1225 for the first block): a valid payload size, and
(a fix) a block with the more flag carries at least one byte -- an empty BERT block "with more to
come" would not advance the transfer and the same block would be asked for again -/
def BlockOpt.okFor (b : BlockOpt) (payloadSize : Nat) : Bool :=
  b.validFor payloadSize && !(b.more && payloadSize == 0)

/-- `reduced_to(maximum_exponent)` (optiontypes.py:209-226):
`block_number << (min(szx, 6) - maximum_exponent)`. The code's special case "exponent 7 capped
to 6 keeps the number" is what this formula gives there (`min 7 6 - 6 = 0`, `reducedTo_bert`
in `Proofs/Blockwise/C05Basic.lean`). -/
def BlockOpt.reducedTo (b : BlockOpt) (maxExp : Nat) : BlockOpt :=
  if maxExp ≥ b.szx then b
  else { num := b.num <<< (min b.szx 6 - maxExp), more := b.more, szx := maxExp }

/-- `Message._extract_block(number, size_exp, max_bert_size)` (message.py:421-444):
`none` is `BadRequest("Block request out of bounds")`; otherwise the block option
`(number, more, size_exp)` and the slice `payload[start:end]`. For BERT the block number counts
KiB and the slice is `1024 * (max_bert_size // 1024)` bytes long. Block 0 of an empty payload is
the empty payload (a fix; only reachable with the deprecated Block1 size hint). -/
def extractBlock (payload : Bytes) (number szx maxBert : Nat) : Option (BlockOpt × Bytes) :=
  let size := if szx = 7 then 1024 * (maxBert / 1024) else 2 ^ (szx + 4)
  let start := if szx = 7 then number * 1024 else number * 2 ^ (szx + 4)
  if start ≥ payload.length ∧ start > 0 then none
  else
    let stop := if start + size < payload.length then start + size else payload.length
    let more := decide (stop < payload.length)
    some ({ num := number, more := more, szx := szx }, (payload.take stop).drop start)

end Aiocoap.BwClient
