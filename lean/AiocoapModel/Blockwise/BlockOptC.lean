import AiocoapModel.Basic.Bytes
/-!
Block option value as the block-wise *client* sees it: model of
`aiocoap.optiontypes.BlockOption.BlockwiseTuple` (optiontypes.py:168-222) and of
`Message._extract_block` (message.py:422-444), restricted to the non-BERT size
exponents 0..6 (BERT, szx 7, only exists on reliable transports and is out of the model:
the driver answers `out-of-model` when a 7 appears anywhere).

Everything of the C05 model lives in namespace `Aiocoap.BwClient`.
-/
namespace Aiocoap.BwClient

/-- `BlockwiseTuple(block_number, more, size_exponent)` -/
structure BlockOpt where
  num : Nat
  more : Bool
  szx : Nat
deriving Repr, DecidableEq

/-- `size`: `2 ** (min(self.size_exponent, 6) + 4)` (optiontypes.py:173-175) -/
def BlockOpt.size (b : BlockOpt) : Nat := 2 ^ (min b.szx 6 + 4)

/-- `start`: `self.block_number * self.size` (optiontypes.py:177-188) -/
def BlockOpt.start (b : BlockOpt) : Nat := b.num * b.size

/-- `is_valid_for_payload_size`, the non-BERT branch (optiontypes.py:194-203):
a block with the more flag carries exactly `size` bytes, the last one at most `size`. -/
def BlockOpt.validFor (b : BlockOpt) (payloadSize : Nat) : Bool :=
  if b.more then payloadSize == b.size else decide (payloadSize ≤ b.size)

/-- `reduced_to(maximum_exponent)` (optiontypes.py:205-222), without the BERT special case:
`block_number << (min(szx, 6) - maximum_exponent)`. -/
def BlockOpt.reducedTo (b : BlockOpt) (maxExp : Nat) : BlockOpt :=
  if maxExp ≥ b.szx then b
  else { num := b.num <<< (min b.szx 6 - maxExp), more := b.more, szx := maxExp }

/-- `Message._extract_block(number, size_exp, …)` for `size_exp ≤ 6` (message.py:422-444):
`none` is `BadRequest("Block request out of bounds")`; otherwise the block option
`(number, more, size_exp)` and the slice `payload[start:end]`. -/
def extractBlock (payload : Bytes) (number szx : Nat) : Option (BlockOpt × Bytes) :=
  let size := 2 ^ (szx + 4)
  let start := number * size
  if start ≥ payload.length then none
  else
    let stop := if start + size < payload.length then start + size else payload.length
    let more := decide (stop < payload.length)
    some ({ num := number, more := more, szx := szx }, (payload.take stop).drop start)

end Aiocoap.BwClient
