/-!
Model of `aiocoap.util.asyncio.timeoutdict.TimeoutDict` (timeoutdict.py:13-71, including the
`__delitem__` added by the third C06 fix).

State of the Python object:
* `_items`             — the dictionary                      → `items` (association list)
* `_recently_accessed` — keys accessed since the last tick,
                         `None` while no timer is pending    → `recent` (`[]` when no timer)
* `_timeout`           — handle of the pending `call_later`  → `deadline` (absolute fire time)

Time is a `Nat` number of ticks.  The event loop is modelled by `advance`, which fires the
pending timer callbacks that are due at the current time, in order, before an operation
runs (`call_later(self.timeout, self._tick)` in `_start_over`).
-/
namespace Aiocoap.BwServer

-- association lists (dict semantics without needing key uniqueness) ----------------------

section
variable {κ : Type} {ν : Type} [DecidableEq κ]

/-- `d[k]` (`none` = `KeyError`) -/
def alookup (k : κ) : List (κ × ν) → Option ν
  | [] => none
  | (k', v) :: r => if k' = k then some v else alookup k r

/-- `d[k] = v` -/
def ainsert (k : κ) (v : ν) : List (κ × ν) → List (κ × ν)
  | [] => [(k, v)]
  | (k', v') :: r => if k' = k then (k, v) :: r else (k', v') :: ainsert k v r

/-- `del d[k]` -/
def aerase (k : κ) (l : List (κ × ν)) : List (κ × ν) := l.filter (fun p => decide (p.1 ≠ k))

end

/-- `TimeoutDict` -/
structure TD (κ : Type) (ν : Type) where
  items : List (κ × ν)
  recent : List κ
  deadline : Option Nat

namespace TD
variable {κ : Type} {ν : Type} [DecidableEq κ]

/-- `TimeoutDict(timeout)` (timeoutdict.py:24-37) -/
def empty : TD κ ν := { items := [], recent := [], deadline := none }

/-- `_accessed` (timeoutdict.py:55-61): without a pending timer `_start_over` arms one and starts
with an empty `_recently_accessed` (the key is *not* added); otherwise the key is recorded. -/
def accessed (T now : Nat) (td : TD κ ν) (k : κ) : TD κ ν :=
  match td.deadline with
  | none => { td with deadline := some (now + T), recent := [] }
  | some _ => { td with recent := k :: td.recent }

/-- `__getitem__` (timeoutdict.py:38-41): `none` is the `KeyError`, raised before `_accessed` -/
def get (T now : Nat) (td : TD κ ν) (k : κ) : Option (ν × TD κ ν) :=
  match alookup k td.items with
  | none => none
  | some v => some (v, td.accessed T now k)

/-- `__setitem__` (timeoutdict.py:43-45) -/
def set (T now : Nat) (td : TD κ ν) (k : κ) (v : ν) : TD κ ν :=
  ({ td with items := ainsert k v td.items } : TD κ ν).accessed T now k

/-- `__delitem__` (timeoutdict.py:47-48): `del self._items[key]`; `none` is the `KeyError`; no access is recorded -/
def del (td : TD κ ν) (k : κ) : Option (TD κ ν) :=
  match alookup k td.items with
  | none => none
  | some _ => some { td with items := aerase k td.items }

/-- in-place mutation of a stored value (the spool appends to the stored message object);
touches neither `_recently_accessed` nor the timer -/
def mutate (td : TD κ ν) (k : κ) (v : ν) : TD κ ν :=
  match alookup k td.items with
  | none => td
  | some _ => { td with items := ainsert k v td.items }

/-- `_tick` running at its deadline `d` (timeoutdict.py:63-71): keep what was accessed since the
timer was armed; re-arm (`call_later` from time `d`) when something is left -/
def tick (T : Nat) (td : TD κ ν) (d : Nat) : TD κ ν :=
  let kept := td.items.filter (fun p => decide (p.1 ∈ td.recent))
  if kept.isEmpty then { items := [], recent := [], deadline := none }
  else { items := kept, recent := [], deadline := some (d + T) }

/-- The event loop reaching time `now`: every due `_tick` runs, in order.  After one tick
`_recently_accessed` is empty, so a second one that is also due empties the dictionary and
no third can be pending (`advance_not_due` in `Proofs/Blockwise/C06TimeoutDict.lean`). -/
def advance (T now : Nat) (td : TD κ ν) : TD κ ν :=
  match td.deadline with
  | none => td
  | some d =>
    if d ≤ now then
      let td1 := td.tick T d
      match td1.deadline with
      | none => td1
      | some d1 => if d1 ≤ now then td1.tick T d1 else td1
    else td

/-- operations of a client of the dictionary -/
inductive Op (κ : Type) (ν : Type)
  | get (k : κ)
  | set (k : κ) (v : ν)
  | del (k : κ)
  | mutate (k : κ) (v : ν)

/-- the key an operation works on -/
def Op.key : Op κ ν → κ
  | .get k => k | .set k _ => k | .del k => k | .mutate k _ => k

/-- one operation at time `now` (timers first); failing `get`/`del` leave the state as it is -/
def apply (T : Nat) (td : TD κ ν) (now : Nat) (op : Op κ ν) : TD κ ν :=
  let td := td.advance T now
  match op with
  | .get k => match td.get T now k with | some (_, td') => td' | none => td
  | .set k v => td.set T now k v
  | .del k => match td.del k with | some td' => td' | none => td
  | .mutate k v => td.mutate k v

/-- a timed operation sequence -/
def runOps (T : Nat) (td : TD κ ν) : List (Nat × Op κ ν) → TD κ ν
  | [] => td
  | (now, op) :: rest => runOps T (td.apply T now op) rest

/-- `k in d._items` -/
def present (td : TD κ ν) (k : κ) : Bool := (alookup k td.items).isSome

end TD
end Aiocoap.BwServer
