import AiocoapModel.Blockwise.BlockOptC
/-!
Model of the block-wise client `aiocoap.protocol.BlockwiseRequest` (protocol.py):

* the Block1 loop of `_run` (protocol.py:914-1055 of the fixed tree): fragmentation threshold, `_extract_block`,
  the cursor update after an acknowledgement (one block, or the KiB of a BERT block) incl. the
  server's size reduction (a fix: the step from BERT to exponent 6 keeps the cursor, both count
  KiB), the checks
  (incl. "2.31 Continue without Block1 option" and "Successful response without Block1 option
  before the end of the body", protocol.py:959-982);
* `_complete_by_requesting_block2` (protocol.py:1140-1220) with
  `Message._generate_next_block2_request` and `Message._append_response_block`
  (message.py:476-531), incl. the refusal of a block larger than requested -- of the first
  response when the request itself asked for a block size (protocol.py:1157-1166) and of every
  later one (protocol.py:1207-1211);
* the application's optional size hint `block2=(0, False, szx)` in the request handed to the API
  (`Cfg.hint2`; what tests/test_blockwise.py::test_client_hints does): every request of the
  Block1 phase is a copy of the application's request and carries it.

The client is a machine `Phase` that has exactly one request outstanding until it is `done`;
`step` consumes the response to that request.  `runClient` folds `step` over a list of
responses (what the driver runs: the harness records the responses its reference server gave
to the real `BlockwiseRequest`), `RefServer.interact` closes the loop with the reference
server (what the theorems about conforming servers talk about).

* the deprecated way of choosing the Block1 size, `app_request.opt.block1 = (0, False, szx)`
  (`Cfg.hint1`; protocol.py:921-937): `size_exp` starts at the hint instead of the remote's
  maximum and every request goes through `_extract_block` -- also one that fits into one message,
  also an empty one.

Out of the model: the Observe option (protocol.py:1016-1031 cancels the lower
observation when an intermediate acknowledgement carries Observe and goes on: no influence on the
requests or the result, which is what the harness checks on requests with Observe:0), an application request that asks for a particular block itself (Block2
option with a block number other than 0), task / weak reference lifetime,
and loss or duplication of individual exchanges (the message layer's job; here every request gets
at most one response).
-/
namespace Aiocoap.BwClient

/-- What a request on the simulated wire is compared by. -/
structure Req where
  block1 : Option BlockOpt
  block2 : Option BlockOpt
  size1 : Option Nat
  payload : Bytes
deriving Repr, DecidableEq

/-- What the client looks at in a response. -/
structure Resp where
  code : Nat
  block1 : Option BlockOpt
  block2 : Option BlockOpt
  etag : Option Bytes
  payload : Bytes
deriving Repr, DecidableEq

/-- the message the `response` future is resolved with, reduced to what the property mentions -/
structure Body where
  code : Nat
  etag : Option Bytes
  payload : Bytes
deriving Repr, DecidableEq

/-- exception classes the runner can end with -/
inductive Err
  | unexpectedBlock1    -- error.UnexpectedBlock1Option
  | unexpectedBlock2    -- error.UnexpectedBlock2
  | notImplemented      -- error.NotImplemented (Block2 out of sequence)
  | resourceChanged     -- error.ResourceChanged
  | badRequest          -- error.BadRequest from _extract_block (shown unreachable)
  | assertion           -- AssertionError in _generate_next_block2_request (shown unreachable)
deriving Repr, DecidableEq

inductive Outcome
  | ok (b : Body)       -- response.set_result(...)
  | error (e : Err)     -- response.set_exception(...)
  | pending             -- no (further) response arrived: the future stays unresolved
deriving Repr, DecidableEq

/-- `app_request.payload`, `app_request.remote.maximum_block_size_exp`,
`app_request.remote.maximum_payload_size`, the size exponent of an application-preset
`app_request.opt.block2 = (0, False, hint2)` (`none`: the request carries no Block2 option), and
the size exponent of an application-preset `app_request.opt.block1 = (0, False, hint1)` (the
deprecated Block1 size hint; `none`: no Block1 option) -/
structure Cfg where
  payload : Bytes
  szx0 : Nat
  maxPayload : Nat
  hint2 : Option Nat := none
  hint1 : Option Nat := none
deriving Repr, DecidableEq

/-- protocol.py:919-937: `size_exp = app_request.remote.maximum_block_size_exp`, replaced by the
exponent of an application-preset Block1 option -/
def startSzx (cfg : Cfg) : Nat := cfg.hint1.getD cfg.szx0

/-- `app_request.opt.block2`: every request of the Block1 phase is `app_request` itself or a copy
made by `_extract_block` (message.py:441 `self.copy(payload=…, block1=…)`), so it carries it -/
def hintOpt (cfg : Cfg) : Option BlockOpt :=
  cfg.hint2.map fun h => { num := 0, more := false, szx := h }

/-- the local variables `size_exp`, `block_cursor` of `_run` -/
structure B1State where
  szx : Nat
  cursor : Nat
deriving Repr, DecidableEq

/-- `assembled_response`: first response plus appended payloads; `block2` is the option of the
last appended block (message.py:495) -/
structure Asm where
  code : Nat
  etag : Option Bytes
  payload : Bytes
  block2 : BlockOpt
deriving Repr, DecidableEq

inductive Phase
  | b1 (st : B1State) (cur : Req)                 -- Block1 loop, `cur` = current_block1 on the wire
  | b2 (template : Req) (asm : Asm) (cur : Req)   -- Block2 loop, `cur` = current_block2 on the wire
  | done (o : Outcome)
deriving Repr, DecidableEq

/-- `Code.is_successful` (numbers/codes.py:89-91) -/
def isSuccessful (code : Nat) : Bool := decide (64 ≤ code ∧ code < 96)

/-- `CONTINUE` = 2.31 -/
def codeContinue : Nat := 95

/-- protocol.py:914-918 -/
def threshold (cfg : Cfg) (szx : Nat) : Nat :=
  if szx ≥ 6 then cfg.maxPayload else 2 ^ (szx + 4)

/-- protocol.py:950-953: `app_request.opt.block1 is not None or len(app_request.payload) >
fragmentation_threshold` -/
def fragmented (cfg : Cfg) (szx : Nat) : Bool :=
  cfg.hint1.isSome || decide (cfg.payload.length > threshold cfg szx)

/-- protocol.py:943-961: the request of the current round of the Block1 loop; `none` is the
`BadRequest` of `_extract_block`. Size1 is set on block 0 only. -/
def nextRequest (cfg : Cfg) (st : B1State) : Option Req :=
  if fragmented cfg st.szx then
    match extractBlock cfg.payload st.cursor st.szx cfg.maxPayload with
    | none => none
    | some (b, bytes) =>
      some { block1 := some b, block2 := hintOpt cfg,
             size1 := if st.cursor = 0 then some cfg.payload.length else none,
             payload := bytes }
  else
    some { block1 := none, block2 := hintOpt cfg, size1 := none, payload := cfg.payload }

def enterB1 (cfg : Cfg) (st : B1State) : Phase :=
  match nextRequest cfg st with
  | none => .done (.error .badRequest)
  | some cur => .b1 st cur

/-- protocol.py:980-982 `while block1.size_exponent < size_exp: block_cursor *= 2; size_exp -= 1`;
arguments: the server's exponent, then `size_exp`, `block_cursor`; result `(size_exp, block_cursor)`. -/
def reduce (target : Nat) : Nat → Nat → Nat × Nat
  | 0, cursor => (0, cursor)
  | szx + 1, cursor => if target < szx + 1 then reduce target szx (cursor * 2) else (szx + 1, cursor)

/-- protocol.py:1024-1027: `if size_exp == 7: block_cursor += len(current_block1.payload) // 1024`
`else: block_cursor += 1` -/
def advance (st : B1State) (cur : Req) : Nat :=
  if st.szx = 7 then st.cursor + cur.payload.length / 1024 else st.cursor + 1

/-- protocol.py:1029-1036, the size reduction with the fix: BERT blocks are counted in the same
1024-byte units as blocks of exponent 6, so `if size_exp == 7 and block1.size_exponent < 7:
size_exp = 6` precedes the doubling loop. -/
def reduceB (target szx cursor : Nat) : Nat × Nat :=
  if szx = 7 ∧ target < 7 then reduce target 6 cursor else reduce target szx cursor

/-- `Message._generate_next_block2_request` (message.py:499-528); `none` is its assertion. The
request repeats the template (last Block1-phase request) with an empty payload, no Block1 and
the Block2 option capped to the client's maximum exponent. -/
def nextBlock2Request (clientMax : Nat) (template : Req) (asm : Asm) : Option Req :=
  let opt : BlockOpt :=
    { num := asm.payload.length / asm.block2.size, more := false, szx := asm.block2.szx }
  if opt.start ≠ asm.payload.length then none
  else some { block1 := none, block2 := some (opt.reducedTo clientMax),
              size1 := template.size1, payload := [] }

def enterB2 (cfg : Cfg) (template : Req) (asm : Asm) : Phase :=
  match nextBlock2Request cfg.szx0 template asm with
  | none => .done (.error .assertion)
  | some cur => .b2 template asm cur

/-- the block is larger than the one the request it answers asked for: protocol.py:1207
`block2.size_exponent > current_block2.opt.block2.size_exponent` (every request of the Block2 loop
carries a Block2 option) and protocol.py:1157-1161 `requested_block2 is not None and
initial_response.opt.block2.size_exponent > requested_block2.size_exponent` (the request that
ended the Block1 phase carries one iff the application preset it) -/
def szxGrows (cur : Req) (b2 : BlockOpt) : Bool :=
  match cur.block2 with
  | some q => decide (q.szx < b2.szx)
  | none => false

def bodyOf (r : Resp) : Body := { code := r.code, etag := r.etag, payload := r.payload }

/-- Entry of `_complete_by_requesting_block2` (protocol.py:1140-1181): a response without a
Block2 option is the result; otherwise the first block must start at offset 0 (after the fix:
whatever its more flag) and (after the fix) must not be larger than the block size the request
`template` asked for, if it asked for one; without the more flag it is the result; with it, it
must be number 0 and (after the fixes) of valid size and not empty. -/
def completeBlock2 (cfg : Cfg) (template : Req) (initial : Resp) : Phase :=
  match initial.block2 with
  | none => .done (.ok (bodyOf initial))
  | some b2 =>
    -- the application request carries no Block2 option or the size hint `(0, False, szx)`, so
    -- the expected start of the first block is 0 -- also for a block that claims to be the last
    if b2.start ≠ 0 then .done (.error .unexpectedBlock2)
    -- protocol.py:1157-1166 (the fix): "Block size larger than requested"
    else if szxGrows template b2 then .done (.error .unexpectedBlock2)
    else if !b2.more then .done (.ok (bodyOf initial))
    else if b2.num ≠ 0 then .done (.error .unexpectedBlock2)
    else if !b2.okFor initial.payload.length then .done (.error .unexpectedBlock2)
    else enterB2 cfg template
      { code := initial.code, etag := initial.etag, payload := initial.payload, block2 := b2 }

/-- the Block1 option describing the request on the wire; an unfragmented request counts as the
single final block 0 (protocol.py:963-970, after the fix) -/
def sentBlock1 (st : B1State) (cur : Req) : BlockOpt :=
  cur.block1.getD { num := 0, more := false, szx := st.szx }

/-- One response arrives for the outstanding request. -/
def step (cfg : Cfg) : Phase → Resp → Phase
  | .done o, _ => .done o
  | .b1 st cur, r =>
    match r.block1 with
    | none =>
      -- protocol.py:959-982: a 2.31 without the option is a protocol error (a fix), and so is
      -- every successful code when the block that was sent had the more flag (the fix:
      -- "Successful response without Block1 option before the end of the body"). Every other
      -- response ends the upload here (`break`): an unsuccessful one to whatever block (the
      -- request failed), a successful one to the final or only block ("Block1 option completely
      -- ignored by server, assuming it knows what it is doing": the whole body was sent)
      if r.code == codeContinue then .done (.error .unexpectedBlock1)
      else if isSuccessful r.code && (sentBlock1 st cur).more then .done (.error .unexpectedBlock1)
      else completeBlock2 cfg cur r
    | some a =>
      let sent := sentBlock1 st cur
      if a.num ≠ sent.num then .done (.error .unexpectedBlock1)   -- "Block number mismatch"
      else
        let sc := reduceB a.szx st.szx (advance st cur)    -- protocol.py:1024-1036
        if !sent.more then
          if a.more || r.code == codeContinue
          then .done (.error .unexpectedBlock1)            -- "Server asked for more data at end of body"
          else completeBlock2 cfg cur r
        else if a.more then enterB1 cfg { szx := sc.1, cursor := sc.2 }
        else if !(isSuccessful r.code) then completeBlock2 cfg cur r
        else enterB1 cfg { szx := sc.1, cursor := sc.2 }   -- intermediate result discarded
  | .b2 template asm cur, r =>
    match r.block2 with
    | none => .done (.ok (bodyOf r))                       -- "accepting single response"
    | some b2 =>
      -- protocol.py:1207-1211 (a fix): RFC 7959 2.4, never larger blocks than requested
      if szxGrows cur b2 then .done (.error .unexpectedBlock2)
      -- Message._append_response_block (message.py:480-510; the code comparison and the refusal
      -- of an empty non-final block are fixes)
      else if r.code ≠ asm.code then .done (.error .unexpectedBlock2)   -- "Response code changed"
      else if !b2.okFor r.payload.length then .done (.error .unexpectedBlock2)
      else if b2.start ≠ asm.payload.length then .done (.error .notImplemented)
      else if r.etag ≠ asm.etag then .done (.error .resourceChanged)
      else
        let asm' : Asm := { asm with payload := asm.payload ++ r.payload, block2 := b2 }
        if !b2.more then .done (.ok { code := asm'.code, etag := asm'.etag, payload := asm'.payload })
        else enterB2 cfg template asm'

/-- `_run` starts the Block1 loop with `size_exp = maximum_block_size_exp` (or the application's
Block1 hint), `block_cursor = 0` -/
def start (cfg : Cfg) : Phase := enterB1 cfg { szx := startSzx cfg, cursor := 0 }

/-- the request currently on the wire -/
def Phase.outstanding : Phase → Option Req
  | .b1 _ cur => some cur
  | .b2 _ _ cur => some cur
  | .done _ => none

/-- Feed responses one by one; returns the requests put on the wire and the outcome. Responses
left over after the end are ignored (nothing is outstanding any more). -/
def go (cfg : Cfg) : Phase → List Resp → List Req × Outcome
  | .done o, _ => ([], o)
  | .b1 _ cur, [] => ([cur], .pending)
  | .b2 _ _ cur, [] => ([cur], .pending)
  | .b1 st cur, r :: rs =>
    let res := go cfg (step cfg (.b1 st cur) r) rs
    (cur :: res.1, res.2)
  | .b2 t a cur, r :: rs =>
    let res := go cfg (step cfg (.b2 t a cur) r) rs
    (cur :: res.1, res.2)

/-- The whole transfer against a given sequence of responses. -/
def runClient (cfg : Cfg) (resps : List Resp) : List Req × Outcome := go cfg (start cfg) resps

end Aiocoap.BwClient
