import AiocoapModel.Basic.Bytes
/-!
Block option values as the block-wise *server* uses them:
`aiocoap.optiontypes.BlockOption` (optiontypes.py:156-246) and the block geometry of
`Message._extract_block` (message.py:424-431).

Namespace `Aiocoap.BwServer` (the client side, C05, lives in `Aiocoap.BwClient`).
-/
namespace Aiocoap.BwServer

/-- `BlockOption.BlockwiseTuple(block_number, more, size_exponent)` -/
structure Blk where
  num : Nat
  more : Bool
  szx : Nat
deriving Repr, DecidableEq

/-- `BlockwiseTuple.size`: `2 ** (min(size_exponent, 6) + 4)` (optiontypes.py:174-175) -/
def Blk.size (b : Blk) : Nat := 2 ^ (min b.szx 6 + 4)

/-- `BlockwiseTuple.start`: `block_number * size` (optiontypes.py:178-187) -/
def Blk.start (b : Blk) : Nat := b.num * b.size

/-- `BlockOption.decode`: `num = v >> 4`, `more = v & 8`, `szx = v & 7` (optiontypes.py:234-240) -/
def Blk.ofNat (v : Nat) : Blk := { num := v / 16, more := v / 8 % 2 = 1, szx := v % 8 }

/-- `BlockOption.encode`: `(num << 4) + more * 8 + szx` (optiontypes.py:226-232) -/
def Blk.toNat (b : Blk) : Nat := b.num * 16 + (if b.more then 8 else 0) + b.szx

/-- byte offset at which `_extract_block(number, size_exp, max_bert_size)` starts
(message.py:426-431; exponent 7 is BERT and counts in units of 1024) -/
def extractStart (num szx : Nat) : Nat :=
  if szx = 7 then num * 1024 else num * 2 ^ (szx + 4)

/-- number of bytes `_extract_block` takes at most: `1024 * (max_bert_size // 1024)` for BERT -/
def extractSize (szx maxPayload : Nat) : Nat :=
  if szx = 7 then 1024 * (maxPayload / 1024) else 2 ^ (szx + 4)

/-- `Code.is_request()`: class 0 and not EMPTY (numbers/codes.py) -/
def isRequestCode (c : Nat) : Bool := decide (1 ≤ c ∧ c < 32)

end Aiocoap.BwServer
