import AiocoapModel.Blockwise.Server
/-!
Requests whose handlers overlap in time.

`Server.lean` answers one request in one `step`: the handler is a function that is applied on the
spot.  In the code the handler is awaited — `assembled = await response_builder()` in
`Block2Cache.extract_or_insert` (blockwise.py:135-158), `res = await self.render(req)` in
`Resource._render_blockwise` (interfaces.py:443-452) — and while it is suspended other requests are
served, for the same block key too.  This file splits `step` at that `await`:

* `carrive`: a request reaches `_render_blockwise`.  Everything up to the `await` happens here: the
  timers that are due, `Block1Spool.feed_and_take` (synchronous, so Block1 blocks are assembled in
  the order in which they arrive), and for a request that asks for the beginning of a representation
  `mine = self._building[block_key] = object()` and the rendering kept under the block key is
  dropped; the handler is invoked (`seen`) and the request
  stays pending.  A request for a later block is answered at once: 4.08 when a request for the
  beginning under its block key is pending (`if block_key in self._building`), else from the kept
  rendering as in `extractOrInsert`.
* `cfinish`: the handler of a pending request returns or raises.  Everything after the `await`
  happens here: `latest = self._building.get(block_key) is mine`; only the latest request for the
  beginning stores its rendering.  (What was kept before went when the request arrived, so a request
  that ends without a rendering to keep — an exception, a return value that is no message, a short
  response — has nothing to drop.)

`Proofs/Blockwise/C06Overlap.lean` shows that an arrival immediately followed by its own completion
is exactly `step` (`carrive_cfinish_eq_step`), so the theorems about `step` are the special case of
handlers that do not suspend.
-/
namespace Aiocoap.BwServer

/-- a request whose handler has been invoked and has not returned yet -/
structure Pending where
  id : Nat          -- the token object `mine` (tokens are handed out in order of arrival)
  m : Msg           -- the request the handler was invoked with
  viaCache : Bool   -- suspended in `extract_or_insert` (true) / in `res = await self.render(req)` of a
                    -- resource that does its own block handling (false)
deriving Repr, DecidableEq

/-- one resource: spool and cache, `Block2Cache._building`, the suspended requests -/
structure CState where
  r : RState
  building : List (Key × Nat)
  pending : List Pending
  next : Nat

def CState.init : CState := { r := RState.init, building := [], pending := [], next := 0 }

/-- an arriving request (what the handler will answer is not known yet) -/
structure Arr where
  now : Nat
  assemble : Bool
  req : Msg

/-- what one event shows: the response put on the pipe (if any), the request the handler is invoked
with (if it is), and the token of the handler invocation that began / ended -/
structure COut where
  resp : Option Resp
  seen : Option Msg
  ticket : Option Nat
deriving Repr, DecidableEq

def COut.answer (r : Resp) : COut := { resp := some r, seen := none, ticket := none }

/-- `block_key in self._building` -/
def isBuilding (st : CState) (k : Key) : Bool := (alookup k st.building).isSome

/-- a request arrives -/
def carrive (T : Nat) (st : CState) (a : Arr) : CState × COut :=
  let sp := st.r.spool.advance T a.now
  let c := st.r.cache.advance T a.now
  if a.assemble then
    let f := feedAndTake T a.now sp a.req
    let st1 : CState := { st with r := { spool := f.1, cache := c } }
    match f.2 with
    | .cont b => (st1, .answer (errResp CONTINUE (some b)))
    | .incomplete => (st1, .answer (errResp REQUEST_ENTITY_INCOMPLETE none))
    | .badRequest => (st1, .answer (errResp BAD_REQUEST none))
    | .keyError => (st1, .answer (errResp INTERNAL_SERVER_ERROR none))
    | .pass m =>
      if isFresh m then
        -- `mine = self._building[block_key] = object()`; `await response_builder()`
        -- and `del self._completes[block_key]` (KeyError ignored): what is kept from an earlier
        -- request goes now, not when the handler ends
        ({ st1 with r := { spool := f.1, cache := delIf c (blockKey m) }
                    building := ainsert (blockKey m) st.next st.building
                    pending := st.pending ++ [{ id := st.next, m := m, viaCache := true }]
                    next := st.next + 1 },
         { resp := none, seen := some m, ticket := some st.next })
      else if isBuilding st (blockKey m) then
        -- the latest request for the beginning has no rendering yet
        (st1, .answer (errResp REQUEST_ENTITY_INCOMPLETE none))
      else
        -- the handler is not involved in answering a later block
        let e := extractOrInsert T a.now c m (fun _ => .error INTERNAL_SERVER_ERROR)
        ({ st1 with r := { spool := f.1, cache := e.1 } }, .answer (respondExtract m e.2.1))
  else
    ({ st with r := { spool := sp, cache := c }
               pending := st.pending ++ [{ id := st.next, m := a.req, viaCache := false }]
               next := st.next + 1 },
     { resp := none, seen := some a.req, ticket := some st.next })

/-- the part of `extract_or_insert` after the `await`, for a request for the beginning `m` whose
handler ended with `out`; `latest`: `self._building.get(block_key) is mine` -/
def afterBuild (T now : Nat) (c : TD Key Resp) (m : Msg) (out : Outcome) (latest : Bool) :
    TD Key Resp × Extract :=
  let k := blockKey m
  match out with
  | .error code => (c, .raised code)
  -- `len(assembled.payload)`: AttributeError, after `_building` has been cleared
  | .junk => (c, .raised INTERNAL_SERVER_ERROR)
  | .ok a =>
    if needsChunking m a.payload.length then
      (if latest then c.set T now k a else c, sliceOf a m)
    else (c, .ok a)

/-- the handler invoked under token `id` returns or raises at time `now` -/
def cfinish (T : Nat) (st : CState) (now id : Nat) (out : Outcome) : CState × COut :=
  match st.pending.find? (fun p => p.id == id) with
  | none => (st, { resp := none, seen := none, ticket := none })     -- no such invocation
  | some p =>
    let pending' := st.pending.filter (fun q => q.id != id)
    if p.viaCache then
      let k := blockKey p.m
      let latest := alookup k st.building == some id
      let e := afterBuild T now (st.r.cache.advance T now) p.m out latest
      ({ st with r := { spool := st.r.spool, cache := e.1 }
                 building := if latest then aerase k st.building else st.building
                 pending := pending' },
       { resp := some (respondExtract p.m e.2), seen := none, ticket := some id })
    else
      ({ st with pending := pending' },
       { resp := some (respondOutcome out), seen := none, ticket := some id })

/-- the events on one resource -/
inductive Ev
  | arrive (a : Arr)
  | finish (now id : Nat) (out : Outcome)

def cstep (T : Nat) (st : CState) : Ev → CState × COut
  | .arrive a => carrive T st a
  | .finish now id out => cfinish T st now id out

def crun (T : Nat) (st : CState) : List Ev → List COut
  | [] => []
  | e :: rest => let r := cstep T st e; r.2 :: crun T r.1 rest

def cstateAfter (T : Nat) (st : CState) : List Ev → CState
  | [] => st
  | e :: rest => cstateAfter T (cstep T st e).1 rest

end Aiocoap.BwServer
