import AiocoapModel.Blockwise.Client
/-!
An independent reference server for RFC 7959, written from the RFC and not from aiocoap's
server code: the specification the block-wise client is judged against.

* Block1 (RFC 7959 §2.5): a request block `(num, m, szx)` carries the bytes at offset
  `num · 2^(szx+4)`; the server appends it iff that offset is where the body received so far
  ends (block 0 restarts), answers 2.31 with `(num, 1, szx')` while `m` is set, and hands the
  reassembled body to the resource on the block without `m`. At every block it may ask for any
  size exponent `szx' ≤ szx` (late negotiation, §2.3); the choice is an input (`Choice`).
* Block2 (§2.4): the fixed representation `rep` is served in slices; a request for
  `(num, _, szx)` is answered with the block at the same byte offset `num · 2^(szx+4)` in
  any size `szx' ≤ szx`, with the more flag set iff bytes remain, and with the ETag.

* BERT (RFC 8323 §6) in requests is understood: a block option with exponent 7 counts its number in
  1024-byte units and a non-final Block1 block carries a positive whole number of KiB. The
  server's OWN exponents are 0..6 (it answers a BERT block asking for / using one of those).

`reassemble` is the same Block1 rule as a function of the whole list of requests.
`interact` closes the loop between the client machine and this server.
-/
namespace Aiocoap.BwClient

/-- what the server decides freely in one exchange: the size exponent it would like (it uses
`min` of this and the one of the request), and whether a representation that fits into one
block still gets a Block2 option -/
structure Choice where
  szx : Nat
  explicitB2 : Bool
deriving Repr, DecidableEq

structure Srv where
  rep : Bytes                 -- representation of the resource
  etag : Option Bytes
  code : Nat                  -- response code of the final response
  buf : Bytes                 -- Block1 body received so far
  recorded : Option Bytes     -- request body handed to the resource
deriving Repr, DecidableEq

def blockSize (szx : Nat) : Nat := 2 ^ (szx + 4)

/-- the length a NON-final Block1 block of exponent `szx` must have: exactly one block, or (BERT)
a positive whole number of KiB -/
def BlkLen (szx n : Nat) : Prop := if szx = 7 then 0 < n ∧ n % 1024 = 0 else n = blockSize szx

instance (szx n : Nat) : Decidable (BlkLen szx n) := by unfold BlkLen; infer_instance

/-- 4.00 / 4.08 without options -/
def plainResp (code : Nat) : Resp :=
  { code := code, block1 := none, block2 := none, etag := none, payload := [] }

/-- the block of `rep` at byte offset `off` in blocks of exponent `szx` -/
def sliceResp (s : Srv) (off szx : Nat) (b1 : Option BlockOpt) : Resp :=
  { code := s.code, block1 := b1,
    block2 := some { num := off / blockSize szx,
                     more := decide (off + blockSize szx < s.rep.length), szx := szx },
    etag := s.etag,
    payload := (s.rep.drop off).take (blockSize szx) }

/-- the size exponent of the first block of the representation: the server's choice, capped by
the size the request asked for in its Block2 option (§2.4), if it carries one -/
def respondSzx (reqB2 : Option BlockOpt) (c : Choice) : Nat :=
  min c.szx (match reqB2 with | some b => min b.szx 6 | none => 6)

/-- the request body is complete: record it and answer with (the first block of) `rep` -/
def Srv.respond (s : Srv) (body : Bytes) (ack : Option BlockOpt) (reqB2 : Option BlockOpt)
    (c : Choice) : Srv × Resp :=
  let s' := { s with buf := [], recorded := some body }
  let szx := respondSzx reqB2 c
  if s.rep.length > blockSize szx ∨ c.explicitB2 then (s', sliceResp s' 0 szx ack)
  else (s', { code := s.code, block1 := ack, block2 := none, etag := s.etag, payload := s.rep })

/-- Block1 handling of a request that is not a Block2 continuation -/
def Srv.body (s : Srv) (req : Req) (c : Choice) : Srv × Resp :=
  match req.block1 with
  | none => s.respond req.payload none req.block2 c
  | some b1 =>
    if b1.szx > 7 then (s, plainResp 128)
    else if b1.more ∧ ¬ BlkLen b1.szx req.payload.length then (s, plainResp 128)
    else
      let buf := if b1.num = 0 then [] else s.buf
      if b1.num * b1.size ≠ buf.length then ({ s with buf := [] }, plainResp 136)
      else
        let ack : BlockOpt := { num := b1.num, more := b1.more, szx := min c.szx (min b1.szx 6) }
        if b1.more then
          ({ s with buf := buf ++ req.payload },
           { code := codeContinue, block1 := some ack, block2 := none, etag := none, payload := [] })
        else s.respond (buf ++ req.payload) (some ack) req.block2 c

/-- one request, one response -/
def Srv.handle (s : Srv) (req : Req) (c : Choice) : Srv × Resp :=
  match req.block2 with
  | some b2 =>
    if b2.num ≠ 0 then
      -- continuation of a Block2 download
      if b2.szx > 7 then (s, plainResp 128) else
      let off := b2.num * b2.size
      if off ≥ s.rep.length then (s, plainResp 128)
      else (s, sliceResp s off (min c.szx (min b2.szx 6)) none)
    else s.body req c
  | none => s.body req c

/-- Block1 reassembly of a whole request sequence by offset: `none` as soon as a block does not
start where the body received so far ends (at `num · 2^(szx+4)`, BERT: `num · 1024`), or a
non-final block is not exactly one block (BERT: a positive whole number of KiB) long. -/
def reassemble (reqs : List Req) : Option Bytes := goR [] reqs
where
  goR (acc : Bytes) : List Req → Option Bytes
    | [] => some acc
    | r :: rs =>
      match r.block1 with
      | none => if acc.isEmpty ∧ rs.isEmpty then some r.payload else none
      | some b =>
        if b.szx > 7 then none
        else if b.num * b.size ≠ acc.length then none
        else if b.more ∧ ¬ BlkLen b.szx r.payload.length then none
        else goR (acc ++ r.payload) rs

/-- a finished or interrupted transfer as seen from outside -/
structure Run where
  reqs : List Req
  resps : List Resp
  srv : Srv
  outcome : Outcome
deriving Repr, DecidableEq

/-- Client and reference server talking to each other; one `Choice` per exchange. -/
def interact (cfg : Cfg) : Phase → Srv → List Choice → Run
  | .done o, s, _ => { reqs := [], resps := [], srv := s, outcome := o }
  | .b1 _ cur, s, [] => { reqs := [cur], resps := [], srv := s, outcome := .pending }
  | .b2 _ _ cur, s, [] => { reqs := [cur], resps := [], srv := s, outcome := .pending }
  | .b1 st cur, s, c :: cs =>
    let sr := s.handle cur c
    let run := interact cfg (step cfg (.b1 st cur) sr.2) sr.1 cs
    { run with reqs := cur :: run.reqs, resps := sr.2 :: run.resps }
  | .b2 t a cur, s, c :: cs =>
    let sr := s.handle cur c
    let run := interact cfg (step cfg (.b2 t a cur) sr.2) sr.1 cs
    { run with reqs := cur :: run.reqs, resps := sr.2 :: run.resps }

/-- a server that has not received anything yet -/
def Srv.init (rep : Bytes) (etag : Option Bytes) (code : Nat) : Srv :=
  { rep := rep, etag := etag, code := code, buf := [], recorded := none }

/-- the whole transfer against the reference server -/
def transfer (cfg : Cfg) (s : Srv) (cs : List Choice) : Run := interact cfg (start cfg) s cs

end Aiocoap.BwClient
