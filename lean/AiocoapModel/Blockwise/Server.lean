import AiocoapModel.Basic.Bytes
import AiocoapModel.Blockwise.BlockOpt
import AiocoapModel.Blockwise.TimeoutDict
/-!
Model of the block-wise server machinery, as of the thirteen `fix:` commits of C06 (audit F: a request
for the beginning drops the rendering kept under its block key when it arrives, so that a handler
that returns something that is not a message leaves nothing to serve either; the three of round 4:
the path a `Site` strips is part of the block key; an empty BERT block with the more flag fails the
size test; of overlapping requests for the beginning the latest decides — `Overlap.lean`) on top of the
pinned snapshot (ValueError → 4.08; later block never answered with the complete body; stale
rendering dropped when a newer complete response is sent; a final block longer than its block size
→ 4.00; a completed assembly leaves the spool; a kept rendering is dropped when the handler raises
on a newer request for the beginning; block 0 is held to its block size like every later block
→ 4.00; the assembled request carries the Block2 option of the FINAL block, absent if that block has
none; an observable resource runs block-wise requests through the same spool and cache):

* `_extract_block_key`                     aiocoap/blockwise.py:18-35
  (`remote.blockwise_key` of the UDP remote: transports/udp6.py:263-265)
* `Message.get_cache_key`                  aiocoap/message.py:382-415
* `Message._extract_block`                 aiocoap/message.py:423-446 (with the `and start > 0` of
  aa9f1cc at :432)
* `Message._append_request_block`          aiocoap/message.py:445-479
* `BlockwiseTuple.is_valid_for_payload_size`  aiocoap/optiontypes.py:194-203
* `Block1Spool.feed_and_take`              aiocoap/blockwise.py:60-101
* `Block2Cache.extract_or_insert`          aiocoap/blockwise.py:124-196
* `Resource._render_blockwise` / `_render_to_pipe`   aiocoap/interfaces.py:416-452
* the entry of `ObservableResource._render_to_pipe`  aiocoap/interfaces.py:500-530
  (`ObsEntry`, `obsIn`: which requests take the way of `Resource._render_to_pipe`, and that the
  first response of an observation is produced by the same `_render_blockwise`)
* rendering of the exceptions that leave `_render_to_pipe`
  (`ContinueException.to_message`, `ConstructionRenderableError.to_message`,
   `pipe.error_to_message`)               aiocoap/blockwise.py:38-57, error.py:82-99, pipe.py:232-285

`step` answers one request in one go: the handler is applied on the spot.  Handlers that suspend —
so that several requests of one resource are under way at once — are modelled in `Overlap.lean`
(`carrive` / `cfinish`, the same functions split at the `await`; an arrival completed on the spot is
`step`).  A handler maps the assembled request to a response message
or raises (`Outcome.error`: the code the exception is rendered with — `RenderableError.to_message().code`,
5.00 for any other exception).  Not modelled: token / message id / message type of the stored
request (`_append_request_block` copies them from the latest block), the diagnostic payload of
error responses, and of `ObservableResource._render_to_pipe` everything after the first response
(the Observe option put on it, notifications: C08).
-/
namespace Aiocoap.BwServer

/-- what the machinery reads of `message.remote` -/
structure Remote where
  key : Nat          -- `remote.blockwise_key`, abstracted to an identifier (equal ids ⇔ equal keys)
  maxPayload : Nat   -- `remote.maximum_payload_size`
  maxSzx : Nat       -- `remote.maximum_block_size_exp`
deriving Repr, DecidableEq

/-- an option other than Block1/Block2: number and (canonically encoded) value -/
abbrev Opt := Nat × Bytes

/-- a request message.  `opts` are all options except Block1 (27) and Block2 (23), in
`option_list()` order; the two block options are kept apart. -/
structure Msg where
  remote : Remote
  code : Nat
  opts : List Opt
  block1 : Option Blk
  block2 : Option Blk
  payload : Bytes
  /-- `message._original_request_path`: the Uri-Path the request arrived with, which a `Site` leaves
  on the path-stripped copy it hands to the resource (resource.py:400-444); `none` when the resource
  is given the message directly (no such attribute) -/
  origPath : Option (List Bytes) := none
deriving Repr, DecidableEq

/-- a response message -/
structure Resp where
  code : Nat
  opts : List Opt
  block1 : Option Blk
  block2 : Option Blk
  payload : Bytes
deriving Repr, DecidableEq

def OBSERVE : Nat := 6
def CONTINUE : Nat := 95                    -- 2.31
def BAD_REQUEST : Nat := 128                -- 4.00
def REQUEST_ENTITY_INCOMPLETE : Nat := 136  -- 4.08
def INTERNAL_SERVER_ERROR : Nat := 160      -- 5.00

/-- `OptionNumber.is_safetoforward() and OptionNumber.is_nocachekey()`
(optionnumbers.py:82-91): not `n & 2`, and `n & 0x1e == 0x1c` -/
def isNoCacheKey (n : Nat) : Bool := decide (n / 2 % 2 = 0 ∧ n / 2 % 16 = 14)

/-- options that enter `get_cache_key([BLOCK1, BLOCK2, OBSERVE])` (message.py:407-413);
Block1/Block2 are not in `opts` to begin with -/
def cacheKeyOpts (opts : List Opt) : List Opt :=
  opts.filter (fun o => !(o.1 == OBSERVE || isNoCacheKey o.1))

/-- `_extract_block_key`: `(remote.blockwise_key, code, getattr(message, "_original_request_path",
None), (code, cache-key options))` -/
structure Key where
  rkey : Nat
  code : Nat
  path : Option (List Bytes)
  opts : List Opt
deriving Repr, DecidableEq

def blockKey (m : Msg) : Key :=
  { rkey := m.remote.key, code := m.code, path := m.origPath, opts := cacheKeyOpts m.opts }

-- Block1 ---------------------------------------------------------------------------------

inductive AppendErr
  | valueError    -- `raise ValueError(...)`
  | badRequest    -- `raise error.BadRequest("Payload size does not match Block1")`
deriving Repr, DecidableEq

/-- the size test of `_append_request_block` (message.py:450-461), which is also
`BlockwiseTuple.is_valid_for_payload_size` (optiontypes.py:194-203) that `feed_and_take` applies to
block 0: a block with the more flag has exactly the block size (BERT: a multiple of 1024); a final
block of a size exponent below 7 is at most one block long (a final BERT block is not constrained).
A BERT block with the more flag is one or more whole blocks -- not none (`payloadsize > 0`). -/
def sizeOk (b : Blk) (len : Nat) : Bool :=
  if b.more then (len == b.size || (b.szx == 7 && len % b.size == 0 && decide (0 < len)))
  else (b.szx == 7 || decide (len ≤ b.size))

/-- `self._append_request_block(next_block)` with `b = next_block.opt.block1`:
request check, then the size check (→ 4.00), then `block1.start == len(self.payload)`
(else `ValueError`).  Token and message id of the stored message (also updated by the code)
are not modelled. -/
def appendRequestBlock (self next : Msg) (b : Blk) : Except AppendErr Msg :=
  if !isRequestCode self.code then .error .valueError
  else if !sizeOk b next.payload.length then .error .badRequest
  else if b.start = self.payload.length then
    .ok { self with
          payload := self.payload ++ next.payload
          block1 := some b
          -- message.py:467-472: the final block's Block2 option, also when it is absent
          block2 := if !b.more then next.block2 else self.block2 }
  else .error .valueError

/-- outcome of `Block1Spool.feed_and_take` -/
inductive Feed
  | pass (m : Msg)      -- returns the (re)assembled request
  | cont (b : Blk)      -- `ContinueException(block1)`
  | incomplete          -- `IncompleteException`
  | badRequest          -- `error.BadRequest`: block 0 in `feed_and_take`, later blocks out of
                        -- `_append_request_block`
  | keyError            -- a `KeyError` escaping from the final lookup (shown unreachable)
deriving Repr, DecidableEq

/-- how `feed_and_take` lets the errors of `_append_request_block` out: `ValueError` is caught
and becomes `IncompleteException` (the first C06 fix), `BadRequest` passes through -/
def feedOfErr : AppendErr → Feed
  | .valueError => .incomplete
  | .badRequest => .badRequest

/-- `try: del d[block_key]` / `except KeyError: pass`, and the plain `del d[block_key]` right
after a successful lookup of that key -/
def delIf {ν : Type} (c : TD Key ν) (k : Key) : TD Key ν :=
  match c.del k with | some c' => c' | none => c

/-- `Block1Spool.feed_and_take(req)` at time `now` (timers already run).  On a final block the
assembly is looked up (an access), deleted from the spool and returned (blockwise.py:91-96). -/
def feedAndTake (T now : Nat) (sp : TD Key Msg) (req : Msg) : TD Key Msg × Feed :=
  match req.block1 with
  | none => (sp, .pass req)
  | some b =>
    let k := blockKey req
    let stored : Except (TD Key Msg × Feed) (TD Key Msg) :=
      if b.num = 0 then
        -- blockwise.py:77-84: `is_valid_for_payload_size` (the same test as `sizeOk`), checked
        -- before anything is stored or looked up
        if !sizeOk b req.payload.length then .error (sp, .badRequest)
        -- silently discarding any old incomplete operation
        else .ok (sp.set T now k req)
      else
        match sp.get T now k with
        | none => .error (sp, .incomplete)
        | some (self, sp1) =>
          match appendRequestBlock self req b with
          | .error e => .error (sp1, feedOfErr e)
          | .ok self' => .ok (sp1.mutate k self')
    match stored with
    | .error r => r
    | .ok sp2 =>
      if b.more then (sp2, .cont b)
      else
        match sp2.get T now k with
        | some (m, sp3) => (delIf sp3 k, .pass m)
        | none => (sp2, .keyError)

-- Block2 ---------------------------------------------------------------------------------

/-- `assembled._extract_block(number, size_exp, max_bert_size)`; `none` is
`error.BadRequest("Block request out of bounds")` -/
def extractBlock (a : Resp) (num szx maxPayload : Nat) : Option Resp :=
  let start := extractStart num szx
  let size := extractSize szx maxPayload
  let len := a.payload.length
  -- message.py:435: `if start >= len(self.payload) and start > 0` (aa9f1cc: an empty body has its
  -- block 0).  Not reachable through `extract_or_insert`: a kept rendering needed chunking and a
  -- request without Block2 or with block 0 of a short body is answered whole.
  if start ≥ len ∧ start > 0 then none
  else
    let stop := if start + size < len then start + size else len
    let more := decide (stop < len)
    let payload := (a.payload.drop start).take (stop - start)
    let blk : Blk := { num := num, more := more, szx := szx }
    if isRequestCode a.code then some { a with payload := payload, block1 := some blk }
    else some { a with payload := payload, block2 := some blk }

/-- what the handler does with a request: a response message, or an exception given by the code
of the message it is rendered as (`pipe.error_to_message`) -/
inductive Outcome
  | ok (r : Resp)
  | error (code : Nat)
  /-- `render` returns something that is not a message (`None`, a `str`, …): a resource written
  against `interfaces.Resource` directly (`resource.Resource.render` looks at `response.code` and
  raises by itself).  `len(assembled.payload)` raises `AttributeError` right after the `await`
  (blockwise.py:172-174), rendered 5.00 -/
  | junk
deriving Repr, DecidableEq

/-- the response code an outcome is answered with -/
def Outcome.code : Outcome → Nat
  | .ok r => r.code
  | .error c => c
  | .junk => INTERNAL_SERVER_ERROR

inductive Extract
  | ok (r : Resp)
  | incomplete      -- `IncompleteException`
  | badRequest      -- `error.BadRequest` out of `_extract_block`
  | raised (code : Nat)   -- the exception of `response_builder()`, re-raised
deriving Repr, DecidableEq

/-- the chunking condition of `extract_or_insert` (blockwise.py:130-139, fixed) -/
def needsChunking (req : Msg) (len : Nat) : Bool :=
  decide (len > req.remote.maxPayload) ||
    (match req.block2 with
     | none => false
     | some b => decide (len > b.size) || decide (b.num ≠ 0))

/-- a request for the beginning of a representation (`block2 is None or block_number == 0`):
the response builder is awaited -/
def isFresh (req : Msg) : Bool :=
  match req.block2 with | none => true | some b => decide (b.num = 0)

/-- `req.opt.block2 or BlockwiseTuple(0, 0, req.remote.maximum_block_size_exp)` -/
def governing (req : Msg) : Blk :=
  match req.block2 with
  | some b => b
  | none => { num := 0, more := false, szx := req.remote.maxSzx }

/-- `assembled._extract_block(block2.block_number, block2.size_exponent, maximum_payload_size)` -/
def sliceOf (a : Resp) (req : Msg) : Extract :=
  match extractBlock a (governing req).num (governing req).szx req.remote.maxPayload with
  | some r => .ok r
  | none => .badRequest

/-- `Block2Cache.extract_or_insert(req, response_builder)` at time `now`.
Third component: whether `response_builder` (the handler) was awaited.  A request for the beginning
drops the rendering kept under its block key before the handler is awaited (blockwise.py:146-154):
whatever the handler does — return a message, raise, return something that is no message — an older
rendering serves no later block. -/
def extractOrInsert (T now : Nat) (c : TD Key Resp) (req : Msg) (render : Msg → Outcome) :
    TD Key Resp × Extract × Bool :=
  let k := blockKey req
  let looked : Except (TD Key Resp × Extract × Bool) (Resp × TD Key Resp) :=
    if isFresh req then
      match render req with
      | .ok a => .ok (a, delIf c k)
      | .error code => .error (delIf c k, .raised code, true)
      | .junk => .error (delIf c k, .raised INTERNAL_SERVER_ERROR, true)
    else
      match c.get T now k with
      | some r => .ok r
      | none => .error (c, .incomplete, false)
  match looked with
  | .error r => r
  | .ok (a, c1) =>
    if needsChunking req a.payload.length then
      (c1.set T now k a, sliceOf a req, isFresh req)
    else
      -- a complete response: nothing is kept (an earlier rendering went at arrival; a request for a
      -- later block does not get here, `needsChunking` holds for it)
      (c1, .ok a, isFresh req)

-- Resource._render_to_pipe -----------------------------------------------------------------

/-- per-resource state: `self._block1._assemblies`, `self._block2._completes` -/
structure RState where
  spool : TD Key Msg
  cache : TD Key Resp

def RState.init : RState := { spool := TD.empty, cache := TD.empty }

/-- one incoming request: arrival time, `needs_blockwise_assembly(req)`, the request and what
`render` would answer at this moment (so renderings may vary over time) -/
structure In where
  now : Nat
  assemble : Bool
  req : Msg
  render : Msg → Outcome

/-- what is observable of one request: the response put on the pipe, and the request the
handler was invoked with (if it was) -/
structure StepOut where
  resp : Resp
  seen : Option Msg
deriving Repr, DecidableEq

/-- the message an exception leaving `_render_to_pipe` is turned into (diagnostic payload
text not modelled) -/
def errResp (code : Nat) (block1 : Option Blk) : Resp :=
  { code := code, opts := [], block1 := block1, block2 := none, payload := [] }

/-- what `_render_to_pipe` puts on the pipe after `extract_or_insert`: the (sliced) response with
`res.opt.block1 = req.opt.block1`, or the rendered exception (which leaves `_render_to_pipe`
before the Block1 option is set) -/
def respondExtract (m : Msg) : Extract → Resp
  | .ok r => { r with block1 := m.block1 }
  | .incomplete => errResp REQUEST_ENTITY_INCOMPLETE none
  | .badRequest => errResp BAD_REQUEST none
  | .raised code => errResp code none

/-- the response to a request the handler was invoked with directly (no block-wise assembly) -/
def respondOutcome : Outcome → Resp
  | .ok r => r
  | .error code => errResp code none
  -- (a resource without block-wise assembly puts what `render` returned on the pipe as it is; what
  -- becomes of a non-message there is not claimed: the driver answers `out-of-model`)
  | .junk => errResp INTERNAL_SERVER_ERROR none

/-- `Resource._render_to_pipe` for one request, preceded by the timers of both dictionaries
that are due at its arrival time -/
def step (T : Nat) (st : RState) (i : In) : RState × StepOut :=
  let sp := st.spool.advance T i.now
  let c := st.cache.advance T i.now
  if i.assemble then
    let f := feedAndTake T i.now sp i.req
    match f.2 with
    | .cont b => ({ spool := f.1, cache := c }, { resp := errResp CONTINUE (some b), seen := none })
    | .incomplete =>
      ({ spool := f.1, cache := c }, { resp := errResp REQUEST_ENTITY_INCOMPLETE none, seen := none })
    | .badRequest =>
      ({ spool := f.1, cache := c }, { resp := errResp BAD_REQUEST none, seen := none })
    | .keyError =>
      ({ spool := f.1, cache := c }, { resp := errResp INTERNAL_SERVER_ERROR none, seen := none })
    | .pass m =>
      let e := extractOrInsert T i.now c m i.render
      ({ spool := f.1, cache := e.1 },
       { resp := respondExtract m e.2.1, seen := if e.2.2 then some m else none })
  else
    ({ spool := sp, cache := c }, { resp := respondOutcome (i.render i.req), seen := some i.req })

/-- a whole request sequence against one resource -/
def run (T : Nat) (st : RState) : List In → List StepOut
  | [] => []
  | i :: rest => let r := step T st i; r.2 :: run T r.1 rest

/-- the state after a request sequence -/
def stateAfter (T : Nat) (st : RState) : List In → RState
  | [] => st
  | i :: rest => stateAfter T (step T st i).1 rest

-- ObservableResource._render_to_pipe (its entry) ------------------------------------------------

/-- `pipe.request.opt.observe == 0`: the first Observe option (number 6) of the request has the
value 0, i.e. the empty value in canonical encoding (`_single_value_view`: options.py:44-60) -/
def observeZero (req : Msg) : Bool :=
  match req.opts.find? (fun o => o.1 == OBSERVE) with
  | some o => o.2.isEmpty
  | none => false

/-- the two ways through `ObservableResource._render_to_pipe` -/
inductive ObsEntry
  | plain     -- `return await Resource._render_to_pipe(self, pipe)`: no observation is set up
  | observe   -- `add_observation(...)`, then `first_response = await self._render_blockwise(req)`
deriving Repr, DecidableEq

/-- interfaces.py:503-516: only a request with Observe: 0 that carries no Block1 option and asks for
the beginning of the representation enters the observation branch.  Either way the response (the
first response of the observation) is produced by `Resource._render_blockwise`, i.e. by `step`. -/
def obsEntry (req : Msg) : ObsEntry :=
  if !observeZero req || req.block1.isSome || !isFresh req then .plain else .observe

end Aiocoap.BwServer
