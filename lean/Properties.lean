import Properties.C12
