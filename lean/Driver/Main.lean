import AiocoapModel.Driver.C01
import AiocoapModel.Driver.C02
import AiocoapModel.Driver.C03
import AiocoapModel.Driver.C04
import AiocoapModel.Driver.C05
import AiocoapModel.Driver.C06
import AiocoapModel.Driver.C07
import AiocoapModel.Driver.C08
import AiocoapModel.Driver.C09
import AiocoapModel.Driver.C10
import AiocoapModel.Driver.C11
import AiocoapModel.Driver.C12
import AiocoapModel.Driver.C13
import AiocoapModel.Driver.C14
import AiocoapModel.Driver.C15
import AiocoapModel.Driver.C16
import AiocoapModel.Driver.C17
import AiocoapModel.Driver.C18
import AiocoapModel.Driver.C19
import AiocoapModel.Driver.C20
/-!
Model driver: one operation per input line (`<property> <args…>`), one output line each.
Every line is self-contained (a stateful model receives its whole operation sequence on the
line), so the driver itself is stateless.
-/
open Aiocoap Aiocoap.Oscore

def dispatch (line : String) : String :=
  match words line with
  | [] => "bad-op"
  | p :: args =>
    match p with
    | "C01" => handleC01 args | "C02" => handleC02 args | "C03" => handleC03 args
    | "C04" => handleC04 args | "C05" => handleC05 args | "C06" => handleC06 args
    | "C07" => handleC07 args | "C08" => handleC08 args | "C09" => handleC09 args
    | "C10" => handleC10 args | "C11" => handleC11 args | "C12" => handleC12 args
    | "C13" => handleC13 args | "C14" => handleC14 args | "C15" => handleC15 args
    | "C16" => handleC16 args | "C17" => handleC17 args | "C18" => handleC18 args
    | "C19" => handleC19 args | "C20" => handleC20 args
    | _ => "bad-op"

def stripEol (s : String) : String :=
  String.ofList ((s.toList.reverse.dropWhile (fun c => c = '\n' || c = '\r')).reverse)

partial def loop (h : IO.FS.Stream) (out : IO.FS.Stream) : IO Unit := do
  let line ← h.getLine
  if line.isEmpty then return ()
  out.putStrLn (dispatch (stripEol line))
  loop h out

def main : IO Unit := do
  let out ← IO.getStdout
  loop (← IO.getStdin) out
  out.flush
