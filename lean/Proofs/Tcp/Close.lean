import Proofs.Tcp.Signal
/-!
The shape of everything a connection outputs while it receives: messages handed over and Pong
frames for as long as the loop goes on, then — at most once, and last — either an Abort frame
and `close`, or the peer's Release/Abort: pending requests failed and `close`.  From this follow
"nothing after a close", "at most one Abort", and that a close is final for every chunking.
-/
set_option linter.unusedSimpArgs false
namespace Aiocoap.Tcp

/-- the Pong the connection answers a Ping with -/
def pongMsg (tok : Bytes) : Msg := { code := codePong, token := tok, opts := [], payload := [] }

/-- outputs of an iteration after which the loop goes on: a message handed to the token
manager, a Pong frame (or the failure to serialise one, which `C15_never_send_error` excludes) -/
inductive Benign : Out → Prop
  | request (m : Msg) : Benign (.request m)
  | response (m : Msg) : Benign (.response m)
  | pong (tok w : Bytes) : serialize (pongMsg tok) = some w → Benign (.write w)
  | sendError : Benign .sendError

/-- how a receive loop that returns ends: an Abort is sent and the transport closed, or the
peer's Release/Abort is passed on to the pending requests and the transport closed -/
inductive StopOuts : List Out → Prop
  | abort (t : Bytes) (bad : Option Nat) : StopOuts (abortOuts t bad)
  | peer (k : FailKind) : StopOuts [.failPending k, .close]

theorem sendMessage_no_close (m : Msg) : (sendMessage m).any Out.isClose = false := by
  unfold sendMessage
  split <;> rfl

theorem Benign.not_close {o : Out} (h : Benign o) : o.isClose = false := by
  cases h <;> rfl

theorem benign_no_close {l : List Out} (h : ∀ x ∈ l, Benign x) : l.any Out.isClose = false := by
  induction l with
  | nil => rfl
  | cons x xs ih =>
    simp only [List.any_cons, Bool.or_eq_false_iff]
    exact ⟨(h x List.mem_cons_self).not_close, ih (fun y hy => h y (List.mem_cons_of_mem _ hy))⟩

theorem benign_nil : ∀ x ∈ ([] : List Out), Benign x := fun x hx => by cases hx

theorem sendPong_benign (tok : Bytes) : ∀ x ∈ sendMessage (pongMsg tok), Benign x := by
  intro x hx
  unfold sendMessage at hx
  split at hx
  · rename_i b hb
    simp only [List.mem_singleton] at hx
    subst hx
    exact .pong tok b hb
  · simp only [List.mem_singleton] at hx
    subst hx
    exact .sendError

theorem deliver_benign (m : Msg) : ∀ x ∈ deliver m, Benign x := by
  intro x hx
  unfold deliver dispatchIncoming at hx
  split at hx
  · cases hx
  · split at hx <;> simp only [List.mem_singleton] at hx <;> subst hx
    · exact .response m
    · exact .request m

/-- signalling outputs either keep the transport open and are benign, or are a stop tail -/
theorem sigOuts_shape {c : Conn} {m : Msg} {outs : List Out} (h : SigOuts c m outs) :
    (outs.any Out.isClose = false ∧ ∀ x ∈ outs, Benign x) ∨
    (outs.any Out.isClose = true ∧ StopOuts outs) := by
  cases h with
  | csmBad s n => right; exact ⟨abortOuts_any_close _ _, .abort _ _⟩
  | crit => right; exact ⟨abortOuts_any_close _ _, .abort _ _⟩
  | unknown => right; exact ⟨abortOuts_any_close _ _, .abort _ _⟩
  | pong => left; exact ⟨sendMessage_no_close _, sendPong_benign m.token⟩
  | none => left; exact ⟨rfl, fun x hx => by cases hx⟩
  | release => right; exact ⟨rfl, .peer _⟩
  | abort => right; exact ⟨rfl, .peer _⟩

/-- a continuing iteration outputs benign things only -/
theorem step_next_benign {c c' : Conn} {o : List Out} (h : step c = .next c' o) :
    ∀ x ∈ o, Benign x := by
  rcases step_cases c with ⟨hw, _⟩ | ⟨_, _, _, _, _, hs⟩ | ⟨_, _, _, _, _, _, _, hs⟩ |
    ⟨to, tkl, len, m, _, _, _, _, ⟨_, _, hs⟩ | ⟨_, hcl, hs⟩ | ⟨_, _, hs⟩ | ⟨_, _, hs⟩⟩
  · rw [hw] at h; cases h
  · rw [hs] at h; cases h
  · rw [hs] at h; cases h
  · rw [hs] at h; cases h
  · rw [hs] at h
    simp only [Step.next.injEq] at h
    rw [← h.2]
    rcases processSignaling_cases (c.consume (to + tkl + len)) m with
      ⟨s, _, _, hp⟩ | ⟨outs, hp, hso⟩
    · rw [hp]; intro x hx; cases hx
    · rw [hp] at hcl ⊢
      rcases sigOuts_shape hso with ⟨_, hb⟩ | ⟨hany, _⟩
      · exact hb
      · simp [hany] at hcl
  · rw [hs] at h; cases h
  · rw [hs] at h
    simp only [Step.next.injEq] at h
    rw [← h.2]
    exact deliver_benign m

/-- a returning iteration of an open connection ends in one of the two stop tails -/
theorem step_stop_outs {c c' : Conn} {o : List Out} (h : step c = .stop c' o)
    (hopen : c.closed = false) : StopOuts o := by
  rcases step_cases c with ⟨hw, _⟩ | ⟨_, _, _, _, _, hs⟩ | ⟨_, _, _, _, _, _, _, hs⟩ |
    ⟨to, tkl, len, m, _, _, _, _, ⟨_, hcl, hs⟩ | ⟨_, _, hs⟩ | ⟨_, _, hs⟩ | ⟨_, _, hs⟩⟩
  · rw [hw] at h; cases h
  · rw [hs] at h; simp only [Step.stop.injEq] at h; rw [← h.2]; exact .abort _ _
  · rw [hs] at h; simp only [Step.stop.injEq] at h; rw [← h.2]; exact .abort _ _
  · rw [hs] at h
    simp only [Step.stop.injEq] at h
    rw [← h.2]
    rcases processSignaling_cases (c.consume (to + tkl + len)) m with
      ⟨s, _, _, hp⟩ | ⟨outs, hp, hso⟩
    · rw [hp] at hcl
      simp [hopen] at hcl
    · rw [hp] at hcl ⊢
      rcases sigOuts_shape hso with ⟨hany, _⟩ | ⟨_, hst⟩
      · simp [hany, hopen] at hcl
      · exact hst
  · rw [hs] at h; cases h
  · rw [hs] at h; simp only [Step.stop.injEq] at h; rw [← h.2]; exact .abort _ _
  · rw [hs] at h; cases h

/-- **Shape of one `data_received`** on an open connection: benign outputs, then nothing (the
loop waits, the transport stays open) or one stop tail (the loop returned, the transport is
closing). -/
theorem drain_shape : ∀ (n : Nat) (c : Conn), c.spool.length < n → c.closed = false →
    ∃ init tail, (drain c).2.1 = init ++ tail ∧ (∀ x ∈ init, Benign x) ∧
      (((drain c).2.2 = false ∧ tail = [] ∧ (drain c).1.closed = false) ∨
       ((drain c).2.2 = true ∧ StopOuts tail ∧ (drain c).1.closed = true)) := by
  intro n
  induction n with
  | zero => intro c h; omega
  | succ n ih =>
    intro c hlt hopen
    cases hs : step c with
    | wait =>
      have hd : drain c = (c, [], false) := by rw [drain_eq, hs]
      rw [hd]
      exact ⟨[], [], rfl, benign_nil, Or.inl ⟨rfl, rfl, hopen⟩⟩
    | stop c' o =>
      have hd : drain c = (c', o, true) := by rw [drain_eq, hs]
      rw [hd]
      exact ⟨[], o, rfl, benign_nil,
        Or.inr ⟨rfl, step_stop_outs hs hopen, ((step_closed c).2 c' o hs).1⟩⟩
    | next c' o =>
      have hlt' := (step_next_lt hs).1
      have hd : drain c = ((drain c').1, o ++ (drain c').2.1, (drain c').2.2) := by
        rw [drain_eq, hs]
      have hopen' : c'.closed = false := by rw [(step_next_open hs).1, hopen]
      obtain ⟨init, tail, e, hb, hcase⟩ := ih c' (by omega) hopen'
      rw [hd]
      refine ⟨o ++ init, tail, by simp [e], fun x hx => ?_, hcase⟩
      rcases List.mem_append.mp hx with hx | hx
      · exact step_next_benign hs x hx
      · exact hb x hx

/-- **Shape of a whole receive history** of an open connection, for every chunk sequence. -/
theorem feedAll_shape : ∀ (cs : List Bytes) (c : Conn), c.closed = false →
    ∃ init tail, (feedAll c cs).2 = init ++ tail ∧ (∀ x ∈ init, Benign x) ∧
      ((tail = [] ∧ (feedAll c cs).1.closed = false) ∨
       (StopOuts tail ∧ (feedAll c cs).1.closed = true)) := by
  intro cs
  induction cs with
  | nil =>
    intro c hopen
    exact ⟨[], [], rfl, benign_nil, Or.inl ⟨rfl, hopen⟩⟩
  | cons y ys ih =>
    intro c hopen
    simp only [feedAll, hopen, Bool.false_eq_true, ↓reduceIte]
    obtain ⟨init, tail, e, hb, hcase⟩ :=
      drain_shape ((c.app y).spool.length + 1) (c.app y) (by omega) (by simpa using hopen)
    rcases hcase with ⟨_, htail, hcl⟩ | ⟨_, hst, hcl⟩
    · obtain ⟨init', tail', e', hb', hcase'⟩ := ih (feed c y).1 hcl
      refine ⟨init ++ init', tail', ?_, fun x hx => ?_, hcase'⟩
      · rw [e', feed_eq]
        simp only [e, htail, List.append_nil, List.append_assoc]
      · rcases List.mem_append.mp hx with hx | hx
        · exact hb x hx
        · exact hb' x hx
    · have hcl' : (feed c y).1.closed = true := hcl
      rw [feedAll_closed hcl']
      refine ⟨init, tail, ?_, hb, Or.inr ⟨hst, hcl'⟩⟩
      rw [feed_eq]
      simp only [e, List.append_nil]

-- ---------------------------------------------------------------------------------------------
-- the close is the last output

theorem stopOuts_close_last {tail : List Out} (h : StopOuts tail) :
    ∃ pre, tail = pre ++ [.close] ∧ pre.any Out.isClose = false := by
  cases h with
  | abort t bad => exact ⟨sendMessage (abortMsg t bad), rfl, sendMessage_no_close _⟩
  | peer k => exact ⟨[.failPending k], rfl, rfl⟩

/-- a list with exactly one close can be split at a close in one way only -/
theorem close_unique : ∀ (init rest pre post : List Out), init.any Out.isClose = false →
    rest.any Out.isClose = false →
    pre ++ .close :: post = init ++ .close :: rest → pre = init ∧ post = rest := by
  intro init
  induction init with
  | nil =>
    intro rest pre post _ hrest h
    cases pre with
    | nil => simp at h; exact ⟨rfl, h⟩
    | cons p ps =>
      simp only [List.cons_append, List.nil_append, List.cons.injEq] at h
      rw [← h.2] at hrest
      simp [Out.isClose] at hrest
  | cons i is ih =>
    intro rest pre post hno hrest h
    simp only [List.any_cons, Bool.or_eq_false_iff] at hno
    cases pre with
    | nil =>
      simp only [List.nil_append, List.cons_append, List.cons.injEq] at h
      rw [← h.1] at hno
      simp [Out.isClose] at hno
    | cons p ps =>
      simp only [List.cons_append, List.cons.injEq] at h
      obtain ⟨r1, r2⟩ := ih rest ps post hno.2 hrest h.2
      exact ⟨by rw [h.1, r1], r2⟩

/-- **Nothing after a close.**  Whatever an open connection is fed, in whatever chunks: if a
`close` is among its outputs, it is the last of them. -/
theorem feedAll_close_last (c : Conn) (hopen : c.closed = false) (cs : List Bytes)
    (pre post : List Out) (h : (feedAll c cs).2 = pre ++ .close :: post) : post = [] := by
  obtain ⟨init, tail, e, hb, hcase⟩ := feedAll_shape cs c hopen
  rcases hcase with ⟨htail, _⟩ | ⟨hst, _⟩
  · subst htail
    have hno := benign_no_close hb
    rw [List.append_nil] at e
    rw [← e, h] at hno
    simp [Out.isClose] at hno
  · obtain ⟨tp, htp, hno⟩ := stopOuts_close_last hst
    have hno' : (init ++ tp).any Out.isClose = false := by
      simp [List.any_append, benign_no_close hb, hno]
    have : pre ++ .close :: post = (init ++ tp) ++ .close :: [] := by
      rw [← h, e, htp, List.append_assoc]
    exact (close_unique _ _ _ _ hno' rfl this).2

-- ---------------------------------------------------------------------------------------------
-- at most one Abort

/-- the output is the write of a frame that decodes to an Abort message (7.05) -/
def Out.isAbortWrite : Out → Bool
  | .write b =>
    match decodeMessage b with
    | some m => m.code = codeAbort
    | none => false
  | _ => false

theorem Benign.not_abortWrite {o : Out} (h : Benign o) : o.isAbortWrite = false := by
  cases h with
  | request m => rfl
  | response m => rfl
  | sendError => rfl
  | pong tok w hw =>
    have hl : (pongMsg tok).legal := Msg.legal_of_no_opts rfl
    obtain ⟨hd, _, _⟩ := decodeMessage_of_message hl (serialize_message hw)
    simp [Out.isAbortWrite, hd, pongMsg, codePong, codeAbort]

theorem benign_no_abortWrite {l : List Out} (h : ∀ x ∈ l, Benign x) :
    l.filter Out.isAbortWrite = [] := by
  rw [List.filter_eq_nil_iff]
  intro x hx
  simp [(h x hx).not_abortWrite]

theorem sendMessage_length_le (m : Msg) : (sendMessage m).length ≤ 1 := by
  unfold sendMessage
  split <;> simp

theorem stopOuts_abortWrites {tail : List Out} (h : StopOuts tail) :
    (tail.filter Out.isAbortWrite).length ≤ 1 := by
  cases h with
  | abort t bad =>
    simp only [abortOuts, List.filter_append]
    have h1 : ((sendMessage (abortMsg t bad)).filter Out.isAbortWrite).length ≤ 1 :=
      Nat.le_trans (List.length_filter_le _ _) (sendMessage_length_le _)
    have h2 : ([Out.close].filter Out.isAbortWrite) = [] := rfl
    simp only [h2, List.append_nil]
    exact h1
  | peer k => simp [List.filter, Out.isAbortWrite]

/-- **At most one Abort**, over any chunk history of an open connection. -/
theorem feedAll_single_abort (c : Conn) (hopen : c.closed = false) (cs : List Bytes) :
    ((feedAll c cs).2.filter Out.isAbortWrite).length ≤ 1 := by
  obtain ⟨init, tail, e, hb, hcase⟩ := feedAll_shape cs c hopen
  rw [e, List.filter_append, benign_no_abortWrite hb, List.nil_append]
  rcases hcase with ⟨htail, _⟩ | ⟨hst, _⟩
  · subst htail; simp
  · exact stopOuts_abortWrites hst

end Aiocoap.Tcp
