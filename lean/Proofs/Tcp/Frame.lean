import AiocoapModel.Tcp.Frame
import AiocoapModel.Tcp.Rfc8323
/-!
Helper lemmas about the TCP framing model: a readable header is stable under appending,
the extended-length and extended-field codecs invert each other, option list round trip,
frame round trip.
-/
set_option linter.unusedSimpArgs false
namespace Aiocoap.Tcp

-- ---------------------------------------------------------------------------------------------
-- extractSize

/-- case analysis of `extractSize` on a non-empty input, in a form that `omega` can use -/
theorem extractSize_cases {b0 : Nat} {rest : Bytes} {to tkl len : Nat}
    (h : extractSize (b0 :: rest) = some (to, tkl, len)) :
    tkl = b0 % 16 ∧
    ((b0 / 16 < 13 ∧ to = 2 ∧ len = b0 / 16) ∨
     (b0 / 16 = 13 ∧ to = 3 ∧ ∃ e0 r, rest = e0 :: r ∧ len = e0 + 13) ∨
     (b0 / 16 = 14 ∧ to = 4 ∧ ∃ e0 e1 r, rest = e0 :: e1 :: r ∧ len = e0 * 256 + e1 + 269) ∨
     (15 ≤ b0 / 16 ∧ to = 6 ∧ ∃ e0 e1 e2 e3 r, rest = e0 :: e1 :: e2 :: e3 :: r ∧
        len = ((e0 * 256 + e1) * 256 + e2) * 256 + e3 + 65805)) := by
  simp only [extractSize] at h
  by_cases h1 : b0 / 16 < 13
  · simp [h1] at h; omega
  · by_cases h2 : b0 / 16 = 13
    · simp only [h1, h2, ↓reduceIte] at h
      match rest, h with
      | e0 :: r, h =>
        simp at h
        exact ⟨by omega, Or.inr (Or.inl ⟨h2, by omega, e0, r, rfl, by omega⟩)⟩
    · by_cases h3 : b0 / 16 = 14
      · simp only [h1, h2, h3, ↓reduceIte] at h
        match rest, h with
        | e0 :: e1 :: r, h =>
          simp at h
          exact ⟨by omega, Or.inr (Or.inr (Or.inl ⟨h3, by omega, e0, e1, r, rfl, by omega⟩))⟩
      · simp only [h1, h2, h3, ↓reduceIte] at h
        match rest, h with
        | e0 :: e1 :: e2 :: e3 :: r, h =>
          simp at h
          exact ⟨by omega, Or.inr (Or.inr (Or.inr
            ⟨by omega, by omega, e0, e1, e2, e3, r, rfl, by omega⟩))⟩

/-- a header that can be read stays the same when more bytes arrive -/
theorem extractSize_append {s : Bytes} {x : Nat × Nat × Nat} (t : Bytes)
    (h : extractSize s = some x) : extractSize (s ++ t) = some x := by
  match s, h with
  | b0 :: rest, h =>
    obtain ⟨to, tkl, len⟩ := x
    obtain ⟨ht, hc⟩ := extractSize_cases h
    simp only [List.cons_append, extractSize]
    rcases hc with ⟨h1, h2, h3⟩ | ⟨h1, h2, e0, r, hr, h3⟩ | ⟨h1, h2, e0, e1, r, hr, h3⟩ |
      ⟨h1, h2, e0, e1, e2, e3, r, hr, h3⟩
    · simp [h1, h2, h3, ht]
    · subst hr; simp [h1, h2, h3, ht]
    · subst hr; simp [h1, h2, h3, ht]
    · subst hr
      have a : ¬ b0 / 16 < 13 := by omega
      have b : ¬ b0 / 16 = 13 := by omega
      have c : ¬ b0 / 16 = 14 := by omega
      simp [a, b, c, h2, h3, ht]

/-- a frame is at least two bytes long, the header is inside the data, TKL is a nibble -/
theorem extractSize_bounds {s : Bytes} {to tkl len : Nat}
    (h : extractSize s = some (to, tkl, len)) : 2 ≤ to ∧ to - 1 ≤ s.length ∧ tkl < 16 := by
  match s, h with
  | b0 :: rest, h =>
    obtain ⟨ht, hc⟩ := extractSize_cases h
    rcases hc with ⟨h1, h2, h3⟩ | ⟨h1, h2, e0, r, hr, h3⟩ | ⟨h1, h2, e0, e1, r, hr, h3⟩ |
      ⟨h1, h2, e0, e1, e2, e3, r, hr, h3⟩
    · simp; omega
    · subst hr; simp; omega
    · subst hr; simp; omega
    · subst hr; simp; omega

-- ---------------------------------------------------------------------------------------------
-- encodeLength / frameBytes against extractSize

/-- shape of `_encode_length`'s result (RFC 8323 §3.2: 13/269/65805) -/
theorem encodeLength_cases {n nib : Nat} {ext : Bytes} (h : encodeLength n = some (nib, ext)) :
    (n < 13 ∧ nib = n ∧ ext = []) ∨
    (13 ≤ n ∧ n < 269 ∧ nib = 13 ∧ ext = [n - 13]) ∨
    (269 ≤ n ∧ n < 65805 ∧ nib = 14 ∧ ext = [(n - 269) / 256, (n - 269) % 256]) ∨
    (65805 ≤ n ∧ n - 65805 < 4294967296 ∧ nib = 15 ∧
      ext = [(n - 65805) / 16777216, (n - 65805) / 65536 % 256, (n - 65805) / 256 % 256,
             (n - 65805) % 256]) := by
  unfold encodeLength at h
  by_cases h1 : n < 13
  · simp only [h1, ↓reduceIte, Option.some.injEq, Prod.mk.injEq] at h
    exact Or.inl ⟨h1, h.1.symm, h.2.symm⟩
  · by_cases h2 : n < 269
    · simp only [h1, h2, ↓reduceIte, Option.some.injEq, Prod.mk.injEq] at h
      exact Or.inr (Or.inl ⟨by omega, h2, h.1.symm, h.2.symm⟩)
    · by_cases h3 : n < 65805
      · simp only [h1, h2, h3, ↓reduceIte, Option.some.injEq, Prod.mk.injEq] at h
        exact Or.inr (Or.inr (Or.inl ⟨by omega, h3, h.1.symm, h.2.symm⟩))
      · by_cases h4 : n - 65805 < 4294967296
        · simp only [h1, h2, h3, h4, ↓reduceIte, Option.some.injEq, Prod.mk.injEq] at h
          exact Or.inr (Or.inr (Or.inr ⟨by omega, h4, h.1.symm, h.2.symm⟩))
        · simp [h1, h2, h3, h4] at h

theorem encodeLength_wf {n nib : Nat} {ext : Bytes} (h : encodeLength n = some (nib, ext)) :
    nib < 16 ∧ ext.wf := by
  rcases encodeLength_cases h with ⟨_, h2, h3⟩ | ⟨_, _, h2, h3⟩ | ⟨_, _, h2, h3⟩ | ⟨_, _, h2, h3⟩ <;>
    subst h3 <;> refine ⟨by omega, ?_⟩ <;> intro x hx <;> simp at hx <;> omega

/-- an RFC 8323 frame is read back by `_extract_message_size`, whatever follows it -/
theorem extractSize_of_frame {b : Bytes} {code : Nat} {token body : Bytes}
    (h : Rfc8323.Frame b code token body) :
    ∃ hdr, b = hdr ++ code :: (token ++ body) ∧ token.length ≤ 8 ∧
      ∀ rest, extractSize (b ++ rest) = some (hdr.length + 1, token.length, body.length) := by
  cases h with
  | len4 _ _ _ ht hb =>
    refine ⟨[body.length * 16 + token.length], by simp, ht, fun rest => ?_⟩
    have a : (body.length * 16 + token.length) / 16 < 13 := by omega
    simp [extractSize, a]; omega
  | ext8 _ _ _ ht h1 h2 =>
    refine ⟨[13 * 16 + token.length, body.length - 13], by simp, ht, fun rest => ?_⟩
    have a : ¬ (13 * 16 + token.length) / 16 < 13 := by omega
    have b : (13 * 16 + token.length) / 16 = 13 := by omega
    simp [extractSize, a, b]; omega
  | ext16 _ _ _ ht h1 h2 =>
    refine ⟨[14 * 16 + token.length, (body.length - 269) / 256, (body.length - 269) % 256],
      by simp, ht, fun rest => ?_⟩
    have a : ¬ (14 * 16 + token.length) / 16 < 13 := by omega
    have b : ¬ (14 * 16 + token.length) / 16 = 13 := by omega
    have c : (14 * 16 + token.length) / 16 = 14 := by omega
    simp [extractSize, a, b, c]; omega
  | ext32 _ _ _ ht h1 h2 =>
    refine ⟨[15 * 16 + token.length, (body.length - 65805) / 16777216,
      (body.length - 65805) / 65536 % 256, (body.length - 65805) / 256 % 256,
      (body.length - 65805) % 256], by simp, ht, fun rest => ?_⟩
    have a : ¬ (15 * 16 + token.length) / 16 < 13 := by omega
    have b : ¬ (15 * 16 + token.length) / 16 = 13 := by omega
    have c : ¬ (15 * 16 + token.length) / 16 = 14 := by omega
    simp [extractSize, a, b, c]; omega

/-- the final join of `_serialize` produces an RFC 8323 frame -/
theorem frameBytes_frame {code : Nat} {token body b : Bytes} (ht : token.length ≤ 8)
    (h : frameBytes code token body = some b) : Rfc8323.Frame b code token body := by
  unfold frameBytes at h
  cases hl : encodeLength body.length with
  | none => simp [hl] at h
  | some p =>
    obtain ⟨nib, ext⟩ := p
    simp only [hl, Option.some.injEq] at h
    subst h
    rcases encodeLength_cases hl with ⟨h1, h2, h3⟩ | ⟨h0, h1, h2, h3⟩ | ⟨h0, h1, h2, h3⟩ |
      ⟨h0, h1, h2, h3⟩
    · subst h2 h3; exact Rfc8323.Frame.len4 code token body ht (by omega)
    · subst h2 h3; exact Rfc8323.Frame.ext8 code token body ht h0 (by omega)
    · subst h2 h3; exact Rfc8323.Frame.ext16 code token body ht h0 (by omega)
    · subst h2 h3; exact Rfc8323.Frame.ext32 code token body ht h0 h1

/-- and every RFC 8323 frame is what `_serialize`'s join produces: the framing is unique -/
theorem frame_frameBytes {code : Nat} {token body b : Bytes}
    (h : Rfc8323.Frame b code token body) : frameBytes code token body = some b := by
  cases h with
  | len4 _ _ _ ht hb =>
    have a : body.length < 13 := by omega
    simp [frameBytes, encodeLength, a]
  | ext8 _ _ _ ht h1 h2 =>
    have a : ¬ body.length < 13 := by omega
    have b : body.length < 269 := by omega
    simp [frameBytes, encodeLength, a, b]
  | ext16 _ _ _ ht h1 h2 =>
    have a : ¬ body.length < 13 := by omega
    have b : ¬ body.length < 269 := by omega
    have c : body.length < 65805 := by omega
    simp [frameBytes, encodeLength, a, b, c]
  | ext32 _ _ _ ht h1 h2 =>
    have a : ¬ body.length < 13 := by omega
    have b : ¬ body.length < 269 := by omega
    have c : ¬ body.length < 65805 := by omega
    simp [frameBytes, encodeLength, a, b, c, h2]

-- ---------------------------------------------------------------------------------------------
-- option list round trip

theorem readExt_of_extField {v n : Nat} {e : Bytes} (h : Rfc8323.ExtField v n e) :
    n ≤ 14 ∧ e.wf ∧ ∀ t, readExt n (e ++ t) = some (v, t) := by
  cases h with
  | nibble h1 =>
    have a : v < 13 := by omega
    exact ⟨by omega, Bytes.wf_nil, fun t => by simp [readExt, a]⟩
  | one h1 h2 =>
    refine ⟨by omega, ?_, fun t => ?_⟩
    · intro x hx; simp at hx; omega
    · simp [readExt]; omega
  | two h1 h2 =>
    refine ⟨by omega, ?_, fun t => ?_⟩
    · intro x hx; simp at hx; omega
    · simp [readExt]; omega

theorem writeExt_extField {v n : Nat} {e : Bytes} (h : writeExt v = some (n, e)) :
    Rfc8323.ExtField v n e := by
  unfold writeExt at h
  by_cases h1 : v < 13
  · simp only [h1, ↓reduceIte, Option.some.injEq, Prod.mk.injEq] at h
    obtain ⟨rfl, rfl⟩ := h
    exact .nibble v (by omega)
  · by_cases h2 : v < 269
    · simp only [h1, h2, ↓reduceIte, Option.some.injEq, Prod.mk.injEq] at h
      obtain ⟨rfl, rfl⟩ := h
      exact .one v (by omega) (by omega)
    · by_cases h3 : v < 65804
      · simp only [h1, h2, h3, ↓reduceIte, Option.some.injEq, Prod.mk.injEq] at h
        obtain ⟨rfl, rfl⟩ := h
        exact .two v (by omega) (by omega)
      · simp [h1, h2, h3] at h

/-- a value is legal for its option number *in a request, response or empty message* when
decoding it in the format registered for that number and encoding it again gives the same bytes
(valid UTF-8 for string options, minimal length for integer options) -/
def Opt.legal (o : Opt) : Prop := decodeVal o.num o.val = some o.val

instance (o : Opt) : Decidable o.legal := by unfold Opt.legal; exact inferInstance

/-- in a signalling message every value is taken as it is -/
theorem decodeValFor_sig (num : Nat) (raw : Bytes) : decodeValFor true num raw = some raw := rfl

theorem decodeValFor_ordinary (num : Nat) (raw : Bytes) :
    decodeValFor false num raw = decodeVal num raw := rfl

theorem payloadPart_eq (p : Bytes) : payloadPart p = Rfc8323.payloadBytes p := by
  cases p <;> simp [payloadPart, Rfc8323.payloadBytes]

/-- `Options.encode` writes the RFC 7252 §3.1 option format -/
theorem encodeOpts_optList (opts : List Opt) :
    ∀ (cur : Nat) (ob : Bytes), encodeOpts cur opts = some ob → Rfc8323.OptList cur opts ob := by
  induction opts with
  | nil =>
    intro cur ob h
    simp only [encodeOpts, Option.some.injEq] at h
    subst h
    exact .nil cur
  | cons o os ih =>
    intro cur ob henc
    simp only [encodeOpts] at henc
    by_cases hlt : o.num < cur
    · simp [hlt] at henc
    · simp only [hlt, ↓reduceIte] at henc
      cases hd : writeExt (o.num - cur) with
      | none => simp [hd] at henc
      | some pd =>
        cases hl : writeExt o.val.length with
        | none => simp [hd, hl] at henc
        | some pl =>
          cases hr : encodeOpts o.num os with
          | none => simp [hd, hl, hr] at henc
          | some rest =>
            obtain ⟨d, ed⟩ := pd
            obtain ⟨l, el⟩ := pl
            simp only [hd, hl, hr, Option.some.injEq] at henc
            subst henc
            exact .cons (by omega) (writeExt_extField hd) (writeExt_extField hl) (ih _ _ hr)

/-- the option walkers read every RFC 7252 §3.1 option list whose values they take as they are
(`sig = true`: all; `sig = false`: the legal ones), whatever payload part follows -/
theorem decodeOptsF_optList {sig : Bool} {cur : Nat} {opts : List Opt} {ob : Bytes}
    (payload : Bytes) (h : Rfc8323.OptList cur opts ob) :
    ∀ (fuel : Nat), (∀ o ∈ opts, decodeValFor sig o.num o.val = some o.val) →
      (ob ++ Rfc8323.payloadBytes payload).length ≤ fuel →
      decodeOptsF sig fuel cur (ob ++ Rfc8323.payloadBytes payload) = some (opts, payload) := by
  induction h with
  | nil cur =>
    intro fuel _ hfuel
    cases payload with
    | nil => simp [Rfc8323.payloadBytes, decodeOptsF]
    | cons p ps =>
      simp only [Rfc8323.payloadBytes, List.nil_append, List.length_cons] at hfuel ⊢
      match fuel, hfuel with
      | f + 1, _ => simp [decodeOptsF]
  | @cons cur o os d l ed el rest hle hd hl _ ih =>
    intro fuel hlegal hfuel
    obtain ⟨hd14, _, hdr⟩ := readExt_of_extField hd
    obtain ⟨hl14, _, hlr⟩ := readExt_of_extField hl
    have hleg : decodeValFor sig o.num o.val = some o.val := hlegal o (List.mem_cons_self)
    simp only [List.append_assoc, List.cons_append, List.nil_append, List.length_cons,
      List.length_append] at hfuel ⊢
    match fuel, hfuel with
    | f + 1, hfuel =>
      have hne : ¬ d * 16 + l = 255 := by omega
      have hdiv : (d * 16 + l) / 16 = d := by omega
      have hmod : (d * 16 + l) % 16 = l := by omega
      have hcur : cur + (o.num - cur) = o.num := by omega
      have hih := ih f (fun x hx => hlegal x (List.mem_cons_of_mem _ hx))
        (by simp only [List.length_append]; omega)
      simp only [decodeOptsF, hne, ↓reduceIte, hdiv, hmod, hdr, hlr, hcur,
        List.length_append, List.take_left', List.drop_left']
      have hnl : ¬ (o.val.length + (rest.length + (Rfc8323.payloadBytes payload).length)
          < o.val.length) := by omega
      simp [hnl, hleg, hih]

-- ---------------------------------------------------------------------------------------------
-- frame round trip

/-- a message the transport carries unchanged: a signalling message (code 7.xx) — whatever its
option values, RFC 8323 §5.2 —, or a request, response or empty message every option value of
which is legal for its number -/
def Msg.legal (m : Msg) : Prop := m.code < 224 → ∀ o ∈ m.opts, o.legal

instance (m : Msg) : Decidable m.legal := by unfold Msg.legal; exact inferInstance

/-- every signalling message is legal: nothing is asked of its option values -/
theorem Msg.legal_of_signalling {m : Msg} (h : m.code ≥ 224) : m.legal :=
  fun h' => absurd h' (by omega)

theorem Msg.legal_of_no_opts {m : Msg} (h : m.opts = []) : m.legal := by
  intro _ o ho; rw [h] at ho; cases ho

/-- what `legal` gives to the option walker `_decode_message` chooses for the code -/
theorem Msg.legal_decodeValFor {m : Msg} (hm : m.legal) :
    ∀ o ∈ m.opts, decodeValFor (decide (m.code ≥ 224)) o.num o.val = some o.val := by
  intro o ho
  by_cases h : m.code ≥ 224
  · simp [h, decodeValFor]
  · have : decodeVal o.num o.val = some o.val := hm (by omega) o ho
    simpa [h, decodeValFor] using this

/-- `_serialize` writes RFC 8323 messages -/
theorem serialize_message {m : Msg} {b : Bytes} (h : serialize m = some b) :
    Rfc8323.Message b m := by
  unfold serialize at h
  cases ho : encodeOpts 0 m.opts with
  | none => simp [ho] at h
  | some ob =>
    simp only [ho] at h
    by_cases ht : m.token.length > 8
    · simp [ht] at h
    · simp only [ht, ↓reduceIte] at h
      rw [payloadPart_eq] at h
      exact ⟨ob, encodeOpts_optList _ _ _ ho, frameBytes_frame (by omega) h⟩

/-- `_decode_message` reads every RFC 8323 signalling message, and every other RFC 8323 message
with legal option values, and `_extract_message_size` finds exactly its end -/
theorem decodeMessage_of_message {m : Msg} {b : Bytes} (hm : m.legal)
    (h : Rfc8323.Message b m) :
    decodeMessage b = some m ∧ m.token.length ≤ 8 ∧
      ∀ rest, frameSize (b ++ rest) = some b.length := by
  obtain ⟨ob, ho, hf⟩ := h
  obtain ⟨hdr, hb, ht, hx⟩ := extractSize_of_frame hf
  refine ⟨?_, ht, ?_⟩
  · have hx0 := hx []
    simp only [List.append_nil] at hx0
    unfold decodeMessage
    have hnt : ¬ m.token.length > 8 := by omega
    simp only [hx0, hnt, ↓reduceIte, Nat.add_sub_cancel]
    subst hb
    have hcode : (hdr ++ m.code :: (m.token ++ (ob ++ Rfc8323.payloadBytes m.payload)))[hdr.length]?
        = some m.code := by simp
    have hdrop1 : (hdr ++ m.code :: (m.token ++ (ob ++ Rfc8323.payloadBytes m.payload))).drop
        (hdr.length + 1) = m.token ++ (ob ++ Rfc8323.payloadBytes m.payload) := by
      rw [List.drop_append]; simp
    have hdrop2 : (hdr ++ m.code :: (m.token ++ (ob ++ Rfc8323.payloadBytes m.payload))).drop
        (hdr.length + 1 + m.token.length) = ob ++ Rfc8323.payloadBytes m.payload := by
      rw [← List.drop_drop, hdrop1]; simp
    rw [hcode, hdrop1, hdrop2]
    have hdec := decodeOptsF_optList (sig := decide (m.code ≥ 224)) m.payload ho _
      (Msg.legal_decodeValFor hm) (Nat.le_refl _)
    simp only [decodeOpts, hdec, List.take_left']
  · intro rest
    simp only [frameSize, hx rest, Option.map_some, Option.some.injEq]
    rw [hb]
    simp only [List.length_append, List.length_cons]
    omega

end Aiocoap.Tcp
