import Proofs.Tcp.Signal
import Proofs.Tcp.Bound
/-!
`_serialize` never raises inside the receive path: every message the connection sends on its
own (Abort, Pong, initial CSM) can be serialised, so `Out.sendError` is never output.
-/
set_option linter.unusedSimpArgs false
namespace Aiocoap.Tcp

def noErr (outs : List Out) : Prop := Out.sendError ∉ outs

theorem noErr_append {a b : List Out} : noErr (a ++ b) ↔ noErr a ∧ noErr b := by
  simp [noErr, List.mem_append, not_or]

theorem sendMessage_noErr {m : Msg} (h : (serialize m).isSome = true) : noErr (sendMessage m) := by
  obtain ⟨b, hb⟩ := Option.isSome_iff_exists.mp h
  simp [noErr, sendMessage, hb]

theorem abortOuts_noErr {t : Bytes} {bad : Option Nat}
    (h : (serialize (abortMsg t bad)).isSome = true) : noErr (abortOuts t bad) := by
  have := sendMessage_noErr h
  simp only [noErr, abortOuts, List.mem_append, List.mem_singleton, not_or] at this ⊢
  exact ⟨this, by intro h; cases h⟩

theorem serialize_abort_bad {n : Nat} (hlen : (minBE n).length < 13) :
    (serialize (abortMsg txtOptNotSupported (some n))).isSome = true := by
  have a : ¬ (minBE n).length + 21 + 1 < 13 := by omega
  have b : (minBE n).length + 21 + 1 < 269 := by omega
  simp [serialize, abortMsg, encodeOpts, writeExt, codeAbort, payloadPart, frameBytes, hlen,
    txtOptNotSupported, encodeLength, a, b]

/-- the option the CSM loop stops at is one of the message -/
theorem csmOpts_some_mem (s : Settings) (opts : List Opt) {s' : Settings} {n : Nat}
    (h : csmOpts s opts = (s', some n)) : ∃ o ∈ opts, o.num = n := by
  induction opts generalizing s with
  | nil => simp [csmOpts] at h
  | cons o os ih =>
    simp only [csmOpts] at h
    split at h
    · obtain ⟨o', ho', hn⟩ := ih _ h; exact ⟨o', List.mem_cons_of_mem _ ho', hn⟩
    · split at h
      · obtain ⟨o', ho', hn⟩ := ih _ h; exact ⟨o', List.mem_cons_of_mem _ ho', hn⟩
      · split at h
        · simp only [Prod.mk.injEq, Option.some.injEq] at h
          exact ⟨o, List.mem_cons_self, h.2⟩
        · obtain ⟨o', ho', hn⟩ := ih _ h; exact ⟨o', List.mem_cons_of_mem _ ho', hn⟩

theorem serialize_pong {tok : Bytes} (h : tok.length ≤ 8) :
    (serialize { code := codePong, token := tok, opts := [], payload := [] }).isSome = true := by
  have : ¬ tok.length > 8 := by omega
  simp [serialize, encodeOpts, this, frameBytes, encodeLength, payloadPart]

theorem processSignaling_noErr (c : Conn) (m : Msg) (htok : m.token.length ≤ 8)
    (h : ∀ o ∈ m.opts, (minBE o.num).length < 13) : noErr (processSignaling c m).2 := by
  rcases processSignaling_cases c m with ⟨_, _, _, hp⟩ | ⟨outs, hp, hso⟩ <;> rw [hp]
  · simp [noErr]
  · cases hso with
    | csmBad s n _ hc =>
      obtain ⟨o, ho, hn⟩ := csmOpts_some_mem _ _ hc
      exact abortOuts_noErr (serialize_abort_bad (hn ▸ h o ho))
    | crit => exact abortOuts_noErr (by decide)
    | unknown => exact abortOuts_noErr (by decide)
    | pong => exact sendMessage_noErr (serialize_pong htok)
    | none => simp [noErr]
    | release => simp [noErr]
    | abort => simp [noErr]

theorem deliver_noErr (m : Msg) : noErr (deliver m) := by
  unfold deliver dispatchIncoming
  split
  · simp [noErr]
  · split <;> simp [noErr]

theorem decodeMessage_token_le {data : Bytes} {m : Msg} (h : decodeMessage data = some m) :
    m.token.length ≤ 8 := by
  unfold decodeMessage at h
  cases hx : extractSize data with
  | none => simp [hx] at h
  | some x =>
    obtain ⟨to, tkl, len⟩ := x
    simp only [hx] at h
    by_cases ht : tkl > 8
    · simp [ht] at h
    · simp only [ht, ↓reduceIte] at h
      cases hc : data[to - 1]? with
      | none => simp [hc] at h
      | some code =>
        simp only [hc] at h
        cases ho : decodeOpts (decide (code ≥ 224)) (data.drop (to + tkl)) with
        | none => simp [ho] at h
        | some p =>
          obtain ⟨opts, pl⟩ := p
          simp only [ho, Option.some.injEq] at h
          subst h
          simp only [List.length_take]
          omega

/-- numbers below 65805 · 2^64 fit in 12 bytes -/
theorem minBE_small {n L : Nat} (h : n ≤ 65804 * L) (hL : L < 2 ^ 64) : (minBE n).length < 13 := by
  have : n < 256 ^ 12 := by
    have : 65804 * L < 65804 * 2 ^ 64 := Nat.mul_lt_mul_of_pos_left hL (by omega)
    have h2 : (65804 : Nat) * 2 ^ 64 < 256 ^ 12 := by decide
    omega
  have := minBE_length this
  omega

/-- one loop iteration on well-formed bytes never fails to serialise what it sends, and leaves
well-formed bytes in the spool -/
theorem step_noErr (c : Conn) (hwf : c.spool.wf) (hmax : c.maxSize < 2 ^ 64) :
    (∀ c' o, step c = .next c' o → noErr o ∧ c'.spool.wf) ∧
    (∀ c' o, step c = .stop c' o → noErr o ∧ c'.spool.wf) := by
  rcases step_cases c with ⟨hw, _⟩ | ⟨_, _, _, _, _, hs⟩ | ⟨_, _, _, _, _, _, _, hs⟩ |
    ⟨to, tkl, len, m, hx, hfit, hcomp, hd, ⟨h3, _, hs⟩ | ⟨h3, _, hs⟩ | ⟨h3, h4, hs⟩ | ⟨h3, h4, hs⟩⟩
  · rw [hw]; exact ⟨(fun _ _ h => by cases h), (fun _ _ h => by cases h)⟩
  · rw [hs]
    refine ⟨(fun _ _ h => by cases h), fun c' o h => ?_⟩
    simp only [Step.stop.injEq] at h
    rw [← h.1, ← h.2]
    exact ⟨abortOuts_noErr (by decide), hwf⟩
  · rw [hs]
    refine ⟨(fun _ _ h => by cases h), fun c' o h => ?_⟩
    simp only [Step.stop.injEq] at h
    rw [← h.1, ← h.2]
    exact ⟨abortOuts_noErr (by decide), hwf⟩
  · rw [hs]
    refine ⟨(fun _ _ h => by cases h), fun c' o h => ?_⟩
    simp only [Step.stop.injEq] at h
    rw [← h.1, ← h.2, processSignaling_spool]
    have hb := decodeMessage_num_bound (Bytes.wf_take _ hwf) hd
    refine ⟨processSignaling_noErr _ _ (decodeMessage_token_le hd) (fun o ho => ?_),
      Bytes.wf_drop _ hwf⟩
    have h1 := hb o ho
    have h2 : (c.spool.take (to + tkl + len)).length ≤ c.maxSize := by
      simp only [List.length_take]; omega
    exact minBE_small (Nat.le_trans h1 (Nat.mul_le_mul_left _ h2)) hmax
  · rw [hs]
    refine ⟨fun c' o h => ?_, (fun _ _ h => by cases h)⟩
    simp only [Step.next.injEq] at h
    rw [← h.1, ← h.2, processSignaling_spool]
    have hb := decodeMessage_num_bound (Bytes.wf_take _ hwf) hd
    refine ⟨processSignaling_noErr _ _ (decodeMessage_token_le hd) (fun o ho => ?_),
      Bytes.wf_drop _ hwf⟩
    have h1 := hb o ho
    have h2 : (c.spool.take (to + tkl + len)).length ≤ c.maxSize := by
      simp only [List.length_take]; omega
    exact minBE_small (Nat.le_trans h1 (Nat.mul_le_mul_left _ h2)) hmax
  · rw [hs]
    refine ⟨(fun _ _ h => by cases h), fun c' o h => ?_⟩
    simp only [Step.stop.injEq] at h
    rw [← h.1, ← h.2]
    exact ⟨abortOuts_noErr (by decide), Bytes.wf_drop _ hwf⟩
  · rw [hs]
    refine ⟨fun c' o h => ?_, (fun _ _ h => by cases h)⟩
    simp only [Step.next.injEq] at h
    rw [← h.1, ← h.2]
    exact ⟨deliver_noErr m, Bytes.wf_drop _ hwf⟩

theorem drain_noErr : ∀ (n : Nat) (c : Conn), c.spool.length < n → c.spool.wf →
    c.maxSize < 2 ^ 64 → noErr (drain c).2.1 ∧ (drain c).1.spool.wf := by
  intro n
  induction n with
  | zero => intro c h; omega
  | succ n ih =>
    intro c hlt hwf hmax
    obtain ⟨s1, s2⟩ := step_noErr c hwf hmax
    cases hs : step c with
    | wait =>
      have hd : drain c = (c, [], false) := by rw [drain_eq, hs]
      rw [hd]; exact ⟨by simp [noErr], hwf⟩
    | stop c' o =>
      have hd : drain c = (c', o, true) := by rw [drain_eq, hs]
      rw [hd]; exact s2 c' o hs
    | next c' o =>
      obtain ⟨hlt', hm⟩ := step_next_lt hs
      have hd : drain c = ((drain c').1, o ++ (drain c').2.1, (drain c').2.2) := by
        rw [drain_eq, hs]
      obtain ⟨a1, a2⟩ := s1 c' o hs
      obtain ⟨i1, i2⟩ := ih c' (by omega) a2 (by omega)
      rw [hd]
      exact ⟨noErr_append.mpr ⟨a1, i1⟩, i2⟩

theorem feedAll_noErr : ∀ (cs : List Bytes) (c : Conn), c.spool.wf → c.maxSize < 2 ^ 64 →
    (∀ x ∈ cs, Bytes.wf x) → noErr (feedAll c cs).2 := by
  intro cs
  induction cs with
  | nil => intro c _ _ _; simp [noErr, feedAll]
  | cons y ys ih =>
    intro c hwf hmax hcs
    simp only [feedAll]
    by_cases hc : c.closed = true
    · simp [hc, noErr]
    · simp only [hc, Bool.false_eq_true, ↓reduceIte]
      have hy : Bytes.wf y := hcs y List.mem_cons_self
      have hwf' : (c.app y).spool.wf := Bytes.wf_append.mpr ⟨hwf, hy⟩
      obtain ⟨d1, d2⟩ := drain_noErr ((c.app y).spool.length + 1) (c.app y) (by omega) hwf' hmax
      have hm : (feed c y).1.maxSize = c.maxSize := (drain_facts' (c.app y)).2.2.2.1
      exact noErr_append.mpr ⟨d1, ih _ d2 (by rw [hm]; exact hmax)
        (fun x hx => hcs x (List.mem_cons_of_mem _ hx))⟩

end Aiocoap.Tcp
