import Proofs.Tcp.Signal
/-!
Size bounds: option numbers reachable inside a frame, length of minimal integer encodings.
Used to show that the Abort naming a bad CSM option can always be serialised.
-/
set_option linter.unusedSimpArgs false
namespace Aiocoap.Tcp

theorem minBEAux_length : ∀ (fuel v : Nat) (acc : Bytes) (k : Nat), v < 256 ^ k →
    (minBEAux fuel v acc).length ≤ acc.length + k := by
  intro fuel
  induction fuel with
  | zero => intro v acc k _; simp [minBEAux]
  | succ fuel ih =>
    intro v acc k hv
    simp only [minBEAux]
    by_cases h0 : v = 0
    · simp [h0]
    · simp only [h0, ↓reduceIte]
      cases k with
      | zero => simp at hv; omega
      | succ k =>
        have hdiv : v / 256 < 256 ^ k := by
          apply Nat.div_lt_of_lt_mul
          rw [Nat.pow_succ] at hv
          omega
        have := ih (v / 256) (v % 256 :: acc) k hdiv
        simp only [List.length_cons] at this
        omega

theorem minBE_length {v k : Nat} (h : v < 256 ^ k) : (minBE v).length ≤ k := by
  have := minBEAux_length v v [] k h
  simpa [minBE] using this

theorem readExt_bound {v : Nat} {d r : Bytes} {x : Nat} (hwf : d.wf)
    (h : readExt v d = some (x, r)) : x ≤ 65804 ∧ r.length ≤ d.length ∧ r.wf := by
  unfold readExt at h
  by_cases h1 : v < 13
  · simp only [h1, ↓reduceIte, Option.some.injEq, Prod.mk.injEq] at h
    obtain ⟨rfl, rfl⟩ := h
    exact ⟨by omega, Nat.le_refl _, hwf⟩
  · by_cases h2 : v = 13
    · simp only [h1, h2, ↓reduceIte] at h
      match d, hwf, h with
      | b :: r', hwf, h =>
        simp only [Option.some.injEq, Prod.mk.injEq] at h
        obtain ⟨rfl, rfl⟩ := h
        have := hwf b (List.mem_cons_self)
        exact ⟨by omega, by simp, (Bytes.wf_cons.mp hwf).2⟩
    · by_cases h3 : v = 14
      · simp only [h1, h2, h3, ↓reduceIte] at h
        match d, hwf, h with
        | b0 :: b1 :: r', hwf, h =>
          simp only [Option.some.injEq, Prod.mk.injEq] at h
          obtain ⟨rfl, rfl⟩ := h
          have h0 := hwf b0 (List.mem_cons_self)
          have h1' := hwf b1 (List.mem_cons_of_mem _ List.mem_cons_self)
          exact ⟨by omega, by simp; omega, (Bytes.wf_cons.mp (Bytes.wf_cons.mp hwf).2).2⟩
      · simp [h1, h2, h3] at h

/-- option numbers grow by at most 65804 per option, and every option takes at least a byte -/
theorem decodeOptsF_num_bound (sig : Bool) :
    ∀ (fuel cur : Nat) (data : Bytes) (opts : List Opt) (pl : Bytes),
    data.wf → decodeOptsF sig fuel cur data = some (opts, pl) →
    ∀ o ∈ opts, o.num ≤ cur + 65804 * data.length := by
  intro fuel
  induction fuel with
  | zero =>
    intro cur data opts pl _ h o ho
    cases data with
    | nil => simp [decodeOptsF] at h; rw [h.1] at ho; cases ho
    | cons b rest => simp [decodeOptsF] at h
  | succ fuel ih =>
    intro cur data opts pl hwf h o ho
    cases data with
    | nil => simp [decodeOptsF] at h; rw [h.1] at ho; cases ho
    | cons b rest =>
      simp only [decodeOptsF] at h
      by_cases hb : b = 255
      · simp [hb] at h; rw [h.1] at ho; cases ho
      · simp only [hb, ↓reduceIte] at h
        have hrest : Bytes.wf rest := (Bytes.wf_cons.mp hwf).2
        cases hd : readExt (b / 16) rest with
        | none => simp [hd] at h
        | some p1 =>
          obtain ⟨delta, r1⟩ := p1
          obtain ⟨hdelta, hr1, hr1wf⟩ := readExt_bound hrest hd
          simp only [hd] at h
          cases hl : readExt (b % 16) r1 with
          | none => simp [hl] at h
          | some p2 =>
            obtain ⟨len, r2⟩ := p2
            obtain ⟨_, hr2, hr2wf⟩ := readExt_bound hr1wf hl
            simp only [hl] at h
            by_cases hlen : r2.length < len
            · simp [hlen] at h
            · simp only [hlen, ↓reduceIte] at h
              cases hv : decodeValFor sig (cur + delta) (r2.take len) with
              | none => simp [hv] at h
              | some v =>
                simp only [hv] at h
                cases hrec : decodeOptsF sig fuel (cur + delta) (r2.drop len) with
                | none => simp [hrec] at h
                | some p3 =>
                  obtain ⟨os, pl'⟩ := p3
                  simp only [hrec, Option.some.injEq, Prod.mk.injEq] at h
                  obtain ⟨rfl, _⟩ := h
                  simp only [List.length_cons]
                  rcases List.mem_cons.mp ho with rfl | ho'
                  · simp only
                    have : 65804 * (rest.length + 1) = 65804 * rest.length + 65804 := by omega
                    omega
                  · have := ih (cur + delta) (r2.drop len) os pl' (Bytes.wf_drop len hr2wf) hrec o ho'
                    have hdl : (r2.drop len).length ≤ rest.length := by
                      simp only [List.length_drop]; omega
                    have h2 : 65804 * (r2.drop len).length ≤ 65804 * rest.length :=
                      Nat.mul_le_mul_left _ hdl
                    have : 65804 * (rest.length + 1) = 65804 * rest.length + 65804 := by omega
                    omega

/-- the options of a decoded frame have numbers below 65805 times the frame length -/
theorem decodeMessage_num_bound {data : Bytes} {m : Msg} (hwf : data.wf)
    (h : decodeMessage data = some m) : ∀ o ∈ m.opts, o.num ≤ 65804 * data.length := by
  unfold decodeMessage at h
  cases hx : extractSize data with
  | none => simp [hx] at h
  | some x =>
    obtain ⟨to, tkl, len⟩ := x
    simp only [hx] at h
    by_cases ht : tkl > 8
    · simp [ht] at h
    · simp only [ht, ↓reduceIte] at h
      cases hc : data[to - 1]? with
      | none => simp [hc] at h
      | some code =>
        simp only [hc] at h
        cases ho : decodeOpts (decide (code ≥ 224)) (data.drop (to + tkl)) with
        | none => simp [ho] at h
        | some p =>
          obtain ⟨opts, pl⟩ := p
          simp only [ho, Option.some.injEq] at h
          subst h
          intro o hmem
          have := decodeOptsF_num_bound _ _ 0 _ opts pl (Bytes.wf_drop _ hwf) ho o hmem
          have hdl : (data.drop (to + tkl)).length ≤ data.length := by
            simp only [List.length_drop]; omega
          have h2 : 65804 * (data.drop (to + tkl)).length ≤ 65804 * data.length :=
            Nat.mul_le_mul_left _ hdl
          omega

end Aiocoap.Tcp
