import Proofs.Tcp.Conn
/-!
Helper lemmas about whole frames at the head of the spool and about signalling processing.
-/
set_option linter.unusedSimpArgs false
namespace Aiocoap.Tcp

/-- what one loop iteration does when the spool starts with a well-formed frame that is within
the size limit -/
theorem step_of_frame {c : Conn} {b rest : Bytes} {m : Msg} (hs : c.spool = b ++ rest)
    (hb : Rfc8323.Message b m) (hm : m.legal) (hsize : b.length ≤ c.maxSize) :
    (c.consume b.length).spool = rest ∧
    step c =
      if m.code ≥ 224 then
        if (processSignaling (c.consume b.length) m).1.closed then
          .stop (processSignaling (c.consume b.length) m).1 (processSignaling (c.consume b.length) m).2
        else
          .next (processSignaling (c.consume b.length) m).1 (processSignaling (c.consume b.length) m).2
      else if m.code = 0 then .next (c.consume b.length) []
      else if c.csm.isNone then
        .stop ((c.consume b.length).note (abortOuts txtNoCsm none)) (abortOuts txtNoCsm none)
      else .next (c.consume b.length) (dispatchIncoming m) := by
  obtain ⟨hdec, _, hsz⟩ := decodeMessage_of_message hm hb
  have hsz' := hsz rest
  simp only [frameSize, Option.map_eq_some_iff] at hsz'
  obtain ⟨⟨to, tkl, len⟩, hx, hsum⟩ := hsz'
  simp only at hsum
  constructor
  · simp [hs]
  · have hx' : extractSize c.spool = some (to, tkl, len) := by rw [hs]; exact hx
    have hlen : ¬ b.length > c.spool.length := by rw [hs]; simp
    have htake : c.spool.take b.length = b := by rw [hs]; simp
    have a : ¬ b.length > c.maxSize := by omega
    unfold step
    simp only [hx', hsum, a, hlen, ↓reduceIte, htake, hdec, Conn.consume_csm]

-- ---------------------------------------------------------------------------------------------
-- signalling options

/-- no option of the message is critical (odd number) -/
def noCritical (opts : List Opt) : Prop := ∀ o ∈ opts, o.num % 2 = 0

instance (opts : List Opt) : Decidable (noCritical opts) := by
  unfold noCritical; exact inferInstance

theorem hasCritical_false_iff (opts : List Opt) : hasCritical opts = false ↔ noCritical opts := by
  induction opts with
  | nil => simp [hasCritical, noCritical]
  | cons o os ih =>
    simp only [hasCritical, noCritical, List.mem_cons, forall_eq_or_imp]
    by_cases ho : o.num % 2 = 1
    · simp only [ho, ↓reduceIte, Bool.true_eq_false, false_iff, not_and]
      intro h; omega
    · simp only [ho, ↓reduceIte, ih, noCritical]
      constructor
      · intro h; exact ⟨by omega, h⟩
      · intro h; exact h.2

theorem hasCritical_true_iff (opts : List Opt) : hasCritical opts = true ↔ ¬ noCritical opts := by
  rw [← hasCritical_false_iff]
  cases hasCritical opts <;> simp

/-- without a critical option the CSM option loop runs to its end -/
theorem csmOpts_noCritical (s : Settings) {opts : List Opt} (h : noCritical opts) :
    (csmOpts s opts).2 = none := by
  induction opts generalizing s with
  | nil => rfl
  | cons o os ih =>
    have ho : o.num % 2 = 0 := h o (List.mem_cons_self)
    have hos : noCritical os := fun x hx => h x (List.mem_cons_of_mem _ hx)
    simp only [csmOpts]
    split
    · exact ih _ hos
    · split
      · exact ih _ hos
      · have : ¬ o.num % 2 = 1 := by omega
        simp only [this, ↓reduceIte]
        exact ih _ hos

/-- with a critical option present, the CSM option loop stops at one and names it -/
theorem csmOpts_critical (s : Settings) {opts : List Opt} (h : ¬ noCritical opts) :
    ∃ n, n % 2 = 1 ∧ (∃ o ∈ opts, o.num = n) ∧ (csmOpts s opts).2 = some n := by
  induction opts generalizing s with
  | nil => exact absurd (fun o ho => by cases ho) h
  | cons o os ih =>
    simp only [csmOpts]
    by_cases ho : o.num % 2 = 1
    · have h2 : ¬ o.num = 2 := by omega
      have h4 : ¬ o.num = 4 := by omega
      simp only [h2, h4, ho, ↓reduceIte]
      exact ⟨o.num, ho, ⟨o, List.mem_cons_self, rfl⟩, rfl⟩
    · have hos : ¬ noCritical os := by
        intro hn
        apply h
        intro x hx
        rcases List.mem_cons.mp hx with rfl | hx
        · omega
        · exact hn x hx
      have lift : ∀ s', ∃ n, n % 2 = 1 ∧ (∃ o' ∈ o :: os, o'.num = n) ∧
          (csmOpts s' os).2 = some n := by
        intro s'
        obtain ⟨n, h1, ⟨o', ho', hn⟩, h3⟩ := ih s' hos
        exact ⟨n, h1, ⟨o', List.mem_cons_of_mem _ ho', hn⟩, h3⟩
      by_cases h2 : o.num = 2
      · simp only [h2, ↓reduceIte]; exact lift _
      · by_cases h4 : o.num = 4
        · simp only [h4, ↓reduceIte]; exact lift _
        · simp only [h2, h4, ho, ↓reduceIte]; exact lift _

/-- the CSM option loop rejects exactly when there is a critical option -/
theorem csmOpts_none_iff (s : Settings) (opts : List Opt) :
    (csmOpts s opts).2 = none ↔ noCritical opts := by
  constructor
  · intro h
    apply Classical.byContradiction
    intro hn
    obtain ⟨n, _, _, h3⟩ := csmOpts_critical s hn
    rw [h] at h3; cases h3
  · exact csmOpts_noCritical s

-- ---------------------------------------------------------------------------------------------
-- nothing but the dispatch branch hands messages to the token manager

theorem sendMessage_no_dispatch (m : Msg) : ∀ o ∈ sendMessage m, o.isDispatch = false := by
  intro o ho
  unfold sendMessage at ho
  split at ho <;> simp at ho <;> subst ho <;> rfl

theorem abortOuts_no_dispatch (t : Bytes) (bad : Option Nat) :
    ∀ o ∈ abortOuts t bad, o.isDispatch = false := by
  intro o ho
  simp only [abortOuts, List.mem_append, List.mem_singleton] at ho
  rcases ho with ho | rfl
  · exact sendMessage_no_dispatch _ o ho
  · rfl

theorem sigOuts_no_dispatch {c : Conn} {m : Msg} {outs : List Out} (h : SigOuts c m outs) :
    ∀ o ∈ outs, o.isDispatch = false := by
  cases h with
  | csmBad s n => exact abortOuts_no_dispatch _ _
  | crit => exact abortOuts_no_dispatch _ _
  | unknown => exact abortOuts_no_dispatch _ _
  | pong => exact sendMessage_no_dispatch _
  | none => intro o ho; cases ho
  | release =>
    intro o ho
    simp only [List.mem_cons, List.not_mem_nil, or_false] at ho
    rcases ho with rfl | rfl <;> rfl
  | abort =>
    intro o ho
    simp only [List.mem_cons, List.not_mem_nil, or_false] at ho
    rcases ho with rfl | rfl <;> rfl

theorem processSignaling_no_dispatch (c : Conn) (m : Msg) :
    ∀ o ∈ (processSignaling c m).2, o.isDispatch = false := by
  rcases processSignaling_cases c m with ⟨s, _, _, h⟩ | ⟨outs, h, hso⟩ <;> rw [h]
  · intro o ho; cases ho
  · exact sigOuts_no_dispatch hso

/-- the remote settings never disappear, and they change only through a CSM all of whose
options were accepted (which outputs nothing) -/
theorem processSignaling_csm (c : Conn) (m : Msg) :
    ((processSignaling c m).1.csm = none → c.csm = none) ∧
    ((m.code = codeCSM ∧ noCritical m.opts ∧ (processSignaling c m).2 = []) ∨
      (processSignaling c m).1.csm = c.csm) := by
  rcases processSignaling_cases c m with ⟨s, h1, h2, h⟩ | ⟨outs, h, _⟩ <;> rw [h]
  · refine ⟨fun h' => by simp at h', Or.inl ⟨h1, ?_, rfl⟩⟩
    exact (csmOpts_none_iff _ _).mp (by rw [h2])
  · exact ⟨fun h' => h', Or.inr rfl⟩

-- ---------------------------------------------------------------------------------------------
-- nothing is dispatched while the remote settings are unset

theorem step_csm (c : Conn) :
    ∀ c' o, (step c = .next c' o ∨ step c = .stop c' o) →
      (c'.csm = none → c.csm = none ∧ ∀ x ∈ o, x.isDispatch = false) ∧
      (c.csm ≠ none → c'.csm ≠ none) := by
  intro c' o hstep
  have sig : ∀ n m, (processSignaling (c.consume n) m).1 = c' →
      (processSignaling (c.consume n) m).2 = o →
      (c'.csm = none → c.csm = none ∧ ∀ x ∈ o, x.isDispatch = false) ∧
      (c.csm ≠ none → c'.csm ≠ none) := by
    intro n m h1 h2
    subst h1 h2
    obtain ⟨p1, _⟩ := processSignaling_csm (c.consume n) m
    exact ⟨fun hn => ⟨p1 hn, processSignaling_no_dispatch _ _⟩, fun hc hn => hc (p1 hn)⟩
  have ab : ∀ (c0 : Conn) t, c0.csm = c.csm → c0.note (abortOuts t none) = c' →
      abortOuts t none = o →
      (c'.csm = none → c.csm = none ∧ ∀ x ∈ o, x.isDispatch = false) ∧
      (c.csm ≠ none → c'.csm ≠ none) := by
    intro c0 t h0 h1 h2
    subst h1 h2
    simp only [Conn.note_csm, h0]
    exact ⟨fun hn => ⟨hn, abortOuts_no_dispatch _ _⟩, fun hc => hc⟩
  rcases step_cases c with ⟨hw, _⟩ | ⟨_, _, _, _, _, hs⟩ | ⟨_, _, _, _, _, _, _, hs⟩ |
    ⟨to, tkl, len, m', _, _, _, _, ⟨_, _, hs⟩ | ⟨_, _, hs⟩ | ⟨_, _, hs⟩ | ⟨_, h4, hs⟩⟩
  · rw [hw] at hstep; rcases hstep with h | h <;> cases h
  · rw [hs] at hstep
    rcases hstep with h | h
    · cases h
    · simp only [Step.stop.injEq] at h; exact ab c _ rfl h.1 h.2
  · rw [hs] at hstep
    rcases hstep with h | h
    · cases h
    · simp only [Step.stop.injEq] at h; exact ab c _ rfl h.1 h.2
  · rw [hs] at hstep
    rcases hstep with h | h
    · cases h
    · simp only [Step.stop.injEq] at h; exact sig _ _ h.1 h.2
  · rw [hs] at hstep
    rcases hstep with h | h
    · simp only [Step.next.injEq] at h; exact sig _ _ h.1 h.2
    · cases h
  · rw [hs] at hstep
    rcases hstep with h | h
    · cases h
    · simp only [Step.stop.injEq] at h; exact ab (c.consume _) _ rfl h.1 h.2
  · rw [hs] at hstep
    rcases hstep with h | h
    · simp only [Step.next.injEq] at h
      rw [← h.1, ← h.2]
      refine ⟨fun hn => ⟨hn, ?_⟩, fun hc => hc⟩
      rcases h4 with h0 | h4
      · rw [deliver_empty h0]; intro x hx; cases hx
      · exact absurd hn h4
    · cases h

theorem drain_csm : ∀ (n : Nat) (c : Conn), c.spool.length < n →
    ((drain c).1.csm = none → c.csm = none ∧ ∀ x ∈ (drain c).2.1, x.isDispatch = false) ∧
    (c.csm ≠ none → (drain c).1.csm ≠ none) := by
  intro n
  induction n with
  | zero => intro c h; omega
  | succ n ih =>
    intro c hlt
    cases hs : step c with
    | wait =>
      have hd : drain c = (c, [], false) := by rw [drain_eq, hs]
      rw [hd]
      exact ⟨fun h => ⟨h, fun x hx => by cases hx⟩, fun h => h⟩
    | stop c' o =>
      have hd : drain c = (c', o, true) := by rw [drain_eq, hs]
      rw [hd]
      exact step_csm c c' o (Or.inr hs)
    | next c' o =>
      have hlt' := (step_next_lt hs).1
      have hd : drain c = ((drain c').1, o ++ (drain c').2.1, (drain c').2.2) := by
        rw [drain_eq, hs]
      obtain ⟨h1, h2⟩ := step_csm c c' o (Or.inl hs)
      obtain ⟨i1, i2⟩ := ih c' (by omega)
      rw [hd]
      refine ⟨fun h => ?_, fun h => i2 (h2 h)⟩
      obtain ⟨j1, j2⟩ := i1 h
      obtain ⟨k1, k2⟩ := h1 j1
      refine ⟨k1, fun x hx => ?_⟩
      rcases List.mem_append.mp hx with hx | hx
      · exact k2 x hx
      · exact j2 x hx

theorem feedAll_csm : ∀ (cs : List Bytes) (c : Conn),
    ((feedAll c cs).1.csm = none → c.csm = none ∧ ∀ x ∈ (feedAll c cs).2, x.isDispatch = false) := by
  intro cs
  induction cs with
  | nil => intro c h; exact ⟨h, fun x hx => by cases hx⟩
  | cons y ys ih =>
    intro c h
    simp only [feedAll] at h ⊢
    by_cases hc : c.closed = true
    · simp only [hc, ↓reduceIte] at h ⊢
      exact ⟨h, fun x hx => by cases hx⟩
    · simp only [hc, Bool.false_eq_true, ↓reduceIte] at h ⊢
      obtain ⟨j1, j2⟩ := ih _ h
      obtain ⟨k1, _⟩ := drain_csm ((c.app y).spool.length + 1) (c.app y) (by omega)
      obtain ⟨l1, l2⟩ := k1 j1
      refine ⟨l1, fun x hx => ?_⟩
      rcases List.mem_append.mp hx with hx | hx
      · exact l2 x hx
      · exact j2 x hx

-- ---------------------------------------------------------------------------------------------
-- a stream of whole frames

/-- `Stream M ms s`: `s` is the concatenation of RFC 8323 frames, each at most `M` bytes long, of
the messages `ms`, which are requests/responses/empty messages (not signalling) with legal
option values (`Msg.legal`: values that `Options.decode` carries unchanged) -/
inductive Stream (M : Nat) : List Msg → Bytes → Prop
  | nil : Stream M [] []
  | cons {m : Msg} {b : Bytes} {ms : List Msg} {s : Bytes} :
      Rfc8323.Message b m → m.legal → m.code < 224 → b.length ≤ M → Stream M ms s →
      Stream M (m :: ms) (b ++ s)

theorem Conn.consume_consume_spool (c : Conn) (n : Nat) :
    ({ c.consume n with spool := [] } : Conn) = { c with spool := [] } := rfl

/-- once the CSM is in, a stream of whole frames is dispatched message by message, empty
messages excepted, and the spool ends empty; as long as the CSM is not in, the same holds for a
stream of empty messages (all of them ignored) -/
theorem drain_stream {M : Nat} {ms : List Msg} {s : Bytes} (h : Stream M ms s) :
    ∀ (c : Conn), c.maxSize = M → (c.csm ≠ none ∨ ∀ m ∈ ms, m.code = 0) → c.spool = s →
      drain c = ({ c with spool := [] }, ms.flatMap deliver, false) := by
  induction h with
  | nil =>
    intro c _ _ hs
    have hw : step c = .wait := by unfold step; simp [hs, extractSize]
    rw [drain_eq, hw]
    cases c; simp at hs; simp [hs]
  | @cons m b ms s hb hm hcode hsz _ ih =>
    intro c hM hcsm hs
    obtain ⟨hrest, hstep⟩ := step_of_frame hs hb hm (by omega)
    have h1 : ¬ m.code ≥ 224 := by omega
    have hnext : step c = .next (c.consume b.length) (deliver m) := by
      by_cases h0 : m.code = 0
      · simp only [h1, ↓reduceIte] at hstep
        simp only [h0, ↓reduceIte] at hstep
        rw [hstep, deliver_empty h0]
      · have hne : c.csm ≠ none := by
          rcases hcsm with h | h
          · exact h
          · exact absurd (h m List.mem_cons_self) h0
        have h2 : c.csm.isNone = false := by
          cases hc : c.csm with
          | none => exact absurd hc hne
          | some _ => rfl
        simp only [h1, ↓reduceIte] at hstep
        simp only [h0, ↓reduceIte, h2, Bool.false_eq_true] at hstep
        rw [hstep, deliver_nonempty h0]
    rw [drain_eq, hnext]
    simp only
    have hcsm' : (c.consume b.length).csm ≠ none ∨ ∀ m' ∈ ms, m'.code = 0 := by
      rcases hcsm with h | h
      · exact Or.inl (by simpa using h)
      · exact Or.inr (fun m' hm' => h m' (List.mem_cons_of_mem _ hm'))
    rw [ih (c.consume b.length) (by simp [hM]) hcsm' hrest]
    simp [Conn.consume_consume_spool]

/-- a stream of empty messages leaves no output at all -/
theorem flatMap_deliver_empty {ms : List Msg} (h : ∀ m ∈ ms, m.code = 0) :
    ms.flatMap deliver = [] := by
  induction ms with
  | nil => rfl
  | cons m ms ih =>
    simp only [List.flatMap_cons, deliver_empty (h m List.mem_cons_self), List.nil_append]
    exact ih (fun m' hm' => h m' (List.mem_cons_of_mem _ hm'))

/-- two streams one after the other are a stream -/
theorem Stream.append {M : Nat} {ms ms' : List Msg} {s s' : Bytes} (h : Stream M ms s)
    (h' : Stream M ms' s') : Stream M (ms ++ ms') (s ++ s') := by
  induction h with
  | nil => simpa using h'
  | @cons m b ms s hb hm hcode hsz _ ih =>
    rw [List.cons_append, List.append_assoc]
    exact .cons hb hm hcode hsz ih

end Aiocoap.Tcp
