import AiocoapModel.Tcp.Conn
import Proofs.Tcp.Frame
/-!
Helper lemmas about the connection model: fuel adequacy of the drain loop, its unfolding
equation, stability of one loop iteration under appending more data (the key to chunking
independence), the `closed` flag as "a close was output", and `uptoClose` algebra.
-/
set_option linter.unusedSimpArgs false
namespace Aiocoap.Tcp

/-- more data arrives: `_spool += data` -/
def Conn.app (c : Conn) (t : Bytes) : Conn := { c with spool := c.spool ++ t }

def Step.app : Step → Bytes → Step
  | .wait, _ => .wait
  | .stop c o, t => .stop (c.app t) o
  | .next c o, t => .next (c.app t) o

@[simp] theorem Conn.app_spool (c : Conn) (t : Bytes) : (c.app t).spool = c.spool ++ t := rfl
@[simp] theorem Conn.app_closed (c : Conn) (t : Bytes) : (c.app t).closed = c.closed := rfl
@[simp] theorem Conn.app_csm (c : Conn) (t : Bytes) : (c.app t).csm = c.csm := rfl
@[simp] theorem Conn.app_maxSize (c : Conn) (t : Bytes) : (c.app t).maxSize = c.maxSize := rfl
@[simp] theorem Conn.note_spool (c : Conn) (o : List Out) : (c.note o).spool = c.spool := rfl
@[simp] theorem Conn.note_csm (c : Conn) (o : List Out) : (c.note o).csm = c.csm := rfl
@[simp] theorem Conn.note_maxSize (c : Conn) (o : List Out) : (c.note o).maxSize = c.maxSize := rfl
@[simp] theorem Conn.note_closed (c : Conn) (o : List Out) :
    (c.note o).closed = (c.closed || o.any Out.isClose) := rfl
theorem Conn.note_app (c : Conn) (o : List Out) (t : Bytes) :
    (c.note o).app t = (c.app t).note o := rfl
@[simp] theorem Conn.consume_spool (c : Conn) (n : Nat) : (c.consume n).spool = c.spool.drop n := rfl
@[simp] theorem Conn.consume_closed (c : Conn) (n : Nat) : (c.consume n).closed = c.closed := rfl
@[simp] theorem Conn.consume_csm (c : Conn) (n : Nat) : (c.consume n).csm = c.csm := rfl
@[simp] theorem Conn.consume_maxSize (c : Conn) (n : Nat) : (c.consume n).maxSize = c.maxSize := rfl
theorem Conn.consume_app (c : Conn) (t : Bytes) {n : Nat} (h : n ≤ c.spool.length) :
    (c.app t).consume n = (c.consume n).app t := by
  simp [Conn.consume, Conn.app, List.drop_append_of_le_length h]
theorem Conn.app_nil (c : Conn) : c.app [] = c := by
  cases c; simp [Conn.app]
theorem Conn.app_app (c : Conn) (s t : Bytes) : (c.app s).app t = c.app (s ++ t) := by
  cases c; simp [Conn.app]

-- ---------------------------------------------------------------------------------------------
-- signalling does not look at the spool

theorem processSignaling_app (c : Conn) (m : Msg) (t : Bytes) :
    processSignaling (c.app t) m = ((processSignaling c m).1.app t, (processSignaling c m).2) := by
  unfold processSignaling
  split
  · rfl
  · split
    · rfl
    · split
      · rfl
      · split
        · rfl
        · split <;> rfl

theorem processSignaling_spool (c : Conn) (m : Msg) : (processSignaling c m).1.spool = c.spool := by
  unfold processSignaling
  split
  · rfl
  · split
    · rfl
    · split
      · rfl
      · split
        · rfl
        · split <;> rfl

theorem processSignaling_maxSize (c : Conn) (m : Msg) :
    (processSignaling c m).1.maxSize = c.maxSize := by
  unfold processSignaling
  split
  · rfl
  · split
    · rfl
    · split
      · rfl
      · split
        · rfl
        · split <;> rfl

theorem processSignaling_closed (c : Conn) (m : Msg) :
    (processSignaling c m).1.closed = (c.closed || (processSignaling c m).2.any Out.isClose) := by
  unfold processSignaling
  split
  · rfl
  · split
    · rfl
    · split
      · rfl
      · split
        · rfl
        · split <;> rfl

-- ---------------------------------------------------------------------------------------------
-- one loop iteration

theorem abortOuts_any_close (text : Bytes) (bad : Option Nat) :
    (abortOuts text bad).any Out.isClose = true := by
  simp [abortOuts, Out.isClose]

theorem dispatchIncoming_no_close (m : Msg) : (dispatchIncoming m).any Out.isClose = false := by
  unfold dispatchIncoming
  split
  · rfl
  · split <;> rfl

/-- the cases of one loop iteration, with everything named -/
theorem step_cases (c : Conn) :
    (step c = .wait ∧ (extractSize c.spool = none ∨
        ∃ to tkl len, extractSize c.spool = some (to, tkl, len) ∧ to + tkl + len ≤ c.maxSize ∧
          c.spool.length < to + tkl + len)) ∨
    (∃ to tkl len, extractSize c.spool = some (to, tkl, len) ∧ c.maxSize < to + tkl + len ∧
        step c = .stop (c.note (abortOuts txtOverlyLarge none)) (abortOuts txtOverlyLarge none)) ∨
    (∃ to tkl len, extractSize c.spool = some (to, tkl, len) ∧ to + tkl + len ≤ c.maxSize ∧
        to + tkl + len ≤ c.spool.length ∧
        decodeMessage (c.spool.take (to + tkl + len)) = none ∧
        step c = .stop (c.note (abortOuts txtFailedParse none)) (abortOuts txtFailedParse none)) ∨
    (∃ to tkl len m, extractSize c.spool = some (to, tkl, len) ∧ to + tkl + len ≤ c.maxSize ∧
        to + tkl + len ≤ c.spool.length ∧
        decodeMessage (c.spool.take (to + tkl + len)) = some m ∧
        ((224 ≤ m.code ∧ step c =
            .next (processSignaling (c.consume (to + tkl + len)) m).1
                  (processSignaling (c.consume (to + tkl + len)) m).2) ∨
         (m.code < 224 ∧ c.csm = none ∧ step c =
            .stop ((c.consume (to + tkl + len)).note
                    (abortOuts txtNoCsm none)) (abortOuts txtNoCsm none)) ∨
         (m.code < 224 ∧ c.csm ≠ none ∧ step c =
            .next (c.consume (to + tkl + len)) (dispatchIncoming m)))) := by
  unfold step
  cases hx : extractSize c.spool with
  | none => left; exact ⟨rfl, Or.inl rfl⟩
  | some x =>
    obtain ⟨to, tkl, len⟩ := x
    simp only
    by_cases h1 : to + tkl + len > c.maxSize
    · right; left
      exact ⟨to, tkl, len, rfl, h1, by simp [h1]⟩
    · by_cases h2 : to + tkl + len > c.spool.length
      · left
        exact ⟨by simp [h1, h2], Or.inr ⟨to, tkl, len, rfl, by omega, h2⟩⟩
      · cases hd : decodeMessage (c.spool.take (to + tkl + len)) with
        | none =>
          right; right; left
          exact ⟨to, tkl, len, rfl, by omega, by omega, hd, by simp [h1, h2, hd]⟩
        | some m =>
          right; right; right
          refine ⟨to, tkl, len, m, rfl, by omega, by omega, hd, ?_⟩
          by_cases h3 : m.code ≥ 224
          · left; exact ⟨h3, by simp [h1, h2, hd, h3]⟩
          · by_cases h4 : c.csm = none
            · right; left
              exact ⟨by omega, h4, by simp [h1, h2, hd, h3, h4]⟩
            · right; right
              refine ⟨by omega, h4, ?_⟩
              have : c.csm.isNone = false := by
                cases hc : c.csm with
                | none => exact absurd hc h4
                | some _ => rfl
              simp [h1, h2, hd, h3, this]

/-- an iteration that did something does exactly the same when more data is already there:
the header is readable from the same bytes and the frame is cut at the same place -/
theorem step_app (c : Conn) (t : Bytes) (h : step c ≠ .wait) :
    step (c.app t) = (step c).app t := by
  rcases step_cases c with ⟨hw, _⟩ | ⟨to, tkl, len, hx, h1, hs⟩ | ⟨to, tkl, len, hx, h1, h2, hd, hs⟩ |
    ⟨to, tkl, len, m, hx, h1, h2, hd, hcase⟩
  · exact absurd hw h
  · rw [hs]
    have hx' := extractSize_append t hx
    unfold step
    simp only [Conn.app_spool, hx', Conn.app_maxSize]
    have : to + tkl + len > c.maxSize := h1
    simp [this, Step.app, Conn.note_app]
  · rw [hs]
    have hx' := extractSize_append t hx
    unfold step
    simp only [Conn.app_spool, hx', Conn.app_maxSize]
    have a : ¬ to + tkl + len > c.maxSize := by omega
    have b : ¬ to + tkl + len > (c.spool ++ t).length := by simp; omega
    simp only [a, b, ↓reduceIte, List.take_append_of_le_length h2, hd, Step.app, Conn.note_app]
  · have hx' := extractSize_append t hx
    have a : ¬ to + tkl + len > c.maxSize := by omega
    have b : ¬ to + tkl + len > (c.spool ++ t).length := by simp; omega
    have hc1 := Conn.consume_app c t h2
    rcases hcase with ⟨h3, hs⟩ | ⟨h3, h4, hs⟩ | ⟨h3, h4, hs⟩
    · rw [hs]
      unfold step
      simp only [Conn.app_spool, hx', Conn.app_maxSize, a, b, ↓reduceIte,
        List.take_append_of_le_length h2, hd]
      have : m.code ≥ 224 := h3
      simp only [this, ↓reduceIte, hc1, processSignaling_app, Step.app]
    · rw [hs]
      unfold step
      simp only [Conn.app_spool, hx', Conn.app_maxSize, a, b, ↓reduceIte,
        List.take_append_of_le_length h2, hd]
      have : ¬ m.code ≥ 224 := by omega
      simp only [this, ↓reduceIte, hc1, Conn.app_csm, Conn.consume_csm, h4, Option.isNone_none,
        Step.app, Conn.note_app]
    · rw [hs]
      unfold step
      simp only [Conn.app_spool, hx', Conn.app_maxSize, a, b, ↓reduceIte,
        List.take_append_of_le_length h2, hd]
      have : ¬ m.code ≥ 224 := by omega
      have hn : c.csm.isNone = false := by
        cases hc : c.csm with
        | none => exact absurd hc h4
        | some _ => rfl
      simp only [this, ↓reduceIte, hc1, Conn.app_csm, Conn.consume_csm, hn, Bool.false_eq_true,
        Step.app]

/-- a continuing iteration takes a whole frame (at least two bytes) off the spool and keeps the
configuration -/
theorem step_next_lt {c c' : Conn} {o : List Out} (h : step c = .next c' o) :
    c'.spool.length + 2 ≤ c.spool.length ∧ c'.maxSize = c.maxSize := by
  rcases step_cases c with ⟨hw, _⟩ | ⟨to, tkl, len, hx, h1, hs⟩ | ⟨to, tkl, len, hx, h1, h2, hd, hs⟩ |
    ⟨to, tkl, len, m, hx, h1, h2, hd, hcase⟩
  · rw [hw] at h; cases h
  · rw [hs] at h; cases h
  · rw [hs] at h; cases h
  · have hto := (extractSize_bounds hx).1
    rcases hcase with ⟨h3, hs⟩ | ⟨h3, h4, hs⟩ | ⟨h3, h4, hs⟩
    · rw [hs] at h
      simp only [Step.next.injEq] at h
      rw [← h.1, processSignaling_spool, processSignaling_maxSize]
      simp only [Conn.consume_spool, Conn.consume_maxSize, List.length_drop]
      exact ⟨by omega, trivial⟩
    · rw [hs] at h; cases h
    · rw [hs] at h
      simp only [Step.next.injEq] at h
      rw [← h.1]
      simp only [Conn.consume_spool, Conn.consume_maxSize, List.length_drop]
      exact ⟨by omega, trivial⟩

/-- `closed` records exactly whether a close has been output; a stopping iteration closes -/
theorem step_closed (c : Conn) :
    (∀ c' o, step c = .next c' o → c'.closed = (c.closed || o.any Out.isClose)) ∧
    (∀ c' o, step c = .stop c' o → c'.closed = true ∧ o.any Out.isClose = true) := by
  rcases step_cases c with ⟨hw, _⟩ | ⟨to, tkl, len, hx, h1, hs⟩ | ⟨to, tkl, len, hx, h1, h2, hd, hs⟩ |
    ⟨to, tkl, len, m, hx, h1, h2, hd, hcase⟩
  · rw [hw]; exact ⟨(fun _ _ h => by cases h), (fun _ _ h => by cases h)⟩
  · rw [hs]
    refine ⟨(fun _ _ h => by cases h), fun c' o h => ?_⟩
    simp only [Step.stop.injEq] at h
    rw [← h.1, ← h.2]
    simp [abortOuts_any_close]
  · rw [hs]
    refine ⟨(fun _ _ h => by cases h), fun c' o h => ?_⟩
    simp only [Step.stop.injEq] at h
    rw [← h.1, ← h.2]
    simp [abortOuts_any_close]
  · rcases hcase with ⟨h3, hs⟩ | ⟨h3, h4, hs⟩ | ⟨h3, h4, hs⟩
    · rw [hs]
      refine ⟨fun c' o h => ?_, (fun _ _ h => by cases h)⟩
      simp only [Step.next.injEq] at h
      rw [← h.1, ← h.2, processSignaling_closed]; rfl
    · rw [hs]
      refine ⟨(fun _ _ h => by cases h), fun c' o h => ?_⟩
      simp only [Step.stop.injEq] at h
      rw [← h.1, ← h.2]
      simp [abortOuts_any_close]
    · rw [hs]
      refine ⟨fun c' o h => ?_, (fun _ _ h => by cases h)⟩
      simp only [Step.next.injEq] at h
      rw [← h.1, ← h.2, dispatchIncoming_no_close]
      simp

theorem step_stop_maxSize {c c' : Conn} {o : List Out} (h : step c = .stop c' o) :
    c'.maxSize = c.maxSize := by
  rcases step_cases c with ⟨hw, _⟩ | ⟨_, _, _, _, _, hs2⟩ | ⟨_, _, _, _, _, _, _, hs2⟩ |
    ⟨_, _, _, _, _, _, _, _, ⟨_, hs2⟩ | ⟨_, _, hs2⟩ | ⟨_, _, hs2⟩⟩
  · rw [hw] at h; cases h
  · rw [hs2] at h; simp only [Step.stop.injEq] at h; rw [← h.1]; rfl
  · rw [hs2] at h; simp only [Step.stop.injEq] at h; rw [← h.1]; rfl
  · rw [hs2] at h; cases h
  · rw [hs2] at h; simp only [Step.stop.injEq] at h; rw [← h.1]; rfl
  · rw [hs2] at h; cases h

-- ---------------------------------------------------------------------------------------------
-- the drain loop

/-- fuel adequacy: any fuel above the spool length gives the same result -/
theorem drainF_fuel : ∀ (n : Nat) (c : Conn), c.spool.length < n →
    ∀ m, n ≤ m → drainF m c = drainF n c := by
  intro n
  induction n with
  | zero => intro c h; omega
  | succ n ih =>
    intro c hlt m hm
    obtain ⟨m', rfl⟩ : ∃ m', m = m' + 1 := ⟨m - 1, by omega⟩
    simp only [drainF]
    cases hs : step c with
    | wait => rfl
    | stop c' o => rfl
    | next c' o =>
      have := (step_next_lt hs).1
      simp only
      rw [ih c' (by omega) m' (by omega)]

/-- the loop, unfolded once, without fuel -/
theorem drain_eq (c : Conn) :
    drain c = match step c with
      | .wait => (c, [], false)
      | .stop c' o => (c', o, true)
      | .next c' o => ((drain c').1, o ++ (drain c').2.1, (drain c').2.2) := by
  have h : drain c = drainF (c.spool.length + 1) c := rfl
  rw [h, drainF]
  cases hs : step c with
  | wait => rfl
  | stop c' o => rfl
  | next c' o =>
    have := (step_next_lt hs).1
    simp only
    rw [drainF_fuel (c'.spool.length + 1) c' (by omega) c.spool.length (by omega)]
    rfl

/-- **Key lemma.**  Draining a spool to which more data has already been appended equals draining
the spool first and — unless that ended in an abort — draining the rest with the new data. -/
theorem drain_app (t : Bytes) : ∀ (n : Nat) (c : Conn), c.spool.length < n →
    drain (c.app t) =
      if (drain c).2.2 then ((drain c).1.app t, (drain c).2.1, true)
      else ((drain ((drain c).1.app t)).1, (drain c).2.1 ++ (drain ((drain c).1.app t)).2.1,
            (drain ((drain c).1.app t)).2.2) := by
  intro n
  induction n with
  | zero => intro c h; omega
  | succ n ih =>
    intro c hlt
    cases hs : step c with
    | wait =>
      have hd : drain c = (c, [], false) := by rw [drain_eq, hs]
      simp [hd]
    | stop c' o =>
      have hd : drain c = (c', o, true) := by rw [drain_eq, hs]
      have hs' : step (c.app t) = .stop (c'.app t) o := by
        rw [step_app c t (by rw [hs]; exact Step.noConfusion), hs]; rfl
      have hd' : drain (c.app t) = (c'.app t, o, true) := by rw [drain_eq, hs']
      simp [hd, hd']
    | next c' o =>
      have hlt' := (step_next_lt hs).1
      have hd : drain c = ((drain c').1, o ++ (drain c').2.1, (drain c').2.2) := by
        rw [drain_eq, hs]
      have hs' : step (c.app t) = .next (c'.app t) o := by
        rw [step_app c t (by rw [hs]; exact Step.noConfusion), hs]; rfl
      have hd' : drain (c.app t) = ((drain (c'.app t)).1, o ++ (drain (c'.app t)).2.1,
          (drain (c'.app t)).2.2) := by rw [drain_eq, hs']
      rw [hd', ih c' (by omega), hd]
      cases hb : (drain c').2.2 <;> simp [hb]

/-- `closed` after the loop = closed before or a close among the outputs; an aborting run
closes; a run that did not abort ends where the next iteration would wait -/
theorem drain_facts : ∀ (n : Nat) (c : Conn), c.spool.length < n →
    (drain c).1.closed = (c.closed || (drain c).2.1.any Out.isClose) ∧
    ((drain c).2.2 = true → (drain c).1.closed = true) ∧
    ((drain c).2.2 = false → step (drain c).1 = .wait) ∧
    (drain c).1.maxSize = c.maxSize := by
  intro n
  induction n with
  | zero => intro c h; omega
  | succ n ih =>
    intro c hlt
    cases hs : step c with
    | wait =>
      have hd : drain c = (c, [], false) := by rw [drain_eq, hs]
      simp [hd, hs]
    | stop c' o =>
      have hd : drain c = (c', o, true) := by rw [drain_eq, hs]
      obtain ⟨h1, h2⟩ := (step_closed c).2 c' o hs
      simp [hd, h1, h2, step_stop_maxSize hs]
    | next c' o =>
      obtain ⟨hlt', hmax⟩ := step_next_lt hs
      have hd : drain c = ((drain c').1, o ++ (drain c').2.1, (drain c').2.2) := by
        rw [drain_eq, hs]
      obtain ⟨i1, i2, i3, i4⟩ := ih c' (by omega)
      have hc := (step_closed c).1 c' o hs
      rw [hd]
      refine ⟨?_, i2, i3, by simp [i4, hmax]⟩
      simp only [i1, hc, List.any_append, Bool.or_assoc]

-- ---------------------------------------------------------------------------------------------
-- outputs up to the first close

theorem uptoClose_append (a b : List Out) :
    uptoClose (a ++ b) = if a.any Out.isClose then uptoClose a else a ++ uptoClose b := by
  induction a with
  | nil => simp
  | cons x xs ih =>
    simp only [List.cons_append, uptoClose, List.any_cons]
    by_cases hx : x.isClose = true
    · simp [hx]
    · simp only [hx, Bool.false_eq_true, ↓reduceIte, Bool.false_or, ih]
      split <;> rfl

theorem uptoClose_of_no_close {a : List Out} (h : a.any Out.isClose = false) : uptoClose a = a := by
  induction a with
  | nil => rfl
  | cons x xs ih =>
    simp only [List.any_cons, Bool.or_eq_false_iff] at h
    simp [uptoClose, h.1, ih h.2]

theorem feedAll_closed {c : Conn} (h : c.closed = true) (cs : List Bytes) :
    feedAll c cs = (c, []) := by
  cases cs <;> simp [feedAll, h]

-- ---------------------------------------------------------------------------------------------
-- chunking

/-- a connection whose loop would wait: fresh, or after any `data_received` that did not abort -/
def Conn.quiet (c : Conn) : Prop := step c = .wait

theorem feed_eq (c : Conn) (x : Bytes) : feed c x = ((drain (c.app x)).1, (drain (c.app x)).2.1) := rfl

theorem drain_of_quiet {c : Conn} (h : c.quiet) : drain c = (c, [], false) := by
  rw [drain_eq, h]

theorem drain_facts' (c : Conn) :
    (drain c).1.closed = (c.closed || (drain c).2.1.any Out.isClose) ∧
    ((drain c).2.2 = true → (drain c).1.closed = true) ∧
    ((drain c).2.2 = false → (drain c).1.quiet) ∧
    (drain c).1.maxSize = c.maxSize :=
  drain_facts (c.spool.length + 1) c (by omega)

theorem drain_app' (c : Conn) (t : Bytes) :
    drain (c.app t) =
      if (drain c).2.2 then ((drain c).1.app t, (drain c).2.1, true)
      else ((drain ((drain c).1.app t)).1, (drain c).2.1 ++ (drain ((drain c).1.app t)).2.1,
            (drain ((drain c).1.app t)).2.2) :=
  drain_app t (c.spool.length + 1) c (by omega)

/-- feeding `x` and then `t` in one piece, in terms of feeding `x` first -/
theorem feed_append (c : Conn) (x t : Bytes) :
    feed c (x ++ t) =
      if (drain (c.app x)).2.2 then ((feed c x).1.app t, (feed c x).2)
      else ((feed (feed c x).1 t).1, (feed c x).2 ++ (feed (feed c x).1 t).2) := by
  simp only [feed_eq, ← Conn.app_app, drain_app' (c.app x) t]
  split <;> rfl

/-- **Chunking independence, outputs.**  From a quiet open connection, the outputs up to and
including the first close are the same for every way of cutting the stream. -/
theorem chunking_uptoClose : ∀ (cs : List Bytes) (c : Conn), c.quiet → c.closed = false →
    uptoClose (feedAll c cs).2 = uptoClose (feed c cs.flatten).2 := by
  intro cs
  induction cs with
  | nil =>
    intro c hq _
    simp [feedAll, feed_eq, Conn.app_nil, drain_of_quiet hq]
  | cons x xs ih =>
    intro c hq hopen
    obtain ⟨f1, f2, f3, _⟩ := drain_facts' (c.app x)
    simp only [feedAll, hopen, Bool.false_eq_true, ↓reduceIte, List.flatten_cons, feed_append]
    cases hstop : (drain (c.app x)).2.2 with
    | true =>
      have hcl : (feed c x).1.closed = true := f2 hstop
      simp [feedAll_closed hcl]
    | false =>
      simp only [Bool.false_eq_true, ↓reduceIte]
      cases hcl : (feed c x).1.closed with
      | true =>
        have hany : (feed c x).2.any Out.isClose = true := by
          have := f1
          simp only [Conn.app_closed, hopen, Bool.false_or] at this
          exact this.symm.trans hcl
        simp [feedAll_closed hcl, uptoClose_append, hany]
      | false =>
        have hany : (feed c x).2.any Out.isClose = false := by
          have := f1
          simp only [Conn.app_closed, hopen, Bool.false_or] at this
          exact this.symm.trans hcl
        have := ih (feed c x).1 (f3 hstop) hcl
        simp [uptoClose_append, hany, this]

/-- **Chunking independence, everything.**  If the stream fed in one piece leaves the connection
open, every chunking gives exactly the same outputs and the same final state. -/
theorem chunking_open : ∀ (cs : List Bytes) (c : Conn), c.quiet →
    (feed c cs.flatten).1.closed = false → feedAll c cs = feed c cs.flatten := by
  intro cs
  induction cs with
  | nil =>
    intro c hq _
    simp [feedAll, feed_eq, Conn.app_nil, drain_of_quiet hq]
  | cons x xs ih =>
    intro c hq hopen
    obtain ⟨f1, f2, f3, _⟩ := drain_facts' (c.app x)
    simp only [List.flatten_cons, feed_append] at hopen ⊢
    cases hstop : (drain (c.app x)).2.2 with
    | true =>
      have hcl : (feed c x).1.closed = true := f2 hstop
      simp [hstop, hcl] at hopen
    | false =>
      simp only [hstop, Bool.false_eq_true, ↓reduceIte] at hopen ⊢
      obtain ⟨g1, _, _, _⟩ := drain_facts' ((feed c x).1.app xs.flatten)
      have hcl : (feed c x).1.closed = false := by
        have : (feed (feed c x).1 xs.flatten).1.closed
            = ((feed c x).1.closed || (feed (feed c x).1 xs.flatten).2.any Out.isClose) := g1
        rw [hopen] at this
        cases h : (feed c x).1.closed with
        | false => rfl
        | true => simp [h] at this
      have hc0 : c.closed = false := by
        have : (feed c x).1.closed = (c.closed || (feed c x).2.any Out.isClose) := f1
        rw [hcl] at this
        cases h : c.closed with
        | false => rfl
        | true => simp [h] at this
      have := ih (feed c x).1 (f3 hstop) hopen
      simp [feedAll, hc0, this]

end Aiocoap.Tcp
